#!/usr/bin/env python3
"""Translator: /repo's current source  ->  lean/Lomond/Generated/*.lean

Run on every check.  Two sources of facts:
  * values obtained by importing the repo's modules (tables, constants)
  * facts obtained by walking the AST of the source files (literals at known
    call sites, attribute-write sites, handler structure)

A fact that can no longer be extracted is reported in the returned `problems`
list (and the Lean file keeps a sentinel value so the dependent theorem fails to
re-check rather than silently keeping an old value).

Code (decisions, arithmetic, guards at named sites) is translated by
harness/py2lean.py into Generated/Code.lean, also on every run.

Files are written only when their content changed, so an unchanged source is a
no-op for `lake build`.
"""
from __future__ import annotations
import ast, os, sys, json, subprocess, textwrap
sys.path.insert(0, os.path.dirname(os.path.abspath(__file__)))
import py2lean

REPO = os.environ.get('LOMOND_REPO', '/repo')
HERE = os.path.dirname(os.path.abspath(__file__))
GEN = os.path.join(HERE, '..', 'lean', 'Lomond', 'Generated')

_IMPORT_PROBE = r'''
import json, sys
sys.path.insert(0, %(repo)r)
out = {}
import lomond.utf8validator as u
out['dfa'] = list(u.UTF8VALIDATOR_DFA_S) if isinstance(u.UTF8VALIDATOR_DFA_S, bytes) else [ord(c) for c in u.UTF8VALIDATOR_DFA_S]
out['dfa_tuple'] = list(u.UTF8VALIDATOR_DFA)
out['utf8_accept'] = u.UTF8_ACCEPT
out['utf8_reject'] = u.UTF8_REJECT
out['validator_module'] = u.Utf8Validator.__module__
from lomond.opcode import Opcode, reserved_opcodes
out['opcodes'] = {k: getattr(Opcode, k) for k in dir(Opcode) if k.isupper()}
out['reserved_opcodes'] = sorted(reserved_opcodes)
from lomond.status import Status
out['invalid_codes'] = sorted(Status.invalid_codes)
out['status'] = {k: getattr(Status, k) for k in dir(Status) if k.isupper()}
from lomond import constants
out['ws_key'] = list(constants.WS_KEY)
out['ws_version'] = constants.WS_VERSION
from lomond.session import WebsocketSession
out['buffer_size'] = WebsocketSession.BUFFER_SIZE
from lomond.response import LWS
out['lws'] = [ord(c) for c in LWS]
from lomond.mask import _XOR_TABLE
out['xor_ok'] = all(_XOR_TABLE[b][a] == (a ^ b) for a in range(256) for b in range(256)) and len(_XOR_TABLE) == 256
json.dump(out, sys.stdout)
'''


def probe_import():
    py = os.environ.get('LOMOND_PY', '/venv/bin/python')
    r = subprocess.run([py, '-c', _IMPORT_PROBE % {'repo': REPO}],
                       capture_output=True, text=True, cwd='/')
    if r.returncode != 0:
        raise RuntimeError('import probe failed: ' + r.stderr[-2000:])
    return json.loads(r.stdout)


def parse_src(name):
    with open(os.path.join(REPO, 'lomond', name)) as f:
        return ast.parse(f.read(), filename=name)


def find_class(tree, name):
    for node in ast.walk(tree):
        if isinstance(node, ast.ClassDef) and node.name == name:
            return node
    return None


def find_func(node, name):
    for n in ast.walk(node):
        if isinstance(n, ast.FunctionDef) and n.name == name:
            return n
    return None


def const_eval(node):
    """Evaluate a constant arithmetic expression (e.g. 16 * 1024)."""
    return eval(compile(ast.Expression(node), '<const>', 'eval'), {'__builtins__': {}})


def read_until_args(func):
    """(sep bytes, max_bytes) of the first self.read_until(...) call in func."""
    for n in ast.walk(func):
        if (isinstance(n, ast.Call) and isinstance(n.func, ast.Attribute)
                and n.func.attr == 'read_until'):
            sep = const_eval(n.args[0])
            mb = None
            for kw in n.keywords:
                if kw.arg == 'max_bytes':
                    mb = const_eval(kw.value)
            if len(n.args) > 1:
                mb = const_eval(n.args[1])
            return list(sep), mb
    return None


def raise_texts(tree):
    """All (exception class, literal text) pairs of `raise errors.X('text', ...)`."""
    out = []
    for n in ast.walk(tree):
        if isinstance(n, ast.Raise) and isinstance(n.exc, ast.Call):
            f = n.exc.func
            cls = f.attr if isinstance(f, ast.Attribute) else getattr(f, 'id', '?')
            if n.exc.args and isinstance(n.exc.args[0], ast.Constant) and isinstance(n.exc.args[0].value, str):
                out.append((cls, n.exc.args[0].value))
    return out


PURE_READS = ('get', 'keys', 'values', 'items', 'index', 'count', 'pack', 'unpack', 'unpack_from', 'pack_into_none')


def _used_as_state(cls_node, name):
    """A class-level object is shared STATE only if something can change it: an instance or class method stores through it
    (`self.X[..] = `, `self.X.a = `, `del self.X[..]`, augmented assignment) or calls a method on it other than a pure read
    (`.get`, `.keys`, struct `.pack`/`.unpack`, ...); a constant lookup table that is only indexed is not state.
    `self.X`, `cls.X` and `<ClassName>.X` are all recognised; the object escaping as an argument or a default also counts."""
    def is_ref(n):
        return isinstance(n, ast.Attribute) and n.attr == name and isinstance(n.value, ast.Name) and n.value.id in ('self', 'cls', cls_node.name)
    for fn in ast.walk(cls_node):
        if not isinstance(fn, (ast.FunctionDef, ast.Lambda)):
            continue
        for n in ast.walk(fn):
            if isinstance(n, (ast.Assign, ast.AugAssign, ast.Delete)):
                tgs = n.targets if isinstance(n, (ast.Assign, ast.Delete)) else [n.target]
                for t in tgs:
                    x = t
                    while isinstance(x, (ast.Subscript, ast.Attribute)) and not is_ref(x):
                        x = x.value
                    if is_ref(x) and x is not t:
                        return True
            if isinstance(n, ast.Call):
                f = n.func
                if isinstance(f, ast.Attribute) and is_ref(f.value) and f.attr not in PURE_READS:
                    return True
                if any(is_ref(a) for a in n.args) or any(is_ref(k.value) for k in n.keywords):
                    return True
        if isinstance(fn, ast.FunctionDef):
            for dflt in fn.args.defaults + [d for d in fn.args.kw_defaults if d is not None]:
                if any(isinstance(x, ast.Name) and x.id == name for x in ast.walk(dflt)):
                    return True
    # a display / call result bound at class level and referenced bare inside the class body (e.g. as a default argument value)
    return False


def attr_writes(cls_node, owner='self'):
    """{method: sorted attribute chains written as self.a / self.a.b = ...}"""
    res = {}
    for fn in cls_node.body:
        if not isinstance(fn, ast.FunctionDef):
            continue
        ws = set()
        for n in ast.walk(fn):
            targets = []
            if isinstance(n, ast.Assign):
                targets = n.targets
            elif isinstance(n, (ast.AugAssign, ast.AnnAssign)):
                targets = [n.target]
            for t in targets:
                for tt in (t.elts if isinstance(t, ast.Tuple) else [t]):
                    chain = []
                    x = tt
                    while isinstance(x, ast.Attribute):
                        chain.append(x.attr)
                        x = x.value
                    if isinstance(x, ast.Name) and x.id == owner and chain:
                        ws.add('.'.join(reversed(chain)))
        res[fn.name] = sorted(ws)
    return res


def lean_str(s):
    return '"' + s.replace('\\', '\\\\').replace('"', '\\"') + '"'


def lean_list(xs, per_line=32):
    xs = list(xs)
    lines = []
    for i in range(0, len(xs), per_line):
        lines.append(', '.join(str(x) for x in xs[i:i + per_line]))
    return '[' + ',\n   '.join(lines) + ']'


def ranges(sorted_ints):
    out = []
    for v in sorted_ints:
        if out and out[-1][1] + 1 == v:
            out[-1][1] = v
        else:
            out.append([v, v])
    return out


def write_if_changed(path, content):
    try:
        with open(path) as f:
            if f.read() == content:
                return False
    except FileNotFoundError:
        pass
    os.makedirs(os.path.dirname(path), exist_ok=True)
    with open(path, 'w') as f:
        f.write(content)
    return True


def first_stmt_is_call(func, attr):
    """True iff first non-docstring statement of func is `self.<attr>()`."""
    body = [s for s in func.body if not (isinstance(s, ast.Expr) and isinstance(s.value, ast.Constant))]
    if not body:
        return False
    s = body[0]
    return (isinstance(s, ast.Expr) and isinstance(s.value, ast.Call)
            and isinstance(s.value.func, ast.Attribute) and s.value.func.attr == attr
            and isinstance(s.value.func.value, ast.Name) and s.value.func.value.id == 'self')


def translate():
    problems = []
    facts = probe_import()

    # ---- AST facts -------------------------------------------------------
    fp_tree = parse_src('frame_parser.py')
    px_tree = parse_src('proxy.py')
    ws_tree = parse_src('websocket.py')
    se_tree = parse_src('session.py')
    st_tree = parse_src('stream.py')
    pa_tree = parse_src('parser.py')
    pe_tree = parse_src('persist.py')

    fp_parse = find_func(find_class(fp_tree, 'FrameParser'), 'parse')
    ru = read_until_args(fp_parse) if fp_parse else None
    if not ru:
        problems.append('frame_parser.FrameParser.parse: read_until(...) call not found')
        ru = ([0], 0)
    px_parse = find_func(find_class(px_tree, 'ProxyParser'), 'parse')
    pru = read_until_args(px_parse) if px_parse else None
    if not pru:
        problems.append('proxy.ProxyParser.parse: read_until(...) call not found')
        pru = ([0], 0)

    texts = {}
    for name, tree in (('frame_parser', fp_tree), ('frame', parse_src('frame.py')),
                       ('stream', st_tree), ('message', parse_src('message.py')),
                       ('websocket', ws_tree), ('parser', pa_tree)):
        texts[name] = raise_texts(tree)

    # C17 facts: attribute writes
    ws_cls = find_class(ws_tree, 'WebSocket')
    state_cls = find_class(ws_cls, 'State') if ws_cls else None
    ws_writes = attr_writes(ws_cls) if ws_cls else {}
    # nested State.__init__ writes are reported under '__init__' of State, separate
    state_attrs = attr_writes(state_cls).get('__init__', []) if state_cls else []
    if not state_attrs:
        problems.append('websocket.WebSocket.State.__init__ not found')
    # Remove nested-class pollution: attr_writes(ws_cls) walks nested functions by name
    ws_method_writes = {}
    if ws_cls:
        for fn in ws_cls.body:
            if isinstance(fn, ast.FunctionDef):
                ws_method_writes[fn.name] = attr_writes(ast.ClassDef(name='x', bases=[], keywords=[], body=[fn], decorator_list=[]))[fn.name]
    # in-place mutation of objects that SURVIVE connect() (C17 / C10): calls of mutating methods (and subscript stores / deletes)
    # whose receiver is an attribute of the WebSocket itself (not of `self.state`), or a local name bound directly - without a
    # copy - from such an attribute, in any method other than __init__.  `headers = self._headers; headers.extend(..)` in
    # build_request is the example: every reconnect would repeat the headers of all earlier requests.
    MUTATORS = {'append', 'extend', 'insert', 'pop', 'remove', 'clear', 'update', 'setdefault', 'add', 'discard', 'sort', 'reverse',
                'popitem', '__setitem__', '__delitem__', 'appendleft', 'extendleft'}
    ws_inplace = []
    def _self_attr(x):
        return (isinstance(x, ast.Attribute) and isinstance(x.value, ast.Name) and x.value.id == 'self' and x.attr != 'state')
    for fn in (ws_cls.body if ws_cls else []):
        if not isinstance(fn, ast.FunctionDef) or fn.name == '__init__':
            continue
        alias = {}
        for n in ast.walk(fn):
            if isinstance(n, ast.Assign) and len(n.targets) == 1 and isinstance(n.targets[0], ast.Name) and _self_attr(n.value):
                alias[n.targets[0].id] = 'self.' + n.value.attr
        def _recv(x):
            if _self_attr(x):
                return 'self.' + x.attr
            if isinstance(x, ast.Name) and x.id in alias:
                return alias[x.id]
            return None
        for n in ast.walk(fn):
            r = None
            if isinstance(n, ast.Call) and isinstance(n.func, ast.Attribute) and n.func.attr in MUTATORS:
                r = _recv(n.func.value)
            elif isinstance(n, ast.Subscript) and isinstance(n.ctx, (ast.Store, ast.Del)):
                r = _recv(n.value)
            elif isinstance(n, ast.AugAssign):
                r = _recv(n.target) if isinstance(n.target, ast.Name) else None
            if r:
                ws_inplace.append((fn.name, r))
    ws_inplace = sorted(set(ws_inplace))
    connect_fn = find_func(ws_cls, 'connect') if ws_cls else None
    connect_resets_first = bool(connect_fn and first_stmt_is_call(connect_fn, 'reset'))
    reset_fn = None
    if ws_cls:
        for fn in ws_cls.body:
            if isinstance(fn, ast.FunctionDef) and fn.name == 'reset':
                reset_fn = fn
    reset_assigns_state = False
    if reset_fn:
        for n in ast.walk(reset_fn):
            if (isinstance(n, ast.Assign) and len(n.targets) == 1
                    and isinstance(n.targets[0], ast.Attribute) and n.targets[0].attr == 'state'
                    and isinstance(n.value, ast.Call) and isinstance(n.value.func, ast.Attribute)
                    and n.value.func.attr == 'State'):
                reset_assigns_state = True
    # connect creates a new session object and stores it in state
    connect_new_session = False
    if connect_fn:
        for n in ast.walk(connect_fn):
            if isinstance(n, ast.Call) and isinstance(n.func, ast.Name) and n.func.id == 'session_class':
                connect_new_session = True

    se_cls = find_class(se_tree, 'WebsocketSession')
    se_writes = {}
    if se_cls:
        for fn in se_cls.body:
            if isinstance(fn, ast.FunctionDef):
                se_writes[fn.name] = attr_writes(ast.ClassDef(name='x', bases=[], keywords=[], body=[fn], decorator_list=[]))[fn.name]
    st_cls = find_class(st_tree, 'WebsocketStream')
    st_writes = {}
    if st_cls:
        for fn in st_cls.body:
            if isinstance(fn, ast.FunctionDef):
                st_writes[fn.name] = attr_writes(ast.ClassDef(name='x', bases=[], keywords=[], body=[fn], decorator_list=[]))[fn.name]
    fp_cls = find_class(fp_tree, 'FrameParser')
    fp_writes = {}
    if fp_cls:
        for fn in fp_cls.body:
            if isinstance(fn, ast.FunctionDef):
                fp_writes[fn.name] = attr_writes(ast.ClassDef(name='x', bases=[], keywords=[], body=[fn], decorator_list=[]))[fn.name]
    pa_cls = find_class(pa_tree, 'Parser')
    pa_writes = {}
    if pa_cls:
        for fn in pa_cls.body:
            if isinstance(fn, ast.FunctionDef):
                pa_writes[fn.name] = attr_writes(ast.ClassDef(name='x', bases=[], keywords=[], body=[fn], decorator_list=[]))[fn.name]

    # persist -> connect keyword arguments
    persist_kw = []
    pf = find_func(pe_tree, 'persist')
    if pf:
        for n in ast.walk(pf):
            if isinstance(n, ast.Call) and isinstance(n.func, ast.Attribute) and n.func.attr == 'connect':
                persist_kw = sorted((kw.arg, getattr(kw.value, 'id', '?')) for kw in n.keywords)
    if not persist_kw:
        problems.append('persist: websocket.connect(...) call not found')

    # class-level assignments whose value is a call / display (a mutable object shared by all instances)
    class_level = []
    for cname, tree in (('WebSocket', ws_tree), ('WebsocketSession', se_tree), ('WebsocketStream', st_tree),
                        ('FrameParser', fp_tree), ('ClientFrameParser', fp_tree), ('Parser', pa_tree),
                        ('Deflate', parse_src('compression.py')), ('Utf8Validator', parse_src('utf8validator.py'))):
        cn = find_class(tree, cname)
        if cn is None:
            problems.append('class %s not found' % cname)
            continue
        for st in cn.body:
            if isinstance(st, ast.Assign) and isinstance(st.value, (ast.Call, ast.List, ast.Dict, ast.Set, ast.ListComp, ast.DictComp)):
                for tg in st.targets:
                    if isinstance(tg, ast.Name) and _used_as_state(cn, tg.id):
                        class_level.append((cname, tg.id))
    class_level = sorted(set(class_level))
    # ---- exception-handler structure (C07/C09/C13/C14) ----------------------------------------
    def handler_names(try_node):
        out = []
        for h in try_node.handlers:
            out.append(ast.unparse(h.type) if h.type is not None else 'BaseException')
        return out

    def calls_in(nodes):
        out = []
        for n in nodes:
            for c in ast.walk(n):
                if isinstance(c, ast.Call):
                    out.append(ast.unparse(c.func))
        return out

    run_fn = find_func(se_cls, 'run') if se_cls else None
    run_tries = [n for n in ast.walk(run_fn) if isinstance(n, ast.Try)] if run_fn else []
    run_tries.sort(key=lambda n: n.lineno)
    structure = dict(run_tries=[], feed_handlers=[], write_checks=[], send_pong_handlers=[], auto_ping_handlers=[],
                     send_close_handlers=[], sendall_under_lock=False, connected_yield_in_try=False)
    for tnode in run_tries:
        structure['run_tries'].append(dict(handlers=handler_names(tnode), has_else=bool(tnode.orelse),
                                           finally_calls=calls_in(tnode.finalbody)))
    if run_tries:
        last = run_tries[-1]
        for n in ast.walk(ast.Module(body=last.body, type_ignores=[])):
            if isinstance(n, ast.Yield) and isinstance(n.value, ast.Call) and ast.unparse(n.value.func).endswith('Connected'):
                structure['connected_yield_in_try'] = True
    feed_fn = find_func(ws_cls, 'feed') if ws_cls else None
    for n in (ast.walk(feed_fn) if feed_fn else []):
        if isinstance(n, ast.Try) and len(n.handlers) >= 2:
            structure['feed_handlers'] = handler_names(n)
    def inline_self_calls(stmts, cls, depth=3):
        """statements of a block, with `self.<method>(...)` expression statements replaced by the body of
        that method of the same class (the state checks / the socket write of `write()` may sit in helpers)"""
        out = []
        for st in stmts:
            callee = None
            # `self.m(...)` as a statement, or `x = self.m(...)` (the helper hands something back, e.g. the socket it checked)
            if (depth > 0 and (isinstance(st, ast.Expr) or (isinstance(st, ast.Assign) and len(st.targets) == 1
                                                            and isinstance(st.targets[0], ast.Name)))
                    and isinstance(st.value, ast.Call)
                    and isinstance(st.value.func, ast.Attribute) and isinstance(st.value.func.value, ast.Name)
                    and st.value.func.value.id == 'self'):
                callee = find_func(cls, st.value.func.attr)
            if callee is not None:
                body = [b for b in callee.body
                        if not (isinstance(b, ast.Expr) and isinstance(b.value, ast.Constant) and isinstance(b.value.value, str))]
                out += inline_self_calls(body, cls, depth - 1)
            else:
                out.append(st)
        return out

    write_fn = find_func(se_cls, 'write') if se_cls else None
    for n in (ast.walk(write_fn) if write_fn else []):
        if isinstance(n, ast.With) and any('_lock' in ast.unparse(i.context_expr) for i in n.items):
            locked_body = inline_self_calls(n.body, se_cls)
            # a test may go through a local read earlier in the block (`is_closing = self.websocket.is_closing`
            # ... `if is_closing:`): the guard is reported by the expression the local stands for
            local_defs = {}
            for st in locked_body:
                if (isinstance(st, ast.Assign) and len(st.targets) == 1 and isinstance(st.targets[0], ast.Name)):
                    local_defs[st.targets[0].id] = ast.unparse(st.value)
            for st in locked_body:
                if isinstance(st, ast.If):
                    raised = [ast.unparse(r.exc.func) for r in ast.walk(st) if isinstance(r, ast.Raise) and isinstance(r.exc, ast.Call)]
                    test_src = ast.unparse(st.test)
                    if isinstance(st.test, ast.Name) and st.test.id in local_defs:
                        test_src = local_defs[st.test.id]
                    elif not isinstance(st.test, ast.Name):
                        # a local that merely holds an attribute of self (`sock = self._sock` ... `if sock is None:`) stands for it
                        class _Subst(ast.NodeTransformer):
                            def visit_Name(self, node):
                                d = local_defs.get(node.id)
                                if d is not None and d.startswith('self.') and '(' not in d:
                                    return ast.parse(d, mode='eval').body
                                return node
                        test_src = ast.unparse(_Subst().visit(ast.parse(test_src, mode='eval').body))
                    if raised:      # a guard refuses the write; other conditionals (e.g. `if closing:` bookkeeping) are not guards
                        structure['write_checks'].append((test_src, raised[0]))
            structure['sendall_under_lock'] = any(c.endswith('.sendall') for c in calls_in(locked_body))
    for name, key in (('_send_pong', 'send_pong_handlers'), ('_check_auto_ping', 'auto_ping_handlers')):
        fn = find_func(se_cls, name) if se_cls else None
        for n in (ast.walk(fn) if fn else []):
            if isinstance(n, ast.Try):
                structure[key] = handler_names(n)
    fn = find_func(ws_cls, '_send_close') if ws_cls else None
    for n in (ast.walk(fn) if fn else []):
        if isinstance(n, ast.Try):
            structure['send_close_handlers'] = handler_names(n)
    # `_close_socket`: is `<sock>.close()` reached whatever `<sock>.shutdown()` does?  (finding D12: shutdown() raises ENOTCONN
    # after a reset) - true when close() sits in the `finally` clause of a `try` whose body calls shutdown(), on the same object
    structure['close_after_failed_shutdown'] = False
    fn = find_func(se_cls, '_close_socket') if se_cls else None
    for n in (ast.walk(fn) if fn else []):
        if isinstance(n, ast.Try) and n.finalbody:
            def _calls(stmts, attr):
                return [ast.unparse(c.func.value) for st in stmts for c in ast.walk(st)
                        if isinstance(c, ast.Call) and isinstance(c.func, ast.Attribute) and c.func.attr == attr]
            shut, clo = _calls(n.body, 'shutdown'), _calls(n.finalbody, 'close')
            if shut and clo and set(shut) & set(clo) and not n.handlers:
                structure['close_after_failed_shutdown'] = True
    if not structure['run_tries'] or not structure['feed_handlers'] or not structure['write_checks']:
        problems.append('handler structure of session.run / websocket.feed / session.write not found')
    # ---- which State object does code run at finalisation time act on?  (C17: an abandoned generator may be
    # finalised after a later connect() replaced self.state)
    exit_state_reads = []
    for fn in (ws_cls.body if ws_cls else []):
        if not isinstance(fn, ast.FunctionDef) or not any(isinstance(n, (ast.Yield, ast.YieldFrom)) for n in ast.walk(fn)):
            continue
        captured = set()
        for st in fn.body:
            if isinstance(st, ast.Try):
                break
            if (isinstance(st, ast.Assign) and len(st.targets) == 1 and isinstance(st.targets[0], ast.Name)
                    and ast.unparse(st.value) == 'self.state'):
                captured.add(st.targets[0].id)
        blocks = []
        for n in ast.walk(fn):
            if isinstance(n, ast.Try):
                for h in n.handlers:
                    if h.type is not None and 'GeneratorExit' in ast.unparse(h.type):
                        blocks += h.body
                blocks += n.finalbody
        for n in ast.walk(ast.Module(body=blocks, type_ignores=[])):
            if isinstance(n, ast.Call) and isinstance(n.func, ast.Attribute) and isinstance(n.func.value, ast.Name) and n.func.value.id == 'self':
                via = 'captured' if any(isinstance(a, ast.Name) and a.id in captured for a in n.args) else 'current'
                exit_state_reads.append((fn.name, n.func.attr, via))
            elif isinstance(n, ast.Attribute) and isinstance(n.value, ast.Name) and n.value.id == 'self' and n.attr != 'on_disconnect' \
                    and not any(isinstance(c, ast.Call) and c.func is n for c in ast.walk(ast.Module(body=blocks, type_ignores=[]))):
                exit_state_reads.append((fn.name, 'self.' + n.attr, 'current'))
    od = find_func(ws_cls, 'on_disconnect') if ws_cls else None
    on_disconnect_param = False
    if od is not None and [a.arg for a in od.args.args] == ['self', 'state']:
        ok = True
        for n in ast.walk(od):
            tg = []
            if isinstance(n, ast.Assign):
                tg = n.targets
            for t in tg:
                if isinstance(t, ast.Attribute):
                    base = t
                    while isinstance(base, ast.Attribute):
                        base = base.value
                    ok = ok and isinstance(base, ast.Name) and base.id == 'state'
                elif isinstance(t, ast.Name) and t.id == 'state':
                    ok = ok and ast.unparse(n.value) == 'self.state'
            if isinstance(n, ast.Attribute) and isinstance(n.value, ast.Name) and n.value.id == 'self' and n.attr != 'state':
                ok = False
        # the only read of self.state is the default under `if state is None:`
        reads = [n for n in ast.walk(od) if isinstance(n, ast.Attribute) and ast.unparse(n) == 'self.state']
        guarded = [n for st in od.body if isinstance(st, ast.If) and ast.unparse(st.test) == 'state is None' for n in ast.walk(st)
                   if isinstance(n, ast.Attribute) and ast.unparse(n) == 'self.state']
        on_disconnect_param = ok and len(reads) == len(guarded)
    # ---- initial values: what each `__init__` of the per-connection object graph assigns (C17: a used object after connect())
    init_values = []
    for cname, cnode in (('State', state_cls), ('WebsocketStream', st_cls), ('FrameParser', fp_cls), ('Parser', pa_cls), ('WebsocketSession', se_cls)):
        init = None
        for fn in (cnode.body if cnode else []):
            if isinstance(fn, ast.FunctionDef) and fn.name == '__init__':
                init = fn
        for st in (init.body if init else []):       # top-level statements of __init__ only (no conditionals)
            if (isinstance(st, ast.Assign) and len(st.targets) == 1 and isinstance(st.targets[0], ast.Attribute)
                    and isinstance(st.targets[0].value, ast.Name) and st.targets[0].value.id == 'self'):
                init_values.append((cname, st.targets[0].attr, ast.unparse(st.value)))
    pa_init = None
    for fn in (pa_cls.body if pa_cls else []):
        if isinstance(fn, ast.FunctionDef) and fn.name == '__init__':
            pa_init = fn
    parser_init_calls_reset = bool(pa_init and any(isinstance(st, ast.Expr) and ast.unparse(st.value) == 'self.reset()' for st in pa_init.body))
    pa_reset = find_func(pa_cls, 'reset') if pa_cls else None
    parser_reset_fresh = bool(pa_reset and [ast.unparse(st) for st in pa_reset.body if not (isinstance(st, ast.Expr) and isinstance(st.value, ast.Constant))]
                              == ['self._gen = self.parse()', 'self._awaiting = next(self._gen)'])
    fp_init = None
    for fn in (fp_cls.body if fp_cls else []):
        if isinstance(fn, ast.FunctionDef) and fn.name == '__init__':
            fp_init = fn
    fp_init_calls_super = bool(fp_init and any(isinstance(st, ast.Expr) and ast.unparse(st.value).endswith('.__init__()') and 'super' in ast.unparse(st.value) for st in fp_init.body))
    # ---- compression.py: which attributes each Deflate method assigns, directly or through self.<method>() calls (C11: the
    # receive path, run by the event-loop thread without the write lock, must leave the compressor of the sending threads alone)
    deflate_touches = []
    try:
        co_tree = parse_src('compression.py')
        co_cls = find_class(co_tree, 'Deflate')
    except Exception:  # noqa
        co_cls = None
    if co_cls is not None:
        direct = attr_writes(co_cls)
        calls = {}
        for fn in co_cls.body:
            if isinstance(fn, ast.FunctionDef):
                calls[fn.name] = sorted({n.func.attr for n in ast.walk(fn) if isinstance(n, ast.Call) and isinstance(n.func, ast.Attribute)
                                         and isinstance(n.func.value, ast.Name) and n.func.value.id in ('self', 'cls') and n.func.attr in direct})
        def closure(m, seen):
            if m in seen:
                return set()
            seen.add(m)
            out = {a.split('.')[0] for a in direct.get(m, [])}
            for c in calls.get(m, []):
                out |= closure(c, seen)
            return out
        deflate_touches = [(m, sorted(closure(m, set()))) for m in sorted(direct)]
    else:
        problems.append('compression.Deflate not found')
    # ---- compression.py: `Deflate.from_options` hands out a NEW object on every call (C06 / C11: a compression context belongs to
    # one connection; two connections alive at once must not share zlib objects): the value returned is a local name bound exactly
    # once, by a call of the class (`Deflate(...)` / `cls(...)`), and the function neither stores into nor reads from anything that
    # outlives the call (no attribute / subscript store, no subscript load, no `global` / `nonlocal`)
    from_options_fresh = False
    fo = find_func(co_cls, 'from_options') if co_cls is not None else None
    if fo is not None:
        rets = [n for n in ast.walk(fo) if isinstance(n, ast.Return)]
        binds = {}
        for n in ast.walk(fo):
            if isinstance(n, ast.Assign):
                for t in n.targets:
                    for nm in ast.walk(t):
                        if isinstance(nm, ast.Name):
                            binds.setdefault(nm.id, []).append(n.value)
        def is_ctor(v):
            return isinstance(v, ast.Call) and isinstance(v.func, ast.Name) and v.func.id in ('Deflate', 'cls')
        persistent = any(isinstance(n, (ast.Global, ast.Nonlocal)) or isinstance(n, ast.Subscript)
                         or (isinstance(n, ast.Attribute) and isinstance(n.ctx, ast.Store)) for n in ast.walk(fo))
        ok_ret = bool(rets) and all((is_ctor(r.value)) or (isinstance(r.value, ast.Name) and len(binds.get(r.value.id, [])) == 1 and is_ctor(binds[r.value.id][0]))
                                    or (isinstance(r.value, ast.Constant) and r.value.value is None) for r in rets)
        from_options_fresh = ok_ret and not persistent
    # ---- session.py: where is the socket put back into blocking mode?  (C19: the proxy negotiation must run under the connect
    # timeout - a silent proxy then gives socket.timeout -> ConnectFail instead of blocking for ever)
    settimeout_none_in = []
    connect_call_order = []
    for fn in (se_cls.body if se_cls else []):
        if isinstance(fn, ast.FunctionDef):
            for n in ast.walk(fn):
                if (isinstance(n, ast.Call) and isinstance(n.func, ast.Attribute) and n.func.attr == 'settimeout' and len(n.args) == 1
                        and isinstance(n.args[0], ast.Constant) and n.args[0].value is None):
                    settimeout_none_in.append(fn.name)
    cfn = find_func(se_cls, '_connect') if se_cls else None
    if cfn is not None:
        evs = []
        for n in ast.walk(cfn):
            if isinstance(n, ast.Call) and isinstance(n.func, ast.Attribute):
                if n.func.attr in ('_connect_proxy', '_connect_sock'):
                    evs.append((n.lineno, n.col_offset, n.func.attr))
                elif n.func.attr == 'settimeout':
                    evs.append((n.lineno, n.col_offset, 'settimeout(%s)' % ', '.join(ast.unparse(a) for a in n.args)))
        connect_call_order = [e[2] for e in sorted(evs)]
    # ---- selectors.py (C18): what each platform selector hands to the OS as its timeout (select / kqueue take seconds, poll takes
    # milliseconds), and that SelectorBase.wait looks at the TLS layer's pending() before it waits on the descriptor
    selector_timeouts = []
    wait_pending_first = False
    try:
        sel_tree = parse_src('selectors.py')
    except Exception:  # noqa
        sel_tree = None
        problems.append('selectors.py not found')
    for cls in (sel_tree.body if sel_tree else []):
        if not isinstance(cls, ast.ClassDef):
            continue
        fn = find_func(cls, 'wait_readable')
        if fn is not None:
            for n in ast.walk(fn):
                if isinstance(n, ast.Call) and isinstance(n.func, ast.Attribute) and n.func.attr in ('select', 'poll', 'control') and n.args:
                    selector_timeouts.append((cls.name, n.func.attr, ast.unparse(n.args[-1])))
        if cls.name == 'SelectorBase':
            w = find_func(cls, 'wait')
            if w is not None:
                stmts = [st for st in w.body if not (isinstance(st, ast.Expr) and isinstance(st.value, ast.Constant))]
                first = stmts[0] if stmts else None
                # `if hasattr(sock, 'pending') and sock.pending(): return True, sock.pending()` comes before any wait_readable call
                pend_first = (isinstance(first, ast.If) and 'pending()' in ast.unparse(first.test)
                              and any(isinstance(r, ast.Return) and 'pending()' in ast.unparse(r) and ast.unparse(r).startswith('return (True,') for r in ast.walk(first))
                              and 'wait_readable' not in ast.unparse(first))
                later = any('wait_readable' in ast.unparse(st) for st in stmts[1:])
                wait_pending_first = bool(pend_first and later)
    selector_timeouts = sorted(selector_timeouts)
    facts['ast'] = dict(structure=structure, class_level=class_level,header_sep=ru[0], header_max=ru[1], proxy_sep=pru[0], proxy_max=pru[1],
                        texts=texts, state_attrs=state_attrs, ws_writes=ws_method_writes,
                        session_writes=se_writes, stream_writes=st_writes, fp_writes=fp_writes,
                        parser_writes=pa_writes, persist_kw=persist_kw,
                        connect_resets_first=connect_resets_first,
                        reset_assigns_state=reset_assigns_state,
                        connect_new_session=connect_new_session)

    # ---- Lean output -----------------------------------------------------
    dfa = facts['dfa']
    if len(dfa) != 400:
        problems.append('UTF8VALIDATOR_DFA_S has %d entries, expected 400' % len(dfa))
    if facts['dfa'] != facts['dfa_tuple']:
        problems.append('UTF8VALIDATOR_DFA_S differs from UTF8VALIDATOR_DFA')
    if facts['validator_module'] != 'lomond.utf8validator':
        problems.append('Utf8Validator is not the pure-Python class (%s)' % facts['validator_module'])
    if not facts['xor_ok']:
        problems.append('mask._XOR_TABLE is not the XOR table')

    inv = ranges(facts['invalid_codes'])
    op = facts['opcodes']

    def wr(methods):
        items = []
        for m in sorted(methods):
            for a in methods[m]:
                items.append('(%s, %s)' % (lean_str(m), lean_str(a)))
        return '[' + ',\n   '.join(items) + ']'

    nonfatal = [t for c, t in texts['frame'] + texts['frame_parser'] + texts['stream'] + texts['message'] + texts['websocket']
                if c in ('ProtocolError', 'PayloadTooLarge')]
    critical = [t for c, t in texts['message'] + texts['stream'] + texts['frame_parser'] if c == 'CriticalProtocolError']
    parse_err = [t for c, t in texts['parser'] if c == 'ParseError']

    tables = f'''/-
  GENERATED by harness/translate.py from {REPO}/lomond/*.py -- do not edit.
  Regenerated on every check run; theorems over these values are re-checked
  against what the source says now.
-/
namespace Lomond.Gen

/-- `utf8validator.UTF8VALIDATOR_DFA_S` (the table the pure-Python validator indexes). -/
def utf8Dfa : List Nat :=
  {lean_list(dfa)}

def utf8Accept : Nat := {facts['utf8_accept']}
def utf8Reject : Nat := {facts['utf8_reject']}

-- opcode.Opcode
def opContinuation : Nat := {op.get('CONTINUATION', 99)}
def opText : Nat := {op.get('TEXT', 99)}
def opBinary : Nat := {op.get('BINARY', 99)}
def opClose : Nat := {op.get('CLOSE', 99)}
def opPing : Nat := {op.get('PING', 99)}
def opPong : Nat := {op.get('PONG', 99)}
/-- `opcode.reserved_opcodes`, sorted. -/
def reservedOpcodes : List Nat := {lean_list(facts['reserved_opcodes'])}

/-- `status.Status.invalid_codes` as sorted inclusive ranges. -/
def invalidCodeRanges : List (Nat × Nat) := [{', '.join('(%d, %d)' % (a, b) for a, b in inv)}]
def statusNormal : Nat := {facts['status'].get('NORMAL', 0)}
def statusProtocolError : Nat := {facts['status'].get('PROTOCOL_ERROR', 0)}

/-- `constants.WS_KEY` -/
def wsKey : List Nat := {lean_list(facts['ws_key'])}
def wsVersion : Nat := {facts['ws_version']}
/-- `session.WebsocketSession.BUFFER_SIZE` -/
def bufferSize : Nat := {facts['buffer_size']}
/-- `response.LWS` as code points -/
def lws : List Nat := {lean_list(facts['lws'])}

/-- separator / max_bytes of `FrameParser.parse`'s `read_until` -/
def headerSep : List Nat := {lean_list(ru[0])}
def headerMax : Nat := {ru[1] if ru[1] is not None else 0}
def headerMaxIsNone : Bool := {'true' if ru[1] is None else 'false'}
/-- separator / max_bytes of `ProxyParser.parse`'s `read_until` -/
def proxySep : List Nat := {lean_list(pru[0])}
def proxyMax : Nat := {pru[1] if pru[1] is not None else 0}

/-- literal texts of `raise errors.ProtocolError(...)` / `PayloadTooLarge(...)` (they travel in the 1002 Close) -/
def protocolErrorTexts : List String := [{', '.join(lean_str(t) for t in sorted(set(nonfatal)))}]
def criticalErrorTexts : List String := [{', '.join(lean_str(t) for t in sorted(set(critical)))}]
def parseErrorTexts : List String := [{', '.join(lean_str(t) for t in sorted(set(parse_err)))}]

end Lomond.Gen
'''
    facts_lean = f'''/-
  GENERATED by harness/translate.py from {REPO}/lomond/*.py -- do not edit.
  Attribute-write facts used by C17 (clean slate) and C16 (persist arguments).
-/
namespace Lomond.Gen

/-- attributes assigned in `WebSocket.State.__init__` -/
def stateAttrs : List String := [{', '.join(lean_str(a) for a in state_attrs)}]
/-- (method, attribute chain) for every `self.<chain> = ...` in class WebSocket (nested State excluded) -/
def wsWrites : List (String × String) :=
  {wr(ws_method_writes)}
def sessionWrites : List (String × String) :=
  {wr(se_writes)}
def streamWrites : List (String × String) :=
  {wr(st_writes)}
def frameParserWrites : List (String × String) :=
  {wr(fp_writes)}
def parserWrites : List (String × String) :=
  {wr(pa_writes)}
/-- first statement of `WebSocket.connect` is `self.reset()` -/
def connectResetsFirst : Bool := {'true' if connect_resets_first else 'false'}
/-- `WebSocket.reset` assigns `self.state = self.State()` -/
def resetAssignsState : Bool := {'true' if reset_assigns_state else 'false'}
/-- `WebSocket.connect` constructs a new session object -/
def connectNewSession : Bool := {'true' if connect_new_session else 'false'}
/-- class-level assignments of freshly constructed objects in the stateful classes: (class, name) -/
def classLevelObjects : List (String × String) := [{', '.join('(%s, %s)' % (lean_str(a), lean_str(b)) for a, b in class_level)}]
/-- `try` statements of `WebsocketSession.run` in source order: (except types, has else, calls in finally) -/
def runTries : List (List String × Bool × List String) :=
  [{', '.join('([%s], %s, [%s])' % (', '.join(lean_str(h) for h in tr['handlers']), 'true' if tr['has_else'] else 'false', ', '.join(lean_str(c) for c in tr['finally_calls'])) for tr in structure['run_tries'])}]
/-- the `Connected` event is yielded inside the last `try` of `run` (so its `finally` covers it) -/
def connectedYieldInTry : Bool := {'true' if structure['connected_yield_in_try'] else 'false'}
/-- `except` types of `WebSocket.feed`'s `try`, in order -/
def feedHandlers : List String := [{', '.join(lean_str(h) for h in structure['feed_handlers'])}]
/-- guards of `WebsocketSession.write` inside `with self._lock`, in order: (test, raised class) -/
def writeChecks : List (String × String) := [{', '.join('(%s, %s)' % (lean_str(a), lean_str(b)) for a, b in structure['write_checks'])}]
def sendallUnderLock : Bool := {'true' if structure['sendall_under_lock'] else 'false'}
def sendPongHandlers : List String := [{', '.join(lean_str(h) for h in structure['send_pong_handlers'])}]
def autoPingHandlers : List String := [{', '.join(lean_str(h) for h in structure['auto_ping_handlers'])}]
def sendCloseHandlers : List String := [{', '.join(lean_str(h) for h in structure['send_close_handlers'])}]
/-- `_close_socket`: `<sock>.close()` is in the `finally` clause of a handler-less `try` whose body calls `<sock>.shutdown()`
    (the descriptor is released also when shutdown() raises - ENOTCONN after a reset; finding D12) -/
def closeAfterFailedShutdown : Bool := {'true' if structure['close_after_failed_shutdown'] else 'false'}
/-- code of generator methods of class WebSocket that runs when the generator is finalised (`except GeneratorExit`
    handlers, `finally` blocks): (method, what it calls / reads on self, "captured" if it is handed the State object the
    generator captured when it started, "current" if it goes through whatever `self.state` is at that moment) -/
def exitStateReads : List (String × String × String) := [{', '.join('(%s, %s, %s)' % (lean_str(a), lean_str(b), lean_str(c)) for a, b, c in exit_state_reads)}]
/-- `WebSocket.on_disconnect(self, state=None)` acts only on its `state` argument (`self.state` is read only as the default) -/
def onDisconnectOnParam : Bool := {'true' if on_disconnect_param else 'false'}
/-- (class, attribute, initialiser expression) for every top-level `self.<attribute> = <expression>` of the `__init__` methods of
    `WebSocket.State`, `WebsocketStream`, `FrameParser`, `Parser`, `WebsocketSession` -/
def initValues : List (String × String × String) :=
  [{', '.join('(%s, %s, %s)' % (lean_str(a), lean_str(b), lean_str(c)) for a, b, c in init_values)}]
/-- `Parser.__init__` ends by calling `self.reset()`; `reset` is exactly `self._gen = self.parse(); self._awaiting = next(self._gen)`;
    `FrameParser.__init__` calls its super-class `__init__` -/
def parserInitCallsReset : Bool := {'true' if parser_init_calls_reset else 'false'}
def parserResetFresh : Bool := {'true' if parser_reset_fresh else 'false'}
def frameParserInitCallsSuper : Bool := {'true' if fp_init_calls_super else 'false'}
/-- for every method of `compression.Deflate`: the attributes of `self` it assigns, directly or through `self.<method>()` calls -/
def deflateTouches : List (String × List String) :=
  [{', '.join('(%s, [%s])' % (lean_str(m), ', '.join(lean_str(a) for a in attrs)) for m, attrs in deflate_touches)}]
/-- (method, receiver): in-place mutations (append / extend / update / subscript store ...) of attributes of the WebSocket object itself
    - objects that survive `connect()` - or of local names bound to them without a copy, in methods other than `__init__` -/
def wsInPlaceMutations : List (String × String) := [{', '.join('(%s, %s)' % (lean_str(a), lean_str(b)) for a, b in ws_inplace)}]
/-- `Deflate.from_options` returns an object constructed by this very call and touches nothing that outlives the call -/
def fromOptionsFresh : Bool := {'true' if from_options_fresh else 'false'}
/-- methods of `WebsocketSession` that call `<sock>.settimeout(None)` (back to blocking mode) -/
def settimeoutNoneIn : List String := [{', '.join(lean_str(x) for x in settimeout_none_in)}]
/-- `_connect`: its calls of `_connect_proxy` / `_connect_sock` / `settimeout`, in source order -/
def connectCallOrder : List String := [{', '.join(lean_str(x) for x in connect_call_order)}]
/-- (selector class, OS call, the expression passed as its time-out): `select.select` and `kqueue.control` take seconds, `poll.poll` milliseconds -/
def selectorTimeouts : List (String × String × String) := [{', '.join('(%s, %s, %s)' % (lean_str(a), lean_str(b), lean_str(c)) for a, b, c in selector_timeouts)}]
/-- `SelectorBase.wait` returns `(True, sock.pending())` when the TLS layer has decrypted bytes buffered, BEFORE it would wait on the descriptor -/
def waitChecksPendingFirst : Bool := {'true' if wait_pending_first else 'false'}
/-- keyword arguments `persist` forwards to `connect`: (keyword, variable) -/
def persistConnectKw : List (String × String) := [{', '.join('(%s, %s)' % (lean_str(a), lean_str(b)) for a, b in persist_kw)}]

end Lomond.Gen
'''
    changed = []
    if write_if_changed(os.path.join(GEN, 'Tables.lean'), tables):
        changed.append('Tables.lean')
    if write_if_changed(os.path.join(GEN, 'Facts.lean'), facts_lean):
        changed.append('Facts.lean')
    mask_fallback = []
    # ---- structure of mask.py (table comprehension, unpacking, lane statements): harness/maskfacts.py -> Generated/Mask.lean
    try:
        import maskfacts
        mask_lean, mask_problems = maskfacts.extract(REPO)
        base = os.path.join(os.path.dirname(os.path.abspath(__file__)), 'maskfacts_baseline.lean')
        if mask_problems and os.path.exists(base):
            # mask.py was restructured out of the shape the reader knows (e.g. the four slice statements turned into a loop): the
            # program shape last read from the source is kept and tied to the CURRENT source by the differential tests of C03
            # (driver op `maskmech` against the real mask_payload on every run, plus the exhaustive table check) - reported as a fallback
            mask_fallback.append(('maskPayloadShape', '; '.join(mask_problems)[:300]))
            mask_lean = open(base).read()
        else:
            problems += mask_problems
        if write_if_changed(os.path.join(GEN, 'Mask.lean'), mask_lean):
            changed.append('Mask.lean')
    except Exception as e:  # noqa
        problems.append('mask.py facts could not be extracted: %s' % e)
    # ---- code (not only tables): harness/py2lean.py -> Generated/Code.lean ------------------------
    # a site outside the translated subset is a problem and leaves a `Py.Untranslated` definition
    # A site that can no longer be retranslated (the source was restructured) falls back to the definition last translated from
    # the source, PROVIDED the differential test of generated definitions covers it (gencheck.GROUPS): the tie to the current
    # source is then that test on this run (reported as `fallbacks`); sites without such a test become `Py.Untranslated`.
    try:
        import gencheck
        covered = {n for names in gencheck.GROUPS.values() for n in names}
    except Exception:  # noqa
        covered = set()
    code_lean, code_problems, code_defs = py2lean.generate(REPO, fallback_sites=covered)
    problems += code_problems
    if write_if_changed(os.path.join(GEN, 'Code.lean'), code_lean):
        changed.append('Code.lean')
    return dict(problems=problems, changed=changed, facts=facts, code_defs=sorted(code_defs), fallbacks=list(py2lean.FALLBACKS) + mask_fallback)


if __name__ == '__main__':
    r = translate()
    print(json.dumps(dict(problems=r['problems'], changed=r['changed'], fallbacks=r.get('fallbacks', [])), indent=1))
