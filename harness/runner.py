"""Common machinery of every check: translate -> build -> audit -> correspondence + oracle ->
verdict -> evidence / replay.  See DESIGN.md section 3."""
from __future__ import annotations
import glob, hashlib, importlib, json, os, random, re, subprocess, sys, time, traceback
from concurrent.futures import ProcessPoolExecutor

HERE = os.path.dirname(os.path.abspath(__file__))
VERIF = os.path.dirname(HERE)
LEAN = os.path.join(VERIF, 'lean')
REPO = os.environ.get('LOMOND_REPO', '/repo')
MODEL_EXE = os.path.join(LEAN, '.lake', 'build', 'bin', 'lomond_model')
ALLOWED_AXIOMS = {'propext', 'Classical.choice', 'Quot.sound'}
FORBIDDEN = re.compile(r'\b(sorry|admit|native_decide|bv_decide|implemented_by)\b|^\s*axiom\s|\bunsafe\s|maxHeartbeats\s+0\b')

sys.path.insert(0, HERE)
if REPO not in sys.path:
    sys.path.insert(0, REPO)


class Infra(Exception):
    """infrastructure problem: exit 2, never a VIOLATION"""


def sh(cmd, cwd=None, timeout=3600, input=None):
    return subprocess.run(cmd, cwd=cwd, capture_output=True, text=True, timeout=timeout, input=input)


# ---------------------------------------------------------------------------------------------
# Lean side

def lake_build(targets, timeout=3000):
    """returns (ok, log).  Building is incremental; `.lake` comes from setup_cmd."""
    r = sh(['lake', 'build'] + list(targets), cwd=LEAN, timeout=timeout)
    log = (r.stdout + r.stderr)
    return r.returncode == 0, log


def strip_comments(src):
    # remove /- ... -/ (nested) and -- ... comments
    out = []
    i, n, depth = 0, len(src), 0
    while i < n:
        if src.startswith('/-', i):
            depth += 1
            i += 2
        elif depth and src.startswith('-/', i):
            depth -= 1
            i += 2
        elif depth:
            if src[i] == '\n':
                out.append('\n')
            i += 1
        elif src.startswith('--', i):
            while i < n and src[i] != '\n':
                i += 1
        else:
            out.append(src[i])
            i += 1
    return ''.join(out)


def forbidden_scan():
    hits = []
    for path in glob.glob(os.path.join(LEAN, 'Lomond', '**', '*.lean'), recursive=True) + [os.path.join(LEAN, 'Main.lean')]:
        code = strip_comments(open(path).read())
        for ln, line in enumerate(code.split('\n'), 1):
            if FORBIDDEN.search(line):
                hits.append('%s:%d: %s' % (os.path.relpath(path, VERIF), ln, line.strip()[:120]))
    return hits


def property_modules(pid):
    """Properties/<pid>.lean plus optional companion files Properties/<pid>_*.lean
       (e.g. C03_Gen.lean: theorems tying translator-generated code to the model)"""
    d = os.path.join(LEAN, 'Lomond', 'Properties')
    mods = [pid] + sorted(os.path.basename(f)[:-5] for f in glob.glob(os.path.join(d, pid + '_*.lean')))
    return mods


def property_theorems(pid):
    """names of the theorems stated in Properties/<pid>.lean and its companions (namespace-qualified)"""
    out = []
    for mod in property_modules(pid):
        path = os.path.join(LEAN, 'Lomond', 'Properties', mod + '.lean')
        src = strip_comments(open(path).read())
        ns = re.search(r'^namespace\s+(\S+)', src, re.M).group(1)
        names = re.findall(r'^theorem\s+(\S+)', src, re.M)
        out += [ns + '.' + n for n in names]
    return out


def axioms_audit(pid):
    """#print axioms for every property theorem. returns dict name -> list of axioms, problems list"""
    thms = property_theorems(pid)
    os.makedirs(os.path.join(VERIF, '.scratch'), exist_ok=True)
    f = os.path.join(VERIF, '.scratch', 'axioms_%s.lean' % pid)
    with open(f, 'w') as fh:
        for mod in property_modules(pid):
            fh.write('import Lomond.Properties.%s\n' % mod)
        for t in thms:
            fh.write('#print axioms %s\n' % t)
    r = sh(['lake', 'env', 'lean', f], cwd=LEAN, timeout=900)
    out = r.stdout + r.stderr
    res, problems = {}, []
    for m in re.finditer(r"'([^']+)' depends on axioms: \[([^\]]*)\]", out.replace('\n', ' ')):
        res[m.group(1)] = [a.strip() for a in m.group(2).split(',') if a.strip()]
    for m in re.finditer(r"'([^']+)' does not depend on any axioms", out):
        res[m.group(1)] = []
    for t in thms:
        if t not in res:
            problems.append('no axiom report for %s: %s' % (t, out[-300:]))
        else:
            bad = [a for a in res[t] if a not in ALLOWED_AXIOMS]
            if bad:
                problems.append('%s depends on %s' % (t, bad))
    return res, problems


def leanchecker(mods, timeout=1800):
    r = sh(['lake', 'env', 'leanchecker'] + mods, cwd=LEAN, timeout=timeout)
    return r.returncode == 0, (r.stdout + r.stderr)[-2000:]


def model_run(lines, timeout=3600):
    """pipe operation lines through the compiled model driver; returns list of output lines"""
    lines = list(lines)
    if not lines:
        return []
    if not os.path.exists(MODEL_EXE):
        raise Infra('model driver missing: run setup_cmd (lake build) first')
    r = subprocess.run([MODEL_EXE], input='\n'.join(lines) + '\n', capture_output=True, text=True, timeout=timeout)
    if r.returncode != 0:
        raise Infra('model driver crashed: ' + r.stderr[-500:])
    out = r.stdout.split('\n')
    if out and out[-1] == '':
        out.pop()
    if len(out) != len(lines):
        raise Infra('model driver answered %d lines for %d operations' % (len(out), len(lines)))
    return out


# ---------------------------------------------------------------------------------------------
# running the real code in parallel

def _silence():
    import logging
    logging.getLogger('lomond').addHandler(logging.NullHandler())
    logging.getLogger('lomond').propagate = False
    logging.disable(logging.CRITICAL)


class HangError(BaseException):
    """the real code blocked: every run simulates all waiting (virtual clock, scripted selector), so a case that
       consumes this much wall-clock time is stuck (e.g. a deadlock on the session's write lock)"""


ITEM_DEADLINE = float(os.environ.get('VERIF_ITEM_DEADLINE', '45'))
_deadline = [ITEM_DEADLINE]     # after the first hang in a worker process the following cases get 5 s


def _on_alarm(signum, frame):
    d = _deadline[0]
    _deadline[0] = 5.0
    raise HangError('no progress for %.0f s of wall-clock time' % d)


def _worker(args):
    modname, fname, items = args
    _silence()
    mod = importlib.import_module(modname)
    fn = getattr(mod, fname)
    out = []
    import signal, threading
    guard = threading.current_thread() is threading.main_thread() and not getattr(fn, 'no_deadline', False)
    for it in items:
        try:
            if guard:
                old = signal.signal(signal.SIGALRM, _on_alarm)
                signal.setitimer(signal.ITIMER_REAL, _deadline[0])
            try:
                out.append(fn(it))
            finally:
                if guard:
                    signal.setitimer(signal.ITIMER_REAL, 0)
                    signal.signal(signal.SIGALRM, old)
        except BaseException as e:  # noqa - report, never die silently
            out.append({'__crash__': '%s: %s' % (type(e).__name__, e), 'tb': traceback.format_exc()[-1500:]})
    return out


def parallel_map(modname, fname, items, workers=None, chunk=40):
    """map a module-level function over items in worker processes (order preserved)"""
    items = list(items)
    if not items:
        return []
    workers = workers or min(16, os.cpu_count() or 4)
    if len(items) < 2 * chunk or workers <= 1:
        return _worker((modname, fname, items))
    chunks = [items[i:i + chunk] for i in range(0, len(items), chunk)]
    res = []
    with ProcessPoolExecutor(max_workers=workers) as ex:
        for part in ex.map(_worker, [(modname, fname, c) for c in chunks]):
            res.extend(part)
    return res


# ---------------------------------------------------------------------------------------------
# known findings, replay, evidence

def load_known():
    p = os.path.join(VERIF, 'known_findings.json')
    if not os.path.exists(p):
        return []
    return json.load(open(p))['findings']


def write_replay(pid, payload):
    os.makedirs(os.path.join(VERIF, 'replays'), exist_ok=True)
    h = hashlib.sha1(json.dumps(payload, sort_keys=True, default=str).encode()).hexdigest()[:10]
    path = os.path.join(VERIF, 'replays', '%s_%s.json' % (pid, h))
    with open(path, 'w') as f:
        json.dump(payload, f, indent=1, default=str)
    return path


def write_evidence(pid, ev):
    os.makedirs(os.path.join(VERIF, 'evidence'), exist_ok=True)
    path = os.path.join(VERIF, 'evidence', pid + '.json')
    with open(path, 'w') as f:
        json.dump(ev, f, indent=1, default=str)
    return path


class Result:
    """what a property module's `explore()` returns"""

    def __init__(self):
        self.evaluations = 0
        self.nontrivial = set()        # hashes of distinct non-trivial cases
        self.rule = ''
        self.samples = []
        self.diffs = []                # correspondence disagreements: dict(input=..., real=..., model=...)
        self.failures = []             # oracle failures on the real code: dict(cls=..., what=..., input=...)
        self.traces_validated = 0
        self.exhaustive = {}           # name -> count of completely enumerated finite sub-domains
        self.distribution = {}
        self.notes = []
        self.crashes = []

    def case(self, key, nontrivial=True):
        self.evaluations += 1
        if nontrivial:
            self.nontrivial.add(hashlib.sha1(repr(key).encode()).hexdigest()[:16])

    def count(self, name, k=1):
        self.distribution[name] = self.distribution.get(name, 0) + k


def run_check(pid, tier, seed, replay=None):
    t0 = time.time()
    prop = importlib.import_module('props.' + pid.lower())
    if replay:
        return prop.replay(json.load(open(replay)))
    random.seed(seed)
    import translate
    problems = []      # broken obligations (translation / build / audit)
    foreign_notes = [] # translation problems at code sites no theorem of this property depends on
    fallback_notes = [] # sites of this property tied differentially instead of by retranslation
    try:
        tr = translate.translate()
        # a code site that left the translated subset concerns the properties whose companion theorems / differential
        # tests use that site (their Lean modules stop building as well); for every other property it is a note
        import gencheck
        mine = set(gencheck.GROUPS.get(pid, [])) | ({'maskPayloadShape'} if pid == 'C03' else set())   # mask.py belongs to C03
        for name, why in tr.get('fallbacks', []):
            (fallback_notes if name in mine else foreign_notes).append(
                'code site %s could not be retranslated (%s): the definition last translated from the source is kept and tied to the current source by the differential test of generated definitions on this run' % (name, why))
        for p in tr['problems']:
            m = re.match(r'py2lean (\w+):', p)
            if m and m.group(1) not in mine:
                foreign_notes.append(p)
            elif p.startswith('mask.py') and pid != 'C03':
                foreign_notes.append(p)
            else:
                problems.append('translation: ' + p)
    except Exception as e:  # noqa
        problems.append('translation failed: %s' % e)
        tr = {'changed': []}
    ok_model, log_model = lake_build(['lomond_model'])
    if not ok_model:
        problems.append('model driver does not build: ' + log_model[-800:])
    ok_prop, log_prop = lake_build(['Lomond.Properties.' + m for m in property_modules(pid)])
    thm_axioms = {}
    if not ok_prop:
        errs = [l for l in log_prop.split('\n') if 'error' in l.lower()][:6]
        problems.append('proof obligations of %s no longer check: %s' % (pid, ' | '.join(errs)[:900]))
    else:
        thm_axioms, ap = axioms_audit(pid)
        problems += ['axiom audit: ' + p for p in ap]
    fb = forbidden_scan()
    problems += ['forbidden construct: ' + h for h in fb]
    lc = None
    if tier == 'thorough' and ok_prop:
        mods = ['Lomond.Properties.' + m for m in property_modules(pid)] + getattr(prop, 'LEANCHECK_MODULES', [])
        okc, logc = leanchecker(mods)
        lc = okc
        if not okc:
            problems.append('leanchecker rejected %s: %s' % (mods, logc[-400:]))

    res = Result()
    try:
        prop.explore(res, tier, seed, model_ok=ok_model)
    except Infra:
        raise
    if res.crashes:
        raise Infra('harness crashed on %d cases, e.g. %s' % (len(res.crashes), res.crashes[0]))

    known = [k for k in load_known() if k['property'] == pid]
    open_classes = {k['class']: k for k in known if k['status'] == 'open'}
    known_hit, new_failures = {}, []
    for f in res.failures:
        if f['cls'] in open_classes:
            known_hit.setdefault(f['cls'], f)
        else:
            new_failures.append(f)

    wall = time.time() - t0
    thms = sorted(thm_axioms)
    axioms_used = sorted({a for v in thm_axioms.values() for a in v})
    violations = 0
    lines = []
    for cls, f in known_hit.items():
        lines.append('KNOWN-FINDING: property=%s %s [%s]' % (pid, open_classes[cls]['what_fails'], cls))
    replay_path = None
    if new_failures:
        violations = len(new_failures)
        f = new_failures[0]
        replay_path = write_replay(pid, dict(property=pid, kind='input', cls=f['cls'], what=f['what'],
                                             input=f['input'], observed=f.get('observed'), expected=f.get('expected'),
                                             seed=seed, tier=tier))
        lines.append('VIOLATION property=%s replay=%s' % (pid, replay_path))
    elif problems or res.diffs:
        violations = 1
        what = problems[:] + ['correspondence: model and implementation disagree on %d of %d cases' % (len(res.diffs), res.evaluations)] * (1 if res.diffs else 0)
        replay_path = write_replay(pid, dict(property=pid, kind='broken-obligation', broken=what,
                                             first_disagreement=(res.diffs[0] if res.diffs else None),
                                             searched=dict(evaluations=res.evaluations, rule=res.rule),
                                             seed=seed, tier=tier))
        lines.append('VIOLATION property=%s replay=%s no-failing-input-found' % (pid, replay_path))

    try:
        declared = property_theorems(pid)
    except Exception:  # noqa
        declared = []
    n_obl = len(declared) + len(getattr(prop, 'EXTRA_OBLIGATIONS', []))
    proofs_ok = ok_prop and not [p for p in problems if 'axiom' in p or 'forbidden' in p]
    ev = dict(
        property_id=pid, tier=tier, seed=seed, level=('exploration' if n_obl == 0 else ('proof' if proofs_ok else 'other')),
        coverage=dict(
            obligations=max(n_obl, 1),
            discharged=(n_obl if proofs_ok else 0) if n_obl > 0 else 1,
            explanation=('all proof obligations discharged' if proofs_ok else 'PROOF OBLIGATIONS BROKEN on this tree: ' + '; '.join(problems)[:1500]),
            no_theorems_yet=(n_obl == 0),
            checker_cmd='cd lean && lake build Lomond.Properties.%s && lake env lean <#print axioms of each theorem>%s' % (
                pid, ' && lake env leanchecker Lomond.Properties.%s' % pid if tier == 'thorough' else ''),
            trusted_base=['Lean 4.33.0 kernel', 'axioms: ' + (', '.join(axioms_used) or 'none')] + getattr(prop, 'TRUSTED', []),
            theorems={t: thm_axioms[t] for t in thms},
            leanchecker=lc,
            translation_changed=tr.get('changed', []),
            evaluations=res.evaluations,
            distinct_nontrivial=len(res.nontrivial),
            rule=res.rule,
            samples=res.samples[:8] or ['(no generated cases in this run)'],
            traces_validated_against_impl=res.traces_validated,
            disagreements=len(res.diffs),
            oracle_failures=len(res.failures),
            oracle_failure_classes={c: sum(1 for f in res.failures if f['cls'] == c) for c in sorted({f['cls'] for f in res.failures})},
            known_findings_hit=sorted(known_hit),
            exhaustive_subdomains=res.exhaustive,
            exhaustive=False,
            input_distribution=res.distribution,
            broken_obligations=problems,
            notes=res.notes + ['translation: ' + n for n in fallback_notes] + ['translation note (site not used by this property): ' + n for n in foreign_notes],
        ),
        assumptions=getattr(prop, 'ASSUMPTIONS', []),
        wall_s=round(wall, 2),
        violations=violations,
    )
    write_evidence(pid, ev)
    for l in lines:
        print(l)
    print('%s %s tier=%s seed=%d theorems=%d cases=%d distinct=%d diffs=%d oracle_failures=%d known=%d wall=%.1fs' % (
        'FAIL' if violations else 'OK', pid, tier, seed, len(thms), res.evaluations, len(res.nontrivial),
        len(res.diffs), len(res.failures), len(known_hit), wall) +
        (' retied-differentially=%d' % len(fallback_notes) if fallback_notes else ''))
    return 1 if violations else 0
