#!/usr/bin/env python3
"""saveseed.py <src dir> <seed id> <property> <caught-by checks,comma> <ran...>: copy a confirmed seeded change into /verif/seeded/<id>/"""
import json, os, shutil, sys
src, sid, prop, caught = sys.argv[1:5]
dst = os.path.join('/verif/seeded', sid)
os.makedirs(dst, exist_ok=True)
shutil.copy(os.path.join(src, 'patch.diff'), dst)
if os.path.exists(os.path.join(src, 'demo.py')):
    shutil.copy(os.path.join(src, 'demo.py'), dst)
meta = {}
if os.path.exists(os.path.join(src, 'meta.json')):
    meta = json.load(open(os.path.join(src, 'meta.json')))
meta.update(dict(id=sid, property=prop, caught_by=[c for c in caught.split(',') if c],
                 confirmed='repo suite (159 selected tests) passes with the change; demo.py exits 0 on the clean tree and non-zero with the change applied (harness/seedtest.sh)',
                 ran='harness/seedtest.sh %s %s' % (dst, ' '.join(caught.split(',')))))
json.dump(meta, open(os.path.join(dst, 'meta.json'), 'w'), indent=1)
print('saved', dst)
