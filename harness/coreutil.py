"""Shared helpers for properties that run core scenarios (real lomond vs the Lean core model)."""
from __future__ import annotations
import json, random
import runner
import world
from world import Scenario, scenario_line, run_real
from refcodec import server_frame, close_payload


def real_one(sc_json):
    sc = scenario_from_json(sc_json)
    try:
        return run_real(sc)
    except runner.HangError:
        return 'HANG'          # the real code blocked (see runner.HangError); a trace no model run ever produces


def scenario_to_json(sc):
    def enc_env(st):
        if st[0] == 'selerr':
            return ['selerr']
        o = st[2]
        if o is None:
            return ['wait', st[1], None]
        if o[0] == 'data':
            return ['wait', st[1], ['data', bytes(o[1]).hex()]]
        return ['wait', st[1], [o[0]]]

    def enc_act(a):
        out = []
        for x in a:
            if isinstance(x, tuple) and x[0] in ('obj', 'kwargs', 'both'):
                out.append([x[0], x[1]])
            elif isinstance(x, tuple):
                out.append([x[0], (bytes(x[1]).hex() if x[0] == 'b' else list(x[1]) if x[0] == 's' else (x[1] if len(x) > 1 else None))])
            else:
                out.append(x)
        return out
    return dict(env=[enc_env(s) for s in sc.env],
                reactions={str(k): [enc_act(a) for a in v] for k, v in sc.reactions.items()},
                poll=sc.poll, prate=sc.prate, ptimeout=sc.ptimeout, autopong=sc.autopong, ctimeout=sc.ctimeout,
                conn=sc.conn, wfail=sorted(sc.wfail), compress=sc.compress, protocols=sc.protocols, url=sc.url,
                key_seed=sc.key_seed, variant=sc.variant, zero=sc.zero, tdiv=sc.tdiv, werrno=sc.werrno)


def scenario_from_json(j):
    def dec_env(st):
        if st[0] == 'selerr':
            return ('selerr',)
        o = st[2]
        if o is None:
            return ('wait', st[1], None)
        if o[0] == 'data':
            return ('wait', st[1], ('data', bytes.fromhex(o[1])))
        return ('wait', st[1], (o[0],))

    def dec_act(a):
        out = []
        for x in a:
            if isinstance(x, list) and len(x) == 2 and x[0] in ('obj', 'kwargs', 'both'):
                out.append((x[0], x[1]))
            elif isinstance(x, list) and len(x) == 2 and x[0] in ('b', 's', 'o'):
                if x[0] == 'b':
                    out.append(('b', bytes.fromhex(x[1])))
                elif x[0] == 's':
                    out.append(('s', list(x[1])))
                else:
                    out.append(('o',) if x[1] is None else ('o', x[1]))
            else:
                out.append(x)
        return tuple(out)
    sc = Scenario([dec_env(s) for s in j['env']], {int(k): [dec_act(a) for a in v] for k, v in j['reactions'].items()},
                  poll=j['poll'], prate=j['prate'], ptimeout=j['ptimeout'], autopong=j['autopong'],
                  ctimeout=j['ctimeout'], conn=j['conn'], wfail=j['wfail'], compress=j['compress'],
                  protocols=j['protocols'], url=j['url'], key_seed=j['key_seed'], variant=j['variant'], zero=j.get('zero', False), tdiv=j.get('tdiv', 1), werrno=j.get('werrno', 104))
    return sc


def run_pairs(scenarios, model_ok=True):
    """returns list of (scenario_json, line, real_trace, model_trace|None)"""
    js = [scenario_to_json(s) for s in scenarios]
    lines = [scenario_line(s) for s in scenarios]
    reals = runner.parallel_map('coreutil', 'real_one', js)
    models = runner.model_run(lines) if model_ok else [None] * len(lines)
    return list(zip(js, lines, reals, models))


def toks(trace):
    return trace.split(' ')


def events(trace):
    return [t for t in toks(trace) if t.startswith('E:')]


def cut(data, cuts):
    """split data at the sorted cut positions"""
    out, prev = [], 0
    for c in sorted(set(cuts)):
        if 0 < c < len(data):
            out.append(data[prev:c])
            prev = c
    out.append(data[prev:])
    return [c for c in out if c]


def reads(chunks, dt=0):
    return [('wait', dt, ('data', c)) for c in chunks]


def random_cuts(rng, n, k):
    return sorted(rng.sample(range(1, n), min(k, max(0, n - 1)))) if n > 1 else []


def limit_chunks(chunks, maxlen=65536):
    out = []
    for c in chunks:
        while len(c) > maxlen:
            out.append(c[:maxlen])
            c = c[maxlen:]
        if c:
            out.append(c)
    return out


def segmentations(rng, data, kinds=('whole', 'bytes', 'rand')):
    """named segmentations of one byte stream"""
    out = []
    for k in kinds:
        if k == 'whole':
            out.append(('whole', limit_chunks([data])))
        elif k == 'bytes':
            out.append(('bytes', [data[i:i + 1] for i in range(len(data))]))
        else:
            n = rng.choice([1, 2, 3, 5, 9])
            out.append(('rand%d' % n, limit_chunks(cut(data, random_cuts(rng, len(data), n)))))
    return out


def check_corr(res, pairs):
    """record model/implementation disagreements and harness crashes; returns usable pairs"""
    ok = []
    for js, line, real, model in pairs:
        if isinstance(real, dict):
            res.crashes.append(real)
            continue
        res.traces_validated += 1
        if model is not None and real != model:
            res.diffs.append(dict(input=line[:4000], real=real[-1500:], model=model[-1500:], scenario=js))
        ok.append((js, line, real, model))
    return ok


def replay_core(rp):
    sc_json = rp.get('scenario') or (rp.get('input') if isinstance(rp.get('input'), dict) else None)
    if sc_json is None and isinstance(rp.get('first_disagreement'), dict):
        sc_json = rp['first_disagreement'].get('scenario')
    if sc_json is None:
        print('replay file names a broken obligation, no concrete input: %s' % rp.get('broken'))
        return 0
    sc = scenario_from_json(sc_json)
    print(run_real(sc))
    return 0


def real_chain(js_list):
    scs = [scenario_from_json(j) for j in js_list]
    try:
        return world.run_chain(scs)
    except runner.HangError:
        return ['HANG'] * len(scs)


def real_chain_final(js_list):
    """like real_chain, plus the state of every connection's simulated socket / selector after the whole chain
       (kept generators have been finalised by then)"""
    scs = [scenario_from_json(j) for j in js_list]
    worlds = []
    try:
        traces = world.run_chain(scs, worlds)
    except runner.HangError:
        return dict(traces=['HANG'] * len(scs), final=[])
    return dict(traces=traces, final=[[1 if w.sock_open else 0, 1 if w.sel_open else 0] for w in worlds])


def real_one_calls(sc_json):
    """like real_one, plus the per-call record of the application's calls (world.calls)"""
    sc = scenario_from_json(sc_json)
    worlds = []
    try:
        tr = world.run_chain([sc], worlds)[0]
    except runner.HangError:
        return dict(trace='HANG', calls=[])
    return dict(trace=tr, calls=worlds[0].calls)


def real_one_raw(sc_json):
    """like real_one, plus the events exactly as the application sees them: (class name, sorted public attributes) per event, with
    nothing canonicalised (error texts verbatim); times are left out"""
    sc = scenario_from_json(sc_json)
    worlds = []
    try:
        tr = world.run_chain([sc], worlds)[0]
    except runner.HangError:
        return dict(trace='HANG', raw=[])
    raw = []
    for _tok, ev in worlds[0].kept:
        d = []
        for k in sorted(dir(ev)):
            if k.startswith('_') or k == 'received_time':
                continue
            try:
                v = getattr(ev, k)
            except Exception as e:  # noqa
                v = 'raises ' + type(e).__name__
            if not callable(v):
                d.append((k, v))
        raw.append('%s %r' % (type(ev).__name__, d))
    return dict(trace=tr, raw=raw)


def real_duo(item):
    """item = (scenario json a, scenario json b, pattern): two connections alive at the same time (world.run_duo)"""
    a, b, pattern = item
    try:
        return world.run_duo(scenario_from_json(a), scenario_from_json(b), tuple(pattern))
    except runner.HangError:
        return ['HANG', 'HANG']
