"""`WebsocketSession._close_socket` against stub sockets, for every combination of what `shutdown()` and `close()` do, compared with
`Model/CloseSocket.lean` (driver op `closesock`); the code shape the model is run with comes from the AST (`Gen.closeAfterFailedShutdown`,
harness/translate.py).  Oracle (C13 / C09, finding D12): a socket that is there gets its `close()` called."""
from __future__ import annotations
import socket
import runner

OUTCOMES = ('ok', 'os', 'other')


def real_one(item):
    present, shut, close = item
    from lomond.websocket import WebSocket
    from lomond.session import WebsocketSession
    calls = []

    def act(name, how):
        calls.append(name)
        if how == 'os':
            raise socket.error(107 if name == 'shutdown' else 9, 'simulated: %s fails {x} {0} %%s' % name)
        if how == 'other':
            raise ValueError('simulated: %s fails in an unexpected way {x} {0} %%s' % name)

    class Sock(object):
        def shutdown(self, how):
            act('shutdown', shut)

        def close(self):
            act('close', close)
    s = WebsocketSession(WebSocket('ws://example.com/', proxies={}))
    s._sock = Sock() if present else None
    esc = 0
    try:
        s._close_socket()
    except Exception:  # noqa
        esc = 1
    free = s._lock.acquire(False)
    if free:
        s._lock.release()
    return 'calls=%s none=%d esc=%d lock=%d' % (','.join(calls), 1 if s._sock is None else 0, esc, 1 if free else 0)


def shape_from_source():
    import translate, os
    repo = os.environ.get('LOMOND_REPO', '/repo')
    import ast
    src = open(os.path.join(repo, 'lomond', 'session.py')).read()
    # the same extraction the translator emits as Gen.closeAfterFailedShutdown (read back from the generated file)
    facts = open(os.path.join(os.path.dirname(os.path.dirname(os.path.abspath(__file__))), 'lean', 'Lomond', 'Generated', 'Facts.lean')).read()
    return 'def closeAfterFailedShutdown : Bool := true' in facts


def run(res, model_ok):
    import logging
    items = [(p, s, c) for p in (1, 0) for s in OUTCOMES for c in OUTCOMES]
    reals = [real_one(it) for it in items]
    rep = shape_from_source()
    lines = ['closesock %d %d %s %s' % (1 if rep else 0, p, s, c) for p, s, c in items]
    models = runner.model_run(lines) if model_ok else [None] * len(lines)
    res.exhaustive['close_socket: present x shutdown outcome x close outcome'] = len(items)
    for it, line, r, m in zip(items, lines, reals, models):
        res.case(('closesock',) + it, nontrivial=bool(it[0])); res.count('close_socket_stub_runs')
        res.traces_validated += 1
        if m is not None and m != r:
            res.diffs.append(dict(input=line, real=r, model=m))
        if it[0] and 'close' not in r.split(' ')[0]:
            res.failures.append(dict(cls='close-skipped', what='_close_socket() on a socket whose shutdown() %s: close() is never called and _sock is cleared - the descriptor stays open' % (
                'raises socket.error (ENOTCONN after a reset)' if it[1] == 'os' else 'raises'), input=dict(closesock=list(it)), observed=r, expected='calls=shutdown,close'))
        if ' esc=1' in r or ' lock=0' in r or ' none=0' in r:
            res.failures.append(dict(cls='close-socket-escapes', what='_close_socket() let an exception out, kept the lock or kept _sock', input=dict(closesock=list(it)), observed=r))
