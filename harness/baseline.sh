#!/bin/bash
# runs the repository's pinned suite (guard off: there are no hooks) and compares with BASELINE.json
cd /repo && /venv/bin/python -m pytest -ra -q -p no:cacheprovider --timeout=900 --continue-on-collection-errors --junitxml=/tmp/lomond_baseline.junit.xml >/tmp/lomond_baseline.log 2>&1
/venv/bin/python - <<'PY'
import json, sys, xml.etree.ElementTree as ET
base = json.load(open('/root/.vp/BASELINE.json'))
root = ET.parse('/tmp/lomond_baseline.junit.xml').getroot()
passed = set()
for tc in root.iter('testcase'):
    if not any(ch.tag in ('failure', 'error', 'skipped') for ch in tc):
        passed.add(tc.get('classname') + '::' + tc.get('name'))
missing = [t for t in base['stable_pass'] if t not in passed]
print('baseline: %d/%d stable tests pass' % (len(base['stable_pass']) - len(missing), len(base['stable_pass'])))
for m in missing[:10]:
    print('  MISSING', m)
sys.exit(1 if missing else 0)
PY
