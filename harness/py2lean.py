#!/usr/bin/env python3
"""py2lean: a restricted subset of Python  ->  Lean 4 definitions (lean/Lomond/Generated/Code.lean)

Part of the trusted base: read it.  It translates *code* (decisions, arithmetic, guards) at named
sites of /repo/lomond/*.py so that companion theorems (Properties/Cxx_Gen.lean) can tie the
hand-written model to what the source says now.  Called from translate.translate() on every check.

A SITE is: a Lean name, typed parameters, a list of statements taken from one Python function
(found by class / function name and by the shape of the statement, never by line number) and a few
explicit, literal tables that say how the things outside the subset are to be read:

  bind     {python expression text: parameter}    e.g. 'self.fin' -> fin,  'random()' -> u,
                                                   "self.scheme == 'wss'" -> secure
  calls    {python expression text: (generated def, [argument expression texts])}
                                                   e.g. 'self.is_control' -> frameIsControl(self.opcode)
  rewrite  {python statement text: replacement statement text inside the subset ('pass' = drop)}
                                                   e.g. 'self.session.send(Opcode.PING, data)' -> 'pass'
  records  {constructor expression text: its __init__}   `frame = self._frame_class(op, fin=fin, ..)`
  structs  {callee text: field widths}            `_pack16 = struct.Struct(b'!BBH').pack` -> [1, 1, 2]
  tables   {python expression text: Lean term}    'reserved_opcodes' -> Lomond.Gen.reservedOpcodes (a list),
                                                   'Status.invalid_codes' -> ('ranges', Lomond.Gen.invalidCodeRanges)
  consts   {python expression text: (Lean term, type)}    'Opcode.TEXT' -> (Lomond.Gen.opText, Nat): a named
                                                   constant whose value is a generated table entry
  methods  {callee text: [(generated def, [leading argument texts])]}   `response.get(k, d)` ->
                                                   responseGetStr / responseGetOpt (response.headers, k, d): the
                                                   first candidate whose parameter types fit the arguments
                                                   exactly; missing trailing arguments from the Python defaults
  externs  {python expression text: (function parameter, [argument texts], exception class or None)}
                                                   'int(_wbits)' -> (int_, ['_wbits'], 'ValueError'): a call of
                                                   something outside the subset (int(), a codec) is a call of a
                                                   *function parameter* of the generated definition; with an
                                                   exception class the parameter returns an Option (none = raised)
  unstructs {callee text: field widths}           `cls._unpack16 = struct.Struct(b'!H').unpack` -> [2]
  locals   {local variable: type}                 a local that holds None on one path and a value on another
  trace    [parameter, ..]                        reads (code i) and writes (code 10 + i) of the attributes bound
                                                   to these parameters are recorded, in execution order, in a
                                                   list returned as the last component of the result
  prefix / result : statement text put before / expression text returned after the statements
  outputs  variables whose final value is returned together with the return value

Texts are compared after `ast.unparse` normalisation, exactly.  A rewrite that matches no statement,
or anything at all that is not listed below, raises `Unsupported`: the site is reported in
`problems` and its definition becomes `Py.Untranslated`, so every theorem about it stops checking.

ACCEPTED PYTHON                                   LEAN
  types (declared per parameter, computed bottom-up for expressions; no inference beyond that)
    Nat  non-negative int        Int  int         Rat  exact number (float read as rational)
    Bool                         Bytes = List Nat Option T (None | T)      tuples      Unit (None)
  int literal (decimal/0x/0b/0o) >= 0             the literal, at the type it is used at
  float literal >= 0 with an integer value (0.0)  that integer (times are integer ticks, DESIGN section 4; `/` stays rejected,
                                                   so the only operations it meets are + - * and comparisons, exact on both sides)
  True / False ; b'..' literal                     true / false ; [..]
  name of a parameter / local / bound text         the variable
  a + b, a * b   (numbers)                         a + b, a * b at the join of Nat < Int < Rat
  a + b   (Bytes)                                  a ++ b
  a - b ; -a                                       at the join with Int (Nat operands are cast: no
                                                   truncated subtraction is ever produced)
  a ** n            (n : Nat)                      a ^ n
  a << n, a >> n, a & b, a | b, a // b, a % b      <<<, >>>, &&&, |||, /, %   ONLY on Nat operands
                                                   (where Python's and Lean's meaning coincide; // and %
                                                   by zero raise in Python: theorems carry b != 0)
  math.ceil(a / b)  (a b : Nat)                    Py.ceilDiv a b   (any other `/` is rejected)
  min(a, b), max(a, b)                             min a b, max a b at the join type
  len(x)  (x : Bytes)                              x.length
  int(x) (x a number), bool(x)                     x, truth value of x
  a < b, <=, >, >=, ==, !=  (also chained)         decide (..) at the join type, chained = conjunction
  x is None, x is not None  (x : Option)           x.isNone / x.isSome, or a `match` (see narrowing);
                                                   false / true when x has a non-Option type
  x in TABLE  (TABLE declared in `tables`)         TABLE.contains x
  not a, a and b, a or b                           !, &&, ||  on truth values.  In a *test* position
                                                   (if / conditional expression / not / and / or /
                                                   bool()) an operand of type Nat/Int/Rat means != 0,
                                                   Bytes means non-empty, Option means not None and
                                                   truthy.  In a *value* position and/or are accepted
                                                   on Bool operands only (so the value is the Bool;
                                                   `x is None or ..` / `x is not None and ..` still narrow).
  narrowing (purely syntactic): `x is None or REST`, `x is not None and REST`, `x and REST`,
    `if x is None: A else: B`, `if x is not None`, `if x:`, `A if x else B`  with x an Option variable
                                                   match x with | none => .. | some x => ..   (x is the
                                                   payload inside `some`, so Lean's type checker
                                                   rejects any numeric use of x not guarded this way)
  A if T else B                                    if T then A else B
  (a, b, ..) ; f(..)/obj.prop listed in `calls` ; cls._packN(..) listed in `structs`
                                                   (a, b, ..) ; the generated def ; Py.pack [(w, a), ..]
  statements: x = e ; x += e (etc.) ; obj.attr = e when `obj.attr` is bound (the variable is updated,
    coerced to the parameter's declared type) ; x = Ctor(..) for a declared record (fields become
    locals `x_field`, evaluated at construction) ; if / elif / else ; return [e] ; pass ; docstrings ;
    calls on the module logger `log.<level>(..)` (dropped) ; a call listed in `calls` as a statement
    (if the callee can raise, its error is propagated)
  raise [mod.]Cls('text') / Cls('text'.format(..)) Except.error (Py.Err.mk "Cls" "text")  -- the whole
    / errors.Cls('text', args..)                   definition then has type Except Py.Err T (lomond's
                                                   WebSocketError formats its first argument itself)
  x = f(..) with f a generated def that can raise  match f .. with | .error e => .error e | .ok x => ..
  str (type Str = code points, List Nat): 'literal', a == b, a != b, s.lower()
                                                   Py.str "literal", decide (a = b), Py.strLower s  (see below)
  dict str -> str (type Dict = association list, first entry of a key counts): d.get(k), d.get(k, default),
    k in d                                         Py.dictGet? d k, (Py.dictGet? d k).getD default, Py.dictHas d k
  None as a value; o == n, o != n (o : Option number)   none; None is different from every number
  x in TABLE with x an Option Nat                  false for None
  b[:n], b[n:]  (b : Bytes, n a literal >= 0)      b.take n, b.drop n
  (x,) = cls._unpackN(b)  listed in `unstructs`    x = Py.unpack1 w b  (big-endian value; len(b) = w assumed)
  try: x = EXTERN(..)                              match extern .. with | none => <handler> | some x => <rest>
  except Cls: raise ..                             only for a call declared in `externs` with exactly this Cls
  statements after an `if` are duplicated into both branches (continuation style); falling off the
  end is `return None` (type Unit).  All `return`s of a site must have the same type.

ASSUMPTIONS OF A SITE (part of the tie, exercised by harness/gencheck.py through the real entry points):
a parameter declared Nat stands for a Python int >= 0 or an integer-valued float (times are ticks,
DESIGN section 4); where a site says so `None` is passed as 0 (both falsy, the value is only used under
the truth test); `reason` / `data` declared Bytes are the bytes after the source's isinstance/encode
step; struct packing assumes the value fits its field; `s.lower()` is translated as the ASCII mapping,
which is Python's on the strings these sites see (header text decoded with ('ascii', 'replace'): ASCII
or U+FFFD; ASCII literals; base64 text); an external function is assumed to raise nothing but the
declared class; a dict parameter has one entry per key.
Loops, other forms of try, with, yield, comprehension, other string operations, floats, attribute
reads that are not bound, calls that are not listed: rejected.
"""
from __future__ import annotations
import ast, json, os, re

NAT, INT, RAT, BOOL, BYTES, UNIT = 'Nat', 'Int', 'Rat', 'Bool', 'Bytes', 'Unit'
STR, DICT = 'Str', 'Dict'          # str as code points; dict str -> str as an association list
NUM = [NAT, INT, RAT]
NONE = ('Option', None)            # the type of the constant None before it meets an Option type


def OPT(t):
    return ('Option', t)


def TUP(ts):
    return ('Tuple', tuple(ts))


def FN(args, ret):
    """an external function (int(), a codec, ..) passed to the definition as a parameter"""
    return ('Fn', tuple(args), ret)


class Unsupported(Exception):
    pass


def lean_ty(t):
    if t in (BYTES, STR):
        return '(List Nat)'
    if t == DICT:
        return 'Py.Dict'
    if isinstance(t, tuple) and t[0] == 'Fn':
        return '(' + ' → '.join(lean_ty(x) for x in t[1] + (t[2],)) + ')'
    if isinstance(t, tuple) and t[0] == 'Option':
        return '(Option %s)' % lean_ty(t[1])
    if isinstance(t, tuple) and t[0] == 'Tuple':
        return '(' + ' × '.join(lean_ty(x) for x in t[1]) + ')'
    return t


LEAN_RESERVED = {'at', 'end', 'from', 'fun', 'have', 'show', 'open', 'in', 'do', 'let', 'then', 'else', 'if', 'match',
                 'with', 'by', 'where', 'def', 'local', 'private', 'instance', 'structure', 'class', 'export',
                 'import', 'namespace', 'section', 'variable', 'universe', 'theorem', 'example', 'macro', 'syntax'}


def lean_name(py):
    py = py.replace('.', '_')
    if re.match(r'^[a-z][A-Za-z0-9_]*$', py) and py not in LEAN_RESERVED:
        return py
    return '«%s»' % py


def lean_str(s):
    return '"' + s.replace('\\', '\\\\').replace('"', '\\"') + '"'


def norm_expr(text):
    return ast.unparse(ast.parse(text, mode='eval').body)


def norm_stmt(text):
    return ast.unparse(ast.parse(text).body)


class Def:
    """signature of a generated definition"""

    def __init__(self, name, params, ret, raises, defaults=None):
        self.name, self.params, self.ret, self.raises = name, params, ret, raises
        self.defaults = dict(defaults or {})        # parameter -> default expression text (for `methods`)


class Site:
    def __init__(self, name, where, params, stmts, result=None, prefix='', bind=None, calls=None, rewrite=None,
                 records=None, structs=None, tables=None, outputs=None, consts=None, externs=None, methods=None,
                 unstructs=None, locals=None, trace=None, defaults=None):
        self.name, self.where, self.params = name, where, list(params)
        body = list(ast.parse(prefix).body) + list(stmts)
        if result is not None:
            body.append(ast.Return(value=ast.parse(result, mode='eval').body))
        self.stmts = body
        self.bind = {norm_expr(k): v for k, v in (bind or {}).items()}
        self.calls = {norm_expr(k): (d, [norm_expr(a) for a in args]) for k, (d, args) in (calls or {}).items()}
        self.rewrite = {norm_stmt(k): v for k, v in (rewrite or {}).items()}
        self.records = {norm_expr(k): v for k, v in (records or {}).items()}
        self.structs = {norm_expr(k): v for k, v in (structs or {}).items()}
        self.tables = {norm_expr(k): v for k, v in (tables or {}).items()}
        self.outputs = list(outputs or [])
        self.consts = {norm_expr(k): v for k, v in (consts or {}).items()}
        self.externs = {norm_expr(k): (f, [norm_expr(a) for a in args], exc) for k, (f, args, exc) in (externs or {}).items()}
        self.methods = {norm_expr(k): [(d, [norm_expr(a) for a in lead]) for d, lead in v] for k, v in (methods or {}).items()}
        self.unstructs = {norm_expr(k): v for k, v in (unstructs or {}).items()}
        self.locals = dict(locals or {})
        self.trace = list(trace or [])
        self.defaults = {k: norm_expr(v) for k, v in (defaults or {}).items()}


# =================================================================================================
# the translator proper: one method per construct

TRACE = '_trace'       # the local that records reads / writes of the attributes listed in Site.trace


class Translator:
    def __init__(self, site, defs):
        self.site, self.defs = site, defs
        self.declared = dict(site.params)
        self.declared.update(site.locals)
        self.used_rewrites = set()
        self.used_binds = set()
        self.result_ty = None           # type of the value of the whole definition (without Except)
        self.raising = False

    # ---- entry ---------------------------------------------------------------------------------
    def translate(self):
        site = self.site
        stmts = self.apply_rewrites(site.stmts)
        missing = set(site.rewrite) - self.used_rewrites
        if missing:
            raise Unsupported('expected statement not found: %s' % sorted(missing)[0])
        self.raising = self.may_raise(stmts)
        env = {p: (lean_name(p), t) for p, t in site.params}
        pre = ''
        if site.trace:
            env[TRACE] = (lean_name(TRACE), BYTES)
            pre = '  let %s : (List Nat) := []\n' % lean_name(TRACE)
        body = pre + self.block(stmts, env, '  ')
        ret = self.result_ty if self.result_ty is not None else UNIT      # every path raises
        sig = ' '.join('(%s : %s)' % (lean_name(p), lean_ty(t)) for p, t in site.params)
        rty = 'Except Py.Err %s' % lean_ty(ret) if self.raising else lean_ty(ret)
        text = 'def %s%s : %s :=\n%s\n' % (site.name, (' ' + sig) if sig else '', rty, body)
        return text, Def(site.name, site.params, ret, self.raising, site.defaults)

    def apply_rewrites(self, stmts):
        out = []
        for s in stmts:
            text = ast.unparse(s)
            if text in self.site.rewrite:
                self.used_rewrites.add(text)
                out += ast.parse(self.site.rewrite[text]).body
            elif isinstance(s, ast.If):
                out.append(ast.If(test=s.test, body=self.apply_rewrites(s.body), orelse=self.apply_rewrites(s.orelse)))
            else:
                out.append(s)
        return out

    def may_raise(self, stmts):
        for s in stmts:
            for n in ast.walk(s):
                if isinstance(n, ast.Raise):
                    return True
                if isinstance(n, ast.expr) and ast.unparse(n) in self.site.calls:
                    d = self.defs.get(self.site.calls[ast.unparse(n)][0])
                    if d is not None and d.raises:
                        return True
                if isinstance(n, ast.Call) and ast.unparse(n.func) in self.site.methods:
                    for name, _ in self.site.methods[ast.unparse(n.func)]:
                        d = self.defs.get(name)
                        if d is not None and d.raises:
                            return True
        return False

    # ---- statements (continuation style: `rest` are the statements that follow) -----------------
    def block(self, stmts, env, ind):
        if not stmts:
            return self.finish(None, env, ind)
        m = getattr(self, 's_' + type(stmts[0]).__name__, None)
        if m is None:
            raise Unsupported('statement `%s`' % ast.unparse(stmts[0]).split('\n')[0])
        return m(stmts[0], stmts[1:], env, ind)

    def finish(self, value, env, ind):
        """`return value` (value None: bare return / end of the function)"""
        comps = []
        if value is not None and not (isinstance(value, ast.Constant) and value.value is None):
            comps.append(self.expr(value, env))
        for o in self.site.outputs:
            if o not in env:
                raise Unsupported('output `%s` is not assigned on every path' % o)
            term, t = env[o]
            want = self.declared.get(o, t)
            comps.append((self.coerce(term, t, want), want))
        if self.site.trace:
            comps.append(env[TRACE])
        if not comps:
            term, ty = '()', UNIT
        elif len(comps) == 1:
            term, ty = comps[0]
        else:
            term, ty = '(' + ', '.join(c[0] for c in comps) + ')', TUP([c[1] for c in comps])
        if self.result_ty is None:
            self.result_ty = ty
        elif self.result_ty != ty:
            raise Unsupported('return types differ: %s vs %s' % (lean_ty(self.result_ty), lean_ty(ty)))
        return ind + ('Except.ok %s' % paren(term) if self.raising else term)

    def s_Return(self, s, rest, env, ind):
        return self.finish(s.value, env, ind)

    def s_Raise(self, s, rest, env, ind):
        exc = s.exc
        if not (isinstance(exc, ast.Call) and len(exc.args) >= 1 and not exc.keywords):
            raise Unsupported('raise `%s`' % ast.unparse(s))
        f = exc.func
        cls = f.attr if isinstance(f, ast.Attribute) else f.id if isinstance(f, ast.Name) else None
        a = exc.args[0]
        if isinstance(a, ast.Call) and isinstance(a.func, ast.Attribute) and a.func.attr == 'format':
            a = a.func.value          # 'template'.format(...): the template
        elif (isinstance(f, ast.Attribute) and ast.unparse(f.value) == 'errors' and isinstance(a, ast.Constant)
              and isinstance(a.value, str)):
            pass                      # errors.Cls('template', args..): WebSocketError.__init__ formats; the template
        elif len(exc.args) != 1:
            raise Unsupported('raise `%s`' % ast.unparse(s))
        if cls is None or not (isinstance(a, ast.Constant) and isinstance(a.value, str)):
            raise Unsupported('raise `%s`' % ast.unparse(s))
        return ind + 'Except.error (Py.Err.mk %s %s)' % (lean_str(cls), lean_str(a.value))

    def s_Pass(self, s, rest, env, ind):
        return self.block(rest, env, ind)

    def s_Expr(self, s, rest, env, ind):
        v = s.value
        text = ast.unparse(v)
        if isinstance(v, ast.Constant) and isinstance(v.value, str):        # docstring
            return self.block(rest, env, ind)
        if (isinstance(v, ast.Call) and isinstance(v.func, ast.Attribute)
                and isinstance(v.func.value, ast.Name) and v.func.value.id == 'log'):   # logging
            return self.block(rest, env, ind)
        if text in self.site.calls:
            term, _, d = self.call_def(text, env)
            if not d.raises:
                return self.block(rest, env, ind)
            return (ind + '(match %s with\n' % term + ind + '| Except.error e => Except.error e\n'
                    + ind + '| Except.ok _ =>\n' + self.block(rest, env, ind + '  ') + ')')
        raise Unsupported('statement `%s`' % text)

    def s_Assign(self, s, rest, env, ind):
        if len(s.targets) != 1:
            raise Unsupported('multiple assignment `%s`' % ast.unparse(s))
        tgt = s.targets[0]
        if (isinstance(s.value, ast.Call) and ast.unparse(s.value.func) in self.site.records
                and isinstance(tgt, ast.Name)):
            return self.s_record(tgt.id, s.value, rest, env, ind)
        if isinstance(tgt, ast.Tuple):
            # `(x,) = cls._unpackN(b)`: one big-endian field of a declared struct
            v = s.value
            if not (len(tgt.elts) == 1 and isinstance(tgt.elts[0], ast.Name) and isinstance(v, ast.Call)
                    and ast.unparse(v.func) in self.site.unstructs and len(v.args) == 1 and not v.keywords):
                raise Unsupported('tuple assignment `%s`' % ast.unparse(s))
            widths = self.site.unstructs[ast.unparse(v.func)]
            if len(widths) != 1:
                raise Unsupported('`%s`: one field expected' % ast.unparse(s))
            b, bt = self.expr(v.args[0], env)
            if bt != BYTES:
                raise Unsupported('`%s`: unpack of a non-Bytes value' % ast.unparse(s))
            return self.assign(tgt.elts[0], '(Py.unpack1 %d %s)' % (widths[0], b), NAT, rest, env, ind)
        pre = self.trace_reads(s.value, env, ind)
        env = pre[1]
        call = self.raising_call(s.value, env)
        if call is not None:
            # x = f(..) where the generated f can raise: its error is propagated
            term, t = call
            tmp = 'v'
            return (pre[0] + ind + '(match %s with\n' % term + ind + '| Except.error e => Except.error e\n'
                    + ind + '| Except.ok %s =>\n' % tmp + self.assign(tgt, tmp, t, rest, env, ind + '  ') + ')')
        term, t = self.expr(s.value, env)
        return pre[0] + self.assign(tgt, term, t, rest, env, ind)

    def raising_call(self, node, env):
        """(term, value type) if node is a call of a generated definition that can raise, else None"""
        text = ast.unparse(node)
        if text in self.site.bind:
            return None
        if text in self.site.calls:
            term, t, d = self.call_def(text, env)
            return (term, t) if d.raises else None
        if isinstance(node, ast.Call) and ast.unparse(node.func) in self.site.methods:
            term, t, d = self.call_method(node, env)
            return (term, t) if d.raises else None
        return None

    # ---- trace of reads / writes of the attributes listed in Site.trace ----------------------------
    def trace_code(self, key, write):
        return self.site.trace.index(key) + 1 + (10 if write else 0)

    def traced_texts(self):
        return [k for k, v in self.site.bind.items() if v in self.site.trace]

    def trace_reads(self, node, env, ind):
        """(lets, env) recording the reads of traced attributes made by evaluating `node`.  Accepted
        only where the evaluation order is plain: node is the traced expression itself or its
        negation; a traced read anywhere else in node is rejected."""
        if not self.site.trace:
            return '', env
        x = node
        while isinstance(x, ast.UnaryOp) and isinstance(x.op, ast.Not):
            x = x.operand
        text = ast.unparse(x)
        if text in self.site.bind and self.site.bind[text] in self.site.trace:
            return self.trace_append(self.trace_code(self.site.bind[text], False), env, ind)
        inner = {ast.unparse(n) for n in ast.walk(node)}
        hit = [k for k in self.traced_texts() if k in inner]
        if hit:
            raise Unsupported('traced attribute `%s` is read inside `%s`' % (hit[0], ast.unparse(node)))
        return '', env

    def trace_append(self, code, env, ind):
        var = env[TRACE][0]
        return ind + 'let %s : (List Nat) := (%s ++ [%d])\n' % (var, var, code), env

    def s_AugAssign(self, s, rest, env, ind):
        term, t = self.expr(ast.BinOp(left=to_load(s.target), op=s.op, right=s.value), env)
        return self.assign(s.target, term, t, rest, env, ind)

    def assign(self, tgt, term, t, rest, env, ind):
        post = ''
        if isinstance(tgt, ast.Name):
            key = tgt.id
            if key in self.site.locals:
                term, t = self.coerce(term, t, self.declared[key]), self.declared[key]
        elif isinstance(tgt, ast.Attribute) and ast.unparse(tgt) in self.site.bind:
            key = self.site.bind[ast.unparse(tgt)]
            self.used_binds.add(ast.unparse(tgt))
            term, t = self.coerce(term, t, self.declared[key]), self.declared[key]
            if key in self.site.trace:
                post = self.trace_append(self.trace_code(key, True), env, ind)[0]
        else:
            raise Unsupported('assignment target `%s`' % ast.unparse(tgt))
        if t == NONE:
            raise Unsupported('`%s = None` needs a declared Option type' % key)
        env2 = dict(env)
        env2[key] = (lean_name(key), t)
        return ind + 'let %s : %s := %s\n' % (lean_name(key), lean_ty(t), term) + post + self.block(rest, env2, ind)

    def s_record(self, var, call, rest, env, ind):
        """x = Ctor(args): one local `x_field` per constructor parameter that can be translated"""
        init = self.site.records[ast.unparse(call.func)]
        ignore = []
        if isinstance(init, tuple):
            init, ignore = init[0], [norm_stmt(x) for x in init[1]]
        fields = match_ctor_args(init, call, ignore)
        env2, lets = dict(env), ''
        for name, node in fields:
            try:
                term, t = self.expr(node, env)
            except Unsupported:
                continue                  # reading this field later is then rejected
            key = '%s.%s' % (var, name)
            if t == NONE:
                # a field that holds the constant None: typed only if the site declares it (`locals`)
                if key not in self.site.locals:
                    continue
                t = self.site.locals[key]
            env2[key] = (lean_name(key), t)
            lets += ind + 'let %s : %s := %s\n' % (lean_name(key), lean_ty(t), term)
        return lets + self.block(rest, env2, ind)

    def s_If(self, s, rest, env, ind):
        pre, env = self.trace_reads(s.test, env, ind)
        return pre + self.s_If2(s, rest, env, ind)

    def s_Try(self, s, rest, env, ind):
        """try: x = EXTERN(..)          match (extern ..) with
           except Cls: raise ..          | none => <the handler> | some x => <rest>
        for an external function declared (in Site.externs) to raise exactly Cls"""
        ok = (len(s.body) == 1 and isinstance(s.body[0], ast.Assign) and len(s.body[0].targets) == 1
              and isinstance(s.body[0].targets[0], ast.Name) and len(s.handlers) == 1 and not s.orelse and not s.finalbody)
        if not ok:
            raise Unsupported('statement `try` of this shape')
        text = ast.unparse(s.body[0].value)
        h = s.handlers[0]
        ext = self.site.externs.get(text)
        if ext is None or ext[2] is None or h.type is None or ast.unparse(h.type) != ext[2]:
            raise Unsupported('`try: %s`: not a declared external call with this exception class' % ast.unparse(s.body[0]))
        if not (len(h.body) == 1 and isinstance(h.body[0], ast.Raise)):
            raise Unsupported('handler of `try: %s` is not a single raise' % ast.unparse(s.body[0]))
        term, t = self.extern_call(text, env)
        if not (isinstance(t, tuple) and t[0] == 'Option'):
            raise Unsupported('external function of `%s` must return an Option (none = it raised)' % text)
        t = t[1]
        return (ind + '(match %s with\n' % term + ind + '| none =>\n' + self.block(list(h.body), env, ind + '  ') + '\n'
                + ind + '| some v =>\n' + self.assign(s.body[0].targets[0], 'v', t, rest, env, ind + '  ') + ')')

    def extern_call(self, text, env):
        """(term, result type) of a declared external call; the function is a parameter of the site"""
        fn, arg_texts, exc = self.site.externs[text]
        if fn not in env or not (isinstance(env[fn][1], tuple) and env[fn][1][0] == 'Fn'):
            raise Unsupported('external function %s is not a parameter' % fn)
        _, argtys, ret = env[fn][1]
        if len(argtys) != len(arg_texts):
            raise Unsupported('external function %s takes %d arguments' % (fn, len(argtys)))
        terms = []
        for a, want in zip(arg_texts, argtys):
            term, t = self.expr(ast.parse(a, mode='eval').body, env)
            terms.append(self.coerce(term, t, want))
        return '(%s)' % ' '.join([env[fn][0]] + terms), ret

    def s_If2(self, s, rest, env, ind):
        nar = self.narrowing(s.test, env)
        then, other = list(s.body) + list(rest), list(s.orelse) + list(rest)
        if nar:
            kind, key = nar
            var, t = env[key]
            some_env = dict(env)
            some_env[key] = (var, t[1])
            i2 = ind + '  '
            if kind == 'none':
                a, b = self.block(then, env, i2), self.block(other, some_env, i2)
            elif kind == 'some':
                a, b = self.block(other, env, i2), self.block(then, some_env, i2)
            else:   # truthy
                a = self.block(other, env, i2)
                b = (i2 + 'if %s then\n' % self.truth(var, t[1]) + self.block(then, some_env, i2 + '  ') + '\n'
                     + i2 + 'else\n' + self.block(other, some_env, i2 + '  '))
            return (ind + '(match %s with\n' % var + ind + '| none =>\n' + a + '\n'
                    + ind + '| some %s =>\n' % var + b + ')')
        c = self.test(s.test, env)
        return (ind + 'if %s then\n' % c + self.block(then, env, ind + '  ') + '\n'
                + ind + 'else\n' + self.block(other, env, ind + '  '))

    # ---- tests (truth-value positions) -----------------------------------------------------------
    def test(self, node, env):
        text = ast.unparse(node)
        if text not in self.site.bind and text not in self.site.calls:
            if isinstance(node, ast.BoolOp):
                return self.t_boolop(isinstance(node.op, ast.Or), node.values, env)
            if isinstance(node, ast.UnaryOp) and isinstance(node.op, ast.Not):
                return '(!%s)' % self.test(node.operand, env)
        term, t = self.expr(node, env)
        return self.truth(term, t)

    def t_boolop(self, is_or, values, env, strict=False):
        """`v0 or rest` / `v0 and rest`, left to right, with narrowing of an Option variable.
        strict (value position): every operand must itself be a Bool, no truth-value reading"""
        v0, rest = values[0], values[1:]
        one = self.bool_value if strict else self.test
        if not rest:
            return one(v0, env)
        nar = self.narrowing(v0, env)
        if nar and ((is_or and nar[0] == 'none') or (not is_or and nar[0] == 'some')
                    or (not is_or and nar[0] == 'truthy' and not strict)):
            var, t = env[nar[1]]
            some_env = dict(env)
            some_env[nar[1]] = (var, t[1])
            inner = self.t_boolop(is_or, rest, some_env, strict)
            if nar[0] == 'truthy':
                inner = '(%s && %s)' % (self.truth(var, t[1]), inner)
            return '(match %s with | none => %s | some %s => %s)' % (var, 'true' if is_or else 'false', var, inner)
        return '(%s %s %s)' % (one(v0, env), '||' if is_or else '&&', self.t_boolop(is_or, rest, env, strict))

    def bool_value(self, node, env):
        term, t = self.expr(node, env)
        if t != BOOL:
            raise Unsupported('`%s`: and/or as a value needs Bool operands' % ast.unparse(node))
        return term

    def truth(self, term, t):
        if t == BOOL:
            return term
        if t in NUM:
            return '(decide (%s ≠ 0))' % term
        if t in (BYTES, STR):
            return '(!(%s).isEmpty)' % term
        if isinstance(t, tuple) and t[0] == 'Option':
            return '(match %s with | none => false | some v => %s)' % (term, self.truth('v', t[1]))
        raise Unsupported('truth value of a %s' % lean_ty(t))

    def narrowing(self, node, env):
        """('none' | 'some' | 'truthy', env key)  if node is `X is None` / `X is not None` / bare `X`
        for an Option-typed variable X (a name, or an expression bound to a parameter)"""
        kind, x = 'truthy', node
        if (isinstance(node, ast.Compare) and len(node.ops) == 1 and isinstance(node.ops[0], (ast.Is, ast.IsNot))
                and isinstance(node.comparators[0], ast.Constant) and node.comparators[0].value is None):
            kind, x = ('none' if isinstance(node.ops[0], ast.Is) else 'some'), node.left
        text = ast.unparse(x)
        key = self.site.bind.get(text, text)
        if key in env and isinstance(env[key][1], tuple) and env[key][1][0] == 'Option':
            self.used_binds.add(text)
            return kind, key
        return None

    # ---- expressions: (term, type) --------------------------------------------------------------
    def expr(self, node, env):
        text = ast.unparse(node)
        if text in self.site.bind:
            key = self.site.bind[text]
            self.used_binds.add(text)
            if key not in env:
                raise Unsupported('`%s` is bound to unknown parameter %s' % (text, key))
            return env[key]
        if text in self.site.calls:
            term, t, d = self.call_def(text, env)
            if d.raises:
                raise Unsupported('`%s` can raise and is used as a value' % text)
            return term, t
        if text in self.site.consts:
            self.used_binds.add(text)
            return self.site.consts[text]
        if text in self.site.externs:
            if self.site.externs[text][2] is not None:
                raise Unsupported('`%s` can raise %s and is used outside `try`' % (text, self.site.externs[text][2]))
            return self.extern_call(text, env)
        m = getattr(self, 'e_' + type(node).__name__, None)
        if m is None:
            raise Unsupported('expression `%s`' % text)
        return m(node, env)

    def e_Constant(self, node, env):
        v = node.value
        if isinstance(v, bool):
            return ('true' if v else 'false'), BOOL
        if isinstance(v, int) and v >= 0:
            return str(v), NAT
        if isinstance(v, float) and v >= 0 and v == int(v) and abs(v) < 2 ** 53:
            return str(int(v)), NAT          # an integer-valued float literal (0.0, 1000.0): times are ticks
        if isinstance(v, bytes):
            return '([%s] : List Nat)' % ', '.join(str(b) for b in v), BYTES
        if isinstance(v, str):
            return '(Py.str %s)' % lean_str(v), STR
        if v is None:
            return 'none', NONE
        raise Unsupported('constant `%s`' % ast.unparse(node))

    def e_Name(self, node, env):
        if node.id in env:
            return env[node.id]
        raise Unsupported('name `%s` is not a parameter or an assigned local' % node.id)

    def e_Attribute(self, node, env):
        text = ast.unparse(node)
        if text in env:                   # field of a record local
            return env[text]
        raise Unsupported('attribute read `%s`' % text)

    def e_Tuple(self, node, env):
        parts = [self.expr(e, env) for e in node.elts]
        if len(parts) < 2:
            raise Unsupported('tuple `%s`' % ast.unparse(node))
        return '(' + ', '.join(p[0] for p in parts) + ')', TUP([p[1] for p in parts])

    def e_UnaryOp(self, node, env):
        if isinstance(node.op, ast.Not):
            return '(!%s)' % self.test(node.operand, env), BOOL
        if isinstance(node.op, ast.USub):
            term, t = self.expr(node.operand, env)
            j = self.join([t, INT])
            return '(-%s)' % self.cast(term, t, j), j
        raise Unsupported('operator in `%s`' % ast.unparse(node))

    def e_BinOp(self, node, env):
        op = type(node.op)
        (l, lt), (r, rt) = self.expr(node.left, env), self.expr(node.right, env)
        if op is ast.Add and lt == BYTES and rt == BYTES:
            return '(%s ++ %s)' % (l, r), BYTES
        if op in (ast.Add, ast.Mult):
            j = self.join([lt, rt])
            return '(%s %s %s)' % (self.cast(l, lt, j), '+' if op is ast.Add else '*', self.cast(r, rt, j)), j
        if op is ast.Sub:
            j = self.join([lt, rt, INT])
            return '(%s - %s)' % (self.cast(l, lt, j), self.cast(r, rt, j)), j
        if op is ast.Pow:
            if rt != NAT or lt not in NUM:
                raise Unsupported('`**` needs a Nat exponent: `%s`' % ast.unparse(node))
            return '(%s ^ %s)' % (self.cast(l, lt, lt), r), lt
        sym = {ast.LShift: '<<<', ast.RShift: '>>>', ast.BitAnd: '&&&', ast.BitOr: '|||', ast.FloorDiv: '/', ast.Mod: '%'}.get(op)
        if sym is None:
            raise Unsupported('operator in `%s`' % ast.unparse(node))
        if lt != NAT or rt != NAT:
            raise Unsupported('`%s` is translated on Nat operands only' % ast.unparse(node))
        return '(%s %s %s)' % (self.cast(l, NAT, NAT), sym, self.cast(r, NAT, NAT)), NAT

    def e_Compare(self, node, env):
        operands = [node.left] + list(node.comparators)
        if len(node.ops) == 1 and isinstance(node.ops[0], (ast.Is, ast.IsNot)):
            nar = self.narrowing(node, env)
            none = isinstance(node.comparators[0], ast.Constant) and node.comparators[0].value is None
            if not nar and none:
                _, t = self.expr(node.left, env)     # a value of a non-Option type is never None
                if not (isinstance(t, tuple) and t[0] == 'Option'):
                    return ('false' if isinstance(node.ops[0], ast.Is) else 'true'), BOOL
            if not nar:
                raise Unsupported('`%s`: is-test on something that is not an Option variable' % ast.unparse(node))
            return '%s.%s' % (env[nar[1]][0], 'isNone' if nar[0] == 'none' else 'isSome'), BOOL
        if len(node.ops) == 1 and isinstance(node.ops[0], ast.In):
            tbl = ast.unparse(node.comparators[0])
            term, t = self.expr(node.left, env)
            if tbl not in self.site.tables:
                try:
                    d, dt = self.expr(node.comparators[0], env)
                except Unsupported:
                    dt = None
                if dt == DICT and t == STR:
                    return '(Py.dictHas %s %s)' % (d, term), BOOL
                raise Unsupported('`%s`: membership in an undeclared table' % ast.unparse(node))
            spec = self.site.tables[tbl]
            one = ((lambda x: '(Py.inRanges %s %s)' % (spec[1], x)) if isinstance(spec, tuple) and spec[0] == 'ranges'
                   else (lambda x: '(%s.contains %s)' % (spec, x)))
            if isinstance(t, tuple) and t[0] == 'Option' and t[1] in (NAT,):
                # None is not a member of a table of integers
                return '(match %s with | none => false | some v => %s)' % (term, one('v')), BOOL
            return one(self.cast(term, t, NAT)), BOOL
        vals = [self.expr(o, env) for o in operands]
        parts = []
        for i, op in enumerate(node.ops):
            (l, lt), (r, rt) = vals[i], vals[i + 1]
            sym = {ast.Lt: '<', ast.LtE: '≤', ast.Gt: '>', ast.GtE: '≥', ast.Eq: '=', ast.NotEq: '≠'}.get(type(op))
            if sym is None:
                raise Unsupported('comparison in `%s`' % ast.unparse(node))
            if lt == BOOL and rt == BOOL and sym in '=≠':
                parts.append('(%s %s %s)' % (l, '==' if sym == '=' else '!=', r))
                continue
            if lt == rt and lt in (STR, BYTES) and sym in '=≠':
                parts.append('(decide (%s %s %s))' % (l, sym, r))
                continue
            if sym in '=≠' and isinstance(lt, tuple) and lt[0] == 'Option' and lt[1] in NUM and rt in NUM:
                # None == n is False, None != n is True
                j = self.join([lt[1], rt])
                parts.append('(match %s with | none => %s | some v => (decide (%s %s %s)))' % (
                    l, 'false' if sym == '=' else 'true', self.cast('v', lt[1], j), sym, self.cast(r, rt, j)))
                continue
            j = self.join([lt, rt])
            parts.append('(decide (%s %s %s))' % (self.cast(l, lt, j), sym, self.cast(r, rt, j)))
        return (parts[0] if len(parts) == 1 else '(' + ' && '.join(parts) + ')'), BOOL

    def e_BoolOp(self, node, env):
        return self.t_boolop(isinstance(node.op, ast.Or), node.values, env, strict=True), BOOL

    def e_IfExp(self, node, env):
        nar = self.narrowing(node.test, env)
        if nar:
            kind, key = nar
            var, t = env[key]
            some_env = dict(env)
            some_env[key] = (var, t[1])
            if kind == 'none':
                (a, at), (b, bt) = self.expr(node.body, env), self.expr(node.orelse, some_env)
            else:
                (a, at), (b, bt) = self.expr(node.orelse, env), self.expr(node.body, some_env)
            j = self.same_or_join(at, bt)
            a, b = self.cast(a, at, j), self.cast(b, bt, j)
            if kind == 'truthy':
                (c, ct) = self.expr(node.orelse, some_env)
                b = '(if %s then %s else %s)' % (self.truth(var, t[1]), b, self.cast(c, ct, j))
            return '(match %s with | none => %s | some %s => %s)' % (var, a, var, b), j
        c = self.test(node.test, env)
        (a, at), (b, bt) = self.expr(node.body, env), self.expr(node.orelse, env)
        j = self.same_or_join(at, bt)
        return '(if %s then %s else %s)' % (c, self.cast(a, at, j), self.cast(b, bt, j)), j

    def e_Call(self, node, env):
        f = ast.unparse(node.func)
        if node.keywords:
            raise Unsupported('keyword arguments in `%s`' % ast.unparse(node))
        args = node.args
        if f in self.site.methods:
            term, t, d = self.call_method(node, env)
            if d.raises:
                raise Unsupported('`%s` can raise and is used as a value' % ast.unparse(node))
            return term, t
        if isinstance(node.func, ast.Attribute) and node.func.attr == 'lower' and not args:
            term, t = self.expr(node.func.value, env)
            if t != STR:
                raise Unsupported('`%s`: .lower() of a non-str value' % ast.unparse(node))
            return '(Py.strLower %s)' % term, STR
        if isinstance(node.func, ast.Attribute) and node.func.attr == 'get' and len(args) in (1, 2):
            d, dt = self.expr(node.func.value, env)
            k, kt = self.expr(args[0], env)
            if dt != DICT or kt != STR:
                raise Unsupported('`%s`: .get() on something that is not a dict with a str key' % ast.unparse(node))
            dflt, ft = self.expr(args[1], env) if len(args) == 2 else ('none', NONE)
            if ft == STR:
                return '((Py.dictGet? %s %s).getD %s)' % (d, k, dflt), STR
            if ft == NONE:
                return '(Py.dictGet? %s %s)' % (d, k), OPT(STR)
            if ft == OPT(STR):
                return '(match (Py.dictGet? %s %s) with | some v => some v | none => %s)' % (d, k, dflt), OPT(STR)
            raise Unsupported('`%s`: default of .get() must be a str or None' % ast.unparse(node))
        if f in self.site.structs:
            widths = self.site.structs[f]
            if len(widths) != len(args):
                raise Unsupported('`%s`: %d fields expected' % (ast.unparse(node), len(widths)))
            vals = [self.expr(a, env) for a in args]
            if any(t != NAT for _, t in vals):
                raise Unsupported('`%s`: packed values must be Nat' % ast.unparse(node))
            return '(Py.pack [%s])' % ', '.join('(%d, %s)' % (w, v[0]) for w, v in zip(widths, vals)), BYTES
        if f == 'len' and len(args) == 1:
            term, t = self.expr(args[0], env)
            if t != BYTES:
                raise Unsupported('`%s`: len of a non-Bytes value' % ast.unparse(node))
            return '(%s).length' % term, NAT
        if f in ('min', 'max') and len(args) == 2:
            (a, at), (b, bt) = self.expr(args[0], env), self.expr(args[1], env)
            j = self.join([at, bt])
            return '(%s %s %s)' % (f, self.cast(a, at, j), self.cast(b, bt, j)), j
        if f == 'math.ceil' and len(args) == 1 and isinstance(args[0], ast.BinOp) and isinstance(args[0].op, ast.Div):
            (a, at), (b, bt) = self.expr(args[0].left, env), self.expr(args[0].right, env)
            if at != NAT or bt != NAT:
                raise Unsupported('`%s`: ceiling division is translated on Nat operands only' % ast.unparse(node))
            return '(Py.ceilDiv %s %s)' % (a, b), NAT
        if f == 'int' and len(args) == 1:
            term, t = self.expr(args[0], env)
            if t not in (NAT, INT):
                raise Unsupported('`%s`: int() of a %s' % (ast.unparse(node), lean_ty(t)))
            return term, t
        if f == 'bool' and len(args) == 1:
            return self.test(args[0], env), BOOL
        raise Unsupported('call `%s`' % ast.unparse(node))

    def call_def(self, text, env):
        name, arg_texts = self.site.calls[text]
        d = self.defs.get(name)
        if d is None:
            raise Unsupported('`%s` needs generated definition %s, which is not available' % (text, name))
        if len(arg_texts) != len(d.params):
            raise Unsupported('`%s`: %s takes %d arguments' % (text, name, len(d.params)))
        terms = []
        for a, (_, want) in zip(arg_texts, d.params):
            term, t = self.expr(ast.parse(a, mode='eval').body, env)
            terms.append(self.coerce(term, t, want))
        return '(%s)' % ' '.join([name] + terms), d.ret, d

    def call_method(self, node, env):
        """`obj.m(args)` for a callee listed in Site.methods: the first candidate definition whose
        parameter types fit (leading arguments from the table, missing trailing ones from the
        Python defaults of the definition)"""
        f = ast.unparse(node.func)
        why = 'no candidate'
        for name, lead in self.site.methods[f]:
            d = self.defs.get(name)
            if d is None:
                why = 'generated definition %s is not available' % name
                continue
            try:
                given = [ast.parse(a, mode='eval').body for a in lead] + list(node.args)
                if len(given) > len(d.params):
                    raise Unsupported('too many arguments')
                terms = []
                for i, (pname, want) in enumerate(d.params):
                    if i < len(given):
                        a = given[i]
                    elif pname in d.defaults:
                        a = ast.parse(d.defaults[pname], mode='eval').body
                    else:
                        raise Unsupported('argument %s missing' % pname)
                    term, t = self.expr(a, env)
                    terms.append(self.coerce_arg(term, t, want))
                return '(%s)' % ' '.join([name] + terms), d.ret, d
            except Unsupported as e:
                why = '%s: %s' % (name, e)
        raise Unsupported('`%s`: %s' % (ast.unparse(node), why))

    def coerce_arg(self, term, t, want):
        """argument passing: the type must already be the parameter's (None fits any Option);
        no wrapping in `some`, so that overloads on str / Optional[str] stay apart"""
        if t == want:
            return term
        if t == NONE and isinstance(want, tuple) and want[0] == 'Option':
            return 'none'
        if t in NUM and want in NUM:
            return self.cast(term, t, want)
        raise Unsupported('a %s where %s is expected' % (lean_ty(t) if t != NONE else 'None', lean_ty(want)))

    def e_Subscript(self, node, env):
        """b[:n] / b[n:] for Bytes b and a literal n >= 0"""
        term, t = self.expr(node.value, env)
        sl = node.slice
        if t != BYTES or not isinstance(sl, ast.Slice) or sl.step is not None:
            raise Unsupported('subscript `%s`' % ast.unparse(node))
        def lit(x):
            return isinstance(x, ast.Constant) and isinstance(x.value, int) and not isinstance(x.value, bool) and x.value >= 0
        if sl.lower is None and lit(sl.upper):
            return '(%s.take %d)' % (term, sl.upper.value), BYTES
        if sl.upper is None and lit(sl.lower):
            return '(%s.drop %d)' % (term, sl.lower.value), BYTES
        raise Unsupported('subscript `%s`' % ast.unparse(node))

    # ---- numeric tower ---------------------------------------------------------------------------
    def join(self, types):
        if any(t not in NUM for t in types):
            raise Unsupported('arithmetic on %s' % ', '.join(lean_ty(t) for t in types))
        return NUM[max(NUM.index(t) for t in types)]

    def same_or_join(self, a, b):
        return a if a == b else self.join([a, b])

    def cast(self, term, t, to):
        """Nat -> Int -> Rat, by `Nat.cast` / `Int.cast` (a literal is written at the target type)"""
        if t == to:
            return term
        if t not in NUM or to not in NUM or NUM.index(t) > NUM.index(to):
            raise Unsupported('cannot use a %s as %s' % (lean_ty(t), lean_ty(to)))
        if term.isdigit():
            return '(%s : %s)' % (term, to)
        return '(%s.cast %s : %s)' % (t, term, to)

    def coerce(self, term, t, to):
        """cast, or wrap in `some` when an Option is wanted"""
        if t == to:
            return term
        if t == NONE and isinstance(to, tuple) and to[0] == 'Option':
            return 'none'
        if isinstance(to, tuple) and to[0] == 'Option' and not (isinstance(t, tuple) and t[0] == 'Option'):
            return '(some %s)' % self.coerce(term, t, to[1])
        return self.cast(term, t, to)


def paren(term):
    return term if re.match(r'^[\w.«»]+$|^\(.*\)$', term, re.S) and balanced(term) else '(%s)' % term


def balanced(term):
    """a term that starts with '(' is one parenthesised group"""
    if not term.startswith('('):
        return True
    depth = 0
    for i, c in enumerate(term):
        depth += c == '('
        depth -= c == ')'
        if depth == 0:
            return i == len(term) - 1
    return False


def to_load(target):
    node = ast.parse(ast.unparse(target), mode='eval').body
    return node


def match_ctor_args(init, call, ignore=()):
    """[(parameter, argument expression or default)] of `Ctor(...)` against `def __init__(self, ...)`,
    after checking that __init__ only stores its parameters (`self.p = p`), apart from the
    statements listed in `ignore` (each must be present)"""
    a = init.args
    if a.vararg or a.kwarg or a.kwonlyargs or a.posonlyargs:
        raise Unsupported('constructor signature of %s' % init.name)
    params = [x.arg for x in a.args][1:]
    stores = [ast.unparse(s) for s in init.body if not (isinstance(s, ast.Expr) and isinstance(s.value, ast.Constant))]
    for x in ignore:
        if x not in stores:
            raise Unsupported('__init__ of %s no longer contains `%s`' % (ast.unparse(call.func), x))
        stores.remove(x)
    if sorted(stores) != sorted('self.%s = %s' % (p, p) for p in params):
        raise Unsupported('__init__ does more than store its parameters')
    defaults = dict(zip(params[len(params) - len(a.defaults):], a.defaults))
    given = dict(zip(params, call.args))
    if len(call.args) > len(params):
        raise Unsupported('too many constructor arguments')
    for kw in call.keywords:
        if kw.arg is None or kw.arg in given or kw.arg not in params:
            raise Unsupported('constructor keyword `%s`' % kw.arg)
        given[kw.arg] = kw.value
    out = []
    for p in params:
        if p in given:
            out.append((p, given[p]))
        elif p in defaults:
            out.append((p, defaults[p]))
        else:
            raise Unsupported('constructor argument `%s` missing' % p)
    return out


# =================================================================================================
# finding the sites (by class / function name and statement shape)

def parse_file(repo, name):
    with open(os.path.join(repo, 'lomond', name)) as f:
        return ast.parse(f.read(), filename=name)


def only(items, what):
    items = list(items)
    if len(items) != 1:
        raise Unsupported('%s: expected exactly one, found %d' % (what, len(items)))
    return items[0]


def klass(tree, name):
    return only([n for n in tree.body if isinstance(n, ast.ClassDef) and n.name == name], 'class %s' % name)


def method(node, name):
    """function defined directly in a class body or a module"""
    return only([n for n in node.body if isinstance(n, ast.FunctionDef) and n.name == name],
                'function %s in %s' % (name, getattr(node, 'name', 'module')))


def body_of(fn):
    return [s for s in fn.body if not (isinstance(s, ast.Expr) and isinstance(s.value, ast.Constant)
                                       and isinstance(s.value.value, str))]


def assign_to(stmts, target, what):
    """the unique statement `target = ...` (target: a name or an attribute text) among stmts"""
    return only([s for s in stmts if isinstance(s, ast.Assign) and len(s.targets) == 1
                 and ast.unparse(s.targets[0]) == target], 'assignment to %s in %s' % (target, what))


def names_in(node):
    return {n.id for n in ast.walk(node) if isinstance(n, ast.Name)}


def struct_widths(cls_node, attr):
    """`attr = struct.Struct(b'!BBH').pack` in the class body -> [1, 1, 2]"""
    s = assign_to(cls_node.body, attr, cls_node.name)
    v = s.value
    ok = (isinstance(v, ast.Attribute) and v.attr == 'pack' and isinstance(v.value, ast.Call)
          and ast.unparse(v.value.func) == 'struct.Struct' and len(v.value.args) == 1
          and isinstance(v.value.args[0], ast.Constant) and isinstance(v.value.args[0].value, (bytes, str)))
    if not ok:
        raise Unsupported('%s.%s is not struct.Struct(<literal>).pack' % (cls_node.name, attr))
    fmt = v.value.args[0].value
    fmt = fmt.decode() if isinstance(fmt, bytes) else fmt
    if not fmt.startswith('!') or any(c not in 'BHQ' for c in fmt[1:]):
        raise Unsupported('struct format %r' % fmt)
    return [{'B': 1, 'H': 2, 'Q': 8}[c] for c in fmt[1:]]


def unstruct_widths(cls_node, attr):
    """`attr = struct.Struct(b'!H').unpack` in the class body -> [2]"""
    s = assign_to(cls_node.body, attr, cls_node.name)
    v = s.value
    ok = (isinstance(v, ast.Attribute) and v.attr == 'unpack' and isinstance(v.value, ast.Call)
          and ast.unparse(v.value.func) == 'struct.Struct' and len(v.value.args) == 1
          and isinstance(v.value.args[0], ast.Constant) and isinstance(v.value.args[0].value, (bytes, str)))
    if not ok:
        raise Unsupported('%s.%s is not struct.Struct(<literal>).unpack' % (cls_node.name, attr))
    fmt = v.value.args[0].value
    fmt = fmt.decode() if isinstance(fmt, bytes) else fmt
    if not fmt.startswith('!') or any(c not in 'BHQ' for c in fmt[1:]):
        raise Unsupported('struct format %r' % fmt)
    return [{'B': 1, 'H': 2, 'Q': 8}[c] for c in fmt[1:]]


def prop_returns(cls_node, name, text):
    """the property `name` of the class is exactly `return <text>`"""
    body = [ast.unparse(s) for s in body_of(method(cls_node, name))]
    require(body == ['return ' + norm_expr(text)], '%s.%s is no longer `return %s`' % (cls_node.name, name, text))


def index_of(stmts, pred, what):
    return only([k for k, s in enumerate(stmts) if pred(s)], what)


def require(cond, what):
    if not cond:
        raise Unsupported(what)


def build_sites(repo):
    """[(name, thunk)]: each thunk returns a Site or raises Unsupported.  Order = order in Code.lean
    (a definition may call the ones before it)."""
    T = {n: parse_file(repo, n + '.py') for n in ('frame', 'frame_parser', 'opcode', 'session', 'persist', 'websocket', 'compression',
                                                          'message', 'parser', 'response', 'mask')}
    OPC = {'Opcode.' + k: ('Lomond.Gen.' + v, NAT) for k, v in (
        ('CONTINUATION', 'opContinuation'), ('TEXT', 'opText'), ('BINARY', 'opBinary'), ('CLOSE', 'opClose'),
        ('PING', 'opPing'), ('PONG', 'opPong'))}
    FIELDS = [('fin', NAT), ('rsv1', NAT), ('rsv2', NAT), ('rsv3', NAT), ('opcode', NAT)]
    SELF_FIELDS = {'self.' + n: n for n, _ in FIELDS}
    SELF_FIELDS['self.payload'] = 'payload'
    sites = []

    def site(name):
        def deco(fn):
            sites.append((name, fn))
            return fn
        return deco

    # ---- frame.py --------------------------------------------------------------------------------
    def frame_cls():
        return klass(T['frame'], 'Frame')

    def build_fn():
        return body_of(method(frame_cls(), 'build'))

    @site('frameBuildMaskBit')
    def _():
        return Site('frameBuildMaskBit', 'frame.py Frame.build: `mask_bit = ...`', [('mask', BOOL)],
                    [assign_to(build_fn(), 'mask_bit', 'Frame.build')], result='mask_bit')

    @site('frameBuildByte0')
    def _():
        return Site('frameBuildByte0', 'frame.py Frame.build: `byte0 = ...`', FIELDS,
                    [assign_to(build_fn(), 'byte0', 'Frame.build')], result='byte0')

    @site('frameBuildHeader')
    def _():
        st = only([s for s in build_fn() if isinstance(s, ast.If) and any(
            isinstance(b, ast.Assign) and ast.unparse(b.targets[0]) == 'header_bytes' for b in s.body)],
            'the if-chain assigning header_bytes in Frame.build')
        c = frame_cls()
        return Site('frameBuildHeader', 'frame.py Frame.build: the `if length < ..: header_bytes = ..` chain',
                    [('byte0', NAT), ('mask_bit', NAT), ('length', NAT)], [st], result='header_bytes',
                    structs={'cls.' + a: struct_widths(c, a) for a in ('_pack8', '_pack16', '_pack64')})

    @site('frameIsControl')
    def _():
        return Site('frameIsControl', 'frame.py Frame.is_control', [('opcode', NAT)],
                    body_of(method(frame_cls(), 'is_control')), bind=SELF_FIELDS)

    @site('opcodeIsReserved')
    def _():
        return Site('opcodeIsReserved', 'opcode.py is_reserved', [('opcode', NAT)],
                    body_of(method(T['opcode'], 'is_reserved')), tables={'reserved_opcodes': 'Lomond.Gen.reservedOpcodes'})

    RSV = [('rsv1', NAT), ('rsv2', NAT), ('rsv3', NAT)]

    @site('frameValidateReservedBits')
    def _():
        return Site('frameValidateReservedBits', 'frame.py Frame.validate_reserved_bits', RSV,
                    body_of(method(frame_cls(), 'validate_reserved_bits')), bind=SELF_FIELDS)

    @site('compressedFrameValidateReservedBits')
    def _():
        c = klass(T['frame'], 'CompressedFrame')
        require([ast.unparse(b) for b in c.bases] == ['Frame'], 'CompressedFrame must derive from Frame only')
        return Site('compressedFrameValidateReservedBits', 'frame.py CompressedFrame.validate_reserved_bits', RSV,
                    body_of(method(c, 'validate_reserved_bits')), bind=SELF_FIELDS)

    def validate_site(name, rsv_def, where):
        c = klass(T['frame'], 'CompressedFrame')
        own = [n.name for n in c.body if isinstance(n, ast.FunctionDef)]
        require(own == ['validate_reserved_bits'], 'CompressedFrame overrides more than validate_reserved_bits: %s' % own)
        require(isinstance(method(frame_cls(), 'is_control'), ast.FunctionDef), 'is_control')
        return Site(name, where, FIELDS + [('payload', BYTES)], body_of(method(frame_cls(), 'validate')), bind=SELF_FIELDS,
                    calls={'self.is_control': ('frameIsControl', ['self.opcode']),
                           'is_reserved(self.opcode)': ('opcodeIsReserved', ['self.opcode']),
                           'self.validate_reserved_bits()': (rsv_def, ['self.rsv1', 'self.rsv2', 'self.rsv3'])})

    @site('frameValidate')
    def _():
        return validate_site('frameValidate', 'frameValidateReservedBits', 'frame.py Frame.validate (self is a Frame)')

    @site('compressedFrameValidate')
    def _():
        return validate_site('compressedFrameValidate', 'compressedFrameValidateReservedBits',
                             'frame.py Frame.validate (self is a CompressedFrame: validate_reserved_bits overridden)')

    @site('frameBuildClosePayload')
    def _():
        c = frame_cls()
        return Site('frameBuildClosePayload', 'frame.py Frame.build_close_payload (reason already bytes)',
                    [('status', OPT(NAT)), ('reason', BYTES)], body_of(method(c, 'build_close_payload')),
                    structs={'cls._pack_close_code': struct_widths(c, '_pack_close_code')},
                    rewrite={"if not isinstance(reason, bytes):\n    reason = reason.encode('utf-8', errors='replace')": 'pass'})

    # ---- frame_parser.py ---------------------------------------------------------------------------
    def parse_loop():
        fp = klass(T['frame_parser'], 'FrameParser')
        init = [ast.unparse(s) for s in method(fp, '__init__').body]
        require('self._frame_class = Frame' in init and 'self._compression = False' in init,
                'FrameParser.__init__ no longer starts with Frame / no compression')
        en = [ast.unparse(s) for s in body_of(method(fp, 'enable_compression'))]
        require(sorted(en) == ['self._compression = True', 'self._frame_class = CompressedFrame'],
                'FrameParser.enable_compression changed')
        w = only([s for s in method(fp, 'parse').body if isinstance(s, ast.While)], 'the while loop of FrameParser.parse')
        require(ast.unparse(w.test) == 'True', 'FrameParser.parse loop is not `while True`')
        return w.body

    @site('parseFields')
    def _():
        body = parse_loop()
        first = body[0]
        require(ast.unparse(first) == norm_stmt('byte1, byte2 = yield self.read(2)'), 'FrameParser.parse does not start with `byte1, byte2 = yield self.read(2)`')
        st = [s for s in body if isinstance(s, ast.Assign) and len(s.targets) == 1 and isinstance(s.targets[0], ast.Name)
              and names_in(s.value) <= {'byte1', 'byte2'} and names_in(s.value)]
        require(st, 'no header field assignments found')
        return Site('parseFields', 'frame_parser.py FrameParser.parse: the assignments computed from byte1 / byte2, in source order',
                    [('byte1', NAT), ('byte2', NAT)], st, result='(' + ', '.join(s.targets[0].id for s in st) + ')')

    @site('parseLenExt')
    def _():
        st = only([s for s in parse_loop() if isinstance(s, ast.If) and isinstance(s.test, ast.Compare)
                   and isinstance(s.test.ops[0], ast.Eq) and names_in(s.test) == {'payload_length'}],
                  'the `if payload_length == ..` chain of FrameParser.parse')
        return Site('parseLenExt', 'frame_parser.py FrameParser.parse: how many extended-length bytes are read',
                    [('payload_length', NAT)], [st], prefix='ext = 0', result='ext',
                    rewrite={'(payload_length,) = self.unpack16((yield self.read(2)))': 'ext = 2',
                             '(payload_length,) = self.unpack64((yield self.read(8)))': 'ext = 8'})

    def size_test_index(body):
        return only([k for k, s in enumerate(body) if isinstance(s, ast.If) and len(s.body) == 1 and isinstance(s.body[0], ast.Raise)
                     and not s.orelse and names_in(s.test) == {'payload_length'}], 'the payload-size test of FrameParser.parse')

    @site('parseTooLarge')
    def _():
        body = parse_loop()
        return Site('parseTooLarge', 'frame_parser.py FrameParser.parse: the payload-size test', [('payload_length', NAT)],
                    [body[size_test_index(body)]])

    def checks_site(name, validate_def, where):
        body = parse_loop()
        i = size_test_index(body)
        j = only([k for k, s in enumerate(body) if isinstance(s, ast.If) and ast.unparse(s.test) == 'self.validate'],
                 '`if self.validate:` in FrameParser.parse')
        require(i < j, 'size test no longer precedes validation')
        init = method(klass(T['frame'], 'Frame'), '__init__')
        require('__init__' not in [n.name for n in klass(T['frame'], 'CompressedFrame').body if isinstance(n, ast.FunctionDef)], 'CompressedFrame.__init__')
        return Site(name, where,
                    [('validate', BOOL)] + FIELDS + [('mask_bit', NAT), ('payload_length', NAT)], body[i:j + 1],
                    bind={'self.validate': 'validate'},
                    records={'self._frame_class': init},
                    rewrite={'if mask_bit:\n    masking_key = yield self.read(4)\nelse:\n    masking_key = None': 'pass'},
                    calls={'frame.validate()': (validate_def, ['frame.fin', 'frame.rsv1', 'frame.rsv2', 'frame.rsv3', 'frame.opcode', 'frame.payload']),
                           'frame.is_control': ('frameIsControl', ['frame.opcode'])})

    @site('parseChecksFrame')
    def _():
        return checks_site('parseChecksFrame', 'frameValidate',
                           'frame_parser.py FrameParser.parse: from the payload-size test to the end of `if self.validate:` (self._frame_class is Frame)')

    @site('parseChecksCompressed')
    def _():
        return checks_site('parseChecksCompressed', 'compressedFrameValidate',
                           'frame_parser.py FrameParser.parse: the same statements after enable_compression() (self._frame_class is CompressedFrame)')

    def frame_prop(lean, prop):
        return Site(lean, 'frame.py Frame.%s' % prop, [('opcode', NAT)], body_of(method(frame_cls(), prop)),
                    bind=SELF_FIELDS, consts=OPC)

    @site('frameIsText')
    def _():
        return frame_prop('frameIsText', 'is_text')

    @site('frameIsContinuation')
    def _():
        return frame_prop('frameIsContinuation', 'is_continuation')

    PARSER_STATE = {'self._is_text': 'is_text', 'self._is_compressed': 'is_compressed', 'self._compression': 'compression'}

    @site('parseReadText')
    def _():
        fp = klass(T['frame_parser'], 'FrameParser')
        pc = klass(T['parser'], 'Parser')
        for a, c in (('read', '_ReadBytes'), ('read_utf8', '_ReadUtf8')):
            require(ast.unparse(assign_to(pc.body, a, 'Parser').value) == c, 'Parser.%s is no longer %s' % (a, c))
        require(ast.unparse(method(klass(T['parser'], '_ReadUtf8'), 'validate').body[-1].body[0]) == "raise ParseError('invalid utf8')",
                '_ReadUtf8.validate no longer raises ParseError on an invalid chunk')
        return Site('parseReadText', 'frame_parser.py FrameParser.read_text: which awaitable reads a text payload (1 = read: raw bytes, 2 = read_utf8: validated while read)',
                    [('compression', BOOL), ('is_compressed', BOOL)], body_of(method(fp, 'read_text')), bind=PARSER_STATE,
                    rewrite={'return self.read(length)': 'return 1',
                             'return self.read_utf8(length, self._utf8_validator)': 'return 2'})

    @site('parseReader')
    def _():
        body = parse_loop()
        j = index_of(body, lambda s: isinstance(s, ast.If) and ast.unparse(s.test) == 'self.validate', '`if self.validate:` in FrameParser.parse')
        a = index_of(body, lambda s: isinstance(s, ast.If) and ast.unparse(s.test) == 'frame.is_text', '`if frame.is_text:` in FrameParser.parse')
        b = index_of(body, lambda s: isinstance(s, ast.If) and ast.unparse(s.test) == 'payload_length', '`if payload_length:` in FrameParser.parse')
        require(j + 1 == a and a + 1 == b and [ast.unparse(x) for x in body[b + 1:]] == ['self.on_frame(frame)', 'yield frame'],
                'FrameParser.parse no longer ends with: validation, `if frame.is_text:`, `if payload_length:`, on_frame, yield')
        return Site('parseReader', 'frame_parser.py FrameParser.parse: `if frame.is_text:` and `if payload_length:`; result = (payload reader: 0 none, 1 read, 2 read_utf8; self._is_text, self._is_compressed afterwards)',
                    [('opcode', NAT), ('rsv1', NAT), ('payload_length', NAT), ('is_text', BOOL), ('is_compressed', BOOL), ('compression', BOOL)],
                    body[a:b + 1], prefix='reader = 0', outputs=['reader', 'is_text', 'is_compressed'],
                    bind=dict(PARSER_STATE, **{'frame.opcode': 'opcode', 'frame.rsv1': 'rsv1'}),
                    calls={'frame.is_text': ('frameIsText', ['frame.opcode']),
                           'frame.is_continuation': ('frameIsContinuation', ['frame.opcode']),
                           'self.read_text(payload_length)': ('parseReadText', ['self._compression', 'self._is_compressed'])},
                    rewrite={'frame.payload = yield self.read_text(payload_length)': 'reader = self.read_text(payload_length)',
                             'frame.payload = yield self.read(payload_length)': 'reader = 1'})

    @site('parserOnFrame')
    def _():
        fp = klass(T['frame_parser'], 'FrameParser')
        return Site('parserOnFrame', 'frame_parser.py FrameParser.on_frame; result = (the UTF-8 validator was reset, self._is_text afterwards)',
                    [('compression', BOOL), ('is_compressed', BOOL), ('is_text', BOOL), ('fin', NAT), ('opcode', NAT)],
                    body_of(method(fp, 'on_frame')), prefix='reset = False', outputs=['reset', 'is_text'],
                    bind=dict(PARSER_STATE, **{'frame.fin': 'fin', 'frame.opcode': 'opcode'}),
                    calls={'frame.is_text': ('frameIsText', ['frame.opcode']),
                           'frame.is_continuation': ('frameIsContinuation', ['frame.opcode']),
                           'frame.is_control': ('frameIsControl', ['frame.opcode'])},
                    rewrite={'self._utf8_validator.reset()': 'reset = True'})

    @site('clientOnFrameGuard')
    def _():
        c = klass(T['frame_parser'], 'ClientFrameParser')
        require([ast.unparse(b) for b in c.bases] == ['FrameParser'], 'ClientFrameParser must derive from FrameParser only')
        require([n.name for n in c.body if isinstance(n, ast.FunctionDef)] == ['on_frame'], 'ClientFrameParser overrides more than on_frame')
        body = body_of(method(c, 'on_frame'))
        require(ast.unparse(body[-1]) == 'super(ClientFrameParser, self).on_frame(frame)', 'ClientFrameParser.on_frame does not end with the call of FrameParser.on_frame')
        return Site('clientOnFrameGuard', 'frame_parser.py ClientFrameParser.on_frame: what precedes the call of FrameParser.on_frame',
                    [('mask', BOOL)], body, bind={'frame.mask': 'mask'},
                    rewrite={'super(ClientFrameParser, self).on_frame(frame)': 'pass'})

    # ---- session.py --------------------------------------------------------------------------------
    def sess(name):
        return body_of(method(klass(T['session'], 'WebsocketSession'), name))

    @site('sessionCheckPoll')
    def _():
        return Site('sessionCheckPoll', 'session.py WebsocketSession._check_poll; result = (return value, self._poll_start afterwards)',
                    [('poll', NAT), ('session_time', NAT), ('poll_start', OPT(NAT))], sess('_check_poll'),
                    bind={'self._poll_start': 'poll_start'}, outputs=['poll_start'])

    @site('sessionCheckAutoPing')
    def _():
        return Site('sessionCheckAutoPing', 'session.py WebsocketSession._check_auto_ping; result = (send_ping() was called, self._next_ping afterwards)',
                    [('ping_rate', NAT), ('session_time', NAT), ('next_ping', NAT)], sess('_check_auto_ping'),
                    bind={'self._next_ping': 'next_ping'}, prefix='sent_ping = False', outputs=['sent_ping', 'next_ping'],
                    rewrite={'try:\n    self.websocket.send_ping()\nexcept errors.WebSocketError:\n    pass': 'sent_ping = True'})

    @site('sessionCheckPingTimeout')
    def _():
        return Site('sessionCheckPingTimeout', 'session.py WebsocketSession._check_ping_timeout (ping_timeout None is passed as 0: both are falsy)',
                    [('ping_timeout', NAT), ('session_time', NAT), ('last_pong', NAT)], sess('_check_ping_timeout'),
                    bind={'self._last_pong': 'last_pong'})

    @site('sessionCheckCloseTimeout')
    def _():
        return Site('sessionCheckCloseTimeout', 'session.py WebsocketSession._check_close_timeout (close_timeout None is passed as 0: both are falsy)',
                    [('close_timeout', NAT), ('session_time', NAT), ('sent_close_time', OPT(NAT))], sess('_check_close_timeout'),
                    bind={'self.websocket.sent_close_time': 'sent_close_time'})

    def ws_cls():
        return klass(T['websocket'], 'WebSocket')

    def flag_props():
        """the flags `_check_writable`, `close`, `_on_close` read through properties are the State fields"""
        prop_returns(ws_cls(), 'is_closing', 'self.state.closing')
        prop_returns(ws_cls(), 'is_closed', 'self.state.closed')

    @site('sessionCheckWritable')
    def _():
        flag_props()
        return Site('sessionCheckWritable', 'session.py WebsocketSession._check_writable (no_sock = `self._sock is None`)',
                    [('no_sock', BOOL), ('closed', BOOL), ('closing', BOOL)], sess('_check_writable'),
                    bind={'self._sock is None': 'no_sock', 'self.websocket.is_closed': 'closed', 'self.websocket.is_closing': 'closing'},
                    trace=['closed', 'closing'])

    @site('sessionWrite')
    def _():
        flag_props()
        body = sess('write')
        w = only(body, 'the single statement of WebsocketSession.write')
        require(isinstance(w, ast.With) and [ast.unparse(i.context_expr) for i in w.items] == ['self._lock']
                and w.items[0].optional_vars is None, 'WebsocketSession.write is no longer one `with self._lock:` block')
        return Site('sessionWrite', 'session.py WebsocketSession.write: the statements under `with self._lock:`; result = (_sendall() was called, state.closing afterwards)',
                    [('no_sock', BOOL), ('closed', BOOL), ('is_closing', BOOL), ('closing', BOOL)], w.body,
                    prefix='sent = False', outputs=['sent', 'is_closing'],
                    bind={'self._sock is None': 'no_sock', 'self.websocket.is_closed': 'closed', 'self.websocket.is_closing': 'is_closing',
                          'self.websocket.state.closing': 'is_closing'},
                    calls={'self._check_writable()': ('sessionCheckWritable', ['self._sock is None', 'self.websocket.is_closed', 'self.websocket.is_closing'])},
                    rewrite={'self._sendall(data)': 'sent = True'})

    @site('sessionSendClosing')
    def _():
        body = sess('send')
        calls = [n for s_ in body for n in ast.walk(s_) if isinstance(n, ast.Call) and ast.unparse(n.func) == 'self.write']
        c = only(calls, 'the call of self.write in WebsocketSession.send')
        require(len(c.args) == 1 and [k.arg for k in c.keywords] == ['closing'], 'WebsocketSession.send: self.write(<bytes>, closing=..)')
        fr = assign_to(body, 'frame', 'WebsocketSession.send')
        require(ast.unparse(fr.value) == 'Frame(opcode, payload=bytearray(data))' and ast.unparse(c.args[0]) == 'frame.to_bytes()',
                'WebsocketSession.send no longer writes Frame(opcode, payload=bytearray(data)).to_bytes()')
        return Site('sessionSendClosing', 'session.py WebsocketSession.send: the `closing=` argument of self.write',
                    [('opcode', NAT)], [ast.Return(value=c.keywords[0].value)], consts=OPC)

    # ---- the frame `send_compressed` writes; the masking key `Frame.build` draws (C03_Gen / C03_Z) -----------
    BUILD_PARAMS = ['opcode', 'payload', 'fin', 'rsv1', 'rsv2', 'rsv3', 'mask', 'masking_key']

    @site('sessionSendCompressedFrame')
    def _():
        body = sess('send_compressed')
        w = only([s_ for s_ in body if isinstance(s_, ast.With)], 'the `with` block of WebsocketSession.send_compressed')
        require([ast.unparse(i.context_expr) for i in w.items] == ['self._lock'] and w.items[0].optional_vars is None,
                'WebsocketSession.send_compressed no longer works under `with self._lock:`')
        init = method(frame_cls(), '__init__')
        require([a.arg for a in init.args.args][1:] == BUILD_PARAMS, 'Frame.__init__ parameters changed')
        return Site('sessionSendCompressedFrame',
                    'session.py WebsocketSession.send_compressed: the statements under `with self._lock:` (z = bytearray(compress(data))); '
                    'result = (opcode, payload, fin, rsv1, rsv2, rsv3, mask, masking_key) of the Frame whose to_bytes() goes to _sendall',
                    [('opcode', NAT), ('z', BYTES)], w.body,
                    bind={'bytearray(compress(data))': 'z'}, records={'Frame': init}, locals={'frame.masking_key': OPT(BYTES)},
                    rewrite={'self._check_writable()': 'pass',
                             'self._sendall(frame.to_bytes())':
                                 'return (frame.opcode, frame.payload, frame.fin, frame.rsv1, frame.rsv2, frame.rsv3, frame.mask, frame.masking_key)'})

    @site('frameToBytes')
    def _():
        body = body_of(method(frame_cls(), 'to_bytes'))
        st = assign_to(body, 'frame_bytes', 'Frame.to_bytes')
        call = st.value
        require(isinstance(call, ast.Call) and ast.unparse(call.func) == 'self.build' and ast.unparse(body[-1]) == 'return frame_bytes'
                and len(body) == 2, 'Frame.to_bytes is no longer `frame_bytes = self.build(..); return frame_bytes`')
        b = method(frame_cls(), 'build')
        a = b.args
        require(not (a.vararg or a.kwarg or a.kwonlyargs or a.posonlyargs) and [x.arg for x in a.args] == ['cls'] + BUILD_PARAMS,
                'signature of Frame.build changed')
        defaults = dict(zip(BUILD_PARAMS[len(BUILD_PARAMS) - len(a.defaults):], a.defaults))
        given = dict(zip(BUILD_PARAMS, call.args))
        for kw in call.keywords:
            require(kw.arg in BUILD_PARAMS and kw.arg not in given, 'Frame.to_bytes: keyword `%s`' % kw.arg)
            given[kw.arg] = kw.value
        vals = []
        for p_ in BUILD_PARAMS:
            require(p_ in given or p_ in defaults, 'Frame.to_bytes: argument `%s` of build missing' % p_)
            vals.append(given.get(p_, defaults.get(p_)))
        return Site('frameToBytes',
                    'frame.py Frame.to_bytes: the arguments its call of Frame.build binds, (opcode, payload, fin, rsv1, rsv2, rsv3, mask, masking_key); '
                    'a parameter the call does not pass has the default of Frame.build',
                    FIELDS[4:] + [('payload', BYTES)] + FIELDS[:4] + [('mask', BOOL), ('masking_key', OPT(BYTES))],
                    [ast.Return(value=ast.Tuple(elts=vals, ctx=ast.Load()))],
                    bind=dict(SELF_FIELDS, **{'self.mask': 'mask', 'self.masking_key': 'masking_key'}))

    @site('frameMakeMaskingKey')
    def _():
        st = only([s_ for s_ in T['mask'].body if isinstance(s_, ast.Assign) and [ast.unparse(t) for t in s_.targets] == ['make_masking_key']],
                  'the assignment of make_masking_key in mask.py')
        v = st.value
        require(isinstance(v, ast.Call) and ast.unparse(v.func) == 'partial' and len(v.args) == 2 and not v.keywords
                and ast.unparse(v.args[0]) == 'os.urandom', 'mask.py: make_masking_key = partial(os.urandom, N)')
        require(any(isinstance(s_, ast.ImportFrom) and s_.module == 'functools' and any(x.name == 'partial' and x.asname is None for x in s_.names)
                    for s_ in T['mask'].body), 'mask.py: `from functools import partial`')
        require(any(isinstance(s_, ast.ImportFrom) and s_.module == 'mask' and s_.level == 1
                    and any(x.name == 'make_masking_key' and x.asname is None for x in s_.names) for s_ in T['frame'].body),
                'frame.py: `from .mask import make_masking_key`')
        call = ast.Call(func=v.args[0], args=[v.args[1]], keywords=[])          # partial(f, a)() is f(a)
        return Site('frameMakeMaskingKey',
                    'mask.py `make_masking_key = partial(os.urandom, N)`, called without arguments by Frame.build: os.urandom(N) (urandom = os.urandom)',
                    [('urandom', FN([NAT], BYTES))], [ast.Return(value=call)],
                    externs={ast.unparse(call): ('urandom', [ast.unparse(v.args[1])], None)})

    @site('frameBuildKey')
    def _():
        i = only([s_ for s_ in build_fn() if isinstance(s_, ast.If) and ast.unparse(s_.test) == 'mask'], '`if mask:` in Frame.build')
        st = assign_to(i.body, 'masking_key', 'Frame.build, under `if mask:`')
        require(i.body.index(st) == 0, 'Frame.build: the masking key is no longer chosen first under `if mask:`')
        return Site('frameBuildKey',
                    'frame.py Frame.build: `masking_key = ...` under `if mask:` (fresh = the value of make_masking_key())',
                    [('masking_key', OPT(BYTES)), ('fresh', BYTES)], [st], result='masking_key', bind={'make_masking_key()': 'fresh'})

    @site('wsSendJson')
    def _():
        fn = method(ws_cls(), 'send_json')
        require([a.arg for a in fn.args.args] == ['self', '_obj'] and [ast.unparse(d) for d in fn.args.defaults] == ['Ellipsis']
                and fn.args.kwarg is not None and fn.args.kwarg.arg == 'kwargs' and not fn.args.vararg and not fn.args.kwonlyargs,
                'WebSocket.send_json(self, _obj=Ellipsis, **kwargs)')
        st = method(ws_cls(), 'send_text')
        require([a.arg for a in st.args.args] == ['self', 'text', 'compress'] and [ast.unparse(d) for d in st.args.defaults] == ['True'],
                'WebSocket.send_text(self, text, compress=True)')
        return Site('wsSendJson',
                    'websocket.py WebSocket.send_json (has_obj = `_obj is not Ellipsis`, has_kwargs = bool(kwargs)); result = (which object '
                    'json.dumps receives: 1 the positional argument, 2 the dict of keyword arguments; send_text(<the dumped text>) was called, '
                    'with its default compress=True)',
                    [('has_obj', BOOL), ('has_kwargs', BOOL)], body_of(fn),
                    prefix='dumped = 0\nsent = False', outputs=['dumped', 'sent'],
                    bind={'_obj is not Ellipsis': 'has_obj', 'kwargs': 'has_kwargs'},
                    rewrite={'json_obj = json.dumps(_obj if _obj is not Ellipsis else kwargs)': 'dumped = 1 if _obj is not Ellipsis else 2',
                             "self.send_text(json_obj.decode('utf-8') if six.PY2 else json_obj)": 'sent = True'})

    @site('proxyDefaultPort')
    def _():
        st = assign_to(sess('_connect_proxy'), '_port', 'WebsocketSession._connect_proxy')
        return Site('proxyDefaultPort', 'session.py WebsocketSession._connect_proxy: `_port = ...`',
                    [('port', OPT(NAT)), ('https', BOOL)], [ast.Return(value=st.value)],
                    bind={'_proxy_url.port': 'port', "_proxy_url.scheme == 'https'": 'https'})

    # ---- persist.py ----------------------------------------------------------------------------------
    def persist_parts():
        body = body_of(method(T['persist'], 'persist'))
        loop = only([s for s in body if isinstance(s, ast.While)], 'the while loop of persist')
        require(ast.unparse(loop.test) == 'True', 'persist loop is not `while True`')
        for_ = only([s for s in loop.body if isinstance(s, ast.For)], 'the for loop of persist')
        require(ast.unparse(for_.target) == 'event' and 'websocket.connect(' in ast.unparse(for_.iter), 'persist for loop')
        return body, loop, for_

    @site('persistRetriesInit')
    def _():
        body, loop, _f = persist_parts()
        st = assign_to(body, 'retries', 'persist (before the loop)')
        require(body.index(st) < body.index(loop), 'retries initialised after the loop')
        return Site('persistRetriesInit', 'persist.py persist: `retries = ..` before the loop', [], [st], result='retries')

    @site('persistRetriesNext')
    def _():
        _b, loop, _f = persist_parts()
        st = loop.body[0]
        require(isinstance(st, ast.AugAssign) and ast.unparse(st.target) == 'retries', 'the loop of persist does not start with `retries += ..`')
        require(not [s for s in loop.body[1:] if isinstance(s, (ast.Assign, ast.AugAssign)) and 'retries' in ast.unparse(getattr(s, 'targets', [getattr(s, 'target', None)])[0])],
                'retries is assigned again in the loop body')
        return Site('persistRetriesNext', 'persist.py persist: first statement of the loop body', [('retries', NAT)], [st], result='retries')

    @site('persistAfterEvent')
    def _():
        _b, _l, for_ = persist_parts()
        st = only([s for s in for_.body if isinstance(s, ast.If)], 'the if in the for loop of persist')
        require([type(s) for s in for_.body] == [ast.If, ast.Expr] and isinstance(for_.body[1].value, ast.Yield), 'for loop body of persist is not `if ..` + `yield event`')
        return Site('persistAfterEvent', "persist.py persist: the `if event.name == 'ready'` statement of the for loop",
                    [('is_ready', BOOL), ('retries', NAT)], [st], result='retries', bind={"event.name == 'ready'": 'is_ready'})

    @site('persistWaitFor')
    def _():
        body, loop, for_ = persist_parts()
        rw = assign_to(body, 'random_wait', 'persist (before the loop)')
        wf = assign_to(loop.body, 'wait_for', 'the loop of persist')
        require(loop.body.index(wf) == loop.body.index(for_) + 1, 'wait_for is not computed right after the for loop')
        return Site('persistWaitFor', 'persist.py persist: `random_wait = ..` (before the loop) and `wait_for = ..` (u = the value of random())',
                    [('min_wait', RAT), ('max_wait', RAT), ('retries', NAT), ('u', RAT)], [rw, wf], result='wait_for', bind={'random()': 'u'})

    # ---- websocket.py --------------------------------------------------------------------------------
    def ws(name):
        return body_of(method(klass(T['websocket'], 'WebSocket'), name))

    def guard_site(name, fn, op):
        return Site(name, 'websocket.py WebSocket.%s (is_bytes = isinstance(data, bytes); the final send dropped)' % fn,
                    [('is_bytes', BOOL), ('data', BYTES)], ws(fn), bind={'isinstance(data, bytes)': 'is_bytes'},
                    rewrite={'self.session.send(Opcode.%s, data)' % op: 'pass'})

    @site('wsSendPingGuard')
    def _():
        return guard_site('wsSendPingGuard', 'send_ping', 'PING')

    @site('wsSendPongGuard')
    def _():
        return guard_site('wsSendPongGuard', 'send_pong', 'PONG')

    @site('wsClose')
    def _():
        return Site('wsClose', 'websocket.py WebSocket.close (reason = the encoded reason bytes); result = _send_close() was called',
                    [('is_closed', BOOL), ('is_closing', BOOL), ('code', OPT(NAT)), ('reason', BYTES)], ws('close'),
                    bind={'self.is_closed': 'is_closed', 'self.is_closing': 'is_closing'}, prefix='sent = False', outputs=['sent'],
                    calls={'Frame.build_close_payload(code, reason)': ('frameBuildClosePayload', ['code', 'reason'])},
                    rewrite={'self._send_close(code, reason)': 'sent = True', 'self.state.closing = True': 'pass',
                             'self.state.sent_close_time = self.session.session_time': 'pass'})

    WS_FLAGS = {'self.is_closed': 'closed', 'self.is_closing': 'closing', 'self.state.closed': 'closed', 'self.state.closing': 'closing'}

    @site('wsOnDisconnect')
    def _():
        fn = method(ws_cls(), 'on_disconnect')
        require([a.arg for a in fn.args.args] == ['self', 'state'] and [ast.unparse(d) for d in fn.args.defaults] == ['None'],
                'WebSocket.on_disconnect(self, state=None)')
        return Site('wsOnDisconnect', 'websocket.py WebSocket.on_disconnect (has_session = `state.session is not None`); result = (session.close() was called, state.closed, state.closing afterwards)',
                    [('has_session', BOOL), ('closed', BOOL), ('closing', BOOL)], body_of(fn),
                    prefix='session_closed = False', outputs=['session_closed', 'closed', 'closing'],
                    bind={'state.session is not None': 'has_session', 'state.closed': 'closed', 'state.closing': 'closing'},
                    rewrite={'if state is None:\n    state = self.state': 'pass', 'state.session.close()': 'session_closed = True'},
                    trace=['closed', 'closing'])

    @site('wsOnClose')
    def _():
        flag_props()
        return Site('wsOnClose', 'websocket.py WebSocket._on_close; result = (event yielded: 0 none, 1 Closed, 2 Closing; self.close(message.code, message.reason) was called; state.closed, state.closing as assigned here)',
                    [('code', OPT(NAT)), ('closed', BOOL), ('closing', BOOL)], ws('_on_close'),
                    prefix='event = 0\necho = False', outputs=['event', 'echo', 'closed', 'closing'],
                    bind=dict(WS_FLAGS, **{'message.code': 'code'}),
                    tables={'Status.invalid_codes': ('ranges', 'Lomond.Gen.invalidCodeRanges')},
                    rewrite={'yield events.Closed(message.code, message.reason)': 'event = 1',
                             'yield events.Closing(message.code, message.reason)': 'event = 2',
                             'self.close(message.code, message.reason)': 'echo = True'},
                    trace=['closed', 'closing'])

    # ---- response.py / websocket.py: the upgrade reply ---------------------------------------------------
    def response_get(name, default_ty, defaults):
        fn = method(klass(T['response'], 'Response'), 'get')
        require([a.arg for a in fn.args.args] == ['self', 'name', 'default'] and [ast.unparse(d) for d in fn.args.defaults] == ['None'],
                'Response.get(self, name, default=None)')
        return Site(name, 'response.py Response.get (default is a %s)' % ('str' if default_ty == STR else 'str or None'),
                    [('headers', DICT), ('name', STR), ('default', default_ty)], body_of(fn), bind={'self.headers': 'headers'},
                    rewrite={"assert isinstance(name, six.text_type), 'must be unicode'": 'pass'}, defaults=defaults)

    @site('responseGetStr')
    def _():
        return response_get('responseGetStr', STR, {})

    @site('responseGetOpt')
    def _():
        return response_get('responseGetOpt', OPT(STR), {'default': 'None'})

    @site('wsOnResponse')
    def _():
        return Site('wsOnResponse', 'websocket.py WebSocket.on_response up to the extensions (status_code None = the status line had no integer; challenge = the expected accept value); result = protocol',
                    [('status_code', OPT(INT)), ('headers', DICT), ('challenge', STR)], ws('on_response'),
                    bind={'response.status_code': 'status_code', 'response.headers': 'headers',
                          "b64encode(sha1(self.key + constants.WS_KEY).digest()).decode('ascii')": 'challenge'},
                    methods={'response.get': [('responseGetStr', ['response.headers']), ('responseGetOpt', ['response.headers'])]},
                    rewrite={"extensions = self.process_extensions(response.get_list('sec-websocket-extensions'))": 'pass',
                             'return (protocol, extensions)': 'return protocol'})

    @site('wsDefaultPort')
    def _():
        st = assign_to(ws('__init__'), 'self.port', 'WebSocket.__init__')
        return Site('wsDefaultPort', 'websocket.py WebSocket.__init__: `self.port = ...`',
                    [('port', OPT(NAT)), ('secure', BOOL)], [ast.Return(value=st.value)],
                    bind={'_url.port': 'port', "self.scheme == 'wss'": 'secure'})

    # ---- compression.py --------------------------------------------------------------------------------
    def deflate(name):
        return body_of(method(klass(T['compression'], 'Deflate'), name))

    @site('deflateWbitsCheck')
    def _():
        body = deflate('get_wbits')
        k = only([i for i, s in enumerate(body) if isinstance(s, ast.Try)], 'the try statement of Deflate.get_wbits')
        require(ast.unparse(body[k].body[0]) == 'wbits = int(_wbits)', 'Deflate.get_wbits: `wbits = int(_wbits)`')
        return Site('deflateWbitsCheck', 'compression.py Deflate.get_wbits: the statements after `wbits = int(_wbits)`',
                    [('wbits', INT)], body[k + 1:])

    @site('deflateCompressorWbits')
    def _():
        st = assign_to(deflate('reset_compressor'), 'self._compressobj', 'Deflate.reset_compressor')
        v = st.value
        require(isinstance(v, ast.Call) and ast.unparse(v.func) == 'zlib.compressobj' and len(v.args) == 3 and not v.keywords,
                'Deflate.reset_compressor: zlib.compressobj(level, method, wbits)')
        return Site('deflateCompressorWbits', 'compression.py Deflate.reset_compressor: the wbits argument of zlib.compressobj',
                    [('compress_wbits', NAT)], [ast.Return(value=v.args[2])], bind={'self.compress_wbits': 'compress_wbits'})

    @site('deflateGetWbits')
    def _():
        return Site('deflateGetWbits', 'compression.py Deflate.get_wbits (int_ = what `int()` makes of a str; none = ValueError)',
                    [('options', DICT), ('key', STR), ('int_', FN([STR], OPT(INT)))], deflate('get_wbits'),
                    externs={'int(_wbits)': ('int_', ['_wbits'], 'ValueError')}, defaults={'int_': 'int_'})

    @site('deflateFromOptions')
    def _():
        init = method(klass(T['compression'], 'Deflate'), '__init__')
        return Site('deflateFromOptions', 'compression.py Deflate.from_options; result = (decompress_wbits, compress_wbits, reset_decompress, reset_compress) of the Deflate object',
                    [('options', DICT), ('int_', FN([STR], OPT(INT)))], deflate('from_options'),
                    methods={'cls.get_wbits': [('deflateGetWbits', [])]},
                    records={'Deflate': (init, ['self.reset_decompressor()', 'self.reset_compressor()'])},
                    rewrite={'return deflate': 'return (deflate.decompress_wbits, deflate.compress_wbits, deflate.reset_decompress, deflate.reset_compress)'})

    # ---- message.py ------------------------------------------------------------------------------------
    def msg_build():
        return body_of(method(klass(T['message'], 'Message'), 'build'))

    @site('messageBuildInflate')
    def _():
        body = msg_build()
        require([ast.unparse(x) for x in body[:2]] == ['first_frame = frames[0]', 'opcode = first_frame.opcode'],
                'Message.build no longer starts with first_frame = frames[0]; opcode = first_frame.opcode')
        st = only([x for x in body if isinstance(x, ast.If) and 'decompress' in names_in(x.test)], 'the decompress test of Message.build')
        return Site('messageBuildInflate', 'message.py Message.build: is the payload inflated (decompress = a decompressor was passed)',
                    [('rsv1', NAT), ('decompress', BOOL)], [st], result='inflate', bind={'first_frame.rsv1': 'rsv1'},
                    rewrite={'payload = cls.decompress_frames(frames, decompress)': 'inflate = True',
                             "payload = b''.join((bytes(frame.payload) for frame in frames))": 'inflate = False'})

    @site('messageBuildKind')
    def _():
        body = msg_build()
        st = body[-1]
        require(isinstance(st, ast.If) and names_in(st.test) == {'opcode', 'Opcode'}, 'Message.build does not end with the opcode dispatch')
        m = T['message']
        for cls_, op in (('Binary', 'BINARY'), ('Text', 'TEXT'), ('Close', 'CLOSE'), ('Ping', 'PING'), ('Pong', 'PONG')):
            init = [ast.unparse(x) for x in method(klass(m, cls_), '__init__').body]
            require('super(%s, self).__init__(Opcode.%s)' % (cls_, op) in init, 'message.%s is no longer the message of Opcode.%s' % (cls_, op))
        require([ast.unparse(x) for x in body_of(method(klass(m, 'Text'), 'from_payload'))[-1:]] == ['return cls(text)'], 'Text.from_payload')
        return Site('messageBuildKind', 'message.py Message.build: the opcode dispatch (0 Message, 1 Binary, 2 Text.from_payload, 3 Close.from_payload, 4 Ping, 5 Pong)',
                    [('opcode', NAT)], [st], consts=OPC,
                    rewrite={'return Binary(payload)': 'return 1', 'return Text.from_payload(payload)': 'return 2',
                             'return Close.from_payload(payload)': 'return 3', 'return Ping(payload)': 'return 4',
                             'return Pong(payload)': 'return 5', 'return Message(opcode)': 'return 0'})

    @site('closeFromPayload')
    def _():
        c = klass(T['message'], 'Close')
        init = [ast.unparse(x) for x in method(c, '__init__').body]
        require(init[:2] == ['self.code = code', 'self.reason = reason'], 'Close.__init__ no longer stores code and reason')
        return Site('closeFromPayload', 'message.py Close.from_payload; result = (code, reason) (utf8_valid = Utf8Validator().validate(..)[0], decode = bytes.decode(\'utf-8\'), none = UnicodeDecodeError)',
                    [('payload', BYTES), ('utf8_valid', FN([BYTES], BOOL)), ('decode', FN([BYTES], OPT(STR)))],
                    body_of(method(c, 'from_payload')), locals={'code': OPT(NAT)},
                    unstructs={'cls._unpack16': unstruct_widths(klass(T['message'], 'Message'), '_unpack16')},
                    externs={'utf8_valid(reason_bytes)': ('utf8_valid', ['reason_bytes'], None),
                             "reason_bytes.decode('utf-8')": ('decode', ['reason_bytes'], 'UnicodeDecodeError')},
                    rewrite={'(is_valid, _, _, _) = Utf8Validator().validate(reason_bytes)': 'is_valid = utf8_valid(reason_bytes)',
                             'return cls(code, reason)': 'return (code, reason)'})

    # ---- parser.py -------------------------------------------------------------------------------------
    @site('readUntilCheckLength')
    def _():
        c = klass(T['parser'], '_ReadUntil')
        return Site('readUntilCheckLength', 'parser.py _ReadUntil.check_length', [('max_bytes', OPT(NAT)), ('pos', INT)],
                    body_of(method(c, 'check_length')), bind={'self.max_bytes': 'max_bytes'})

    @site('feedReadUntil')
    def _():
        feed = method(klass(T['parser'], 'Parser'), 'feed')
        chk = method(feed, '_check_length')
        require([ast.unparse(x) for x in chk.body] == ['try:\n    self._awaiting.check_length(pos)\nexcept ParseError as error:\n    self._awaiting = self._gen.throw(error)'],
                'Parser.feed._check_length no longer throws the ParseError of check_length into the parser')
        loop = only([x for x in feed.body if isinstance(x, ast.While)], 'the while loop of Parser.feed')
        require(ast.unparse(loop.test) == 'pos < len(data)', 'Parser.feed loop')
        chain = only([x for x in loop.body if isinstance(x, ast.If)], 'the if chain of Parser.feed')
        require(ast.unparse(chain.test) == 'isinstance(self._awaiting, _ReadBytes)' and len(chain.orelse) == 1
                and isinstance(chain.orelse[0], ast.If) and ast.unparse(chain.orelse[0].test) == 'isinstance(self._awaiting, _ReadUntil)',
                'Parser.feed: if isinstance(.., _ReadBytes) .. elif isinstance(.., _ReadUntil)')
        b = chain.orelse[0].body
        require([ast.unparse(x) for x in b[:4]] == ['chunk = data[pos:]', '_buffer.extend(chunk)', 'sep = self._awaiting.sep', 'sep_index = _buffer.find(sep)']
                and len(b) == 5, 'Parser.feed: the _ReadUntil branch no longer extends the buffer and searches it before the length checks')
        return Site('feedReadUntil', 'parser.py Parser.feed, awaiting _ReadUntil: the `if sep_index == -1:` statement (sep_index = _buffer.find(sep) after the chunk was appended, buffer_len = len(_buffer)); result = the length of the data sent to the parser, -1 = none yet',
                    [('max_bytes', OPT(NAT)), ('sep_index', INT), ('sep_len', NAT), ('buffer_len', NAT)], [b[4]],
                    prefix='sent = -1', outputs=['sent'],
                    bind={'self._awaiting.max_bytes': 'max_bytes', 'len(sep)': 'sep_len', 'len(_buffer)': 'buffer_len'},
                    calls={'_check_length(len(_buffer))': ('readUntilCheckLength', ['self._awaiting.max_bytes', 'len(_buffer)']),
                           '_check_length(sep_index)': ('readUntilCheckLength', ['self._awaiting.max_bytes', 'sep_index'])},
                    rewrite={'pos += len(chunk)': 'pass', 'data = _buffer[sep_index:]': 'pass',
                             'self._awaiting = self._gen.send(_buffer[:sep_index])': 'sent = sep_index', 'del _buffer[:]': 'pass'})

    # ---- added by helper SITES: event bookkeeping, feed guard, send decisions, stream fragments, Text, selector, proxy choice ----
    T2 = {n: parse_file(repo, n + '.py') for n in ('stream', 'selectors')}

    def sess_fn(name):
        return method(klass(T['session'], 'WebsocketSession'), name)

    @site('sessionOnEvent')
    def _():
        fn = sess_fn('_on_event')
        require([a.arg for a in fn.args.args] == ['self', 'event', 'auto_pong'] and [ast.unparse(d) for d in fn.args.defaults] == ['True'],
                'WebsocketSession._on_event(self, event, auto_pong=True)')
        return Site('sessionOnEvent',
                    'session.py WebsocketSession._on_event (name = event.name); result = (handler called: 0 none, 1 _on_ready(), '
                    '2 _send_pong(event), 3 _on_pong(event); self._ready afterwards)',
                    [('name', STR), ('auto_pong', BOOL), ('ready', BOOL)], body_of(fn),
                    prefix='handler = 0', outputs=['handler', 'ready'],
                    bind={'event.name': 'name', 'self._ready': 'ready'},
                    rewrite={'self._on_ready()': 'handler = 1', 'self._send_pong(event)': 'handler = 2',
                             'self._on_pong(event)': 'handler = 3'})

    @site('sessionOnPong')
    def _():
        return Site('sessionOnPong', 'session.py WebsocketSession._on_pong; result = self._last_pong afterwards',
                    [('session_time', NAT), ('last_pong', NAT)], body_of(sess_fn('_on_pong')),
                    bind={'self.session_time': 'session_time', 'self._last_pong': 'last_pong'}, outputs=['last_pong'])

    @site('sessionOnReady')
    def _():
        return Site('sessionOnReady',
                    'session.py WebsocketSession._on_ready (now = time.time()); result = (self._last_pong, self._next_ping, self._start_time) afterwards',
                    [('last_pong', NAT), ('next_ping', NAT), ('start_time', OPT(NAT)), ('now', NAT)], body_of(sess_fn('_on_ready')),
                    bind={'self._last_pong': 'last_pong', 'self._next_ping': 'next_ping', 'self._start_time': 'start_time',
                          'time.time()': 'now'},
                    outputs=['last_pong', 'next_ping', 'start_time'])

    @site('sessionSessionTime')
    def _():
        fn = sess_fn('session_time')
        require([ast.unparse(d) for d in fn.decorator_list] == ['property'], 'WebsocketSession.session_time is a property')
        return Site('sessionSessionTime', 'session.py WebsocketSession.session_time (now = time.time())',
                    [('start_time', OPT(NAT)), ('now', NAT)], body_of(fn),
                    bind={'self._start_time': 'start_time', 'time.time()': 'now'})

    @site('wsFeedGuard')
    def _():
        flag_props()
        st = ws('feed')[0]
        require(isinstance(st, ast.If) and [ast.unparse(x) for x in st.body] == ['return'] and not st.orelse,
                'WebSocket.feed no longer starts with `if ..: return`')
        return Site('wsFeedGuard', 'websocket.py WebSocket.feed: its first statement; result = the data is fed to the stream',
                    [('closed', BOOL), ('closing', BOOL)], [st], result='True', bind=WS_FLAGS, rewrite={'return': 'return False'})

    @site('wsIsActive')
    def _():
        fn = method(ws_cls(), 'is_active')
        require([ast.unparse(d) for d in fn.decorator_list] == ['property'], 'WebSocket.is_active is a property')
        return Site('wsIsActive', 'websocket.py WebSocket.is_active', [('closed', BOOL), ('closing', BOOL)], body_of(fn), bind=WS_FLAGS)

    def send_data_site(name, fn, op, guard, guard_param, var, extra):
        m = method(ws_cls(), fn)
        require([a.arg for a in m.args.args][2:] == ['compress'] and [ast.unparse(d) for d in m.args.defaults] == ['True']
                and len(m.args.args) == 3, 'WebSocket.%s(self, .., compress=True)' % fn)
        return Site(name,
                    'websocket.py WebSocket.%s (%s = `%s`, compression = bool(self.state.compression)); result = (which session method '
                    'sends the payload: 1 send, 2 send_compressed with self.state.compression.compress; its opcode argument)' % (fn, guard_param, guard),
                    [(guard_param, BOOL), ('compress', BOOL), ('compression', BOOL)], body_of(m), consts=OPC,
                    bind={guard: guard_param, 'self.state.compression': 'compression'},
                    rewrite=dict({'self.session.send_compressed(Opcode.%s, %s, self.state.compression.compress)' % (op, var): 'return (2, Opcode.%s)' % op,
                                  'self.session.send(Opcode.%s, %s)' % (op, var): 'return (1, Opcode.%s)' % op}, **extra))

    @site('wsSendBinary')
    def _():
        return send_data_site('wsSendBinary', 'send_binary', 'BINARY', 'isinstance(data, bytes)', 'is_bytes', 'data', {})

    @site('wsSendText')
    def _():
        return send_data_site('wsSendText', 'send_text', 'TEXT', 'isinstance(text, six.text_type)', 'is_text', 'payload',
                              {"payload = text.encode('utf-8')": 'pass'})

    @site('streamOnFrame')
    def _():
        sc = klass(T2['stream'], 'WebsocketStream')
        init = [ast.unparse(s) for s in method(sc, '__init__').body]
        require('self._frames = []' in init, 'WebsocketStream.__init__ no longer starts with an empty fragment list')
        feed = method(sc, 'feed')
        loop = only([s for s in feed.body if isinstance(s, ast.While)], 'the while loop of WebsocketStream.feed')
        require(ast.unparse(loop.test) == 'True', 'WebsocketStream.feed loop is not `while True`')
        st = loop.body[-1]
        require(isinstance(st, ast.If) and ast.unparse(st.test) == 'frame.is_control', 'WebsocketStream.feed: the loop no longer ends with `if frame.is_control:`')
        inside = list(ast.walk(st)) + list(ast.walk(method(sc, '__init__')))
        require([s for s in ast.walk(sc) if isinstance(s, (ast.Assign, ast.AugAssign, ast.Delete, ast.Expr)) and 'self._frames' in ast.unparse(s)
                 and s not in inside] == [], 'self._frames is used as a statement outside the frame dispatch')
        return Site('streamOnFrame',
                    'stream.py WebsocketStream.feed: the `if frame.is_control:` statement of the loop (frames = len(self._frames)); result = '
                    '(message built: 0 none, 1 from [frame], 2 from self._frames; len(self._frames) afterwards)',
                    [('opcode', NAT), ('fin', NAT), ('frames', NAT)], [st], prefix='built = 0', outputs=['built', 'frames'],
                    bind={'self._frames': 'frames', 'frame.fin': 'fin', 'frame.opcode': 'opcode'},
                    calls={'frame.is_control': ('frameIsControl', ['frame.opcode']),
                           'frame.is_continuation': ('frameIsContinuation', ['frame.opcode'])},
                    rewrite={'yield self.build_message([frame])': 'built = 1',
                             'self._frames.append(frame)': 'self._frames = self._frames + 1',
                             'yield self.build_message(self._frames)': 'built = 2',
                             'del self._frames[:]': 'self._frames = 0'})

    @site('textFromPayload')
    def _():
        c = klass(T['message'], 'Text')
        init = [ast.unparse(x) for x in method(c, '__init__').body]
        require(init[:1] == ['self.text = text'], 'Text.__init__ no longer stores text')
        return Site('textFromPayload', "message.py Text.from_payload; result = text (decode = bytes.decode('utf-8'), none = UnicodeDecodeError)",
                    [('payload', BYTES), ('decode', FN([BYTES], OPT(STR)))], body_of(method(c, 'from_payload')),
                    externs={"payload.decode('utf-8')": ('decode', ['payload'], 'UnicodeDecodeError')},
                    rewrite={'return cls(text)': 'return text'})

    @site('selectorWait')
    def _():
        m = T2['selectors']
        base = klass(m, 'SelectorBase')
        for c in m.body:
            if isinstance(c, ast.ClassDef) and c.name != 'SelectorBase':
                require([ast.unparse(b) for b in c.bases] == ['SelectorBase'] and 'wait' not in [n.name for n in c.body if isinstance(n, ast.FunctionDef)],
                        'selectors.%s overrides SelectorBase.wait' % c.name)
        return Site('selectorWait',
                    "selectors.py SelectorBase.wait (has_pending = hasattr(self._socket, 'pending'), pending = self._socket.pending(), "
                    'readable = self.wait_readable(timeout=timeout))',
                    [('has_pending', BOOL), ('pending', NAT), ('readable', BOOL), ('max_bytes', NAT)], body_of(method(base, 'wait')),
                    bind={"hasattr(self._socket, 'pending')": 'has_pending', 'self._socket.pending()': 'pending',
                          'self.wait_readable(timeout=timeout)': 'readable'})

    @site('sessionConnectProxy')
    def _():
        prop_returns(ws_cls(), 'is_secure', "self.scheme == 'wss'")
        return Site('sessionConnectProxy',
                    'session.py WebsocketSession._connect: which proxy is used (proxies = self.websocket.proxies without its None values, '
                    'secure = self.websocket.is_secure); result = proxy_url (None: a direct connection through _connect_sock)',
                    [('proxies', DICT), ('secure', BOOL)], body_of(sess_fn('_connect')),
                    bind={'self.websocket.proxies': 'proxies', 'self.websocket.is_secure': 'secure'}, locals={'proxy_url': OPT(STR)},
                    rewrite={'sock = self._connect_proxy(proxy)': 'pass',
                             'sock = self._connect_sock(self.websocket.host, self.websocket.port, ssl=self.websocket.is_secure)': 'pass',
                             'sock.settimeout(None)': 'pass', 'return (sock, proxy_url)': 'return proxy_url'})

    return sites


# =================================================================================================
# output

HEADER = '''/-
  GENERATED by harness/py2lean.py from lomond/*.py -- do not edit.
  Python code (not only tables) translated to Lean; regenerated on every check run.  The mapping
  of every accepted construct is stated in the header of harness/py2lean.py.  Companion theorems
  (Properties/Cxx_Gen.lean) tie these definitions to the hand-written model; `dispatch` is used by
  the driver (`gen <name> <args>`) for the differential test of the translator itself.
-/
import Lomond.Model.PyOps
import Lomond.Generated.Tables

set_option linter.unusedVariables false

namespace Lomond.Gen.Code
open Lomond

'''


def doc_comment(site, used_binds):
    src = '\n'.join(ast.unparse(s) for s in site.stmts)
    src = src.replace('-/', '- /').replace('/-', '/ -')
    extra = []
    for k, v in sorted(site.bind.items()):
        if k in used_binds:
            extra.append('  `%s` is parameter %s' % (k, v))
    for k, v in sorted(site.rewrite.items()):
        extra.append('  statement `%s` read as `%s`' % (k.replace('\n', ' ⏎ '), v))
    for k, (d, a) in sorted(site.calls.items()):
        extra.append('  `%s` is %s(%s)' % (k, d, ', '.join(a)))
    for k, v in sorted(site.methods.items()):
        extra.append('  `%s(..)` is %s' % (k, ' / '.join('%s(%s..)' % (d, ''.join(x + ', ' for x in lead)) for d, lead in v)))
    for k, (f, a, exc) in sorted(site.externs.items()):
        extra.append('  `%s` is the external function %s(%s)%s' % (k, f, ', '.join(a), '' if exc is None else '; none = it raised ' + exc))
    for k, v in sorted(site.consts.items()):
        if k in used_binds:
            extra.append('  `%s` is %s' % (k, v[0]))
    if site.trace:
        extra.append('  last component of the result: reads (i) and writes (10 + i) of ' + ', '.join(
            '%d = %s' % (i + 1, n) for i, n in enumerate(site.trace)) + ', in execution order')
    return '/-- %s\n%s\n```\n%s\n```\n-/\n' % (site.where, '\n'.join(extra), src)


BASELINE = os.path.join(os.path.dirname(os.path.abspath(__file__)), 'py2lean_baseline.json')
FALLBACKS = []          # (site, reason) of the last generate(): sites emitted from the baseline instead of being retranslated


def _load_baseline():
    try:
        with open(BASELINE) as f:
            return json.load(f)
    except (OSError, ValueError):
        return {}


def _ty_from_json(t):
    return tuple(_ty_from_json(x) for x in t) if isinstance(t, list) else t


def generate(repo, baseline=None, fallback_sites=()):
    """returns (text of Code.lean, problems, {name: Def} of the definitions that were translated).
       A site that has left the accepted subset (the source was restructured) and is named in `fallback_sites` is NOT retranslated:
       the definition last translated from the source (harness/py2lean_baseline.json, written by harness/mkbaseline.py on a tree
       where every site translates) is emitted again, and the site is listed in FALLBACKS - the caller must then tie it to the
       current source differentially (gencheck evaluates that definition against the current Python)."""
    problems, defs, chunks, disp = [], {}, [], []
    del FALLBACKS[:]
    baseline = _load_baseline() if baseline is None else baseline
    try:
        sites = build_sites(repo)
    except (Unsupported, OSError, SyntaxError) as e:
        return HEADER + 'end Lomond.Gen.Code\n', ['py2lean: %s' % e], {}
    record = {}
    for name, thunk in sites:
        try:
            s = thunk()
            tr = Translator(s, defs)
            text, d = tr.translate()
            defs[name] = d
            chunk = doc_comment(s, tr.used_binds) + text
            chunks.append(chunk)
            args = ['a%d' % i for i in range(len(d.params))]
            dline = '  | %s, [%s] => Py.render (%s%s)' % (
                lean_str(name), ', '.join(args), name,
                ''.join(' (Py.parse %s : %s)' % (a, lean_ty(t)) for a, (_, t) in zip(args, d.params)))
            disp.append(dline)
            record[name] = dict(chunk=chunk, disp=dline, params=d.params, ret=d.ret, raises=d.raises, defaults=d.defaults)
        except Unsupported as e:
            msg = str(e).split('\n')[0][:200]
            b = baseline.get(name)
            if b is not None and name in fallback_sites:
                FALLBACKS.append((name, msg))
                chunks.append('/- NOT RETRANSLATED (%s): the definition below is the one last translated from the source; it is tied to the\n   current source by the differential test harness/gencheck.py on this run -/\n' % msg.replace('-/', '- /') + b['chunk'])
                disp.append(b['disp'])
                defs[name] = Def(name, [(n, _ty_from_json(t)) for n, t in b['params']], _ty_from_json(b['ret']), b['raises'], b['defaults'])
                continue
            problems.append('py2lean %s: outside the translated subset: %s' % (name, msg))
            chunks.append('/-- NOT TRANSLATED: %s -/\ndef %s : Py.Untranslated := ⟨%s⟩\n' % (
                msg.replace('-/', '- /'), name, lean_str(msg)))
    out = HEADER + '\n'.join(chunks)
    out += ('\n/-- `gen <name> <args…>` of the driver (differential test of the translator) -/\n'
            'def dispatch (name : String) (args : List String) : String :=\n  match name, args with\n'
            + '\n'.join(disp) + '\n  | _, _ => "untranslated"\n\nend Lomond.Gen.Code\n')
    generate.record = record
    return out, problems, defs


if __name__ == '__main__':
    import sys
    text, problems, defs = generate(sys.argv[1] if len(sys.argv) > 1 else os.environ.get('LOMOND_REPO', '/repo'))
    sys.stdout.write(text)
    for p in problems:
        print('PROBLEM', p, file=sys.stderr)
