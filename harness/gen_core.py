"""Structured generators for core scenarios (server byte streams, application reactions,
environment faults).  Every random choice comes from the rng passed in."""
from __future__ import annotations
import random, struct
from refcodec import server_frame, close_payload, DeflatePeer
from world import Scenario
from coreutil import cut, reads, random_cuts

BOUNDARY_SIZES = [0, 1, 2, 125, 126, 127, 128, 255, 256, 65535, 65536, 65537]
SMALL_SIZES = [0, 1, 2, 3, 5, 8, 20, 125, 126, 127, 200]
VALID_CLOSE_CODES = [1000, 1001, 1002, 1003, 1007, 1008, 1009, 1010, 1011, 1012, 1013, 3000, 3999, 4000, 4999, 65535]


def rand_bytes(rng, n):
    return bytes(rng.getrandbits(8) for _ in range(n))


SPECIAL_CPS = [0xfeff, 0xfeff, 0x0, 0xfffd, 0xffff, 0xfffe, 0x7b, 0x7d, 0x25, 0x85, 0x2028, 0x10ffff]


def rand_text(rng, nbytes):
    """valid UTF-8 of about nbytes bytes"""
    out = bytearray()
    while len(out) < nbytes:
        r = rng.random()
        if (not out and r < 0.15) or r < 0.03:
            # code points that codecs, formatters and terminals like to treat specially: a leading U+FEFF (the 'utf-8-sig' BOM),
            # NUL, noncharacters, braces and percent signs (str.format / % templates), line separators
            c = rng.choice(SPECIAL_CPS)
        elif r < 0.6:
            c = rng.randint(0x20, 0x7e)
        elif r < 0.75:
            c = rng.randint(0x80, 0x7ff)
        elif r < 0.9:
            c = rng.randint(0x800, 0xffff)
            if 0xd800 <= c <= 0xdfff:
                c = 0x20ac
        else:
            c = rng.randint(0x10000, 0x10ffff)
        enc = chr(c).encode('utf-8')
        if len(out) + len(enc) > nbytes:
            enc = b'a'
        out += enc
    return bytes(out)


def pick_lenform(rng, n, nonminimal=True):
    forms = ['min']
    if nonminimal:
        if n < 126:
            forms += ['16', '64']
        elif n < 65536:
            forms += ['64']
    return rng.choice(forms) if rng.random() < 0.35 else 'min'


class Item:
    """one message a conforming server sends"""

    def __init__(self, kind, payload=b'', frags=None, between=None, code=None, reason=b'', compressed=False):
        self.kind = kind            # text | binary | ping | pong | close
        self.payload = payload      # application payload (uncompressed)
        self.frags = frags          # list of wire fragments (already compressed if compressed)
        self.between = between or []    # list (len(frags)-1) of lists of control Items
        self.code, self.reason = code, reason
        self.compressed = compressed

    def expected(self):
        """event tokens in completion order"""
        out = []
        for ctrls in self.between:
            for c in ctrls:
                out += c.expected()
        if self.kind == 'text':
            out.append('E:text:' + self.payload.hex())
        elif self.kind == 'binary':
            out.append('E:binary:' + self.payload.hex())
        elif self.kind == 'ping':
            out.append('E:ping:' + self.payload.hex())
        elif self.kind == 'pong':
            out.append('E:pong:' + self.payload.hex())
        elif self.kind == 'close':
            out.append('E:closing:%s:%s' % ('N' if self.code is None else self.code, self.reason.hex()))
        return out


OPC = dict(text=1, binary=2, close=8, ping=9, pong=10)


def serialise_item(rng, it, nonminimal=True):
    """list of frame byte strings for one item (controls between fragments included)"""
    frames = []
    if it.kind in ('ping', 'pong'):
        frames.append(server_frame(OPC[it.kind], it.payload, lenform=pick_lenform(rng, len(it.payload), nonminimal)))
    elif it.kind == 'close':
        p = close_payload(it.code, it.reason)
        frames.append(server_frame(8, p, lenform=pick_lenform(rng, len(p), nonminimal)))
    else:
        frs = it.frags if it.frags is not None else [it.payload]
        for i, part in enumerate(frs):
            frames.append(server_frame(OPC[it.kind] if i == 0 else 0, part, fin=1 if i == len(frs) - 1 else 0,
                                       rsv1=1 if (it.compressed and i == 0) else 0,
                                       lenform=pick_lenform(rng, len(part), nonminimal)))
            if i < len(frs) - 1 and i < len(it.between):
                for c in it.between[i]:
                    frames += serialise_item(rng, c, nonminimal)
    return frames


def fragment(rng, data, maxfrags=4, allow_empty=True):
    k = rng.choice([1, 1, 2, 3, maxfrags])
    if k == 1:
        return [data]
    pts = sorted(rng.randint(0, len(data)) for _ in range(k - 1))
    parts = [data[a:b] for a, b in zip([0] + pts, pts + [len(data)])]
    if not allow_empty:
        parts = [p for p in parts if p] or [data]
    return parts


def gen_control(rng):
    n = rng.choice([0, 0, 1, 3, 10, 125, rng.randint(0, 125)])
    return Item(rng.choice(['ping', 'pong']), rand_bytes(rng, n))


def gen_item(rng, sizes=SMALL_SIZES, peer=None):
    r = rng.random()
    if r < 0.25:
        return gen_control(rng)
    kind = 'text' if r < 0.65 else 'binary'
    n = rng.choice(sizes)
    payload = rand_text(rng, n) if kind == 'text' else rand_bytes(rng, n)
    compressed = peer is not None and rng.random() < 0.6
    wire = peer.compress(payload) if compressed else payload
    frags = fragment(rng, wire)
    between = [[gen_control(rng) for _ in range(rng.choice([0, 0, 1, 2]))] for _ in range(len(frags) - 1)]
    return Item(kind, payload, frags, between, compressed=compressed)


def gen_close(rng):
    r = rng.random()
    if r < 0.2:
        return Item('close', code=None)
    code = rng.choice(VALID_CLOSE_CODES)
    reason = rand_text(rng, rng.choice([0, 0, 3, 20, 123]))
    return Item('close', code=code, reason=reason)


# ---------------------------------------------------------------------------------------------
# protocol violations (C04)

VIOLATIONS = ['reserved-opcode', 'rsv-bits', 'fragmented-control', 'oversize-control', 'masked',
              'orphan-continuation', 'data-inside-fragmented', 'length-2^63', 'close-len-1',
              'reserved-close-code', 'bad-utf8-text', 'bad-utf8-close-reason']


BAD_UTF8_TEXTS = [b'\xff', b'ab\xc0\xaf', b'\xed\xa0\x80', b'\xf4\x90\x80\x80', b'ok\xe2\x82', b'\x80',
                  # the bytes around the error end up in messages: format directives must not matter
                  b'{"k": "\xe2\x82"}', b'set {} is empty \xc0\xaf', b'%s {0} \xff', b'{\xff',
                  # truncated at the very end of the message (only the final strict decode can see it)
                  b'caf\xc3', b'\xf0\x9f\x98', b'abc \xe2']


def gen_violation(rng, cls, mid_message, pick=None):
    """bytes of a frame (or frames) that violate RFC 6455 in the given way.
       mid_message: True if a fragmented data message is open in the stream state."""
    pl = rand_bytes(rng, rng.choice([0, 1, 5, 60]))
    if cls == 'reserved-opcode':
        return server_frame(rng.choice([3, 4, 5, 6, 7, 11, 12, 13, 14, 15]), pl if rng.random() < 0.7 else b'')
    if cls == 'rsv-bits':
        bits = rng.choice([(1, 0, 0), (0, 1, 0), (0, 0, 1), (1, 1, 1), (0, 1, 1)])
        op = rng.choice([1, 2, 9, 10]) if not mid_message else rng.choice([0, 9, 10])
        return server_frame(op, pl, rsv1=bits[0], rsv2=bits[1], rsv3=bits[2])
    if cls == 'fragmented-control':
        return server_frame(rng.choice([8, 9, 10]), pl[:10], fin=0)
    if cls == 'oversize-control':
        n = rng.choice([126, 127, 200, 65535, 65536])
        op = rng.choice([9, 10, 8])
        body = rand_bytes(rng, n) if op != 8 else struct.pack('!H', 1000) + b'x' * (n - 2)
        return server_frame(op, body)
    if cls == 'masked':
        return server_frame(rng.choice([1, 2, 9]) if not mid_message else rng.choice([0, 9]), b'abc', mask=rand_bytes(rng, 4))
    if cls == 'orphan-continuation':
        return server_frame(0, pl, fin=rng.choice([0, 1]))
    if cls == 'data-inside-fragmented':
        return server_frame(rng.choice([1, 2]), b'xy', fin=rng.choice([0, 1]))
    if cls == 'length-2^63':
        v = rng.choice([1 << 63, (1 << 63) + 5, (1 << 64) - 1])
        op = rng.choice([1, 2]) if not mid_message else 0
        return bytes([0x80 | op, 127]) + struct.pack('!Q', v) + b'zzzz'
    if cls == 'close-len-1':
        return server_frame(8, bytes([rng.getrandbits(8)]))
    if cls == 'reserved-close-code':
        code = rng.choice([0, 1, 999, 1004, 1005, 1006, 1014, 1015, 1016, 1100, 2000, 2999])
        return server_frame(8, close_payload(code, b'why'))
    if cls == 'bad-utf8-text':
        bad = BAD_UTF8_TEXTS[pick % len(BAD_UTF8_TEXTS)] if pick is not None else rng.choice(BAD_UTF8_TEXTS)
        if mid_message:
            return server_frame(0, bad, fin=1)      # only a violation if the open message is text: caller ensures
        return server_frame(1, bad)
    if cls == 'bad-utf8-close-reason':
        return server_frame(8, close_payload(1000, rng.choice([b'\xff', b'x\xed\xa0\x80', b'\xe2\x82', b'{0} {} \xff', b'%s{\xc0\xaf'])))
    raise ValueError(cls)


def applicable(cls, mid_message, mid_text):
    if cls == 'orphan-continuation':
        return not mid_message
    if cls == 'data-inside-fragmented':
        return mid_message
    if cls == 'bad-utf8-text':
        return (not mid_message) or mid_text
    return True


# ---------------------------------------------------------------------------------------------
# application reactions

def gen_act(rng, allow_close=True, allow_bad=True):
    r = rng.random()
    if r < 0.3:
        return ('send_text', ('s', [ord(c) for c in rng.choice(['', 'hi', 'echo €', 'x' * 130])]), rng.random() < 0.5)
    if r < 0.5:
        return ('send_binary', ('b', rand_bytes(rng, rng.choice([0, 1, 4, 126]))), rng.random() < 0.5)
    if r < 0.6:
        return ('send_ping', ('b', rand_bytes(rng, rng.choice([0, 2, 125]))))
    if r < 0.7:
        return ('send_pong', ('b', rand_bytes(rng, rng.choice([0, 2, 125]))))
    if r < 0.9 and allow_close:
        if rng.random() < 0.3:
            return ('close', None, ('b', b''))
        return ('close', rng.choice([1000, 1001, 3000, 4999]), rng.choice([('b', b'bye'), ('s', [98, 121, 101]), ('b', b''), ('s', [0x20ac])]))
    if allow_bad:
        return rng.choice([
            ('send_text', ('b', b'bytes'), True), ('send_binary', ('s', [120]), True), ('send_ping', ('b', b'x' * 126)),
            ('send_pong', ('s', [120])), ('send_text', ('s', [0xd800]), True), ('send_binary', ('o',), True),
            ('close', 1000, ('b', b'r' * 124)), ('close', 70000, ('b', b'x')), ('send_ping', ('o',)),
        ])
    return ('send_text', ('s', [111, 107]), True)


def gen_reactions(rng, n_events, density=0.3, **kw):
    rx = {}
    for i in range(n_events):
        if rng.random() < density:
            rx[i] = [gen_act(rng, **kw) for _ in range(rng.choice([1, 1, 2]))]
    return rx


# ---------------------------------------------------------------------------------------------
# whole histories: environment steps with time, faults, reactions (C07, C09, C13, C14, C15)

def handshake_variant(rng, sc, p_good=0.8):
    r = rng.random()
    if r < p_good:
        ext = rng.choice([b'', b'', b'Sec-WebSocket-Protocol: chat\r\n', b'Sec-WebSocket-Extensions: permessage-deflate\r\n',
                          b'Sec-WebSocket-Extensions: permessage-deflate; client_no_context_takeover\r\n'])
        if b'deflate' in ext:
            sc.compress = True
        return sc.good_reply(ext), 'good'
    if r < p_good + 0.07:
        return b'HTTP/1.1 403 Forbidden\r\nServer: x\r\n\r\n', 'reject'
    if r < p_good + 0.12:
        return b'HTTP/1.1 101 Switching Protocols\r\nUpgrade: websocket\r\nSec-WebSocket-Accept: AAAA\r\n\r\n', 'reject'
    if r < p_good + 0.16:
        return b'garbage without terminator ' * 3, 'garbage'
    return b'X' * 16400, 'oversize'


def gen_history(rng, n_steps=8, timers=False, faults=True, p_good=0.85, reactions=True, closes=True, key_seed=0):
    """a Scenario with a mixed environment script; always ends with a transport-ending step"""
    poll = rng.choice([1, 2, 5]) if timers else 5
    sc = Scenario([], poll=poll,
                  prate=(rng.choice([0, 2, 3, 7, 30]) if timers else 0),
                  ptimeout=(rng.choice([0, 0, 3, 6, 10]) if timers else 0),
                  ctimeout=(rng.choice([0, 2, 5, 30]) if timers else 30),
                  autopong=rng.random() < 0.85)
    sc.key_seed = key_seed
    sc.zero = rng.random() < 0.3
    sc.tdiv = rng.choice([1, 1, 4, 8]) if timers else 1      # times in whole, quarter or eighth seconds
    hs, kind = handshake_variant(rng, sc, p_good)
    pieces = [hs]
    for _ in range(n_steps):
        r = rng.random()
        if r < 0.55:
            pieces.append(b''.join(serialise_item(rng, gen_item(rng))))
        elif r < 0.65:
            pieces.append(b''.join(serialise_item(rng, gen_close(rng))))
        elif r < 0.72:
            cls = rng.choice(VIOLATIONS)
            if applicable(cls, False, False):
                pieces.append(gen_violation(rng, cls, False))
        elif r < 0.8:
            pieces.append(server_frame(rng.choice([1, 2]), b'part', fin=0))
        else:
            pieces.append(None)       # silence
    env = []
    buf = b''
    for pc in pieces:
        if pc is None:
            if buf:
                env += _as_reads(rng, buf, timers, poll)
                buf = b''
            env.append(('wait', poll, None))
            continue
        buf += pc
        if rng.random() < 0.5:
            env += _as_reads(rng, buf, timers, poll)
            buf = b''
    if buf:
        env += _as_reads(rng, buf, timers, poll)
    end = rng.random()
    if not faults or end < 0.6:
        env.append(('wait', rng.choice([0, 1, poll]) if timers else 1, ('eof',)))
    elif end < 0.8:
        env.append(('wait', 0, ('sockerr',)))
    elif end < 0.9:
        env.append(('wait', 0, ('othererr',)))
    else:
        env.append(('selerr',))
    sc.env = env
    if faults and rng.random() < 0.3:
        sc.wfail = set(rng.sample(range(0, 6), rng.choice([1, 1, 2])))
    if faults and rng.random() < 0.07:
        sc.conn = rng.choice(['sockfail', 'otherfail', 'selfail'])
    if reactions:
        sc.reactions = gen_reactions(rng, 14, density=rng.choice([0.0, 0.15, 0.4]), allow_close=closes)
    return sc


def _as_reads(rng, data, timers, poll):
    chunks = cut(data, random_cuts(rng, len(data), rng.choice([0, 0, 1, 3])))
    out = []
    for c in chunks:
        while len(c) > 65536:
            out.append(('wait', 0, ('data', c[:65536])))
            c = c[65536:]
        dt = rng.choice([0, 0, 1, poll]) if timers else 0
        out.append(('wait', dt, ('data', c)))
    return out
