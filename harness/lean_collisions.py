#!/usr/bin/env python3
"""lean_collisions.py <fileA...> -- <fileB...>: names declared (theorem/def/lemma/structure/inductive/abbrev) in both groups"""
import re, sys
args = sys.argv[1:]
i = args.index('--')
A, B = args[:i], args[i + 1:]
def names(files):
    out = set()
    for f in files:
        ns = []
        for line in open(f):
            m = re.match(r'^namespace\s+(\S+)', line)
            if m: ns.append(m.group(1)); continue
            m = re.match(r'^end\s+(\S+)', line)
            if m and ns and ns[-1].split('.')[-1] == m.group(1).split('.')[-1]: ns.pop(); continue
            m = re.match(r'^(?:@\[[^\]]*\]\s*)?(?:private\s+|protected\s+)?(?:theorem|def|lemma|structure|inductive|abbrev|instance)\s+([^\s:({\[]+)', line)
            if m: out.add('.'.join(ns + [m.group(1)]))
    return out
for n in sorted(names(A) & names(B)):
    print(n)
