#!/usr/bin/env python3
"""mkbaseline.py: record the definitions py2lean translates from the CURRENT /repo (every site must translate) in
harness/py2lean_baseline.json.  Run by hand after the translator or the pinned source changed and all checks are OK; the
file is committed.  A later run whose source has been restructured so that a site leaves the accepted subset re-emits the
recorded definition for that site and ties it to the source differentially (see py2lean.generate)."""
import json, os, sys
HERE = os.path.dirname(os.path.abspath(__file__))
sys.path.insert(0, HERE)
import py2lean
repo = os.environ.get('LOMOND_REPO', '/repo')
text, problems, defs = py2lean.generate(repo, baseline={})
if problems:
    print('not recording: %s' % problems)
    sys.exit(1)
json.dump(py2lean.generate.record, open(py2lean.BASELINE, 'w'), indent=0, sort_keys=True)
print('recorded %d sites' % len(py2lean.generate.record))
