"""Independent reference codecs (written from the RFCs, not from lomond):
   RFC 6455 server-side frame encoder / client-frame decoder, RFC 3629 validity,
   a zlib-based RFC 7692 peer."""
from __future__ import annotations
import struct, zlib


def server_frame(opcode, payload=b'', fin=1, rsv1=0, rsv2=0, rsv3=0, lenform='min', mask=None):
    """one unmasked server frame; lenform in {'min','16','64'} picks a (possibly non-minimal) length form"""
    b0 = (fin << 7) | (rsv1 << 6) | (rsv2 << 5) | (rsv3 << 4) | opcode
    n = len(payload)
    mbit = 0x80 if mask is not None else 0
    if lenform == 'min':
        lenform = '7' if n < 126 else ('16' if n < 65536 else '64')
    if lenform == '7':
        assert n < 126
        hdr = bytes([b0, mbit | n])
    elif lenform == '16':
        assert n < 65536
        hdr = bytes([b0, mbit | 126]) + struct.pack('!H', n)
    else:
        hdr = bytes([b0, mbit | 127]) + struct.pack('!Q', n)
    if mask is not None:
        payload = bytes(b ^ mask[i % 4] for i, b in enumerate(payload))
        return hdr + bytes(mask) + payload
    return hdr + bytes(payload)


def close_payload(code=None, reason=b''):
    if code is None:
        return b''
    return struct.pack('!H', code) + reason


class ClientFrameError(Exception):
    pass


def decode_client_frames(wire):
    """decode a byte string as a sequence of RFC 6455 *client* frames; raises ClientFrameError.
       returns list of dict(fin, rsv1, rsv2, rsv3, opcode, key, payload)"""
    out = []
    pos = 0
    n = len(wire)
    while pos < n:
        if n - pos < 2:
            raise ClientFrameError('truncated header at %d' % pos)
        b0, b1 = wire[pos], wire[pos + 1]
        pos += 2
        if not (b1 & 0x80):
            raise ClientFrameError('client frame not masked')
        ln = b1 & 0x7f
        if ln == 126:
            if n - pos < 2:
                raise ClientFrameError('truncated ext16')
            ln = struct.unpack('!H', wire[pos:pos + 2])[0]
            pos += 2
            if ln < 126:
                raise ClientFrameError('non-minimal 16-bit length')
        elif ln == 127:
            if n - pos < 8:
                raise ClientFrameError('truncated ext64')
            ln = struct.unpack('!Q', wire[pos:pos + 8])[0]
            pos += 8
            if ln < 65536:
                raise ClientFrameError('non-minimal 64-bit length')
            if ln >= 1 << 63:
                raise ClientFrameError('length >= 2^63')
        if n - pos < 4 + ln:
            raise ClientFrameError('truncated frame body')
        key = wire[pos:pos + 4]
        pos += 4
        body = wire[pos:pos + ln]
        pos += ln
        payload = bytes(b ^ key[i % 4] for i, b in enumerate(body))
        f = dict(fin=b0 >> 7, rsv1=(b0 >> 6) & 1, rsv2=(b0 >> 5) & 1, rsv3=(b0 >> 4) & 1,
                 opcode=b0 & 15, key=bytes(key), payload=payload)
        if f['opcode'] >= 8 and (ln > 125 or not f['fin']):
            raise ClientFrameError('invalid control frame (len %d fin %d)' % (ln, f['fin']))
        out.append(f)
    return out


def rfc3629_valid(bs):
    """well-formed UTF-8 per RFC 3629 section 4 ABNF"""
    i, n = 0, len(bs)
    def tail(k):
        return k < n and 0x80 <= bs[k] <= 0xBF
    while i < n:
        b = bs[i]
        if b <= 0x7F:
            i += 1
        elif 0xC2 <= b <= 0xDF:
            if not tail(i + 1):
                return False
            i += 2
        elif b == 0xE0:
            if not (i + 1 < n and 0xA0 <= bs[i + 1] <= 0xBF and tail(i + 2)):
                return False
            i += 3
        elif 0xE1 <= b <= 0xEC or b in (0xEE, 0xEF):
            if not (tail(i + 1) and tail(i + 2)):
                return False
            i += 3
        elif b == 0xED:
            if not (i + 1 < n and 0x80 <= bs[i + 1] <= 0x9F and tail(i + 2)):
                return False
            i += 3
        elif b == 0xF0:
            if not (i + 1 < n and 0x90 <= bs[i + 1] <= 0xBF and tail(i + 2) and tail(i + 3)):
                return False
            i += 4
        elif 0xF1 <= b <= 0xF3:
            if not (tail(i + 1) and tail(i + 2) and tail(i + 3)):
                return False
            i += 4
        elif b == 0xF4:
            if not (i + 1 < n and 0x80 <= bs[i + 1] <= 0x8F and tail(i + 2) and tail(i + 3)):
                return False
            i += 4
        else:
            return False
    return True


def first_bad_utf8_index(bs):
    """length of the shortest prefix that has no well-formed extension, or None"""
    for k in range(1, len(bs) + 1):
        if not _extendable(bs[:k]):
            return k
    return None


def _extendable(prefix):
    # a prefix is extendable iff it is valid, or valid after appending up to 3 continuation-ish bytes
    if rfc3629_valid(prefix):
        return True
    for suffix in _SUFFIXES:
        if rfc3629_valid(prefix + suffix):
            return True
    return False


_SUFFIXES = [bytes(s) for s in (
    [0x80], [0xA0], [0x90], [0x80, 0x80], [0xA0, 0x80], [0x90, 0x80], [0x80, 0x80, 0x80],
    [0x90, 0x80, 0x80], [0xBF], [0x8F], [0x9F], [0x8F, 0x80], [0x9F, 0x80], [0x8F, 0x80, 0x80],
    [0xBF, 0x80], [0xBF, 0x80, 0x80])]


class DeflatePeer:
    """RFC 7692 peer built on zlib: compresses server->client messages with window 2^sw,
       inflates client->server messages with window 2^cw, honouring no_context_takeover flags."""

    def __init__(self, server_bits=15, client_bits=15, server_no_takeover=False, client_no_takeover=False):
        self.sw, self.cw = server_bits, client_bits
        self.snt, self.cnt = server_no_takeover, client_no_takeover
        self._c = None
        self._d = None

    def compress(self, data):
        if self._c is None:
            self._c = zlib.compressobj(zlib.Z_DEFAULT_COMPRESSION, zlib.DEFLATED, -max(9, self.sw))
        out = self._c.compress(data) + self._c.flush(zlib.Z_SYNC_FLUSH)
        assert out.endswith(b'\x00\x00\xff\xff')
        if self.snt:
            self._c = None
        return out[:-4]

    def decompress(self, payload):
        if self._d is None:
            self._d = zlib.decompressobj(-self.cw)
        out = self._d.decompress(payload + b'\x00\x00\xff\xff')
        if self.cnt:
            self._d = None
        return out


# ---------------------------------------------------------------------------------------------
# RFC 1951 from scratch (independent of zlib and of the Lean model): a raw inflater that logs
# the LZ77 tokens it meets (so the largest match distance of a stream can be measured), and a
# small raw *encoder* for hand-made token streams (fixed / dynamic / stored blocks) used to
# build streams zlib itself never produces (distances at the edge of the window, odd codes).

class InflateError(Exception):
    pass


class _EOI(Exception):
    pass


_LBASE = [3, 4, 5, 6, 7, 8, 9, 10, 11, 13, 15, 17, 19, 23, 27, 31, 35, 43, 51, 59, 67, 83, 99, 115, 131, 163, 195, 227, 258]
_LEXT = [0, 0, 0, 0, 0, 0, 0, 0, 1, 1, 1, 1, 2, 2, 2, 2, 3, 3, 3, 3, 4, 4, 4, 4, 5, 5, 5, 5, 0]
_DBASE = [1, 2, 3, 4, 5, 7, 9, 13, 17, 25, 33, 49, 65, 97, 129, 193, 257, 385, 513, 769, 1025, 1537, 2049, 3073, 4097,
          6145, 8193, 12289, 16385, 24577]
_DEXT = [0, 0, 0, 0, 1, 1, 2, 2, 3, 3, 4, 4, 5, 5, 6, 6, 7, 7, 8, 8, 9, 9, 10, 10, 11, 11, 12, 12, 13, 13]
_CLORDER = [16, 17, 18, 0, 8, 7, 9, 6, 10, 5, 11, 4, 12, 3, 13, 2, 14, 1, 15]


def _rev(code, n):
    r = 0
    for _ in range(n):
        r = (r << 1) | (code & 1)
        code >>= 1
    return r


def canonical_codes(lens):
    """RFC 1951 3.2.2: symbol -> (code, length) for the non-zero lengths"""
    maxl = max(lens) if lens else 0
    bl = [0] * (maxl + 2)
    for l in lens:
        if l:
            bl[l] += 1
    code, nxt = 0, [0] * (maxl + 2)
    for b in range(1, maxl + 1):
        code = (code + bl[b - 1]) << 1 if b > 1 else 0
        nxt[b] = code
    out = {}
    for s, l in enumerate(lens):
        if l:
            out[s] = (nxt[l], l)
            nxt[l] += 1
    return out


class _Dec:
    """prefix-code decoder: table over `root` peeked bits, dictionary for longer codes"""

    def __init__(self, lens):
        self.codes = canonical_codes(lens)
        self.maxl = max(lens) if lens else 0
        self.root = min(self.maxl, 9)
        self.table = [None] * (1 << self.root) if self.root else []
        self.long = {}
        for s, (c, l) in self.codes.items():
            r = _rev(c, l)
            if l <= self.root:
                for hi in range(1 << (self.root - l)):
                    self.table[r | (hi << l)] = (s, l)
            else:
                self.long[(r, l)] = s


class _BitReader:
    def __init__(self, data):
        self.d, self.n, self.i, self.buf, self.cnt = data, len(data), 0, 0, 0

    def need(self, k):
        while self.cnt < k:
            if self.i >= self.n:
                return False
            self.buf |= self.d[self.i] << self.cnt
            self.i += 1
            self.cnt += 8
        return True

    def get(self, k):
        if not self.need(k):
            raise _EOI()
        v = self.buf & ((1 << k) - 1)
        self.buf >>= k
        self.cnt -= k
        return v

    def sym(self, dec):
        if dec.maxl == 0:
            raise InflateError('empty code used')
        self.need(dec.maxl)
        e = dec.table[self.buf & ((1 << dec.root) - 1)] if dec.root else None
        if e is not None:
            s, l = e
            if l > self.cnt:
                raise _EOI()
            self.buf >>= l
            self.cnt -= l
            return s
        for l in range(dec.root + 1, dec.maxl + 1):
            if l > self.cnt:
                raise _EOI()
            s = dec.long.get((self.buf & ((1 << l) - 1), l))
            if s is not None:
                self.buf >>= l
                self.cnt -= l
                return s
        if self.cnt < dec.maxl:
            raise _EOI()
        raise InflateError('invalid code')

    def align(self):
        k = self.cnt % 8
        self.buf >>= k
        self.cnt -= k


_FIXED_LIT = None
_FIXED_DIST = None


def inflate_log(data, window=b'', max_window=None, stop_at_final=True):
    """Inflate the complete raw-deflate blocks in `data`, with `window` as preceding history.
       `stop_at_final=False`: a BFINAL=1 block does not end the data; the next block starts at the
       next byte boundary (a new deflate stream that keeps the window: RFC 7692 7.2.3.4).
       Returns dict(out=bytes, max_dist=int, matches=int, literals=int, final=bool, blocks=[types]).
       Raises InflateError (also when the data ends inside a block).  `max_window`: fail on a
       distance greater than it."""
    global _FIXED_LIT, _FIXED_DIST
    if _FIXED_LIT is None:
        _FIXED_LIT = _Dec([8] * 144 + [9] * 112 + [7] * 24 + [8] * 8)
        _FIXED_DIST = _Dec([5] * 32)
    br = _BitReader(data)
    hist = bytearray(window)
    base = len(hist)
    max_dist = matches = literals = 0
    final = False
    types = []
    try:
        while True:
            if br.cnt == 0 and br.i >= br.n:
                break
            hdr = br.get(3)
            last, typ = hdr & 1, hdr >> 1
            types.append(typ)
            if typ == 0:
                br.align()
                ln = br.get(16)
                nl = br.get(16)
                if ln ^ nl != 0xffff:
                    raise InflateError('stored lengths')
                for _ in range(ln):
                    hist.append(br.get(8))
                literals += ln
            elif typ == 3:
                raise InflateError('block type 3')
            else:
                if typ == 1:
                    lit, dist = _FIXED_LIT, _FIXED_DIST
                else:
                    nlen, ndist, ncode = br.get(5) + 257, br.get(5) + 1, br.get(4) + 4
                    if nlen > 286 or ndist > 30:
                        raise InflateError('too many symbols')
                    cl = [0] * 19
                    for k in range(ncode):
                        cl[_CLORDER[k]] = br.get(3)
                    cld = _Dec(cl)
                    lens = []
                    while len(lens) < nlen + ndist:
                        s = br.sym(cld)
                        if s < 16:
                            lens.append(s)
                        elif s == 16:
                            if not lens:
                                raise InflateError('repeat at start')
                            lens += [lens[-1]] * (3 + br.get(2))
                        elif s == 17:
                            lens += [0] * (3 + br.get(3))
                        else:
                            lens += [0] * (11 + br.get(7))
                    if len(lens) > nlen + ndist:
                        raise InflateError('repeat overflow')
                    lit, dist = _Dec(lens[:nlen]), _Dec(lens[nlen:])
                while True:
                    s = br.sym(lit)
                    if s < 256:
                        hist.append(s)
                        literals += 1
                    elif s == 256:
                        break
                    else:
                        if s >= 286:
                            raise InflateError('invalid length symbol')
                        ln = _LBASE[s - 257] + br.get(_LEXT[s - 257])
                        ds = br.sym(dist)
                        if ds >= 30:
                            raise InflateError('invalid distance symbol')
                        d = _DBASE[ds] + br.get(_DEXT[ds])
                        if d > len(hist) or (max_window is not None and d > max_window):
                            raise InflateError('distance too far back')
                        matches += 1
                        if d > max_dist:
                            max_dist = d
                        start = len(hist) - d
                        if d >= ln:
                            hist += hist[start:start + ln]
                        else:
                            for k in range(ln):
                                hist.append(hist[start + k])
            if last:
                final = True
                if stop_at_final:
                    break
                br.align()
    except _EOI:
        raise InflateError('data ends inside a block')
    return dict(out=bytes(hist[base:]), max_dist=max_dist, matches=matches, literals=literals, final=final, blocks=types)


class BitWriter:
    def __init__(self):
        self.buf, self.cnt, self.out = 0, 0, bytearray()

    def put(self, v, n):
        """n bits of v, least significant first (header fields, extra bits)"""
        self.buf |= (v & ((1 << n) - 1)) << self.cnt
        self.cnt += n
        while self.cnt >= 8:
            self.out.append(self.buf & 0xff)
            self.buf >>= 8
            self.cnt -= 8

    def code(self, c, n):
        """a Huffman code: most significant bit first"""
        self.put(_rev(c, n), n)

    def align(self):
        if self.cnt:
            self.put(0, 8 - self.cnt)

    def bytes(self):
        assert self.cnt == 0
        return bytes(self.out)


def _len_sym(ln):
    for i in range(28, -1, -1):
        if ln >= _LBASE[i]:
            if i == 28 or ln < _LBASE[i] + (1 << _LEXT[i]):
                return 257 + i, ln - _LBASE[i], _LEXT[i]
    raise ValueError(ln)


def _dist_sym(d):
    for i in range(29, -1, -1):
        if d >= _DBASE[i]:
            return i, d - _DBASE[i], _DEXT[i]
    raise ValueError(d)


def put_tokens(bw, tokens, litcodes, distcodes):
    """tokens: ints (literals) or (dist, len) pairs; followed by end-of-block"""
    for t in tokens:
        if isinstance(t, int):
            bw.code(*litcodes[t])
        else:
            d, ln = t
            s, e, n = _len_sym(ln)
            bw.code(*litcodes[s])
            bw.put(e, n)
            ds, de, dn = _dist_sym(d)
            bw.code(*distcodes[ds])
            bw.put(de, dn)
    bw.code(*litcodes[256])


def put_fixed_block(bw, tokens, final=False):
    bw.put(1 if final else 0, 1)
    bw.put(1, 2)
    put_tokens(bw, tokens, canonical_codes([8] * 144 + [9] * 112 + [7] * 24 + [8] * 8), canonical_codes([5] * 32))


def put_stored_block(bw, data, final=False):
    bw.put(1 if final else 0, 1)
    bw.put(0, 2)
    bw.align()
    bw.put(len(data), 16)
    bw.put(len(data) ^ 0xffff, 16)
    for b in data:
        bw.put(b, 8)


def huff_lengths(freq, limit):
    """code lengths for the symbols with freq > 0 (Kraft-complete when >= 2 symbols), max `limit`"""
    import heapq
    syms = [s for s, f in enumerate(freq) if f]
    lens = [0] * len(freq)
    if not syms:
        return lens
    if len(syms) == 1:
        lens[syms[0]] = 1
        return lens
    heap = [(freq[s], i, [s]) for i, s in enumerate(syms)]
    heapq.heapify(heap)
    k = len(heap)
    while len(heap) > 1:
        a = heapq.heappop(heap)
        b = heapq.heappop(heap)
        for s in a[2] + b[2]:
            lens[s] += 1
        heapq.heappush(heap, (a[0] + b[0], k, a[2] + b[2]))
        k += 1
    if max(lens) > limit:
        # flatten: give every used symbol the same length if that is complete, else a two-length complete code
        n = len(syms)
        b = max(1, (n - 1).bit_length())
        short = (1 << b) - n          # this many symbols can have b-1 bits
        order = sorted(syms, key=lambda s: -freq[s])
        for i, s in enumerate(order):
            lens[s] = b - 1 if i < short else b
        assert max(lens) <= limit
    return lens


def put_dynamic_header(bw, litlens, distlens, final=False, use_repeats=True, cl_lens=None):
    """block header of a dynamic block with the given code lengths (trailing zeros trimmed to the
       minimum counts); the code-length code is built from the symbol frequencies unless given"""
    nlen = max(257, max([i + 1 for i, l in enumerate(litlens) if l] or [257]))
    ndist = max(1, max([i + 1 for i, l in enumerate(distlens) if l] or [1]))
    seq = list(litlens[:nlen]) + [0] * max(0, nlen - len(litlens)) + list(distlens[:ndist]) + [0] * max(0, ndist - len(distlens))
    syms = []     # (symbol, extra, nbits)
    i = 0
    while i < len(seq):
        v = seq[i]
        run = 1
        while i + run < len(seq) and seq[i + run] == v:
            run += 1
        if use_repeats and v == 0 and run >= 3:
            r = min(run, 138)
            syms.append((17, r - 3, 3) if r <= 10 else (18, r - 11, 7))
            i += r
        elif use_repeats and run >= 4:
            syms.append((v, 0, 0))
            r = min(run - 1, 6)
            syms.append((16, r - 3, 2))
            i += 1 + r
        else:
            syms.append((v, 0, 0))
            i += 1
    if cl_lens is None:
        f = [0] * 19
        for s, _, _ in syms:
            f[s] += 1
        if sum(1 for x in f if x) == 1:
            f[(f.index(max(f)) + 1) % 19] += 1      # a code-length code must be complete
        cl_lens = huff_lengths(f, 7)
    ncode = max(4, max(k + 1 for k in range(19) if cl_lens[_CLORDER[k]] or k < 4))
    bw.put(1 if final else 0, 1)
    bw.put(2, 2)
    bw.put(nlen - 257, 5)
    bw.put(ndist - 1, 5)
    bw.put(ncode - 4, 4)
    for k in range(ncode):
        bw.put(cl_lens[_CLORDER[k]], 3)
    cc = canonical_codes(cl_lens)
    for s, e, n in syms:
        bw.code(*cc[s])
        if n:
            bw.put(e, n)


# --- code lengths as explicit code-length-alphabet items (RFC 1951 3.2.7) -----------------------------------
# an item is ('l', n): the length n (0..15) | ('a', k): symbol 16, copy the previous length k = 3..6 times |
# ('b', k): symbol 17, k = 3..10 zeros | ('c', k): symbol 18, k = 11..138 zeros

_ITEM_SYM = {'a': (16, 3, 6, 2), 'b': (17, 3, 10, 3), 'c': (18, 11, 138, 7)}      # symbol, min, max, extra bits


def item_symbol(it):
    return it[1] if it[0] == 'l' else _ITEM_SYM[it[0]][0]


def item_in_range(it):
    if it[0] == 'l':
        return 0 <= it[1] <= 15
    _, lo, hi, _ = _ITEM_SYM[it[0]]
    return lo <= it[1] <= hi


def expand_items(items):
    """the code lengths the items stand for (written from the RFC text); None if symbol 16 has no previous length"""
    out = []
    for kind, k in items:
        if kind == 'l':
            out.append(k)
        elif kind == 'a':
            if not out:
                return None
            out += [out[-1]] * k
        else:
            out += [0] * k
    return out


def rle_items(seq, rng=None):
    """code-length items for `seq`.  rng=None: greedy (zeros: 138 at a time with symbol 18 while >= 11 are left, symbol 17
       for 3..10, else single zeros; other lengths: the length, then 6 copies at a time with symbol 16 while >= 3 are
       left, else single lengths).  With rng: a random legal segmentation (symbol 16 after a zero as well)."""
    items, i, n = [], 0, len(seq)
    while i < n:
        v = seq[i]
        run = 1
        while i + run < n and seq[i + run] == v:
            run += 1
        if rng is None:
            if v == 0:
                left = run
                while left:
                    if left < 3:
                        items.append(('l', 0))
                        left -= 1
                    elif left <= 10:
                        items.append(('b', left))
                        left = 0
                    elif left <= 138:
                        items.append(('c', left))
                        left = 0
                    else:
                        items.append(('c', 138))
                        left -= 138
            else:
                items.append(('l', v))
                left = run - 1
                while left:
                    if left < 3:
                        items.append(('l', v))
                        left -= 1
                    elif left <= 6:
                        items.append(('a', left))
                        left = 0
                    else:
                        items.append(('a', 6))
                        left -= 6
            i += run
        else:
            opts = [('l', v)]
            if v == 0 and run >= 3:
                opts += [('b', rng.choice([3, min(run, 10), rng.randint(3, min(run, 10))]))] * 2
            if v == 0 and run >= 11:
                opts += [('c', rng.choice([11, min(run, 138), rng.randint(11, min(run, 138))]))] * 3
            if i > 0 and seq[i - 1] == v and run >= 3:
                opts += [('a', rng.choice([3, min(run, 6), rng.randint(3, min(run, 6))]))] * 3
            it = rng.choice(opts)
            items.append(it)
            i += 1 if it[0] == 'l' else it[1]
    return items


def put_dynamic_header_items(bw, nlen, ndist, items, cl_lens, ncode, final=False):
    """block header of a dynamic block whose nlen + ndist code lengths are sent as `items`, in the canonical code of
       the 19 code-length-code lengths `cl_lens`, of which the first `ncode` (in the order of 3.2.7) are sent"""
    bw.put(1 if final else 0, 1)
    bw.put(2, 2)
    bw.put(nlen - 257, 5)
    bw.put(ndist - 1, 5)
    bw.put(ncode - 4, 4)
    for k in range(ncode):
        bw.put(cl_lens[_CLORDER[k]], 3)
    cc = canonical_codes(cl_lens)
    for it in items:
        bw.code(*cc[item_symbol(it)])
        if it[0] != 'l':
            _, lo, _, nb = _ITEM_SYM[it[0]]
            bw.put(it[1] - lo, nb)


def put_dynamic_block(bw, tokens, final=False, use_repeats=True):
    lf, df = [0] * 286, [0] * 30
    lf[256] = 1
    for t in tokens:
        if isinstance(t, int):
            lf[t] += 1
        else:
            lf[_len_sym(t[1])[0]] += 1
            df[_dist_sym(t[0])[0]] += 1
    if sum(1 for x in lf if x) == 1:
        lf[0] += 1
    litlens = huff_lengths(lf, 15)
    distlens = huff_lengths(df, 15)
    put_dynamic_header(bw, litlens, distlens, final, use_repeats)
    put_tokens(bw, tokens, canonical_codes(litlens), canonical_codes(distlens))


def sync_tail(bw):
    """the empty stored block a sync flush ends with (`00 00 ff ff` after alignment)"""
    put_stored_block(bw, b'')


def expand_tokens(tokens, window=b''):
    """what a token list means, given the preceding history"""
    h = bytearray(window)
    base = len(h)
    for t in tokens:
        if isinstance(t, int):
            h.append(t)
        else:
            d, ln = t
            assert 0 < d <= len(h)
            for _ in range(ln):
                h.append(h[-d])
    return bytes(h[base:])
