"""Independent reference codecs (written from the RFCs, not from lomond):
   RFC 6455 server-side frame encoder / client-frame decoder, RFC 3629 validity,
   a zlib-based RFC 7692 peer."""
from __future__ import annotations
import struct, zlib


def server_frame(opcode, payload=b'', fin=1, rsv1=0, rsv2=0, rsv3=0, lenform='min', mask=None):
    """one unmasked server frame; lenform in {'min','16','64'} picks a (possibly non-minimal) length form"""
    b0 = (fin << 7) | (rsv1 << 6) | (rsv2 << 5) | (rsv3 << 4) | opcode
    n = len(payload)
    mbit = 0x80 if mask is not None else 0
    if lenform == 'min':
        lenform = '7' if n < 126 else ('16' if n < 65536 else '64')
    if lenform == '7':
        assert n < 126
        hdr = bytes([b0, mbit | n])
    elif lenform == '16':
        assert n < 65536
        hdr = bytes([b0, mbit | 126]) + struct.pack('!H', n)
    else:
        hdr = bytes([b0, mbit | 127]) + struct.pack('!Q', n)
    if mask is not None:
        payload = bytes(b ^ mask[i % 4] for i, b in enumerate(payload))
        return hdr + bytes(mask) + payload
    return hdr + bytes(payload)


def close_payload(code=None, reason=b''):
    if code is None:
        return b''
    return struct.pack('!H', code) + reason


class ClientFrameError(Exception):
    pass


def decode_client_frames(wire):
    """decode a byte string as a sequence of RFC 6455 *client* frames; raises ClientFrameError.
       returns list of dict(fin, rsv1, rsv2, rsv3, opcode, key, payload)"""
    out = []
    pos = 0
    n = len(wire)
    while pos < n:
        if n - pos < 2:
            raise ClientFrameError('truncated header at %d' % pos)
        b0, b1 = wire[pos], wire[pos + 1]
        pos += 2
        if not (b1 & 0x80):
            raise ClientFrameError('client frame not masked')
        ln = b1 & 0x7f
        if ln == 126:
            if n - pos < 2:
                raise ClientFrameError('truncated ext16')
            ln = struct.unpack('!H', wire[pos:pos + 2])[0]
            pos += 2
            if ln < 126:
                raise ClientFrameError('non-minimal 16-bit length')
        elif ln == 127:
            if n - pos < 8:
                raise ClientFrameError('truncated ext64')
            ln = struct.unpack('!Q', wire[pos:pos + 8])[0]
            pos += 8
            if ln < 65536:
                raise ClientFrameError('non-minimal 64-bit length')
            if ln >= 1 << 63:
                raise ClientFrameError('length >= 2^63')
        if n - pos < 4 + ln:
            raise ClientFrameError('truncated frame body')
        key = wire[pos:pos + 4]
        pos += 4
        body = wire[pos:pos + ln]
        pos += ln
        payload = bytes(b ^ key[i % 4] for i, b in enumerate(body))
        f = dict(fin=b0 >> 7, rsv1=(b0 >> 6) & 1, rsv2=(b0 >> 5) & 1, rsv3=(b0 >> 4) & 1,
                 opcode=b0 & 15, key=bytes(key), payload=payload)
        if f['opcode'] >= 8 and (ln > 125 or not f['fin']):
            raise ClientFrameError('invalid control frame (len %d fin %d)' % (ln, f['fin']))
        out.append(f)
    return out


def rfc3629_valid(bs):
    """well-formed UTF-8 per RFC 3629 section 4 ABNF"""
    i, n = 0, len(bs)
    def tail(k):
        return k < n and 0x80 <= bs[k] <= 0xBF
    while i < n:
        b = bs[i]
        if b <= 0x7F:
            i += 1
        elif 0xC2 <= b <= 0xDF:
            if not tail(i + 1):
                return False
            i += 2
        elif b == 0xE0:
            if not (i + 1 < n and 0xA0 <= bs[i + 1] <= 0xBF and tail(i + 2)):
                return False
            i += 3
        elif 0xE1 <= b <= 0xEC or b in (0xEE, 0xEF):
            if not (tail(i + 1) and tail(i + 2)):
                return False
            i += 3
        elif b == 0xED:
            if not (i + 1 < n and 0x80 <= bs[i + 1] <= 0x9F and tail(i + 2)):
                return False
            i += 3
        elif b == 0xF0:
            if not (i + 1 < n and 0x90 <= bs[i + 1] <= 0xBF and tail(i + 2) and tail(i + 3)):
                return False
            i += 4
        elif 0xF1 <= b <= 0xF3:
            if not (tail(i + 1) and tail(i + 2) and tail(i + 3)):
                return False
            i += 4
        elif b == 0xF4:
            if not (i + 1 < n and 0x80 <= bs[i + 1] <= 0x8F and tail(i + 2) and tail(i + 3)):
                return False
            i += 4
        else:
            return False
    return True


def first_bad_utf8_index(bs):
    """length of the shortest prefix that has no well-formed extension, or None"""
    for k in range(1, len(bs) + 1):
        if not _extendable(bs[:k]):
            return k
    return None


def _extendable(prefix):
    # a prefix is extendable iff it is valid, or valid after appending up to 3 continuation-ish bytes
    if rfc3629_valid(prefix):
        return True
    for suffix in _SUFFIXES:
        if rfc3629_valid(prefix + suffix):
            return True
    return False


_SUFFIXES = [bytes(s) for s in (
    [0x80], [0xA0], [0x90], [0x80, 0x80], [0xA0, 0x80], [0x90, 0x80], [0x80, 0x80, 0x80],
    [0x90, 0x80, 0x80], [0xBF], [0x8F], [0x9F], [0x8F, 0x80], [0x9F, 0x80], [0x8F, 0x80, 0x80],
    [0xBF, 0x80], [0xBF, 0x80, 0x80])]


class DeflatePeer:
    """RFC 7692 peer built on zlib: compresses server->client messages with window 2^sw,
       inflates client->server messages with window 2^cw, honouring no_context_takeover flags."""

    def __init__(self, server_bits=15, client_bits=15, server_no_takeover=False, client_no_takeover=False):
        self.sw, self.cw = server_bits, client_bits
        self.snt, self.cnt = server_no_takeover, client_no_takeover
        self._c = None
        self._d = None

    def compress(self, data):
        if self._c is None:
            self._c = zlib.compressobj(zlib.Z_DEFAULT_COMPRESSION, zlib.DEFLATED, -max(9, self.sw))
        out = self._c.compress(data) + self._c.flush(zlib.Z_SYNC_FLUSH)
        assert out.endswith(b'\x00\x00\xff\xff')
        if self.snt:
            self._c = None
        return out[:-4]

    def decompress(self, payload):
        if self._d is None:
            self._d = zlib.decompressobj(-self.cw)
        out = self._d.decompress(payload + b'\x00\x00\xff\xff')
        if self.cnt:
            self._d = None
        return out
