import argparse, os, sys, traceback
sys.path.insert(0, os.path.dirname(os.path.abspath(__file__)))
import runner


def main():
    ap = argparse.ArgumentParser()
    ap.add_argument('pid')
    ap.add_argument('--tier', default=os.environ.get('VERIF_TIER', 'quick'))
    ap.add_argument('--replay')
    ap.add_argument('--seed', type=int, default=int(os.environ.get('VERIF_SEED', '0') or 0))
    a = ap.parse_args()
    runner._silence()
    try:
        rc = runner.run_check(a.pid.upper(), a.tier, a.seed, a.replay)
    except runner.Infra as e:
        print('INFRA-ERROR %s: %s' % (a.pid, e))
        sys.exit(2)
    except Exception:
        traceback.print_exc()
        print('INFRA-ERROR %s: unexpected harness exception' % a.pid)
        sys.exit(2)
    sys.exit(rc)


if __name__ == '__main__':
    main()
