#!/usr/bin/env python3
"""difftrace.py <replay.json>: run the replay's scenario on the real code and on the model, show the first differing tokens"""
import json, os, sys
HERE = os.path.dirname(os.path.abspath(__file__))
sys.path.insert(0, HERE)
sys.path.insert(0, os.environ.get('LOMOND_REPO', '/repo'))
import runner, coreutil, world
rp = json.load(open(sys.argv[1]))
d = rp.get('first_disagreement') or rp
js = d.get('scenario') or rp.get('scenario') or (rp.get('input') if isinstance(rp.get('input'), dict) else None)
sc = coreutil.scenario_from_json(js)
prev = [coreutil.scenario_from_json(j) for j in d.get('previous', [])]
real = world.run_chain(prev + [sc])[-1].split(' ')
model = runner.model_run([world.scenario_line(sc)])[0].split(' ')
for i, (a, b) in enumerate(zip(real, model)):
    if a != b:
        break
else:
    i = min(len(real), len(model))
print('common prefix: %d tokens; ... %s' % (i, ' '.join(t[:60] for t in real[max(0, i - 4):i])))
print('REAL : ' + ' '.join(t[:100] for t in real[i:i + 8]))
print('MODEL: ' + ' '.join(t[:100] for t in model[i:i + 8]))
