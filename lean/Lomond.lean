-- Root of the `Lomond` library: model, proofs and property theorems.
import Lomond.Model.Basic
import Lomond.Model.Utf8
import Lomond.Proofs.Utf8
import Lomond.Properties.C05
