/-
  C19 companion — the port defaults of the proxy model are what the source says.

  `Lomond.Gen.Code.proxyDefaultPort` is produced from `WebsocketSession._connect_proxy`
  (`int(_proxy_url.port) if _proxy_url.port else (443 if _proxy_url.scheme == 'https' else 80)`)
  and `wsDefaultPort` from `WebSocket.__init__` by harness/py2lean.py on every check run.
  The theorems state that `Proxy.portOr`, `Proxy.mkTarget` (where the CONNECT request and the
  direct connection go) and `Proxy.connectProxy` (where the proxy connection goes) use exactly
  these.  Theorems only.
-/
import Lomond.Model.Proxy
import Lomond.Proofs.GenTie
import Lomond.Generated.Code

namespace Lomond.C19Gen
open Lomond Lomond.GenTie Lomond.Proxy
open Lomond.Gen.Code

/-- `int(port) if port else default` with the proxy's default -/
theorem gen_proxyPort (p : Option Nat) (https : Bool) :
    portOr p (if https then 443 else 80) = proxyDefaultPort p https := by
  unfold portOr proxyDefaultPort
  cases p <;> simp only [decide_eq_true_eq] <;> all_goals (gen_branches <;> gen_close)

/-- … and with the websocket's default -/
theorem gen_targetPort (p : Option Nat) (secure : Bool) :
    portOr p (if secure then 443 else 80) = wsDefaultPort p secure := by
  unfold portOr wsDefaultPort
  cases p <;> simp only [decide_eq_true_eq] <;> all_goals (gen_branches <;> gen_close)

/-- `WebSocket(url)`: the target's port is the generated default computation -/
theorem gen_mkTarget (url : Http.Str) :
    mkTarget url =
      match parseUrl url with
      | none => none
      | some u =>
        match u.port with
        | none => none
        | some p =>
          some { host := u.hostname,
                 port := wsDefaultPort p (decide (u.scheme = Http.ofString "wss")),
                 secure := decide (u.scheme = Http.ofString "wss") } := by
  unfold mkTarget
  simp only [gen_targetPort]
  cases parseUrl url with
  | none => rfl
  | some u => simp only []; cases u.port <;> rfl

/-- `_connect_proxy(proxy_url)`: whenever the URL parses, the first thing that happens is a
    connection to the proxy's host at the generated port, with TLS exactly for `https` -/
theorem gen_connectProxy_port (c : Cfg) (e : Env) (purl : Http.Str) (u : Url) (p : Option Nat)
    (hu : parseUrl purl = some u) (hp : u.port = some p) :
    (connectProxy c e purl).1.head? =
      some (.connectTo u.hostname (proxyDefaultPort p (decide (u.scheme = Http.ofString "https")))
              (decide (u.scheme = Http.ofString "https"))) := by
  unfold connectProxy
  simp only [hu, hp, gen_proxyPort]
  gen_branches <;> simp

example : proxyDefaultPort none true = 443 := by decide
example : proxyDefaultPort none false = 80 := by decide
example : proxyDefaultPort (some 3128) false = 3128 := by decide
example : proxyDefaultPort (some 0) true = 443 := by decide

end Lomond.C19Gen
