/-
  C06 companion 2 — when a message is sent compressed: what websocket.py says.

  Produced by harness/py2lean.py from the source on every check run: `wsSendBinary`
  (`WebSocket.send_binary`) and `wsSendText` (`WebSocket.send_text`): the type guard, the test
  `compress and self.state.compression`, which session method gets the payload (`send` or
  `send_compressed` with the negotiated compressor) and with which opcode.
  The theorems state that `Core.doAct` / `Core.sendData` decide exactly like these (`sendAs`, in
  `Proofs/GenTie2`, reads the translated result as the model's call of `sendFrame`).
-/
import Lomond.Proofs.GenTie
import Lomond.Proofs.GenTie2
import Lomond.Generated.Code

namespace Lomond.C06Gen2
open Lomond Lomond.Core Lomond.GenTie
open Lomond.Gen.Code

/-- `send_binary`: TypeError unless bytes; compressed iff asked for and negotiated; opcode BINARY -/
theorem gen_sendBinary_spec (isBytes compress compression : Bool) :
    wsSendBinary isBytes compress compression =
      if !isBytes then .error ⟨"TypeError", "data argument must be bytes"⟩
      else .ok (if compress && compression then 2 else 1, Gen.opBinary) := by
  cases isBytes <;> cases compress <;> cases compression <;> rfl

/-- `send_text`: TypeError unless str; compressed iff asked for and negotiated; opcode TEXT -/
theorem gen_sendText_spec (isText compress compression : Bool) :
    wsSendText isText compress compression =
      if !isText then .error ⟨"TypeError", "text argument must not be bytes"⟩
      else .ok (if compress && compression then 2 else 1, Gen.opText) := by
  cases isText <;> cases compress <;> cases compression <;> rfl

/-- `Core.sendData` with the BINARY opcode is the translated `send_binary` on bytes -/
theorem gen_sendData_binary (b : Bytes) (c : Bool) (s : Sys) :
    sendData Gen.opBinary b c s = sendAs (wsSendBinary true c s.compression.isSome) b s := by
  rw [gen_sendBinary_spec]
  unfold sendData sendAs
  cases c <;> cases s.compression.isSome <;> simp

/-- `Core.sendData` with the TEXT opcode is the translated `send_text` on a str (payload = the
    encoded text) -/
theorem gen_sendData_text (b : Bytes) (c : Bool) (s : Sys) :
    sendData Gen.opText b c s = sendAs (wsSendText true c s.compression.isSome) b s := by
  rw [gen_sendText_spec]
  unfold sendData sendAs
  cases c <;> cases s.compression.isSome <;> simp

/-- the application's `send_binary(data, compress)` in the model: the translated decision -/
theorem gen_doAct_sendBinary (b : Bytes) (c : Bool) (s : Sys) :
    doAct (.sendBinary (.bytes b) c) s = logRes (fun s => sendAs (wsSendBinary true c s.compression.isSome) b s) s := by
  have : (fun s => sendAs (wsSendBinary true c s.compression.isSome) b s) = sendData Gen.opBinary b c := by
    funext s; rw [gen_sendData_binary]
  rw [this]; rfl

/-- anything that is not bytes: the translated TypeError -/
theorem gen_doAct_sendBinary_other (a : Arg) (c : Bool) (s : Sys) (h : ∀ b, a ≠ .bytes b) :
    doAct (.sendBinary a c) s = logRes (fun s => sendAs (wsSendBinary false c s.compression.isSome) [] s) s := by
  have : (fun s : Sys => sendAs (wsSendBinary false c s.compression.isSome) [] s) = (pure .typeError : M ActRes) := by
    funext s; rw [gen_sendBinary_spec]; rfl
  rw [this]
  cases a with
  | bytes b => exact absurd rfl (h b)
  | str _ => rfl
  | other => rfl

/-- the application's `send_text(text, compress)` in the model, for a str that encodes (no lone
    surrogate: `text.encode('utf-8')`, outside the translated site, raises otherwise) -/
theorem gen_doAct_sendText (cps : List Nat) (c : Bool) (s : Sys) (h : hasSurrogate cps = false) :
    doAct (.sendText (.str cps) c) s =
      logRes (fun s => sendAs (wsSendText true c s.compression.isSome) (Utf8.encode cps) s) s := by
  have : (fun s => sendAs (wsSendText true c s.compression.isSome) (Utf8.encode cps) s) = sendData Gen.opText (Utf8.encode cps) c := by
    funext s; rw [gen_sendData_text]
  rw [this]
  simp [doAct, h]

/-- anything that is not a str: the translated TypeError -/
theorem gen_doAct_sendText_other (a : Arg) (c : Bool) (s : Sys) (h : ∀ t, a ≠ .str t) :
    doAct (.sendText a c) s = logRes (fun s => sendAs (wsSendText false c s.compression.isSome) [] s) s := by
  have : (fun s : Sys => sendAs (wsSendText false c s.compression.isSome) [] s) = (pure .typeError : M ActRes) := by
    funext s; rw [gen_sendText_spec]; rfl
  rw [this]
  cases a with
  | str t => exact absurd rfl (h t)
  | bytes _ => rfl
  | other => rfl

example : wsSendBinary true true true = .ok (2, 2) := by decide
example : wsSendBinary true true false = .ok (1, 2) := by decide
example : wsSendBinary true false true = .ok (1, 2) := by decide
example : wsSendText true true true = .ok (2, 1) := by decide
example : wsSendText false true true = .error ⟨"TypeError", "text argument must not be bytes"⟩ := by decide
example : hasSurrogate [104, 105] = false := by decide
example : ∀ b, Arg.other ≠ .bytes b := by intro b h; cases h
example : ∀ t, Arg.other ≠ .str t := by intro b h; cases h

end Lomond.C06Gen2
