/-
  C08 — source-structure facts the model of `session.write` / `_send_close` relies on,
  re-extracted from /repo on every run (Generated/Facts.lean).
-/
import Lomond.Generated.Facts
namespace Lomond.C08Src

/-- `WebsocketSession.write` tests, inside `with self._lock` and in this order: no socket ⇒
    WebSocketUnavailable, closed ⇒ WebSocketClosed, closing ⇒ WebSocketClosing — the order and
    classes of `Core.write`'s refusals — and `sendall` is called under the same lock. -/
theorem write_guards :
    Gen.writeChecks = [("self._sock is None", "errors.WebSocketUnavailable"),
                       ("self.websocket.is_closed", "errors.WebSocketClosed"),
                       ("self.websocket.is_closing", "errors.WebSocketClosing")] ∧
    Gen.sendallUnderLock = true := by decide

/-- `_send_close` swallows exactly WebSocketUnavailable (incl. Closed/Closing) and TransportFail:
    `close()` itself reports no transport trouble (the model's `wsClose` returns `ok`). -/
theorem send_close_swallows :
    Gen.sendCloseHandlers = ["(errors.WebSocketUnavailable, errors.TransportFail)"] := by decide

end Lomond.C08Src
