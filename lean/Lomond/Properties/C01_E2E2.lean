/-
  C01, end to end, generalised (companion of C01; helper lemmas: Proofs/DeliveryGenParse,
  DeliveryGen, DeliveryTimed, DeliveryTimedRun, DeliveryZ, ClosingRun).

  `C01E2E.connection_delivers` needs all reads at `wait 0`, no extension and an application that
  never closes.  Here:

  1. **Time** (`connection_delivers_any_timing`).  The environment is a *timed script*
     `timedEnv l ws dtE`: `l` is any list of loop cycles, each waiting `dt` ticks and then either
     reading nothing (`(dt, none)`) or reading a non-empty chunk (`(dt, some c)`), ending with a
     read; then idle cycles `ws`; then the end of the stream after `dtE` ticks.  The bytes of `l`
     are `reply ++ streamBytes items close` — **every segmentation** (cuts inside the HTTP reply,
     between reply and first frame, inside headers / extended lengths / UTF-8 characters) **and
     every timing** (waits before, between and "inside" the reads, idle cycles anywhere, before
     Ready too).  The application is any function of the event history that only sends; the ping
     rate is arbitrary (automatic Pings are writes, not events); `ping_timeout` is off; the close
     timer only matters after the server's Close has been echoed: `close_timeout` is off, or there
     is no Close, or the time between the last read and the end of the stream is shorter.  Then the
     events handed to the application, Polls apart (their number depends on the timing), are
     exactly `Connecting, Connected, Ready`, `C01.expected items close`, the terminal event.
  2. **permessage-deflate** (`connection_delivers_compressed`, `connection_delivers_peer_compressed`,
     `delivery_compressed`).  The reply grants an extension configuration `d`; items are `GItem`s:
     control frames and data messages, a data message being either plain or *compressed* (RSV1 on
     its first frame, any fragmentation — the cuts are cuts of the compressed bytes —, control
     frames between the fragments).  The inflater is a parameter (`cfg.inflate`); the hypothesis is
     C06's: the joined compressed payloads, handed to it one after the other through the
     negotiated context (`zOuts`, = C06's `feedMsgs`), give the `plain`s — e.g. because the peer is
     any compressor honouring the window and `inflate` reads its encoding (`Agrees`, as in
     `C06.core_lossless_peer_to_client`).  Then each compressed message is delivered once, in
     order, **with the plaintext as payload** (Text decoded), for every segmentation and timing.
  3. **Applications that close** (`delivery_closing_app`, `delivery_closing_app_closed`,
     `connection_delivers_closing_app`): for the class `CR.AppK` (send-only, except one
     `close(code, reason)` at the K-th event) every item is delivered, those arriving after the
     application's `close()` included, up to the server's Close, which is reported as `Closed`.
     (Frozen clock and no write faults, as in `C08E2E`.)
-/
import Lomond.Proofs.DeliveryZ
import Lomond.Properties.C01_E2E
import Lomond.Properties.C06
import Lomond.Properties.C08_E2E

namespace Lomond.C01E2E2
open Lomond Lomond.Core Lomond.Core.E2E Lomond.Core.DG

/-- the events handed to the application, oldest first, housekeeping Polls left out -/
def deliveredEvents (tr : List Obs) : List Event := (delivered tr).reverse

/-- a timed environment script: the cycles `l` (wait `dt`, then nothing or a read), the idle
    cycles `ws`, then the end of the stream after `dtE` ticks -/
def timedEnv (l : List TStep) (ws : List Nat) (dtE : Nat) : List EnvStep :=
  tscript l ++ (idles ws ++ [.wait dtE (some .eof)])

/-- C01's uncompressed items are a special case of the general items: same bytes -/
theorem gstream_ofItems (items : List Item) (close : Option CloseF) :
    gstream (items.map GItem.ofItem) close = C01.streamBytes items close := by
  unfold gstream C01.streamBytes
  rw [ofItems_bytes]
  cases close <;> rfl

/-- … same expected events -/
theorem gexpected_ofItems (items : List Item) (close : Option CloseF) :
    gexpected (items.map GItem.ofItem) close = C01.expected items close := by
  unfold gexpected C01.expected
  rw [ofItems_events]
  cases close <;> rfl

/-- … same terminal event -/
theorem terminal_eq (close : Option CloseF) : DG.terminal close = C01E2E.terminal close := by
  cases close <;> rfl

/-! ### 1. every segmentation and every timing -/

/-- **A whole connection delivers exactly what the server sent — for every segmentation and every
    timing.**  `l`: any cycles of the session loop — each waits `dt` ticks (any `dt`), then reads
    nothing or a non-empty chunk — ending with a read, whose bytes are the accepted upgrade reply
    followed by any conforming stream (`C01.Conforming`: any fragmentation, empty fragments,
    Ping/Pong between fragments, any legal length form, an optional final Close); then idle
    cycles `ws` and the end of the stream after `dtE`.  Application: only sends (anything, at any
    event, Polls included); any ping rate; `ping_timeout` off; `close_timeout` off, or no Close in
    the stream, or longer than the time from the last read to the end of the stream.  The events
    of the run other than Polls are, in this order and with nothing else: `Connecting`,
    `Connected`, `Ready`, every Ping/Pong/data message once, in completion order, payloads
    byte-exact, `Closing` for the server's Close, then the terminal `Disconnected`. -/
theorem connection_delivers_any_timing (cfg : Cfg) (react : React) (proxy : Bool) (proto : Option Http.Str)
    (hs : Setup cfg react proxy) (hpt : cfg.pingTimeout = 0)
    (reply : Bytes) (hreply : GoodReply cfg reply proto)
    (items : List Item) (close : Option CloseF) (hconf : C01.Conforming items close)
    (l : List TStep) (hne : TNonEmpty l) (hend : EndsRead l)
    (hbytes : tbytes l = reply ++ C01.streamBytes items close)
    (ws : List Nat) (dtE : Nat)
    (hct : cfg.closeTimeout = 0 ∨ close = none ∨ ws.sum + dtE < cfg.closeTimeout) :
    deliveredEvents (runAll cfg react (timedEnv l ws dtE)).trace =
      [.connecting, .connected proxy, .ready proto false] ++ C01.expected items close ++
        [C01E2E.terminal close] := by
  have := run_timed cfg react proxy proto none hs hpt reply (DG.GoodReply.toD hreply) (items.map GItem.ofItem) ⟨[], 0⟩
    (ofItems_itemsAt _ items hconf.1 _) (ofItems_nz items _) close hconf.2 l hne hend
    (by rw [gstream_ofItems]; exact hbytes) ws dtE hct
  rw [gexpected_ofItems, terminal_eq] at this
  exact this

/-- the setting of `C01E2E.connection_delivers` (reads at `wait 0`, then `wait dt` and the end of
    the stream) is the instance `l = chunks.map (0, some ·)`, `ws = []` -/
theorem reads_are_timed (chunks : List Bytes) (dt : Nat) :
    reads chunks ++ [.wait dt (some .eof)] = timedEnv (chunks.map (fun c => (0, some c))) [] dt := by
  unfold timedEnv reads tscript idles
  simp [List.map_map, Function.comp_def, tstep]

/-! ### 2. permessage-deflate negotiated, compressed messages -/

/-- **… and with permessage-deflate: every compressed message is delivered with its plaintext.**
    The reply grants the configuration `d`.  `items`: control frames, plain data messages and
    compressed data messages (RSV1 on the first frame; the fragments cut the *compressed* bytes;
    control frames between them), statically well-formed (`GItem.Static`: lengths fit, control
    payloads ≤ 125, a plain message stands for its payload, Text content is UTF-8).  `hinfl`: the
    configuration's inflater, run over the joined compressed payloads in order through the
    negotiated context (C06's `feedMsgs`), yields the `plain`s.  Every segmentation, every timing,
    as in `connection_delivers_any_timing`. -/
theorem connection_delivers_compressed (cfg : Cfg) (react : React) (proxy : Bool) (proto : Option Http.Str)
    (d : Http.DeflateCfg) (hs : Setup cfg react proxy) (hpt : cfg.pingTimeout = 0)
    (reply : Bytes) (hreply : GoodReplyD cfg reply proto (some d))
    (items : List GItem) (hst : ∀ it ∈ items, it.Static) (icE : ICtx)
    (hinfl : zOuts ⟨cfg.inflate, some d⟩ ⟨[], 0⟩ (items.filterMap GItem.zpay) = some (items.filterMap GItem.zplain, icE))
    (close : Option CloseF) (hcl : ∀ c, close = some c → c.Ok)
    (l : List TStep) (hne : TNonEmpty l) (hend : EndsRead l)
    (hbytes : tbytes l = reply ++ gstream items close)
    (ws : List Nat) (dtE : Nat)
    (hct : cfg.closeTimeout = 0 ∨ close = none ∨ ws.sum + dtE < cfg.closeTimeout) :
    deliveredEvents (runAll cfg react (timedEnv l ws dtE)).trace =
      [.connecting, .connected proxy, .ready proto true] ++ gexpected items close ++ [DG.terminal close] :=
  run_timed cfg react proxy proto (some d) hs hpt reply hreply items icE
    (itemsAt_of_zOuts ⟨cfg.inflate, some d⟩ rfl items hst _ _ hinfl) (fun _ _ _ => rfl) close hcl l hne hend hbytes
    ws dtE hct

/-- the inflater hypothesis from C06's: the compressed messages of the stream are what **any peer
    compressor** honouring `server_max_window_bits` produces for the plaintexts `msgs` (context
    kept or reset as negotiated), each message one non-final block, under any byte encoding `enc`
    that `cfg.inflate` reads correctly (`Agrees`) -/
theorem inflate_of_peer (cfg : Cfg) (d : Http.DeflateCfg) (enc : List Deflate.Blk → Bytes)
    (c : Deflate.Compressor (2 ^ d.decompressWbits)) (peerResets : Bool)
    (hk : peerResets = false → d.resetDecompress = false) (msgs : List Bytes)
    (hA : let blocks := (Deflate.senderTokens c peerResets [] msgs).map Deflate.oneBlock
          if d.resetDecompress then ∀ m ∈ blocks, Agrees cfg.inflate d.decompressWbits enc [m]
          else ∀ k, k ≤ blocks.length → Agrees cfg.inflate d.decompressWbits enc (blocks.take k)) :
    ∃ icE, zOuts ⟨cfg.inflate, some d⟩ ⟨[], 0⟩ (((Deflate.senderTokens c peerResets [] msgs).map Deflate.oneBlock).map enc)
      = some (msgs, icE) := by
  let s : Sys := { cfg := cfg, react := fun _ => [], env := [], compression := some d, decompress := true }
  have h := C06.core_lossless_peer_to_client enc d c peerResets hk msgs s rfl rfl rfl hA
  rw [feedMsgs_zOuts ⟨cfg.inflate, some d⟩ _ s ⟨rfl, rfl, rfl⟩] at h
  cases hz : zOuts ⟨cfg.inflate, some d⟩ ⟨s.inflHist, s.inflOut⟩
      (((Deflate.senderTokens c peerResets [] msgs).map Deflate.oneBlock).map enc) with
  | none => rw [hz] at h; cases h
  | some x =>
    obtain ⟨os, ic⟩ := x
    rw [hz] at h
    simp only [Option.map_some, Option.some.injEq] at h
    subst h
    exact ⟨ic, rfl⟩

/-- **C06 end to end: every message an RFC 7692 peer compresses is delivered with its original
    content** — any fragmentation of the compressed data, mixed with uncompressed messages and
    control frames, any segmentation of the byte stream into reads, any timing.  `msgs` are the
    plaintexts of the compressed messages of `items`, in order; their compressed payloads are what
    the peer's compressor `c` (any compressor whose matches stay within the negotiated window)
    emits for them; `cfg.inflate` agrees with the token semantics on these histories. -/
theorem connection_delivers_peer_compressed (cfg : Cfg) (react : React) (proxy : Bool) (proto : Option Http.Str)
    (d : Http.DeflateCfg) (hs : Setup cfg react proxy) (hpt : cfg.pingTimeout = 0)
    (reply : Bytes) (hreply : GoodReplyD cfg reply proto (some d))
    (enc : List Deflate.Blk → Bytes) (c : Deflate.Compressor (2 ^ d.decompressWbits)) (peerResets : Bool)
    (hk : peerResets = false → d.resetDecompress = false) (msgs : List Bytes)
    (hA : let blocks := (Deflate.senderTokens c peerResets [] msgs).map Deflate.oneBlock
          if d.resetDecompress then ∀ m ∈ blocks, Agrees cfg.inflate d.decompressWbits enc [m]
          else ∀ k, k ≤ blocks.length → Agrees cfg.inflate d.decompressWbits enc (blocks.take k))
    (items : List GItem) (hst : ∀ it ∈ items, it.Static)
    (hpay : items.filterMap GItem.zpay = ((Deflate.senderTokens c peerResets [] msgs).map Deflate.oneBlock).map enc)
    (hplain : items.filterMap GItem.zplain = msgs)
    (close : Option CloseF) (hcl : ∀ c, close = some c → c.Ok)
    (l : List TStep) (hne : TNonEmpty l) (hend : EndsRead l)
    (hbytes : tbytes l = reply ++ gstream items close)
    (ws : List Nat) (dtE : Nat)
    (hct : cfg.closeTimeout = 0 ∨ close = none ∨ ws.sum + dtE < cfg.closeTimeout) :
    deliveredEvents (runAll cfg react (timedEnv l ws dtE)).trace =
      [.connecting, .connected proxy, .ready proto true] ++ gexpected items close ++ [DG.terminal close] := by
  obtain ⟨icE, hz⟩ := inflate_of_peer cfg d enc c peerResets hk msgs hA
  exact connection_delivers_compressed cfg react proxy proto d hs hpt reply hreply items hst icE
    (by rw [hpay, hplain]; exact hz) close hcl l hne hend hbytes ws dtE hct

/-- **Delivery with compressed messages, `WebSocket.feed` level** (C01's `delivery` for a
    negotiated extension): one read carrying any items and an optional Close, from a state between
    two messages of an open websocket; send-only application, no ping timeout, close timer not
    armed; the compressed messages inflate, through the inflate context of the state, to their
    `plain`s (`ItemsAt`).  Exactly `gexpected items cl` is delivered, compressed messages with the
    inflated payload; the fragment list is empty, the inflate context is `ic'`. -/
theorem delivery_compressed (z : ZP) (items : List GItem) (ic' : ICtx) (cl : Option CloseF)
    (hcl : ∀ c, cl = some c → c.Ok) (s : Sys) (g : TG s) (hz : ZOk z s) (hcg : s.closing = false)
    (hfr : s.frames = []) (hb : Between s.p) (hpc : s.p.compression = z.dc.isSome)
    (hit : ItemsAt z ⟨s.inflHist, s.inflOut⟩ items ic')
    (hzz : ∀ g, GItem.msg g ∈ items → g.zf = true → z.dc.isSome = true) :
    ∃ s', feedLoop (gstream items cl) s = .ok true s' ∧
      delivered s'.trace = (gexpected items cl).reverse ++ delivered s.trace ∧
      s'.frames = [] ∧ s'.closed = false ∧ s'.closing = cl.isSome ∧ Between s'.p ∧
      (⟨s'.inflHist, s'.inflOut⟩ : ICtx) = ic' :=
  feedLoop_gitems z items ic' cl hcl s g hz hcg hfr hb hpc hit hzz

/-- the payload of the event of a compressed Binary message is the plaintext, of a compressed Text
    message the code points of the plaintext (whose UTF-8 encoding is the plaintext) -/
theorem compressed_event_exact (g : GMsg) (hs : g.Static) :
    (g.m.text = false → g.event = .binary g.plain) ∧
    (g.m.text = true → ∃ cps, g.event = .text cps ∧ Utf8.encode cps = g.plain ∧
      ∀ c ∈ cps, Utf8.isScalar c = true) := by
  refine ⟨fun ht => by simp [GMsg.event, ht], fun ht => ?_⟩
  obtain ⟨_, hutf⟩ := hs.2.2.2 ht
  have hsome : (Utf8.decode g.plain).isSome = true := by rw [Utf8.decode_isSome]; exact hutf
  obtain ⟨cps, hcps⟩ := Option.isSome_iff_exists.mp hsome
  obtain ⟨he, hsc⟩ := Utf8.encode_decode g.plain cps hcps
  exact ⟨cps, by simp [GMsg.event, ht, hcps], he, hsc⟩

/-! ### 3. applications that close -/

open Lomond.Core.CR in
/-- **Delivery with an application that calls `close()`** (class `CR.AppK`: send-only, except
    that its reaction to the K-th event contains one `close(code, reason)`; invariant `CR.G`: frozen
    clock, the trace is `PhaseA`, or `PhaseA ++ Close frame ++ PhaseB` once it has closed).  From
    a state between two messages, whether the application has closed already, closes while these
    items arrive (at any of their events, also a Ping between two fragments) or later: every item
    is delivered once, in order — the events appended are exactly `C01.expected items none`, no
    Poll among them —, the websocket is not closed, and it stays closing once it is. -/
theorem delivery_closing_app (kc : Option Nat) (code : Option Nat) (reason : Arg) (rb : Bytes) (cfg : Cfg)
    (T0 : List Obs) (hp : Par kc code reason rb cfg) (items : List Item) (hok : ∀ it ∈ items, it.Ok)
    (s : Sys) (g : G kc code reason rb cfg T0 s) (hcl : s.closed = false) (hfr : s.frames = [])
    (hb : Between s.p) :
    ∃ s', feedLoop (C01.streamBytes items none) s = .ok true s' ∧
      Monitor.histOf s'.trace = (C01.expected items none).reverse ++ Monitor.histOf s.trace ∧
      s'.frames = [] ∧ s'.closed = false ∧ Between s'.p ∧ G kc code reason rb cfg T0 s' ∧
      (Shut s → Shut s') := by
  obtain ⟨s', h, r, f, b⟩ := feed_items_J hp items hok s g hcl hfr hb
  refine ⟨s', by simpa [C01.streamBytes] using h, by simpa [C01.expected] using r.evs, f,
    by rw [r.closed]; exact hcl, b, r.g, r.shut⟩

open Lomond.Core.CR in
/-- … and when the server's Close arrives after the application's `close()`: all items, then
    `Closed(code', reason')` with the server's code and reason; `WebSocket.feed` stops
    (`.ok false`), the websocket is closed. -/
theorem delivery_closing_app_closed (kc : Option Nat) (code : Option Nat) (reason : Arg) (rb : Bytes) (cfg : Cfg)
    (T0 : List Obs) (hp : Par kc code reason rb cfg) (items : List Item) (hok : ∀ it ∈ items, it.Ok)
    (c : CloseF) (hc : c.Ok)
    (s : Sys) (g : G kc code reason rb cfg T0 s) (hcl : s.closed = false) (hsh : s.closing = true)
    (hfr : s.frames = []) (hb : Between s.p) :
    ∃ s', feedLoop (C01.streamBytes items (some c)) s = .ok false s' ∧
      Monitor.histOf s'.trace =
        .closed c.code c.reason :: ((C01.expected items none).reverse ++ Monitor.histOf s.trace) ∧
      s'.closed = true := by
  obtain ⟨s1, h1, r1, f1, b1⟩ := feed_items_J hp items hok s g hcl hfr hb
  have hcg1 : s1.closing = true := by
    rcases r1.shut (Or.inl hsh) with h | h
    · exact h
    · rw [r1.closed, hcl] at h; cases h
  obtain ⟨s2, h2, cl2, hh2, _⟩ := feed_close_closing hp c hc s1 r1.g (by rw [r1.closed]; exact hcl) hcg1 b1
  refine ⟨s2, ?_, ?_, cl2⟩
  · unfold C01.streamBytes
    rw [feedLoop_append, h1]
    exact h2
  · rw [show Monitor.histOf s2.trace = Event.closed c.code c.reason :: Monitor.histOf s1.trace from hh2,
      show Monitor.histOf s1.trace = _ from r1.evs]
    simp [C01.expected]

open Lomond.Core.CR in
/-- **A whole connection with an application that closes**: it calls `close(code, reason)` in its
    reaction to the event with index `K - 1` (`Connected` or any later event up to the last item
    event) and otherwise only sends.  The events of the run are `Connecting, Connected, Ready, Poll`,
    **every item event — those arriving after the `close()` included —**, then `Closed` with the
    server's code and reason and the graceful `Disconnected`.  (Corollary of
    `C08E2E.client_close_end_to_end`; every segmentation, clock standing still, no write faults.) -/
theorem connection_delivers_closing_app (cfg : Cfg) (react : React) (proxy : Bool) (proto : Option Http.Str)
    (K : Nat) (code : Option Nat) (reason : Arg) (rb : Bytes)
    (hconn : cfg.connect = .ok proxy) (hnf : ∀ k, cfg.writeFails k = false) (hpoll : 0 < cfg.poll)
    (hK2 : 2 ≤ K) (hrb : reasonBytes reason = some rb) (hargs : CloseArgsOk code rb)
    (happ : AppK (some K) code reason react)
    (reply : Bytes) (hreply : GoodReply cfg reply proto)
    (items : List Item) (hok : ∀ it ∈ items, it.Ok) (c : CloseF) (hc : c.Ok)
    (hK : K ≤ 4 + (items.flatMap Item.events).length)
    (chunks : List Bytes) (hne : ∀ x ∈ chunks, x ≠ [])
    (hflat : chunks.flatten = reply ++ C01.streamBytes items (some c))
    (rest : List EnvStep) :
    Monitor.events (runAll cfg react (reads chunks ++ rest)).trace =
      [.connecting, .connected proxy, .ready proto false, .poll] ++ C01.expected items none ++
        [.closed c.code c.reason, .disconnected "closed" true] := by
  obtain ⟨_, _, _, _, _, _, _, _, _, _, h, _⟩ := C08E2E.client_close_end_to_end cfg react proxy proto K code reason rb
    hconn hnf hpoll hK2 hrb hargs happ reply hreply items hok c hc hK chunks hne
    (by simpa [C01.streamBytes] using hflat) rest
  simpa [C01.expected] using h

/-! ### Non-vacuity -/

/-- C01E2E's reply and stream (fragmented Text with Ping/Pong between the fragments, a Pong, a
    126-byte Binary, Close 1000 `ok`): a first read after 3 ticks that ends inside the reply's
    terminator, an idle cycle of 10 ticks, the rest of the reply glued to the first five bytes of
    the first frame, an idle cycle, and after 7 more ticks everything else -/
def exL : List TStep :=
  let all := C01E2E.exReply ++ C01.streamBytes C01.exItems (some C01.exClose)
  [(3, some (all.take 127)), (10, none), (0, some ((all.drop 127).take 7)), (2, none), (7, some (all.drop 134))]

/-- the reads of `exL` are a segmentation of reply ++ stream -/
theorem exL_bytes : tbytes exL = C01E2E.exReply ++ C01.streamBytes C01.exItems (some C01.exClose) := by
  decide +kernel

/-- `connection_delivers_any_timing` applies: 22 ticks pass while the stream arrives (several
    Polls fire: `poll = 5`), then two idle cycles and the end of the stream 11 ticks after the
    Close was echoed (`close_timeout = 30`) -/
example : deliveredEvents (runAll C01E2E.exCfg C01E2E.exReact (timedEnv exL [4, 1] 6)).trace =
    [ .connecting, .connected false, .ready none false,
      .ping [1, 2], .pong [], .text [0x20AC, 0x61], .pong [7], .binary (List.replicate 126 255),
      .closing (some 1000) [111, 107], .disconnected "closed" true ] := by
  rw [connection_delivers_any_timing C01E2E.exCfg C01E2E.exReact false none C01E2E.exSetup rfl C01E2E.exReply
    C01E2E.exGoodReply C01.exItems (some C01.exClose) C01.ex_conforming exL (TNonEmpty.of_b (by decide +kernel))
    (EndsRead.of_b (by decide +kernel)) exL_bytes [4, 1] 6 (Or.inr (Or.inr (by decide)))]
  decide +kernel

/-- the same run evaluated directly (kernel reduction of the model), all events: Ready at clock
    13; Polls at session times 0 and 9 (before the last read is fed), 14 and 20 (afterwards) -/
example : Monitor.events (runAll C01E2E.exCfg C01E2E.exReact (timedEnv exL [4, 1] 6)).trace =
    [ .connecting, .connected false, .ready none false, .poll, .poll,
      .ping [1, 2], .pong [], .text [0x20AC, 0x61], .pong [7], .binary (List.replicate 126 255),
      .closing (some 1000) [111, 107], .poll, .poll, .disconnected "closed" true ] := by
  decide +kernel

/-- a configuration that offers permessage-deflate and inflates with the executable bit-level
    inflater of Model/Inflate.lean (repaired shape) -/
def zCfg : Cfg := { challenge := [97, 98, 99], inflate := Inflate.inflateAllSafe, request := [71, 69, 84] }

/-- what `C06.bfinalReply` (`Sec-WebSocket-Extensions: permessage-deflate`, no parameters) grants -/
def zD : Http.DeflateCfg := { decompressWbits := 15, compressWbits := 15, resetDecompress := false, resetCompress := false }

/-- the example reply is accepted and grants `zD` (terminator at offset 107, 111 bytes) -/
theorem zGoodReply : GoodReplyD zCfg C06.bfinalReply none (some zD) :=
  ⟨⟨107, by decide +kernel, by decide +kernel⟩, by decide +kernel, by decide +kernel⟩

/-- RFC 7692 §7.2.3.2: "Hello" compressed twice with context takeover (`f2 48 cd c9 c9 07 00`,
    then `f2 00 11 00 00`, which refers back to the first message).  The first one is a Text in two
    fragments cut inside the compressed data with a Ping in between; then a Pong, an uncompressed
    Binary, and the second compressed Text in one frame with a non-minimal 16-bit length. -/
def zItems : List GItem :=
  [ .msg { zf := true, plain := [72, 101, 108, 108, 111],
           m := { text := true, first := { payload := [0xf2, 0x48, 0xcd], form := .short },
                  rest := [([{ pong := false, payload := [1], form := .short }],
                            { payload := [0xc9, 0xc9, 0x07, 0x00], form := .short })] } },
    .ctrl { pong := true, payload := [7], form := .short },
    .msg { zf := false, plain := [1, 2, 3],
           m := { text := false, first := { payload := [1, 2, 3], form := .short }, rest := [] } },
    .msg { zf := true, plain := [72, 101, 108, 108, 111],
           m := { text := true, first := { payload := [0xf2, 0x00, 0x11, 0x00, 0x00], form := .ext16 }, rest := [] } } ]

/-- the example items are well-formed -/
theorem zItems_static : ∀ it ∈ zItems, it.Static := by decide +kernel

/-- the inflater hypothesis holds: both compressed payloads, through one context, give "Hello" -/
theorem zItems_inflate :
    zOuts ⟨zCfg.inflate, some zD⟩ ⟨[], 0⟩ (zItems.filterMap GItem.zpay) =
      some (zItems.filterMap GItem.zplain,
        ⟨[0xf2, 0x48, 0xcd, 0xc9, 0xc9, 0x07, 0, 0, 0, 0xff, 0xff, 0xf2, 0, 0x11, 0, 0, 0, 0, 0xff, 0xff], 10⟩) := by
  decide +kernel

/-- the reply and the first frame header in one read after 2 ticks, then one byte per read with
    waits of 0, 1, 2, 0, 1, 2, … ticks -/
def zL : List TStep :=
  let all := C06.bfinalReply ++ gstream zItems none
  (2, some (all.take 113)) :: ((all.drop 113).zipIdx.map (fun x => (x.2 % 3, some [x.1])))

/-- the reads of `zL` are a segmentation of reply ++ stream -/
theorem zL_bytes : tbytes zL = C06.bfinalReply ++ gstream zItems none := by decide +kernel

/-- `connection_delivers_compressed` applies; both compressed Texts are delivered as "Hello" -/
example : deliveredEvents (runAll zCfg (fun _ => []) (timedEnv zL [] 40)).trace =
    [ .connecting, .connected false, .ready none true,
      .ping [1], .text [72, 101, 108, 108, 111], .pong [7], .binary [1, 2, 3], .text [72, 101, 108, 108, 111],
      .disconnected "connection-lost" false ] := by
  rw [connection_delivers_compressed zCfg (fun _ => []) false none zD
    ⟨rfl, rfl, by decide, fun h a ha => by cases ha⟩ rfl C06.bfinalReply zGoodReply zItems zItems_static _
    zItems_inflate none (fun c h => by cases h) zL (TNonEmpty.of_b (by decide +kernel))
    (EndsRead.of_b (by decide +kernel)) zL_bytes [] 40 (Or.inr (Or.inl rfl))]
  decide +kernel

/-- the same run evaluated directly -/
example : deliveredEvents (runAll zCfg (fun _ => []) (timedEnv zL [] 40)).trace =
    [ .connecting, .connected false, .ready none true,
      .ping [1], .text [72, 101, 108, 108, 111], .pong [7], .binary [1, 2, 3], .text [72, 101, 108, 108, 111],
      .disconnected "connection-lost" false ] := by
  decide +kernel

/-- a connection after a handshake that negotiated `zD`: between two messages, inflate context empty -/
def zState : Sys :=
  { cfg := zCfg, react := fun _ => [.sendPing (.bytes [9])], env := [], sockOpen := true, selOpen := true,
    ready := true, startTime := some 0, parsedResponse := true, compression := some zD, decompress := true,
    p := { cont := .hdr2, remPred := 1, compression := true } }

/-- `delivery_compressed` applies to `zState` and the example items followed by a Close: the
    hypotheses hold (`ItemsAt` from `zItems_inflate`) and the concrete event list results -/
example : ∃ s', feedLoop (gstream zItems (some C01.exClose)) zState = .ok true s' ∧
    delivered s'.trace =
      [ .closing (some 1000) [111, 107], .text [72, 101, 108, 108, 111], .binary [1, 2, 3], .pong [7],
        .text [72, 101, 108, 108, 111], .ping [1] ] := by
  obtain ⟨s', h, d, _⟩ := delivery_compressed ⟨zCfg.inflate, some zD⟩ zItems _ (some C01.exClose)
    (fun c hc => by cases hc; exact C01.ex_conforming.2 _ rfl) zState
    ⟨fun h a ha => by simp [zState] at ha; subst ha; rfl, rfl, Or.inr rfl, rfl, rfl⟩ ⟨rfl, rfl, rfl⟩ rfl rfl
    ⟨⟨rfl, rfl, rfl, rfl⟩, rfl, rfl⟩ rfl
    (itemsAt_of_zOuts ⟨zCfg.inflate, some zD⟩ rfl zItems zItems_static _ _ zItems_inflate) (fun _ _ _ => rfl)
  refine ⟨s', h, ?_⟩
  rw [d]
  decide +kernel

/-- `compressed_event_exact` on the first item -/
example : ∃ g, zItems.head? = some (.msg g) ∧ g.Static ∧ g.event = .text [72, 101, 108, 108, 111] :=
  ⟨_, rfl, by decide +kernel, by decide +kernel⟩

/-- `connection_delivers_closing_app` applies to C08E2E's example: the application closes at its
    fifth event — the Ping between the fragments of the Text — and everything after is delivered -/
example : Monitor.events (runAll C01E2E.exCfg C08E2E.exReact
      (reads ((C01E2E.exReply ++ C01.streamBytes C01.exItems (some C01.exClose)).map (fun b => [b])) ++ [])).trace =
    [.connecting, .connected false, .ready none false, .poll] ++ C01.expected C01.exItems none ++
      [.closed (some 1000) [111, 107], .disconnected "closed" true] := by
  have := connection_delivers_closing_app C01E2E.exCfg C08E2E.exReact false none 5 (some 1000) (.bytes [98, 121, 101])
    [98, 121, 101] rfl (fun _ => rfl) (by decide) (by decide) rfl ⟨(fun c h => by cases h; decide), (by decide)⟩
    C08E2E.exApp C01E2E.exReply C01E2E.exGoodReply C01.exItems C01.ex_conforming.1 C01.exClose
    (C01.ex_conforming.2 _ rfl) (by decide +kernel) _ (bytewise_ne _) (bytewise_flatten _) []
  rw [this]
  decide +kernel

open Lomond.Core.CR in
/-- the hypotheses of `delivery_closing_app` are satisfiable: the state after the handshake of a
    connection whose application (C08E2E's example) closes at its fifth event satisfies `G` -/
example : ∃ T0 s, G (some 5) (some 1000) (.bytes [98, 121, 101]) [98, 121, 101] C01E2E.exCfg T0 s ∧
    s.closed = false ∧ s.frames = [] ∧ Between s.p := by
  have hp : Par (some 5) (some 1000) (.bytes [98, 121, 101]) [98, 121, 101] C01E2E.exCfg :=
    ⟨fun _ => rfl, by decide, rfl, ⟨(fun c h => by cases h; decide), (by decide)⟩, fun K h => by cases h; decide⟩
  obtain ⟨sA, l0, _, _, q, sh, hr, hcl, _, _, hpA, hfr, _⟩ :=
    run_start_J hp C08E2E.exReact [] false rfl C08E2E.exApp
  obtain ⟨s4, g4, c4, f4, b4, _⟩ := feed_reply_J hp q sh hr hcl hpA hfr C01E2E.exGoodReply
  exact ⟨_, s4, g4, c4, f4, b4⟩

open Lomond.Core.CR in
/-- … and those of `delivery_closing_app_closed`: an application that closes at `Connected`
    (C08E2E's `exReactEarly`) is closing when the handshake completes -/
example : ∃ T0 s, G (some 2) (some 1000) (.bytes [103, 111, 111, 100, 98, 121, 101])
      [103, 111, 111, 100, 98, 121, 101] C01E2E.exCfg T0 s ∧
    s.closed = false ∧ s.closing = true ∧ s.frames = [] ∧ Between s.p := by
  have hp : Par (some 2) (some 1000) (.bytes [103, 111, 111, 100, 98, 121, 101])
      [103, 111, 111, 100, 98, 121, 101] C01E2E.exCfg :=
    ⟨fun _ => rfl, by decide, rfl, ⟨(fun c h => by cases h; decide), (by decide)⟩, fun K h => by cases h; decide⟩
  obtain ⟨sA, l0, _, _, q, sh, hr, hcl, _, _, hpA, hfr, _, _, hh⟩ :=
    run_start_J hp C08E2E.exReactEarly [] false rfl C08E2E.exAppEarly
  have hshut : Shut sA := by
    rcases sh with ⟨_, hlt, _⟩ | ⟨hs, _⟩
    · have := hlt 2 rfl
      rw [q.hi, hh] at this
      simp at this
    · exact hs
  obtain ⟨s4, g4, c4, f4, b4, _, _, _, _, _, _, m4, _⟩ := feed_reply_J hp q sh hr hcl hpA hfr C01E2E.exGoodReply
  refine ⟨_, s4, g4, c4, ?_, f4, b4⟩
  rcases m4 hshut with h | h
  · exact h
  · rw [c4] at h; cases h

end Lomond.C01E2E2
