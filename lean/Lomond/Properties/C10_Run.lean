/-
  C10 companion — the handshake at the level of whole connections (`runAll`, i.e. `session.run()` from
  `Connecting` to the end of the iterator).

  `Properties/C10.lean` §8 states the consequences of not being granted Ready for one call of
  `WebSocket.feed` (`wsFeed`).  Here they are composed through `run()`: the connection phase, the receive
  loop `loop`, the `except` / `else` / `finally` clauses, and `runAll`.

  Setting (`HRun`, `Proofs/HandshakeRun.lean`):

  * `E2E.Setup cfg react proxy`: `_connect()` returns a socket, the first `sendall` (the upgrade request) succeeds,
    `poll > 0`, and the application `react` — an arbitrary function of the event history — reacts to events by
    *sending* (text, binary, ping, pong; any arguments, valid or not).  An application that closes the websocket,
    drops the socket or leaves the iterator before the reply has arrived changes the outcome by itself (no reply is
    read at all); those are excluded here and covered by C07/C13.
  * the script is `steps ++ rest`: `steps` are *quiet* — each is `selector.wait` returning after any number of ticks
    with nothing to read, or with a non-empty read — so the reply may be cut anywhere (also inside the terminator,
    also byte by byte), with any silence before, between and after the pieces; `rest` is arbitrary.
  * `dataOf steps` are the bytes delivered; the *block* is its prefix up to and including the first `CR LF CR LF`.

  Both comparisons of `Sec-WebSocket-Accept` are covered: everything is stated for `cfg.v.strictAccept` arbitrary.

  What the code does after a refused handshake (and what is proved): `Rejected(reason)` is yielded *after*
  `on_disconnect()` has closed the session's socket; no Close frame — nothing at all — is written; the websocket is
  closed, so `while not websocket.is_closed` ends the loop through the `else:` clause and the final event is
  `Disconnected('closed', graceful=True)`.  (The loop is left "gracefully" although the handshake failed: that is the
  behaviour of the code, stated as it is.)  For an oversize header block the `except` clauses of `WebSocket.feed`
  yield one critical `ProtocolError('expected separator')` and raise `_ForceDisconnect`; `run()` closes the socket
  and yields `Disconnected('forced', graceful=False)`.
-/
import Lomond.Properties.C10_Wire2
import Lomond.Properties.C07
import Lomond.Proofs.HandshakeRunG

namespace Lomond.C10Run
open Lomond Lomond.Http Lomond.Handshake Lomond.Spec Lomond.Core Lomond.Core.E2E Lomond.Core.HRun
open Lomond.C10 Lomond.C10Digest Lomond.C07

theorem eventsOf_eq (cfg : Cfg) (react : React) (env : List EnvStep) :
    eventsOf cfg react env = (hist (runAll cfg react env).trace).reverse := events_eq_hist _

/-! ## 1. a good reply: Ready, once, directly after Connected, reporting what was negotiated -/

/-- **C10_run_ready**.  The block fits the limit and `on_response` accepts it (with result `acc`).  Then the events of
    the whole connection are `Connecting, Connected, Ready(acc.protocol, acc has permessage-deflate), Poll, …`:
    Ready is the third event, directly after Connected (so before any message event), it occurs exactly once, and it
    reports the reply's `Sec-WebSocket-Protocol` value and whether the reply's extension list negotiated
    permessage-deflate. -/
theorem C10_run_ready {cfg : Cfg} {react : React} {proxy : Bool} (hs : Setup cfg react proxy)
    (steps rest : List EnvStep) (hq : ∀ st ∈ steps, Quiet st) (i : Nat) (acc : Accepted)
    (hsep : findSep Gen.headerSep (dataOf steps) = some i) (hlen : i + 4 ≤ 16384)
    (hok : onResponse cfg.v.strictAccept cfg.challenge (parseResponse (blockOf (dataOf steps) i)) = .ok acc) :
    (∃ tail, eventsOf cfg react (steps ++ rest) =
        .connecting :: .connected proxy :: .ready acc.protocol acc.deflate.isSome :: .poll :: tail ∧
      (∀ x d, Event.ready x d ∉ tail) ∧ (∀ r, Event.rejected r ∉ tail)) ∧
    acc.protocol = (parseResponse (blockOf (dataOf steps) i)).get hProto ∧
    (acc.deflate.isSome = true ↔
      ∃ e ∈ (parseResponse (blockOf (dataOf steps) i)).getList hExt, (parseExtension e).1 = pmd) := by
  obtain ⟨L, T0, hL, hT0⟩ := run_ready hs steps rest hq i acc hsep hlen hok
  obtain ⟨hp, _, hd⟩ := C10_ready_reports _ _ _ acc hok
  refine ⟨?_, hp, hd⟩
  have hev : eventsOf cfg react (steps ++ rest) =
      [.connecting, .connected proxy] ++ .ready acc.protocol acc.deflate.isSome :: (.poll :: (hist L).reverse) := by
    rw [eventsOf_eq, hL, hist_append, hT0]; simp
  refine ⟨(hist L).reverse, by rw [hev]; rfl, ?_, ?_⟩
  · intro x d
    exact (ready_at_most_once cfg react (steps ++ rest) _ _ _ _ hev).2.2 x d ∘ (List.mem_cons_of_mem _)
  · -- after Ready the monitor is in phase `ready`, where `Rejected` is not an event
    intro r hr
    obtain ⟨ph, hacc⟩ := monitor cfg react (steps ++ rest)
    rw [hev] at hacc
    exact Monitor.Mon.no_rejected_after_ready hacc r (List.mem_cons_of_mem _ hr)

/-! ## 2. a refused reply: Rejected, nothing written, socket closed, no Ready, no message -/

/-- **C10_run_rejected**.  The block fits the limit and `on_response` refuses it with `reason`.  Then
    * the events of the whole connection are exactly `Connecting, Connected, Rejected(reason),
      Disconnected('closed', graceful=True)` — no Ready, no message event, no ProtocolError;
    * the whole trace is: the start of the connection (`StartTrace`: Connecting, the request, Connected, the
      application's own reaction to these), then only clock ticks while the block was incomplete, the socket being
      closed, `Rejected`, *results* of whatever the application calls in reaction (every send fails: no byte is
      written), `Disconnected`, again results only, and the selector being closed — in particular the library writes
      nothing after the request: no Close frame, no Pong, nothing (`isWrite`), and the socket is closed exactly once,
      *before* `Rejected` is yielded;
    * at the end socket and selector are closed and the session never became ready;
    * `rest` — whatever the server sends or the transport does afterwards — is never consulted. -/
theorem C10_run_rejected {cfg : Cfg} {react : React} {proxy : Bool} (hs : Setup cfg react proxy)
    (steps rest : List EnvStep) (hq : ∀ st ∈ steps, Quiet st) (i : Nat) (reason : Str)
    (hsep : findSep Gen.headerSep (dataOf steps) = some i) (hlen : i + 4 ≤ 16384)
    (herr : onResponse cfg.v.strictAccept cfg.challenge (parseResponse (blockOf (dataOf steps) i)) = .error reason) :
    eventsOf cfg react (steps ++ rest) =
      [.connecting, .connected proxy, .rejected reason, .disconnected "closed" true] ∧
    (∃ start ticks l post,
      (runAll cfg react (steps ++ rest)).trace = post ++ l ++ .ev (.rejected reason) :: .sockClose :: (ticks ++ start) ∧
      StartTrace cfg proxy start ∧ (∀ o ∈ ticks, isTick o = true) ∧ (∀ o ∈ l, Obs.isRes o = true) ∧
      (∀ o ∈ post, o = .ev (.disconnected "closed" true) ∨ o = .selClose ∨ Obs.isRes o = true) ∧
      (∀ o ∈ post ++ l ++ .ev (.rejected reason) :: .sockClose :: ticks, isWrite o = false)) ∧
    (runAll cfg react (steps ++ rest)).sockOpen = false ∧ (runAll cfg react (steps ++ rest)).selOpen = false ∧
    (runAll cfg react (steps ++ rest)).ready = false := by
  obtain ⟨start, ticks, l, post, ht, hst, ntk, nl, hhp, np, nsc, so, se, rd⟩ :=
    run_rejected hs steps rest hq i reason hsep hlen herr
  refine ⟨?_, ⟨start, ticks, l, post, ht, hst, ntk, nl, ?_, ?_⟩, so, se, rd⟩
  · rw [eventsOf_eq, ht, hist_append, hist_append, hhp, hist_nonEv l (res_nonEv l nl), hist_cons_ev,
      hist_cons_nonEv _ _ rfl, hist_append, hist_nonEv ticks (tick_hist_nonEv ticks ntk), hst.hist]
    rfl
  · intro o ho
    rcases np o ho with h | h | h | h
    · exact Or.inl h
    · exact absurd h (nsc o ho)
    · exact Or.inr (Or.inl h)
    · exact Or.inr (Or.inr h)
  · intro o ho
    simp only [List.mem_append, List.mem_cons] at ho
    rcases ho with (ho | ho) | ho | ho | ho
    · exact tailObs_not_write (np o ho)
    · exact res_not_write (nl o ho)
    · rw [ho]; rfl
    · rw [ho]; rfl
    · exact tick_not_write (ntk o ho)

/-! ## 3. an oversize header block: ProtocolError, forced disconnect -/

/-- **C10_run_oversize**.  The header material exceeds 16384 bytes: the bytes delivered contain no terminator and are
    longer than the limit, or their first terminator ends beyond it (whatever the cut: the error is raised at the
    first read that takes the buffered material over the limit).  Then the events are exactly `Connecting, Connected,
    ProtocolError('expected separator', critical), Disconnected('forced', graceful=False)`; the library writes nothing
    (the application may: the socket is still open while it handles the ProtocolError — `l` is its reaction and
    contains no event); socket and selector end closed; the session never became ready. -/
theorem C10_run_oversize {cfg : Cfg} {react : React} {proxy : Bool} (hs : Setup cfg react proxy)
    (steps rest : List EnvStep) (hq : ∀ st ∈ steps, Quiet st)
    (hbig : (findSep Gen.headerSep (dataOf steps) = none ∧ (dataOf steps).length > 16384) ∨
            (∃ i, findSep Gen.headerSep (dataOf steps) = some i ∧ i + 4 > 16384)) :
    eventsOf cfg react (steps ++ rest) =
      [.connecting, .connected proxy, .protocolError "expected separator" true, .disconnected "forced" false] ∧
    (∃ start ticks l post,
      (runAll cfg react (steps ++ rest)).trace =
        post ++ l ++ .ev (.protocolError "expected separator" true) :: (ticks ++ start) ∧
      StartTrace cfg proxy start ∧ (∀ o ∈ ticks, isTick o = true) ∧ (∀ o ∈ l, Obs.isEv o = false) ∧
      (∀ o ∈ post, o = .ev (.disconnected "forced" false) ∨ o = .sockClose ∨ o = .selClose ∨ Obs.isRes o = true)) ∧
    (runAll cfg react (steps ++ rest)).sockOpen = false ∧ (runAll cfg react (steps ++ rest)).selOpen = false ∧
    (runAll cfg react (steps ++ rest)).ready = false := by
  obtain ⟨start, ticks, l, post, ht, hst, ntk, nl, hhp, np, so, se, rd⟩ := run_oversize hs steps rest hq hbig
  refine ⟨?_, ⟨start, ticks, l, post, ht, hst, ntk, nl, np⟩, so, se, rd⟩
  rw [eventsOf_eq, ht, hist_append, hist_append, hhp, hist_nonEv l nl, hist_cons_ev, hist_append,
    hist_nonEv ticks (tick_hist_nonEv ticks ntk), hst.hist]
  rfl

/-! ## 4. the iff at run level -/

/-- a Ready event occurs in the list -/
def HasReady (evs : List Event) : Prop := ∃ x d, Event.ready x d ∈ evs

/-- **C10_run_ready_iff** (both comparisons: `cfg.v.strictAccept` is arbitrary).  For a block within the limit:
    a `Ready` event occurs among the events of the whole connection **iff** `on_response` accepts the block, i.e.
    (`C10_ready_iff_variant`) iff the status is 101, the Upgrade header reads `websocket`, the accept header is the
    expected value (compared as the variant says) and the extension parameters are acceptable. -/
theorem C10_run_ready_iff {cfg : Cfg} {react : React} {proxy : Bool} (hs : Setup cfg react proxy)
    (steps rest : List EnvStep) (hq : ∀ st ∈ steps, Quiet st) (i : Nat)
    (hsep : findSep Gen.headerSep (dataOf steps) = some i) (hlen : i + 4 ≤ 16384) :
    HasReady (eventsOf cfg react (steps ++ rest)) ↔
      Ready cfg.v.strictAccept cfg.challenge (parseResponse (blockOf (dataOf steps) i)) := by
  constructor
  · rintro ⟨x, d, hm⟩
    cases hr : onResponse cfg.v.strictAccept cfg.challenge (parseResponse (blockOf (dataOf steps) i)) with
    | ok acc => exact ⟨acc, hr⟩
    | error reason =>
      rw [(C10_run_rejected hs steps rest hq i reason hsep hlen hr).1] at hm
      simp at hm
  · rintro ⟨acc, hok⟩
    obtain ⟨⟨tail, hev, _⟩, _⟩ := C10_run_ready hs steps rest hq i acc hsep hlen hok
    exact ⟨acc.protocol, acc.deflate.isSome, by rw [hev]; simp⟩

/-- … and when no Ready is granted there is no message event either (for a block within the limit and for an
    oversize one alike): the events are the four listed in `C10_run_rejected` / `C10_run_oversize` -/
theorem C10_run_no_messages_without_ready {cfg : Cfg} {react : React} {proxy : Bool} (hs : Setup cfg react proxy)
    (steps rest : List EnvStep) (hq : ∀ st ∈ steps, Quiet st)
    (hhit : findSep Gen.headerSep (dataOf steps) ≠ none ∨ (dataOf steps).length > 16384)
    (hno : ¬ HasReady (eventsOf cfg react (steps ++ rest))) :
    (∀ e ∈ eventsOf cfg react (steps ++ rest), Monitor.Event.needsReady e = false) ∧
    (runAll cfg react (steps ++ rest)).sockOpen = false ∧
    ∃ e k g, eventsOf cfg react (steps ++ rest) = [.connecting, .connected proxy, e, .disconnected k g] ∧
      ((∃ r, e = .rejected r) ∨ e = .protocolError "expected separator" true) := by
  cases hf : findSep Gen.headerSep (dataOf steps) with
  | none =>
    have hl : (dataOf steps).length > 16384 := by
      rcases hhit with h | h
      · exact absurd hf h
      · exact h
    obtain ⟨hev, _, so, _⟩ := C10_run_oversize hs steps rest hq (Or.inl ⟨hf, hl⟩)
    refine ⟨by rw [hev]; exact four_noMsg _ _ _ _ rfl rfl rfl rfl, so, _, _, _, hev, Or.inr rfl⟩
  | some i =>
    by_cases hlen : i + 4 ≤ 16384
    · cases hr : onResponse cfg.v.strictAccept cfg.challenge (parseResponse (blockOf (dataOf steps) i)) with
      | ok acc => exact absurd ((C10_run_ready_iff hs steps rest hq i hf hlen).mpr ⟨acc, hr⟩) hno
      | error reason =>
        obtain ⟨hev, _, so, _⟩ := C10_run_rejected hs steps rest hq i reason hf hlen hr
        exact ⟨by rw [hev]; exact four_noMsg _ _ _ _ rfl rfl rfl rfl, so, _, _, _, hev, Or.inl ⟨reason, rfl⟩⟩
    · obtain ⟨hev, _, so, _⟩ := C10_run_oversize hs steps rest hq (Or.inr ⟨i, hf, by omega⟩)
      refine ⟨by rw [hev]; exact four_noMsg _ _ _ _ rfl rfl rfl rfl, so, _, _, _, hev, Or.inr rfl⟩

/-! ## 5. … for the key of the request that was written -/

/-- **C10_run_ready_iff_digest**.  The configuration is that of the `n`-th connection attempt of a client built from URL
    components (`Client.attemptCfg`: request and expected accept value both come from the key in the object's
    state).  Then the request `run()` writes (`StartTrace`: the first and only library write) carries the key
    `keyOfRequest cfg.request`, read back by an independent RFC 7230 reader, and a `Ready` event occurs in the whole
    connection **iff** the block is a 101 reply whose Upgrade header reads `websocket`, whose Sec-WebSocket-Accept is
    `b64encode(sha1(key ++ GUID))` of *that* key (repaired comparison: equal; pinned comparison: equal up to letter
    case, finding D5) and whose extension parameters are acceptable. -/
theorem C10_run_ready_iff_digest (cl : Client) (rnd : Nat → Bytes) (n : Nat) (base : Cfg) {react : React} {proxy : Bool}
    (hs : Setup (cl.attemptCfg rnd n base) react proxy)
    (hhost : Solid cl.url.host) (hpath : Solid cl.url.path) (hquery : Solid cl.url.query)
    (hagent : ValueOk cl.agent) (hprotos : ∀ p ∈ cl.protocols, p ≠ [] ∧ Solid p)
    (hcustom : ∀ p ∈ cl.customHeaders, NameOk p.1 ∧ ValueOk p.2)
    (steps rest : List EnvStep) (hq : ∀ st ∈ steps, Quiet st) (i : Nat)
    (hsep : findSep Gen.headerSep (dataOf steps) = some i) (hlen : i + 4 ≤ 16384) :
    let cfg := cl.attemptCfg rnd n base
    let r := parseResponse (blockOf (dataOf steps) i)
    let digest := acceptFor (keyOfRequest cfg.request)
    keyOfRequest cfg.request = b64encode (rnd n) ∧
    (HasReady (eventsOf cfg react (steps ++ rest)) ↔
      (r.statusCode = some (false, 101) ∧
       (∃ u, r.get hUpgrade = some u ∧ lower u = websocket) ∧
       (∃ acc, r.get hAccept = some acc ∧ (if base.v.strictAccept then acc = digest else lower acc = lower digest)) ∧
       extsOk (r.getList hExt))) := by
  intro cfg r digest
  have hk : keyOfRequest cfg.request = b64encode (rnd n) := keyOfRequest_nth cl rnd n hhost hpath hquery hagent hprotos hcustom
  refine ⟨hk, ?_⟩
  have hc : cfg.challenge = digest := by
    show nthChallenge rnd n = acceptFor (keyOfRequest cfg.request)
    rw [hk, nthChallenge_eq]
  have hv : cfg.v = base.v := rfl
  rw [C10_run_ready_iff hs steps rest hq i hsep hlen, hc, hv]
  exact C10_ready_iff_variant base.v.strictAccept digest r

/-! ## 6. bytes to events: every rendering with repeated names and folds, any segmentation, any timing -/

/-- **C10_run_ready_iff_wire** (both comparisons).  The server answers with *any* rendering of a status line
    `HTTP-version SP 3DIGIT SP reason` and a list of header fields — any order, any letter case of the names, blanks,
    any number of continuation lines in any value, names repeated at will — of at most 16384 bytes, followed by
    anything (`stream`); the bytes arrive in any quiet script (any segmentation, any silence), followed by anything
    (`rest`).  Then a `Ready` event occurs in the whole connection **iff** the digits are `101`, *exactly one* field
    is called `upgrade` and reads `websocket` (any letter case), *exactly one* field is called
    `sec-websocket-accept` and carries the expected value (`cfg.challenge`, free of commas; compared as
    `cfg.v.strictAccept` says), and the combined extension list is acceptable. -/
theorem C10_run_ready_iff_wire {cfg : Cfg} {react : React} {proxy : Bool} (hs : Setup cfg react proxy)
    (ver reason : Bytes) (a b c : Nat) (fs : List FField)
    (hver : ver ≠ [] ∧ ∀ x ∈ ver, isBytesSpace x = false) (hreason : ∀ x ∈ reason, x ≠ 13)
    (hdig : isDigit a = true ∧ isDigit b = true ∧ isDigit c = true)
    (hok : ∀ f ∈ fs, f.ok = true) (hch : 44 ∉ cfg.challenge)
    (steps rest : List EnvStep) (hq : ∀ st ∈ steps, Quiet st) (stream : Bytes)
    (hdata : dataOf steps = renderReply2 (statusLine ver [a, b, c] reason) fs ++ stream)
    (hlen : (renderReply2 (statusLine ver [a, b, c] reason) fs).length ≤ 16384) :
    HasReady (eventsOf cfg react (steps ++ rest)) ↔
      ([a, b, c] = [49, 48, 49] ∧
       (∃ f, fieldsNamed fs hUpgrade = [f] ∧ lower f.value = websocket) ∧
       (∃ g, fieldsNamed fs hAccept = [g] ∧
          (if cfg.v.strictAccept then g.value = cfg.challenge else lower g.value = lower cfg.challenge)) ∧
       extsOk (splitList ((combined fs hExt).getD []))) := by
  have hsl := statusLine_no_cr ver reason a b c hver.2 hreason hdig.1 hdig.2.1 hdig.2.2
  obtain ⟨i, h1, h2, h3⟩ := blockOf_render _ fs hsl (fun f hf => fOk_of_ok f (hok f hf)) stream
  rw [← hdata] at h1 h3
  rw [C10_run_ready_iff hs steps rest hq i h1 (by omega), h3]
  exact C10Wire2.C10_ready_iff_wire_dup cfg.v.strictAccept cfg.challenge ver reason a b c fs hver hreason hdig hok hch

/-- … with the digest of the attempt's key as the expected value -/
theorem C10_run_ready_iff_wire_digest (cl : Client) (rnd : Nat → Bytes) (n : Nat) (base : Cfg) {react : React} {proxy : Bool}
    (hs : Setup (cl.attemptCfg rnd n base) react proxy)
    (ver reason : Bytes) (a b c : Nat) (fs : List FField)
    (hver : ver ≠ [] ∧ ∀ x ∈ ver, isBytesSpace x = false) (hreason : ∀ x ∈ reason, x ≠ 13)
    (hdig : isDigit a = true ∧ isDigit b = true ∧ isDigit c = true)
    (hok : ∀ f ∈ fs, f.ok = true)
    (steps rest : List EnvStep) (hq : ∀ st ∈ steps, Quiet st) (stream : Bytes)
    (hdata : dataOf steps = renderReply2 (statusLine ver [a, b, c] reason) fs ++ stream)
    (hlen : (renderReply2 (statusLine ver [a, b, c] reason) fs).length ≤ 16384) :
    HasReady (eventsOf (cl.attemptCfg rnd n base) react (steps ++ rest)) ↔
      ([a, b, c] = [49, 48, 49] ∧
       (∃ f, fieldsNamed fs hUpgrade = [f] ∧ lower f.value = websocket) ∧
       (∃ g, fieldsNamed fs hAccept = [g] ∧
          (if base.v.strictAccept then g.value = acceptFor (b64encode (rnd n))
           else lower g.value = lower (acceptFor (b64encode (rnd n))))) ∧
       extsOk (splitList ((combined fs hExt).getD []))) := by
  have hc : (cl.attemptCfg rnd n base).challenge = acceptFor (b64encode (rnd n)) := nthChallenge_eq rnd n
  have h := C10_run_ready_iff_wire hs ver reason a b c fs hver hreason hdig hok
    (by rw [hc]; exact acceptFor_no_comma _) steps rest hq stream hdata hlen
  rw [hc] at h
  exact h

/-! ## 7. applications that are arbitrary once the reply is decided

  §1–§6 assume an application that only sends (`Setup`).  What the *handshake* needs from the application is
  less: that it does not close the websocket, drop the socket or leave the iterator in reaction to `Connecting` or
  `Connected` — before anything has been read (`QuietStart`).  In reaction to `Ready`, `Rejected`, `ProtocolError`,
  `Disconnected` and everything later it may do anything (close, `session.close()`, abandon the iterator, with or
  without a `with` block).  `poll` may be 0. -/

/-- **C10_run_ready_any_app**: a good block ⇒ the events are `Connecting, Connected, Ready(…), …`, Ready exactly once,
    no `Rejected` — even if the application abandons the iterator while handling that very `Ready`. -/
theorem C10_run_ready_any_app {cfg : Cfg} {react : React} {proxy : Bool}
    (hc : cfg.connect = .ok proxy) (hw : cfg.writeFails 0 = false) (hqs : QuietStart react proxy)
    (steps rest : List EnvStep) (hq : ∀ st ∈ steps, Quiet st) (i : Nat) (acc : Accepted)
    (hsep : findSep Gen.headerSep (dataOf steps) = some i) (hlen : i + 4 ≤ 16384)
    (hok : onResponse cfg.v.strictAccept cfg.challenge (parseResponse (blockOf (dataOf steps) i)) = .ok acc) :
    ∃ tail, eventsOf cfg react (steps ++ rest) =
        .connecting :: .connected proxy :: .ready acc.protocol acc.deflate.isSome :: tail ∧
      (∀ x d, Event.ready x d ∉ tail) ∧ (∀ r, Event.rejected r ∉ tail) := by
  obtain ⟨L, T0, hL, hT0⟩ := run_readyG hc hw hqs steps rest hq i acc hsep hlen hok
  have hev : eventsOf cfg react (steps ++ rest) =
      [.connecting, .connected proxy] ++ .ready acc.protocol acc.deflate.isSome :: (hist L).reverse := by
    rw [eventsOf_eq, hL, hist_append, hT0]; simp
  refine ⟨(hist L).reverse, by rw [hev]; rfl, ?_, ?_⟩
  · exact (ready_at_most_once cfg react (steps ++ rest) _ _ _ _ hev).2.2
  · obtain ⟨ph, hacc⟩ := monitor cfg react (steps ++ rest)
    rw [hev] at hacc
    exact Monitor.Mon.no_rejected_after_ready hacc

/-- **C10_run_rejected_any_app**: a refused block ⇒ the events are `Connecting, Connected, Rejected(reason)` followed by
    at most one `Disconnected` (none if the application left the iterator at `Rejected`); no Ready, no message event;
    socket and selector end closed — whatever the application does in reaction. -/
theorem C10_run_rejected_any_app {cfg : Cfg} {react : React} {proxy : Bool}
    (hc : cfg.connect = .ok proxy) (hw : cfg.writeFails 0 = false) (hqs : QuietStart react proxy)
    (steps rest : List EnvStep) (hq : ∀ st ∈ steps, Quiet st) (i : Nat) (reason : Str)
    (hsep : findSep Gen.headerSep (dataOf steps) = some i) (hlen : i + 4 ≤ 16384)
    (herr : onResponse cfg.v.strictAccept cfg.challenge (parseResponse (blockOf (dataOf steps) i)) = .error reason) :
    (eventsOf cfg react (steps ++ rest) = [.connecting, .connected proxy, .rejected reason] ∨
     ∃ k g, eventsOf cfg react (steps ++ rest) = [.connecting, .connected proxy, .rejected reason, .disconnected k g]) ∧
    (runAll cfg react (steps ++ rest)).sockOpen = false ∧ (runAll cfg react (steps ++ rest)).selOpen = false := by
  obtain ⟨ht, so, se⟩ := run_rejectedG hc hw hqs steps rest hq i reason hsep hlen herr
  refine ⟨?_, so, se⟩
  rcases ht with h | ⟨k, g, h⟩
  · exact Or.inl (by rw [eventsOf_eq, h]; rfl)
  · exact Or.inr ⟨k, g, by rw [eventsOf_eq, h]; rfl⟩

/-- **C10_run_oversize_any_app**: header material beyond 16 KiB ⇒ `Connecting, Connected, ProtocolError('expected
    separator', critical)` followed by at most one `Disconnected`; no Ready, no Rejected, no message event; the
    selector ends closed.  (Whether the *socket* is closed when the application abandons the iterator at that
    ProtocolError is C13's subject: it is, in the repaired `run()`.) -/
theorem C10_run_oversize_any_app {cfg : Cfg} {react : React} {proxy : Bool}
    (hc : cfg.connect = .ok proxy) (hw : cfg.writeFails 0 = false) (hqs : QuietStart react proxy)
    (steps rest : List EnvStep) (hq : ∀ st ∈ steps, Quiet st)
    (hbig : (findSep Gen.headerSep (dataOf steps) = none ∧ (dataOf steps).length > 16384) ∨
            (∃ i, findSep Gen.headerSep (dataOf steps) = some i ∧ i + 4 > 16384)) :
    (eventsOf cfg react (steps ++ rest) = [.connecting, .connected proxy, .protocolError "expected separator" true] ∨
     ∃ k g, eventsOf cfg react (steps ++ rest) =
       [.connecting, .connected proxy, .protocolError "expected separator" true, .disconnected k g]) ∧
    (runAll cfg react (steps ++ rest)).selOpen = false := by
  obtain ⟨ht, se⟩ := run_oversizeG hc hw hqs steps rest hq hbig
  refine ⟨?_, se⟩
  rcases ht with h | ⟨k, g, h⟩
  · exact Or.inl (by rw [eventsOf_eq, h]; rfl)
  · exact Or.inr ⟨k, g, by rw [eventsOf_eq, h]; rfl⟩

/-- **C10_run_ready_iff_any_app** (both comparisons): for every application that only sends until the reply has
    arrived and is arbitrary afterwards, every quiet delivery of a block within the limit, every continuation of the
    script: a `Ready` event occurs **iff** `on_response` accepts the block. -/
theorem C10_run_ready_iff_any_app {cfg : Cfg} {react : React} {proxy : Bool}
    (hc : cfg.connect = .ok proxy) (hw : cfg.writeFails 0 = false) (hqs : QuietStart react proxy)
    (steps rest : List EnvStep) (hq : ∀ st ∈ steps, Quiet st) (i : Nat)
    (hsep : findSep Gen.headerSep (dataOf steps) = some i) (hlen : i + 4 ≤ 16384) :
    HasReady (eventsOf cfg react (steps ++ rest)) ↔
      Ready cfg.v.strictAccept cfg.challenge (parseResponse (blockOf (dataOf steps) i)) := by
  constructor
  · rintro ⟨x, d, hm⟩
    cases hr : onResponse cfg.v.strictAccept cfg.challenge (parseResponse (blockOf (dataOf steps) i)) with
    | ok acc => exact ⟨acc, hr⟩
    | error reason =>
      rcases (C10_run_rejected_any_app hc hw hqs steps rest hq i reason hsep hlen hr).1 with h | ⟨k, g, h⟩ <;>
        (rw [h] at hm; simp at hm)
  · rintro ⟨acc, hok⟩
    obtain ⟨tail, hev, _⟩ := C10_run_ready_any_app hc hw hqs steps rest hq i acc hsep hlen hok
    exact ⟨acc.protocol, acc.deflate.isSome, by rw [hev]; simp⟩

/-! ## Non-vacuity -/

/-- an application that answers every event by sending a Text and a Ping -/
def chatty : React := fun _ => [.sendText (.str [104, 105]) true, .sendPing (.bytes [1])]

theorem chatty_sendOnly : SendOnly chatty := by
  intro h a ha
  simp only [chatty, List.mem_cons, List.not_mem_nil, or_false] at ha
  rcases ha with rfl | rfl <;> rfl

/-- the configuration of the first connection attempt of the sample client, every draw being `the sample nonce` -/
def exCfg : Cfg := sampleClient.attemptCfg sampleRnd 0 {}

theorem exSetup : Setup exCfg chatty false := ⟨rfl, rfl, by decide, chatty_sendOnly⟩

/-- the good reply of `C10_Wire2` (repeated filler / extension fields, folded values) followed by a Text frame
    `hi`, cut inside a field, inside the terminator and after the first frame byte, with silence in between -/
def exBlock : Bytes := renderReply2 C10Wire2.sl101 C10Wire2.goodDup
def exData : Bytes := exBlock ++ [0x81, 2, 104, 105]
def exSteps : List EnvStep :=
  [.wait 0 none, .wait 2 (some (.data (exData.take 40))), .wait 7 none,
   .wait 0 (some (.data ((exData.drop 40).take (exBlock.length - 42)))),
   .wait 1 (some (.data (exData.drop (exBlock.length - 2))))]

example : ∀ st ∈ exSteps, Quiet st := by
  intro st hst
  simp only [exSteps, List.mem_cons, List.not_mem_nil, or_false] at hst
  rcases hst with rfl | rfl | rfl | rfl | rfl
  · trivial
  · show _ ≠ []; decide +kernel
  · trivial
  · show _ ≠ []; decide +kernel
  · show _ ≠ []; decide +kernel
example : dataOf exSteps = exData := by decide +kernel
example : exBlock.length = 269 := by decide +kernel
-- the whole connection, evaluated: Ready third, reporting permessage-deflate; then Poll and the Text
example : eventsOf exCfg chatty (exSteps ++ [.wait 1 (some .eof)]) =
    [.connecting, .connected false, .ready none true, .poll, .text [104, 105], .disconnected "connection-lost" false] := by
  decide +kernel
-- a reply with the accept field twice (good, then the digest of another key), any cut: Rejected
def exDupBlock : Bytes := renderReply2 C10Wire2.sl101
  [C10Wire2.fAccept sampleDigest, C10Wire2.fUpgrade, C10Wire2.fAccept C10Wire2.otherDigest]
example : eventsOf exCfg chatty [.wait 3 (some (.data (exDupBlock.take 50))), .wait 0 (some (.data (exDupBlock.drop 50)))] =
    [.connecting, .connected false, .rejected (ofString "Sec-WebSocket-Accept challenge failed"),
     .disconnected "closed" true] := by
  decide +kernel
-- 16385 bytes without terminator: ProtocolError, forced disconnect
example (n : Nat) (hn : n > 16384) : eventsOf exCfg chatty ([.wait 0 (some (.data (List.replicate n 120)))] ++ []) =
    [.connecting, .connected false, .protocolError "expected separator" true, .disconnected "forced" false] := by
  have hnone : ∀ n, findSep Gen.headerSep (List.replicate n 120) = none := by
    intro n
    induction n with
    | zero => decide
    | succ n ih =>
      simp only [List.replicate_succ, findSep, ih, Option.map_none]
      rw [if_neg]; simp [Gen.headerSep, List.isPrefixOf]
  have hd : dataOf [.wait 0 (some (.data (List.replicate n 120)))] = List.replicate n 120 := by
    simp [dataOf]
  refine (C10_run_oversize exSetup _ [] ?_ (Or.inl ⟨by rw [hd]; exact hnone _, by rw [hd, List.length_replicate]; exact hn⟩)).1
  intro st hst
  simp only [List.mem_singleton] at hst
  subst hst
  show List.replicate n 120 ≠ []
  intro h0
  have := congrArg List.length h0
  simp at this
  omega

-- an application that leaves the iterator (inside a `with` block) as soon as it sees Ready, and closes the session's
-- socket when it sees Rejected: allowed by `QuietStart`
def leaver : React := fun h =>
  match h with
  | .ready _ _ :: _ => [.abandon true]
  | .rejected _ :: _ => [.sessionClose, .close (some 1000) (.str [])]
  | _ => [.sendPing (.bytes [])]

example : QuietStart leaver false := by
  refine ⟨?_, ?_⟩ <;> (intro a ha; simp only [leaver, List.mem_singleton] at ha; subst ha; rfl)
example : eventsOf exCfg leaver (exSteps ++ [.wait 1 (some .eof)]) = [.connecting, .connected false, .ready none true] := by
  decide +kernel
example : eventsOf exCfg leaver [.wait 3 (some (.data exDupBlock))] =
    [.connecting, .connected false, .rejected (ofString "Sec-WebSocket-Accept challenge failed"),
     .disconnected "closed" true] := by
  decide +kernel

end Lomond.C10Run
