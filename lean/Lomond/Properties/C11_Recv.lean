/-
  C11, receive side — the event-loop thread RECEIVES compressed messages while other threads send.

  The loop thread's program for a compressed data message (`Call.onData d`, `Call.onData2 d1 d2`:
  one frame / two fragments) is what `harness/sched.py` logs for the real code: the tests of `_sock`
  and `closed`, one `inflate` + `dpeek` per `Deflate._inflate` call (every frame, then the
  `00 00 ff ff` tail), `dreset` under `server_no_context_takeover`.  These steps take NO lock.
  That they touch the decompressor only is the source fact `C11Src.receive_path_leaves_compressor_alone`
  (re-extracted from lomond/compression.py on every run); the correspondence harness schedules such a
  receive between every pair of sync points of a compressing sender and compares the step logs.

  Theorems: (1) a receive step changes nothing but `Shared.dctx`; (2) no other step changes `dctx`;
  (3) hence a loop thread that only receives is invisible: under EVERY schedule the wire, the
  compressor, the flags, the lock and every other thread's state and results are exactly those of the
  run without it; (4) `compress_order` with receives interleaved anywhere.
-/
import Lomond.Proofs.ThreadsR
import Lomond.Properties.C11

namespace Lomond.C11Recv
open Lomond Lomond.Threads

/-- **A receive step touches the decompressor only**: compressor (`zctx`, `zpend`), wire, flags,
    socket and lock are what they were; the thread moves to its next step. -/
theorem receive_step_touches_only_decompressor (v : Variant) (t : Tid) (st : Step) (r : List Step)
    (sh : Shared) (c : Cur) (h : isRecvStep st = true) :
    let sh' := (exec v t st r sh c).1
    sh'.zctx = sh.zctx ∧ sh'.zpend = sh.zpend ∧ sh'.wire = sh.wire ∧ sh'.lock = sh.lock ∧
    sh'.closing = sh.closing ∧ sh'.closed = sh.closed ∧ sh'.sockOpen = sh.sockOpen ∧
    (exec v t st r sh c).2 = { c with rest := r } := by
  intro sh'
  obtain ⟨h1, h2⟩ := exec_recv_only_decompressor v t st r sh c h
  refine ⟨?_, ?_, ?_, ?_, ?_, ?_, ?_, h2⟩ <;> (simp only [sh']; rw [h1])

/-- **Nothing but a receive touches the decompressor**: every step other than `inflate` / `dreset`
    — all steps of all send methods, `close()`, the loop's own writers — leaves `dctx` alone. -/
theorem senders_leave_decompressor_alone (v : Variant) (t : Tid) (st : Step) (r : List Step) (sh : Shared)
    (c : Cur) (h : touchesD st = false) : (exec v t st r sh c).1.dctx = sh.dctx :=
  exec_leaves_decompressor v t st r sh c h

/-- the sends and closes compile to steps that do not touch the decompressor -/
theorem writers_never_touch_decompressor (v : Variant) (cfg : Cfg) (call : Call) (h : call.isRecv = false) :
    ∀ st ∈ compile v cfg call, touchesD st = false := by
  cases call <;> simp only [Call.isRecv] at h <;> try cases h
  all_goals
    simp only [compile, sendData, closeBody, writeProg, checks]
    (repeat' split) <;> simp [touchesD]

/-- **A receiving loop thread is invisible.**  Let thread `l` only receive compressed messages (any
    number, one frame or fragmented, with or without `server_no_context_takeover`).  For ALL programs
    of the other threads and ALL schedules, the run with `l` and the run without it (`without progs l`,
    same schedule: `l`'s entries are then no-ops) agree on the wire, the compressor, the flags, the
    socket, the lock, and on the complete state (program position, results) of every other thread. -/
theorem receives_invisible (v : Variant) (cfg : Cfg) (progs : Tid → List Call) (l : Tid)
    (hq : ∀ call ∈ progs l, call.isRecv = true) (sched : List Tid) :
    let a := run v cfg (init progs) sched
    let b := run v cfg (init (without progs l)) sched
    a.sh.wire = b.sh.wire ∧ a.sh.zctx = b.sh.zctx ∧ a.sh.zpend = b.sh.zpend ∧ a.sh.lock = b.sh.lock ∧
    a.sh.closing = b.sh.closing ∧ a.sh.closed = b.sh.closed ∧ a.sh.sockOpen = b.sh.sockOpen ∧
    ∀ u, u ≠ l → a.th u = b.th u := by
  intro a b
  have E := erased_run v cfg _ _ l sched (onlyRecv_init v cfg progs l hq) (erased_init progs l)
  obtain ⟨d, hd⟩ := E.sh
  have hb : b.sh = { a.sh with dctx := d } := hd
  refine ⟨?_, ?_, ?_, ?_, ?_, ?_, ?_, fun u hu => (E.th u hu).symm⟩ <;> rw [hb]

/-- **`compress_order` is unaffected by receives**: with compression under the write lock, for all
    programs — in which the loop thread (or any thread) receives compressed messages at any points —
    and all schedules, the peer decodes every frame in wire order to the message of its call; and the
    frames on the wire are exactly those of the run in which the receiving thread does not exist. -/
theorem compress_order_with_receives (v : Variant) (hv : v.compressUnderLock = true) (cfg : Cfg)
    (progs : Tid → List Call) (l : Tid) (hq : ∀ call ∈ progs l, call.isRecv = true) (sched : List Tid) :
    let s := run v cfg (init progs) sched
    frames s.sh.wire = frames (run v cfg (init (without progs l)) sched).sh.wire ∧
    ∃ ms, peerDecode cfg.noTakeover [] (frames s.sh.wire) = some ms ∧
      ms.map (fun x => (x.1, x.2.1)) = (frames s.sh.wire).map (fun c => (c.tid, c.idx)) ∧
      ∀ x ∈ ms, ∃ call, (progs x.1)[x.2.1]? = some call ∧ x.2.2 = call.msg := by
  intro s
  exact ⟨by rw [(receives_invisible v cfg progs l hq sched).1], C11.compress_order v hv cfg progs sched⟩

/-! ### non-vacuity -/

def zc : Cfg := { deflate := true, noTakeover := true, serverNoTakeover := true }
def rprogs : Tid → List Call :=
  progsOf [[.sendText C11.m0 true, .sendBinary C11.m1 true], [.onData [1, 2, 3], .onData2 [4] [5]]]
/-- T0 takes the lock, passes the checks and compresses; the loop thread inflates a whole message
    (between `compress` and `flush` of T0); T0 flushes, resets, writes; a second, fragmented message is
    received while T0 is in the middle of its second frame's write -/
def rsched : List Tid :=
  List.replicate 5 0 ++ List.replicate 9 1 ++ List.replicate 5 0 ++ List.replicate 8 0 ++ List.replicate 11 1 ++
    List.replicate 3 0

example : ∀ call ∈ rprogs 1, call.isRecv = true := by decide

/-- the receives ran (the decompressor was used and reset), both frames are on the wire and decode -/
example :
    let s := run { compressUnderLock := true } zc (init rprogs) rsched
    ((s.th 1).results.length = 2 ∧ (s.th 0).results.length = 2) ∧
    peerDecode true [] (frames s.sh.wire) = some [(0, 0, C11.m0), (0, 1, C11.m1)] := by
  decide +kernel

/-- without `server_no_context_takeover` the decompressor's context is what the loop inflated -/
example : (run { compressUnderLock := true } { deflate := true } (init rprogs) rsched).sh.dctx = [1, 2, 3, 4, 5] := by
  decide +kernel

example : isRecvStep (.inflate [1]) = true ∧ touchesD (.compress [1]) = false := by decide

end Lomond.C11Recv
