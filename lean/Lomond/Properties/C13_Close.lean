/-
  C13 / C09 — `_close_socket` releases the descriptor whatever `shutdown()` does (finding D12).
  Property theorems only.  Model: `Model/CloseSocket.lean`; tie: `Gen.closeAfterFailedShutdown` (AST, every run) selects the
  shape, and the harness compares the real method with `CloseSock.run` on all 18 outcome combinations (`harness/closesock.py`).
-/
import Lomond.Model.CloseSocket
import Lomond.Generated.Facts

namespace Lomond.C13Close
open Lomond Lomond.CloseSock

/-- **The repaired `_close_socket` always calls `close()` on a socket that is there** - for every behaviour of `shutdown()`
    and of `close()` itself. -/
theorem repaired_always_closes (i : In) (h : i.present = true) : "close" ∈ (run true i).calls := by
  unfold run inner
  cases hs : i.shut <;> simp [h]

/-- ... and never lets an exception out, leaves `_sock` cleared and the write lock free (both shapes). -/
theorem never_escapes (r : Bool) (i : In) :
    (run r i).escaped = false ∧ (run r i).sockNone = true ∧ (run r i).lockFree = true := by
  unfold run
  cases i.present <;> simp

/-- `shutdown()` is attempted first, `close()` is the last call: nothing is called on the socket after `close()`. -/
theorem close_is_last (r : Bool) (i : In) (h : "close" ∈ (run r i).calls) : (run r i).calls.getLast? = some "close" := by
  unfold run inner at *
  cases hp : i.present <;> cases hs : i.shut <;> cases r <;> simp_all

/-- **Finding D12 (the pinned shape)**: a `shutdown()` that raises `socket.error` - ENOTCONN once the connection has been
    reset - skips the `close()`, and `_sock` is cleared all the same: nothing can close the descriptor any more. -/
theorem pinned_skips_close_after_reset :
    ∃ i : In, i.present = true ∧ i.shut = .osError ∧ "close" ∉ (run false i).calls ∧ (run false i).sockNone = true :=
  ⟨{ present := true, shut := .osError, close := .ok }, by decide⟩

/-- the pinned shape is fine exactly when `shutdown()` succeeds -/
theorem pinned_closes_iff (i : In) (h : i.present = true) : "close" ∈ (run false i).calls ↔ i.shut = .ok := by
  unfold run inner
  cases hs : i.shut <;> simp [h]

/-- **The source under test** (shape re-extracted from `/repo/lomond/session.py` on every run) closes the socket for every
    behaviour of `shutdown()` and `close()`. -/
theorem source_always_closes (i : In) (h : i.present = true) : "close" ∈ (run Gen.closeAfterFailedShutdown i).calls := by
  have e : Gen.closeAfterFailedShutdown = true := by decide
  rw [e]
  exact repaired_always_closes i h

/-- non-vacuity: the reset case, on the repaired shape -/
example : (run true { present := true, shut := .osError, close := .ok }).calls = ["shutdown", "close"] := by decide
example : (run false { present := true, shut := .osError, close := .ok }).calls = ["shutdown"] := by decide

end Lomond.C13Close
