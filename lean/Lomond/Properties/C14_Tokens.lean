/-
  C14 — the call-result tokens are well placed, so "library write vs application write" is
  unambiguous; the upgrade request is the oldest write; the ordering of C14 over the whole
  connection.  Property theorems only; helper lemmas: Proofs/PongTokens.lean.

  The C14 theorems and the oracle (harness/props/c14.py) tell an application's write from a write
  the library made itself by the result token `.res r` the harness logs after every application
  call.  MANIFEST argued — did not prove — that a library write is never directly followed by
  such a token.  Proved here, for every configuration, application and environment script
  (no hypothesis at all for the token theorems):

    * `application_call_is_one_block`, `event_then_only_call_blocks`: what an application call /
      the handing-over of an event appends to the trace;
    * `library_never_puts_a_token_on_top`: from ANY state — in particular one whose newest entry
      is a write the library has just made — no library function appends a token directly on top
      of the trace it started from;
    * `library_pong_is_directly_followed_by_its_ping_event`;
    * `tokens_well_placed`: on the trace of every run every token is attached to an event through
      complete call blocks (`TokensWellPlaced`, decidable);
    * `pong_classification`: every Pong frame on the trace is either inside an application call
      block (token above, event-or-token below) or the library's reply (its Ping event above).

  The trace is newest first: in `pre ++ o :: post`, `pre` is what happened after `o`.
-/
import Lomond.Proofs.PongTokens
import Lomond.Properties.C14_Run

namespace Lomond.C14Tokens
open Lomond Lomond.Core Lomond.Core.Pong Lomond.Core.PongRun Lomond.Core.PongTokens

/-- **One application call = one call block.**  Every API call the application makes returns
    (it never raises into the loop) and appends its result token on top of at most one entry of
    its own — a write (`.wr`/`.wrz`/`.wrFail`) or the `sockClose` of `session.close()`; an
    abandonment appends nothing. -/
theorem application_call_is_one_block (a : Act) (s : Sys) :
    (∃ s' r, doAct a s = .ok () s' ∧
      (s'.trace = .res r :: s.trace ∨ ∃ o, s'.trace = .res r :: o :: s.trace ∧ appItem o = true)) ∨
    (∃ w, a = .abandon w ∧ doAct a s = .err .genExit { s with abandonedWith := w }) := by
  rcases doAct_cases a s with ⟨s', e, r, b⟩ | h
  · exact Or.inl ⟨s', r, e, b⟩
  · exact Or.inr h

example : ∃ s', doAct (.sendPong (.bytes [1])) (Ex.opened) = .ok () s' ∧
    s'.trace = [.res .ok, .wr [138, 129, 0, 0, 0, 0, 1]] := ⟨_, rfl, by decide⟩

/-- **Handing an event to the application** appends the event and, on top of it, complete call
    blocks only (whether or not the application abandons the loop there). -/
theorem event_then_only_call_blocks (e : Event) (s : Sys) :
    ∃ c, (yieldEv e s).state.trace = c ++ .ev e :: s.trace ∧ Calls c :=
  yieldEv_calls e s

/-- **The library never puts a token on top of what is on the trace.**  From any state `s`
    (whatever its newest entry: a Pong reply, an automatic Ping, a Close echo, the upgrade
    request, …) none of the library's functions ends with a trace in which a result token sits
    directly on top of `s.trace`: the write sites themselves (`_on_event` with the automatic Pong,
    `_check_auto_ping`, `close()` as called by the library for the Close echo and after a protocol
    error) append no token at all; everything that runs after them (`_regular`, the rest of
    `feed` up to the session loop, `run()`) appends tokens only attached to events it appends
    itself. -/
theorem library_never_puts_a_token_on_top (s : Sys) (pre : List Obs) (r : ActRes) :
    (∀ e, (onEvent e s).state.trace ≠ pre ++ .res r :: s.trace) ∧
    (checkAutoPing s).state.trace ≠ pre ++ .res r :: s.trace ∧
    (∀ c rs, (wsClose c rs s).state.trace ≠ pre ++ .res r :: s.trace) ∧
    (regular s).state.trace ≠ pre ++ .res r :: s.trace ∧
    (∀ b e, (feedYield b e s).state.trace ≠ pre ++ .res r :: s.trace) ∧
    (∀ c rs, (onClose c rs s).state.trace ≠ pre ++ .res r :: s.trace) ∧
    (∀ x, (feedHandler x s).state.trace ≠ pre ++ .res r :: s.trace) ∧
    (∀ data, (feedLoop data s).state.trace ≠ pre ++ .res r :: s.trace) ∧
    (∀ data, (wsFeed data s).state.trace ≠ pre ++ .res r :: s.trace) ∧
    (∀ env, (loop env s).state.trace ≠ pre ++ .res r :: s.trace) ∧
    (runLoop s).state.trace ≠ pre ++ .res r :: s.trace ∧
    (∀ p, (afterConnect p s).state.trace ≠ pre ++ .res r :: s.trace) :=
  ⟨fun e h => (rl_onEvent e s).no_token_on_top pre r h,
   fun h => (rl_checkAutoPing s).no_token_on_top pre r h,
   fun c rs h => (rl_wsClose c rs s).no_token_on_top pre r h,
   fun h => (rl_regular s).no_token_on_top pre r h,
   fun b e h => (rl_feedYield b e s).no_token_on_top pre r h,
   fun c rs h => (Lift.lift_onClose rl_leaves c rs s).no_token_on_top pre r h,
   fun x h => (Lift.lift_feedHandler rl_leaves x s).no_token_on_top pre r h,
   fun d h => (Lift.lift_feedLoop rl_leaves d s).no_token_on_top pre r h,
   fun d h => (Lift.lift_wsFeed rl_leaves d s).no_token_on_top pre r h,
   fun env h => (rl_loop env s).no_token_on_top pre r h,
   fun h => (rl_runLoop s).no_token_on_top pre r h,
   fun p h => (rl_afterConnect p s).no_token_on_top pre r h⟩

/-- **The library's Pong is directly followed by its Ping event.**  When `_on_event` has handled a
    Ping (writing the Pong, or nothing when it is refused or automatic pongs are off), the next
    entry of the trace is the event `Ping d` itself — not a token — and what follows the event is
    well placed on its own. -/
theorem library_pong_is_directly_followed_by_its_ping_event (inTry : Bool) (d : Bytes) (s s1 : Sys)
    (h : onEvent (.ping d) s = .ok () s1) :
    (s1.trace = s.trace ∨ ∃ o, s1.trace = o :: s.trace ∧ o.isWrite = true) ∧
    ∃ l, (feedYield inTry (.ping d) s).state.trace = l ++ .ev (.ping d) :: s1.trace ∧
      TokensWellPlaced (l ++ [.ev (.ping d)]) = true := by
  refine ⟨?_, feedYield_shape inTry (.ping d) s s1 h⟩
  have a := w1_onEvent (.ping d) s
  rw [h] at a
  exact a

/-! ### run level -/

/-- **Every result token of every run is well placed** (no hypothesis: every configuration,
    application, environment script, every way the run ends).  On the trace of a whole connection
    each token directly follows an event, a previous token, or exactly one write / `sockClose`
    which itself directly follows an event or a token: tokens occur only inside the application's
    call blocks hanging off an event.  Hence the classification used by the C14 theorems and by
    the oracle — a write is an application write iff the next entry is a token — is unambiguous:
    a write the library made itself is followed by the event it belongs to, by another library
    entry, or by nothing. -/
theorem tokens_well_placed (cfg : Cfg) (react : React) (env : List EnvStep) :
    TokensWellPlaced (runAll cfg react env).trace = true :=
  twp_runAll cfg react env

/-- the same, position by position: below a token there is an event or a token, or one write /
    `sockClose` with an event or a token below it -/
theorem token_is_attached (cfg : Cfg) (react : React) (env : List EnvStep)
    (pre : List Obs) (r : ActRes) (post : List Obs)
    (h : (runAll cfg react env).trace = pre ++ .res r :: post) :
    atApp post = true ∨ ∃ o post', post = o :: post' ∧ appItem o = true ∧ atApp post' = true := by
  have := twp_runAll cfg react env
  rw [h] at this
  have hr := twp_at_token this
  cases post with
  | nil => cases hr
  | cons o post' =>
    cases o
    case ev => exact Or.inl rfl
    case res => exact Or.inl rfl
    all_goals
      simp only [resOK, Bool.and_eq_true] at hr
      exact Or.inr ⟨_, _, rfl, hr.1, hr.2⟩

/-- **Every Pong frame on the trace is classified, exclusively.**  A Pong frame handed to
    `sendall` during a run is either
    (A) an application's: its result token is the next entry AND the entry below it is an event or
        a token (it sits in a call block), or
    (B) the library's reply: the next entry is the event `Ping d` whose payload it carries (never a
        token), automatic pongs are on and the connection was usable.
    The hypotheses are those of `C14Run.pong_implies_ping`. -/
theorem pong_classification (cfg : Cfg) (react : React) (env : List EnvStep)
    (hv : cfg.v.closeArgs = true) (hreq : ReqPlain cfg)
    (pre : List Obs) (o : Obs) (post : List Obs)
    (h : (runAll cfg react env).trace = pre ++ o :: post) (ho : o.pongOut = true) :
    ((∃ pre' r, pre = pre' ++ [.res r]) ∧ atApp post = true ∧ ¬ ∃ pre' d, pre = pre' ++ [.ev (.ping d)]) ∨
    ((∃ pre' d, pre = pre' ++ [.ev (.ping d)] ∧ IsPongFor d o) ∧ cfg.autoPong = true ∧ usable post = true ∧
      ¬ ∃ pre' r, pre = pre' ++ [.res r]) := by
  have hw : o.isWrite = true := by cases o <;> first | rfl | cases ho
  rcases C14Run.pong_implies_ping cfg react env hv hreq pre o post h ho with ⟨pre', r, e⟩ | ⟨ha, hu, pre', d, e, hp⟩
  · left
    refine ⟨⟨pre', r, e⟩, ?_, ?_⟩
    · have := twp_runAll cfg react env
      rw [h, e, List.append_assoc] at this
      exact resOK_write hw (twp_at_token this)
    · rintro ⟨p2, d, e2⟩
      rw [e] at e2
      have := congrArg List.getLast? e2
      simp at this
  · right
    refine ⟨⟨pre', d, e, hp⟩, ha, hu, ?_⟩
    rintro ⟨p2, r, e2⟩
    rw [e] at e2
    have := congrArg List.getLast? e2
    simp at this

/-! ### the whole connection, the upgrade request included -/

/-- **The upgrade request is the oldest write of the connection.**  Either nothing was ever
    handed to `sendall` (and no Ping event occurred), or the trace is
    `newer ++ request :: older` where `request` is the upgrade request (written, or the write
    failed) and `older` holds only `Connecting` and the tokens of calls made there: no write, no
    Ping event, no `sockClose`.  The request is thus identified by its *position*, whatever its
    bytes look like (`ReqPlain` is not needed here). -/
theorem request_is_first_write (cfg : Cfg) (react : React) (env : List EnvStep)
    (hv : cfg.v.closeArgs = true) :
    (∀ o ∈ (runAll cfg react env).trace, o.isWrite = false ∧ o.pingEv = false) ∨
    ∃ newer o older, (runAll cfg react env).trace = newer ++ o :: older ∧
      (o = .wr cfg.request ∨ o = .wrFail cfg.request) ∧ ∀ x ∈ older, calm x = true :=
  reqFirst_runAll cfg react env hv

/-- **Ordering over the whole connection.**  For every Ping event of a run (from `Connecting`
    on): the upgrade request lies below it (`post = … ++ request :: older`, nothing written
    before the request); if automatic pongs are on and the connection was usable, the entry
    directly below the event is the one Pong for its payload, and that Pong lies strictly above the
    request; everything from the event upwards (`pre ++ [Ping d]`: the application's reaction to
    this event, every later event and the reactions to those) is well placed on its own — each
    application write there is in a call block attached to this event or a later one — so the
    Pong precedes all of them. -/
theorem pong_after_request_before_reactions (cfg : Cfg) (react : React) (env : List EnvStep)
    (hv : cfg.v.closeArgs = true) (hreq : ReqPlain cfg)
    (pre : List Obs) (d : Bytes) (post : List Obs)
    (h : (runAll cfg react env).trace = pre ++ .ev (.ping d) :: post) :
    (∃ mid rq older, post = mid ++ rq :: older ∧ (rq = .wr cfg.request ∨ rq = .wrFail cfg.request) ∧
        (∀ x ∈ older, calm x = true) ∧
        (cfg.autoPong = true → usable post = true →
          ∃ o mid', mid = o :: mid' ∧ IsPongFor d o ∧ NoPongTop (mid' ++ rq :: older))) ∧
    TokensWellPlaced (pre ++ [.ev (.ping d)]) = true := by
  refine ⟨?_, twp_cut pre (.ping d) post (h ▸ twp_runAll cfg react env)⟩
  obtain ⟨mid, rq, older, e, hrq, hc⟩ := (reqFirst_runAll cfg react env hv).ping_above h
  refine ⟨mid, rq, older, e, hrq, hc, fun hap hu => ?_⟩
  obtain ⟨o, post', e2, hp, hn⟩ := C14Run.ping_implies_pong cfg react env hv hreq hap pre d post h hu
  cases mid with
  | nil =>
    exfalso
    rw [e2] at e
    simp only [List.nil_append, List.cons.injEq] at e
    have hpo := hp.pongOut
    rw [e.1] at hpo
    rcases hrq with rfl | rfl
    · exact absurd hpo (by rw [show (Obs.wr cfg.request).pongOut = isPongBytes cfg.request from rfl, hreq.2]; simp)
    · exact absurd hpo (by rw [show (Obs.wrFail cfg.request).pongOut = isPongBytes cfg.request from rfl, hreq.2]; simp)
  | cons x mid' =>
    rw [e2] at e
    simp only [List.cons_append, List.cons.injEq] at e
    obtain ⟨rfl, rfl⟩ := e
    exact ⟨o, mid', rfl, hp, hn⟩

/-! ### non-vacuity: concrete runs -/

/-- at a Ping: a text message and a `send_ping(None)` (TypeError: a token without a write);
    at a Text: `close(1000)` and one more send (refused: closing) -/
def exReact : React := fun hist =>
  match hist with
  | .ping _ :: _ => [.sendText (.str [104]) false, .sendPing .other]
  | .text _ :: _ => [.close (some 1000) (.bytes []), .sendBinary (.bytes [1]) false]
  | _ => []

/-- handshake reply; a fragmented text message with two Pings between its fragments; a Ping while
    closing; the server's Close -/
def exEnv : List EnvStep :=
  [.wait 0 (some (.data Ex.resp)),
   .wait 1 (some (.data [0x01, 1, 65, 0x89, 1, 66, 0x89, 0, 0x80, 1, 67])),
   .wait 1 (some (.data [0x89, 1, 68])),
   .wait 1 (some (.data [0x88, 0]))]

example : Ex.cfg.v.closeArgs = true ∧ ReqPlain Ex.cfg := ⟨rfl, C14Run.reqPlain_of_GET Ex.cfg [69, 84] rfl⟩

set_option maxRecDepth 8192 in
/-- two Pings between fragments, each answered before the event and before the application's
    reaction (a write + token, then a bare token); the Close of the application; the third Ping
    arrives in the closing state and is not answered; with automatic Pings every tick the
    library's Ping `[137, …]` is followed by the library's Pong, not by a token -/
example : (runAll { Ex.cfg with pingRate := 1 } exReact exEnv).trace.reverse =
    [.ev .connecting, .wr [71, 69, 84], .ev (.connected false), .ev (.ready none false), .ev .poll, .tick 1,
     .wr [137, 128, 0, 0, 0, 0],
     .wr [138, 129, 0, 0, 0, 0, 66], .ev (.ping [66]), .wr [129, 129, 0, 0, 0, 0, 104], .res .ok, .res .typeError,
     .wr [138, 128, 0, 0, 0, 0], .ev (.ping []), .wr [129, 129, 0, 0, 0, 0, 104], .res .ok, .res .typeError,
     .ev (.text [65, 67]), .wr [136, 130, 0, 0, 0, 0, 3, 232], .res .ok, .res .wsClosing, .tick 2,
     .ev (.ping [68]), .res .wsClosing, .res .typeError, .tick 3,
     .ev (.closed none []), .sockClose, .ev (.disconnected "closed" true), .selClose] := by decide +kernel

set_option maxRecDepth 8192 in
example : TokensWellPlaced (runAll { Ex.cfg with pingRate := 1 } exReact exEnv).trace = true := by decide +kernel

/-- the predicate is not trivially true: a token directly on top of a library write that does not
    follow an event or a token (`tick, Pong, token`) is rejected, and so is a token on top of a tick -/
example : TokensWellPlaced [.res .typeError, .wr [138, 0], .tick 1, .ev .poll] = false ∧
    TokensWellPlaced [.res .ok, .tick 1, .ev .poll] = false ∧
    TokensWellPlaced [.res .ok, .wr [1], .wr [138, 0], .ev .poll] = false ∧
    TokensWellPlaced [.res .typeError, .res .ok, .wr [129, 0], .ev (.ping []), .wr [138, 0], .tick 1] = true := by decide

end Lomond.C14Tokens
