/-
  C01 companion — how the hand-written model turns the frames of a message into a message is what
  message.py says.

  `Lomond.Gen.Code.messageBuildInflate` is produced by harness/py2lean.py, on every check run,
  from the test `if first_frame.rsv1 and decompress:` of `Message.build` (is the joined payload
  inflated or taken as it is) and `messageBuildKind` from its opcode dispatch (`Binary`,
  `Text.from_payload`, `Close.from_payload`, `Ping`, `Pong`, else a plain `Message`; the classes
  are checked to carry the opcode they are chosen for).  The theorems state that
  `Core.buildMessage` and `Core.msgOfPayload` decide exactly like these.  Theorems only.
-/
import Lomond.Proofs.GenTie
import Lomond.Generated.Code

namespace Lomond.C01Gen
open Lomond Lomond.Core Lomond.GenTie
open Lomond.Gen.Code

/-- the payload is inflated exactly when the first frame has RSV1 set and a decompressor was
    passed (compression negotiated) -/
theorem gen_inflate_spec (rsv1 : Nat) (decompress : Bool) :
    messageBuildInflate rsv1 decompress = decide (rsv1 ≠ 0 ∧ decompress = true) := by
  unfold messageBuildInflate
  by_cases h : rsv1 = 0 <;> cases decompress <;> simp [h]

/-- `Core.buildMessage`: the frames' payloads are joined; the translated test decides whether the
    result goes through the inflater; the translated dispatch (`gen_msgOfPayload`) makes the message -/
theorem gen_buildMessage (first : Frame) (rest : List Frame) :
    buildMessage (first :: rest) =
      (do let joined := ((first :: rest).map (·.payload)).flatten
          let s ← getS
          let payload ← (if messageBuildInflate first.rsv1 s.decompress then inflateMessage joined else pure joined)
          liftE (msgOfPayload first.opcode payload) : M Msg) := by
  funext s
  simp only [buildMessage, gen_inflate_spec, bind, M.bind, getS, decide_eq_true_eq]

/-- `Core.msgOfPayload` is the translated opcode dispatch of `Message.build`: BINARY ⇒ `Binary`,
    TEXT ⇒ `Text.from_payload` (strict UTF-8 decode), CLOSE ⇒ `Close.from_payload`, PING ⇒ `Ping`,
    PONG ⇒ `Pong`, anything else ⇒ a plain `Message` (which `WebSocket.feed` ignores). -/
theorem gen_msgOfPayload (op : Nat) (payload : Bytes) :
    msgOfPayload op payload =
      match messageBuildKind op with
      | 1 => .ok (.binary payload)
      | 2 =>
        (match Utf8.decode payload with
         | none => .error (.critical "payload contains invalid utf-8")
         | some cps => .ok (.text cps))
      | 3 => closeFromPayload payload
      | 4 => .ok (.ping payload)
      | 5 => .ok (.pong payload)
      | _ => .ok .unknown := by
  unfold msgOfPayload messageBuildKind
  simp only [decide_eq_true_eq]
  by_cases h2 : op = Gen.opBinary
  · simp only [if_pos h2]
  · by_cases h1 : op = Gen.opText
    · simp only [if_neg h2, if_pos h1]
      cases Utf8.decode payload <;> rfl
    · by_cases h8 : op = Gen.opClose
      · simp only [if_neg h2, if_neg h1, if_pos h8]
      · by_cases h9 : op = Gen.opPing
        · simp only [if_neg h2, if_neg h1, if_neg h8, if_pos h9]
        · by_cases h10 : op = Gen.opPong
          · simp only [if_neg h2, if_neg h1, if_neg h8, if_neg h9, if_pos h10]
          · simp only [if_neg h2, if_neg h1, if_neg h8, if_neg h9, if_neg h10]

example : messageBuildKind 2 = 1 := by decide
example : messageBuildKind 1 = 2 := by decide
example : messageBuildKind 8 = 3 := by decide
example : messageBuildKind 9 = 4 := by decide
example : messageBuildKind 10 = 5 := by decide
example : messageBuildKind 0 = 0 := by decide
example : messageBuildInflate 1 true = true := by decide
example : messageBuildInflate 1 false = false := by decide

end Lomond.C01Gen
