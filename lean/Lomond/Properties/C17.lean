import Lomond.Model.Core
namespace Lomond.C17
end Lomond.C17
