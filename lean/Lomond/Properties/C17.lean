/-
  C17 — each connect() starts from a clean slate.

  In the model a connection is `Core.runAll cfg react env`: it starts from the initial `Sys`.
  The Python object is not new when `connect()` is called a second time: `used_object_equals_fresh`
  runs the connection from the leftover state of ANY previous connection, re-initialising exactly the
  fields the source re-creates (`Proofs/Fresh.lean`), and proves the result equal to `runAll`.
  That every piece of per-connection state lives on objects that `connect()` replaces
  is a statement about the source text; it is established here over facts that the translator
  re-extracts from `/repo` on every run (`Generated/Facts.lean`): moving a field out of `State`,
  dropping the `reset()` call, turning an instance attribute into a class attribute, … changes
  the generated lists and breaks these theorems.  The behavioural side (second connection on a
  used object = first connection on a fresh one) is the correspondence check.
-/
import Lomond.Model.Core
import Lomond.Generated.Facts
import Lomond.Proofs.Reconnect
import Lomond.Proofs.Fresh

namespace Lomond.C17
open Lomond Lomond.Core

/-- **A connection on a used object is the connection a fresh object would make.**  `prev` is ANY state the object
    can be in when `connect()` is called (whatever the previous connection did and however it ended: mid-header,
    mid-frame, mid-fragmented-message, mid-compression-context, closing, rejected, failed, abandoned).
    `Fresh.reconnect prev …` keeps every field of `prev` except those the source provably re-creates with the
    model's initial value (generated facts: `connect()` starts with `reset()`, `reset()` assigns a new `State`,
    `State.__init__` / `WebsocketStream.__init__` / `FrameParser.__init__` / `Parser.__init__` /
    `WebsocketSession.__init__` and their initialiser expressions); running the connection from there gives
    exactly `runAll cfg react env`. -/
theorem used_object_equals_fresh (prev : Sys) (cfg : Cfg) (react : React) (env : List EnvStep) :
    Fresh.runAllFrom (Fresh.reconnect prev cfg react env) = runAll cfg react env := by
  rw [Fresh.reconnect_eq_init, Fresh.runAll_eq_from]

/-- the statement is not idle: for a concrete dirty object (closing, a close timer armed, mid-text-frame with the UTF-8
    validator inside a character, compression negotiated, 3 bytes buffered) `reconnect` really has something to undo,
    and the field-wise definition really keeps a stale value when the owner is not re-created -/
example :
    let dirty : Sys := { cfg := {}, react := fun _ => [], env := [], closing := true, sentCloseTime := some 7, ready := true,
                         sockOpen := true, parsedResponse := true, decompress := true, inflHist := [1, 2, 3],
                         p := { cont := .payload { opcode := 1, fin := 0 }, remPred := 4, utf8 := true, buf := [0xe2, 0x82, 0x61], dfa := 3, isText := true } }
    Fresh.reconnect dirty {} (fun _ => []) [] ≠ dirty ∧
    Fresh.boolAttr false "State" "closing" true = true ∧
    Fresh.boolAttr true "State" "no_such_attribute" true = true := by
  refine ⟨?_, by decide, by decide⟩
  rw [Fresh.reconnect_eq_init]
  intro h
  have := congrArg Sys.closing h
  simp at this

/-- a fresh connection starts with every per-connection field at its initial value -/
theorem initial_state (cfg : Cfg) (react : React) (env : List EnvStep) :
    let s0 : Sys := { cfg := cfg, react := react, env := env }
    s0.closing = false ∧ s0.closed = false ∧ s0.sentCloseTime = none ∧ s0.compression = none ∧
    s0.parsedResponse = false ∧ s0.frames = [] ∧ s0.decompress = false ∧ s0.inflHist = [] ∧
    s0.p = {} ∧ s0.ready = false ∧ s0.pollStart = none ∧ s0.startTime = none ∧
    s0.keyCtr = 0 ∧ s0.writeCtr = 0 ∧ s0.trace = [] := by
  simp

/-! ### facts about the source, re-extracted on every run -/

def startsWith (pre s : String) : Bool := pre.toList.isPrefixOf s.toList

/-- `connect()` begins with `self.reset()`, `reset()` assigns a new `State`, and `connect()`
    constructs a new session object. -/
theorem connect_replaces_state :
    Gen.connectResetsFirst = true ∧ Gen.resetAssignsState = true ∧ Gen.connectNewSession = true := by
  decide

/-- Outside `__init__`, the only attributes ever written on the `WebSocket` object are `state`
    itself and attributes of `state`. -/
theorem websocket_writes_only_state :
    ∀ w ∈ Gen.wsWrites, w.1 = "__init__" ∨ w.2 = "state" ∨ startsWith "state." w.2 = true := by
  decide

/-- Every attribute of `state` that is written anywhere is (re)initialised by `State.__init__`. -/
theorem state_attrs_cover_writes :
    ∀ w ∈ Gen.wsWrites, startsWith "state." w.2 = true →
      (String.ofList (w.2.toList.drop 6)) ∈ Gen.stateAttrs := by
  decide

/-- `State.__init__` creates the stream (parser, fragment list, UTF-8 validator, decompressor),
    the key, and the closing / closed / close-time / compression fields. -/
theorem state_inventory :
    ∀ a ∈ ["stream", "session", "key", "closing", "closed", "sent_close_time", "compression"],
      a ∈ Gen.stateAttrs := by
  decide

/-- first component of an attribute chain (`_awaiting.remaining` ↦ `_awaiting`) -/
def baseAttr (a : String) : String := String.ofList (a.toList.takeWhile (· ≠ '.'))

/-- On the objects that `State.__init__` / `connect()` construct (stream, frame parser, parser,
    session), every attribute written by any method is assigned in that object's `__init__`:
    no per-connection state lives anywhere else. -/
theorem helper_objects_init_everything :
    (∀ w ∈ Gen.streamWrites, ("__init__", baseAttr w.2) ∈ Gen.streamWrites) ∧
    (∀ w ∈ Gen.frameParserWrites, ("__init__", baseAttr w.2) ∈ Gen.frameParserWrites) ∧
    (∀ w ∈ Gen.parserWrites, ("__init__", baseAttr w.2) ∈ Gen.parserWrites ∨ ("reset", baseAttr w.2) ∈ Gen.parserWrites) ∧
    (∀ w ∈ Gen.sessionWrites, ("__init__", baseAttr w.2) ∈ Gen.sessionWrites) := by
  decide

/-- The model's per-connection fields and the Python attributes that carry them: each is an
    instance attribute assigned in `__init__` (a class-level attribute would be shared by all
    connections). -/
theorem model_fields_are_instance_state :
    (∀ a ∈ ["_is_text", "_utf8_validator", "_compression", "_frame_class"], ("__init__", a) ∈ Gen.frameParserWrites) ∧
    (∀ a ∈ ["_buffer", "_awaiting", "_gen", "_eof"], ("__init__", a) ∈ Gen.parserWrites) ∧
    (∀ a ∈ ["_frames", "_parsed_response", "_decompress", "frame_parser"], ("__init__", a) ∈ Gen.streamWrites) ∧
    (∀ a ∈ ["_sock", "_poll_start", "_next_ping", "_last_pong", "_start_time", "_ready", "_buffer", "_lock"],
        ("__init__", a) ∈ Gen.sessionWrites) ∧
    Gen.classLevelObjects = [] := by
  decide

/-! ### abandoned generators that are finalised late (finding D10) -/

open Lomond.Reconnect (codeVia)

/-- the source really contains the handler this is about (the fact list is not vacuous) -/
theorem feed_exit_handler_present : ("feed", "on_disconnect", "captured") ∈ Gen.exitStateReads := by decide

theorem code_via_captured : codeVia = .captured := by decide

open Lomond.Reconnect in
/-- **Late finalisation cannot reach the current connection.**  Take any earlier life of the object `o`, a
    `connect()`, and then any history in which the new connection acts on its own state while generators of
    OLDER connections are finalised at arbitrary moments (`Op.exit i`, `i` older than the current connection): the
    current connection's state is exactly what a freshly constructed object would have after the connection's own
    actions alone.  Stated for the way the current source finds the state (`codeVia`). -/
theorem late_finalisation_isolated (o : Obj) (ops : List Op) (h : OldExits (o.states.length + 1) ops) :
    ((o.connect).run codeVia ops).view = some (freshView ops) := by
  rw [code_via_captured]
  have hl : o.connect.states.length = o.states.length + 1 := by simp [Obj.connect]
  have := run_view o.connect ops {} (view_connect o) (by rw [hl]; exact h)
  exact this.2

open Lomond.Reconnect in
/-- the hypotheses are satisfiable by a non-trivial history: two earlier connections, both finalised during the third -/
example : OldExits 3 [.exit 0, .own .close, .exit 1] ∧
    (((({} : Obj).connect.connect).connect).run .captured [.exit 0, .own .close, .exit 1]).view
      = some { closed := false, closing := true, sessionClosed := false } := by
  refine ⟨?_, by decide⟩
  intro op hm
  simp at hm
  rcases hm with rfl | rfl | rfl <;> simp

open Lomond.Reconnect in
/-- **The code before the repair (D10).**  Going through `self.state` at finalisation time, the exit of the first
    connection's generator after the second `connect()` marks the SECOND connection closed and closes its session
    (the real code then reports ConnectFail "request failed; data not sent"). -/
theorem late_finalisation_poisons_current :
    ((({} : Obj).connect.connect).run .current [.exit 0]).view
      = some { closed := true, closing := false, sessionClosed := true } ∧
    ((({} : Obj).connect.connect).run .captured [.exit 0]).view = some {} := by
  decide

/-- Objects that survive `connect()` (attributes of the WebSocket itself: URL parts, protocols, the list of custom headers, ...)
    are never mutated in place by the library: the only in-place mutation of such an attribute - or of a local name bound to one
    without a copy - in any method other than `__init__` is `add_header` appending to `_headers`, which is an application call.
    In particular `build_request` works on a copy of the custom-header list (seeded change C16-r4m2 aliased it: every reconnect
    then repeated the standard headers, and the stale keys, of all earlier requests).  Re-extracted from the source on every run. -/
theorem surviving_objects_not_mutated_in_place : Gen.wsInPlaceMutations = [("add_header", "self._headers")] := by decide

end Lomond.C17
