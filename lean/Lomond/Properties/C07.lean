import Lomond.Model.Core
namespace Lomond.C07
end Lomond.C07
