/-
  C07 — every connection attempt yields a well-formed, finite event sequence.
  Property theorems only (helper lemmas: Proofs/Monitor.lean, MonitorList.lean, Raises.lean,
  EnvIrrel.lean, Terminate.lean, RunAll.lean).

  The monitor automaton of the property text is `Core.Mon.step` (Proofs/Monitor.lean):

      start ──Connecting──▶ connecting ──ConnectFail──▶ done
                                │
                                └─Connected──▶ connected ──Ready──▶ ready ──Unresponsive──▶ unresp
                                                  │  ▲ Rejected,           │ ▲ Text, Binary, Ping,       │
                                                  │  └ ProtocolError       │ └ Pong, Poll, Closing,      │
                                                  │                        │   Closed, ProtocolError     │
                                                  └──Disconnected──▶ done ◀┴───────Disconnected──────────┘
  `done` has no successor.  `Mon.accepts evs` = the automaton does not get stuck on `evs` (the list of
  events, oldest first); `Mon.complete evs` = it ends in `done`.  The theorems hold for every
  configuration `cfg` (timers, connect outcome, write failures, variant flags), every application
  `react` (any calls, with any arguments, in reaction to any event history — including abandoning the
  iterator) and every environment script `env` (any bytes with any segmentation, silence, EOF, socket
  errors, other exceptions, selector errors).
-/
import Lomond.Proofs.RunAll

namespace Lomond.C07
open Lomond Lomond.Core Lomond.Core.Monitor

/-- the events of a whole connection attempt, oldest first -/
def eventsOf (cfg : Cfg) (react : React) (env : List EnvStep) : List Event :=
  events (runAll cfg react env).trace

/-- the automaton's phase after the whole connection; it is never the initial one (`Connecting` is
    always yielded) -/
theorem monitor_phase (cfg : Cfg) (react : React) (env : List EnvStep) :
    ∃ ph, Mon.run .start (eventsOf cfg react env) = some ph ∧ ph ≠ .start := by
  have h := (run_spec cfg react env).1
  unfold eventsOf
  rw [runAll_events, ← phaseOf_eq_run]
  cases hr : run (initSys cfg react env) with
  | ok u s => rw [hr] at h; exact ⟨_, h, by decide⟩
  | err x s => rw [hr] at h; exact h

/-! Non-vacuity: a concrete connection used in the examples below — a correct upgrade reply and a
    Text frame in one read, five seconds of silence, then end-of-stream. -/

/-- `HTTP/1.1 101 X\r\nUpgrade: websocket\r\nSec-WebSocket-Accept: k\r\n\r\n` -/
def exReply : Bytes :=
  [72, 84, 84, 80, 47, 49, 46, 49, 32, 49, 48, 49, 32, 88, 13, 10, 85, 112, 103, 114, 97, 100, 101, 58, 32, 119,
   101, 98, 115, 111, 99, 107, 101, 116, 13, 10, 83, 101, 99, 45, 87, 101, 98, 83, 111, 99, 107, 101, 116, 45, 65,
   99, 99, 101, 112, 116, 58, 32, 107, 13, 10, 13, 10]
def exCfg : Cfg := { challenge := [107] }
def exEnv : List EnvStep :=
  [.wait 0 (some (.data (exReply ++ [0x81, 2, 104, 105]))), .wait 6 none, .wait 0 (some .eof)]

/-- the model really produces a non-trivial well-formed sequence on it … -/
example : eventsOf exCfg (fun _ => []) exEnv =
    [.connecting, .connected false, .ready none false, .poll, .text [104, 105], .poll,
     .disconnected "connection-lost" false] := by decide +kernel

/-- … a graceful one when the application closes at the Text event and the server answers with EOF … -/
example : eventsOf exCfg (fun h => if h.length = 5 then [.close (some 1000) (.bytes [])] else []) exEnv =
    [.connecting, .connected false, .ready none false, .poll, .text [104, 105], .poll,
     .disconnected "closed" true] := by decide +kernel

/-- … an abandoned prefix when the application stops iterating at `Ready` (the `Abandons` case of
    `run_outcomes`; the monitor accepts the prefix) … -/
example : eventsOf exCfg (fun h => if h.length = 3 then [.abandon false] else []) exEnv =
    [.connecting, .connected false, .ready none false] := by decide +kernel

/-- … and an INCOMPLETE trace when the script stops with the loop still running (the third case of
    `run_outcomes`) -/
example : Obs.incomplete ∈ (runAll exCfg (fun _ => []) (exEnv.take 2)).trace := by decide +kernel

/-- a rejected upgrade and a failed connect: the other two shapes of a complete sequence -/
example : eventsOf exCfg (fun _ => []) [.wait 0 (some (.data [72, 84, 84, 80, 47, 49, 46, 49, 32, 53, 48, 48, 32, 88, 13, 10, 13, 10]))] =
    [.connecting, .connected false, .rejected (Http.ofString "Websocket upgrade failed (code=500)"),
     .disconnected "closed" true] := by decide +kernel
example : eventsOf { connect := .socketFail } (fun _ => []) exEnv = [.connecting, .connectFail "connect-failed"] := by
  decide +kernel

/-- **The monitor never rejects.**  Whatever the server, the environment and the application do, the
    event sequence of a connection is a prefix of a well-formed sequence. -/
theorem monitor (cfg : Cfg) (react : React) (env : List EnvStep) : Mon.accepts (eventsOf cfg react env) := by
  obtain ⟨ph, h, _⟩ := monitor_phase cfg react env
  exact ⟨ph, h⟩

/-- **When `run()` returns, the sequence is complete**: the automaton is in its final state. -/
theorem monitor_complete (cfg : Cfg) (react : React) (env : List EnvStep) (s : Sys)
    (hr : run (initSys cfg react env) = .ok () s) : Mon.complete (eventsOf cfg react env) := by
  have h := (run_spec cfg react env).1
  unfold Mon.complete eventsOf
  rw [runAll_events, ← phaseOf_eq_run]
  rw [hr] at h ⊢; exact h

/-- `run()` either returns, or is abandoned by the application (`GeneratorExit`; possible only for an
    application that does abandon), or — model artefact — runs out of environment script.  No other
    exception leaves it (this is C09.no_escape). -/
theorem run_outcomes (cfg : Cfg) (react : React) (env : List EnvStep) :
    (∃ s, run (initSys cfg react env) = .ok () s) ∨
    (∃ s, run (initSys cfg react env) = .err .genExit s ∧ Abandons react) ∨
    (∃ s, run (initSys cfg react env) = .err .scriptEnd s) := by
  rcases runAll_cases cfg react env with ⟨s, hr, _⟩ | ⟨s, hr, ha, _⟩ | ⟨s, hr, _⟩
  · exact Or.inl ⟨s, hr⟩
  · exact Or.inr (Or.inl ⟨s, hr, ha⟩)
  · exact Or.inr (Or.inr ⟨s, hr⟩)

/-- the trace is marked INCOMPLETE exactly when the environment script was exhausted with the loop
    still running -/
theorem incomplete_iff (cfg : Cfg) (react : React) (env : List EnvStep) :
    Obs.incomplete ∈ (runAll cfg react env).trace ↔ ∃ s, run (initSys cfg react env) = .err .scriptEnd s := by
  have hn := (run_spec cfg react env).2.1
  rcases runAll_cases cfg react env with ⟨s, hr, e⟩ | ⟨s, hr, _, k⟩ | ⟨s, hr, e⟩
  · rw [hr] at hn; rw [e, hr]
    exact ⟨fun h => absurd h hn, fun ⟨_, h⟩ => by cases h⟩
  · rw [hr] at hn; rw [hr]
    exact ⟨fun h => absurd h (k.noInc hn), fun ⟨_, h⟩ => by cases h⟩
  · rw [e]
    exact ⟨fun _ => ⟨s, hr⟩, fun _ => List.mem_cons_self⟩

/-- **Exactly one terminal event, and it is last** — unless the application abandoned the iterator or
    the script was exhausted (trace marked INCOMPLETE). -/
theorem complete_unless_abandoned_or_exhausted (cfg : Cfg) (react : React) (env : List EnvStep) :
    Mon.complete (eventsOf cfg react env) ∨ Abandons react ∨ Obs.incomplete ∈ (runAll cfg react env).trace := by
  rcases run_outcomes cfg react env with ⟨s, hr⟩ | ⟨s, _, ha⟩ | h
  · exact Or.inl (monitor_complete cfg react env s hr)
  · exact Or.inr (Or.inl ha)
  · exact Or.inr (Or.inr ((incomplete_iff cfg react env).mpr h))

/-! ### the clauses of the property text, read off the automaton -/

/-- `Connecting` is always yielded, and it is the first event -/
theorem first_is_connecting (cfg : Cfg) (react : React) (env : List EnvStep) :
    ∃ r, eventsOf cfg react env = .connecting :: r := by
  obtain ⟨ph, h, hne⟩ := monitor_phase cfg react env
  cases he : eventsOf cfg react env with
  | nil => rw [he] at h; cases h; exact absurd rfl hne
  | cons e r => rw [he] at h; rw [Mon.first_is_connecting h]; exact ⟨r, rfl⟩

/-- then either `ConnectFail`, and nothing else, or `Connected` -/
theorem second_event (cfg : Cfg) (react : React) (env : List EnvStep) (e0 e1 : Event) (r : List Event)
    (he : eventsOf cfg react env = e0 :: e1 :: r) :
    (∃ k, e1 = .connectFail k ∧ r = []) ∨ (∃ p, e1 = .connected p) := by
  obtain ⟨ph, h⟩ := monitor cfg react env
  rw [he] at h; exact Mon.second_event h

/-- at most one terminal event (`ConnectFail` or `Disconnected`), and nothing after it -/
theorem at_most_one_terminal_and_last (cfg : Cfg) (react : React) (env : List EnvStep)
    (a b : List Event) (e : Event) (he : eventsOf cfg react env = a ++ e :: b) (ht : Event.isTerminal e = true) :
    b = [] ∧ ∀ x ∈ a, Event.isTerminal x = false := by
  obtain ⟨ph, h⟩ := monitor cfg react env
  rw [he] at h
  exact ⟨Mon.nothing_after_terminal h ht, Mon.no_terminal_before_terminal h⟩

/-- `ConnectFail` comes directly after `Connecting` (so never after `Connected`) and ends the sequence -/
theorem nothing_after_connectFail (cfg : Cfg) (react : React) (env : List EnvStep)
    (a b : List Event) (k : String) (he : eventsOf cfg react env = a ++ .connectFail k :: b) :
    a = [.connecting] ∧ b = [] := by
  obtain ⟨ph, h⟩ := monitor cfg react env
  rw [he] at h; exact Mon.connectFail_position h

/-- `Ready` occurs at most once, and only after `Connected` -/
theorem ready_at_most_once (cfg : Cfg) (react : React) (env : List EnvStep)
    (a b : List Event) (x : Option Http.Str) (d : Bool) (he : eventsOf cfg react env = a ++ .ready x d :: b) :
    (∃ p, Event.connected p ∈ a) ∧ (∀ x' d', Event.ready x' d' ∉ a) ∧ (∀ x' d', Event.ready x' d' ∉ b) := by
  obtain ⟨ph, h⟩ := monitor cfg react env
  rw [he] at h; exact Mon.ready_once h

/-- `Text`, `Binary`, `Ping`, `Pong`, `Poll`, `Closing`, `Closed` (and `Unresponsive`) occur only after `Ready` -/
theorem messages_only_after_ready (cfg : Cfg) (react : React) (env : List EnvStep)
    (a b : List Event) (e : Event) (he : eventsOf cfg react env = a ++ e :: b) (hn : Event.needsReady e = true) :
    ∃ x d, Event.ready x d ∈ a := by
  obtain ⟨ph, h⟩ := monitor cfg react env
  rw [he] at h; exact Mon.needsReady_after_ready h hn

/-- in particular `Poll` -/
theorem poll_only_after_ready (cfg : Cfg) (react : React) (env : List EnvStep)
    (a b : List Event) (he : eventsOf cfg react env = a ++ .poll :: b) : ∃ x d, Event.ready x d ∈ a :=
  messages_only_after_ready cfg react env a b .poll he rfl

/-- **a time-out terminates the iteration**: after `Unresponsive` (the ping time-out fired) nothing
    but the terminal `Disconnected` is yielded — whatever else is in the read being processed, in the
    rest of the script, and whatever the application does in reaction to `Unresponsive` -/
theorem timeout_terminates (cfg : Cfg) (react : React) (env : List EnvStep)
    (a b : List Event) (he : eventsOf cfg react env = a ++ .unresponsive :: b) :
    b = [] ∨ ∃ k g, b = [.disconnected k g] := by
  obtain ⟨ph, h⟩ := monitor cfg react env
  rw [he] at h; exact Mon.after_unresponsive h

/-- when `run()` returns there is exactly one terminal event and it is the last event -/
theorem exactly_one_terminal_last (cfg : Cfg) (react : React) (env : List EnvStep) (s : Sys)
    (hr : run (initSys cfg react env) = .ok () s) :
    ∃ a e, eventsOf cfg react env = a ++ [e] ∧ Event.isTerminal e = true ∧ ∀ x ∈ a, Event.isTerminal x = false :=
  Mon.complete_ends_terminal (monitor_complete cfg react env s hr)

/-! ### termination -/

/-- non-vacuity for the two termination theorems: EOF in the middle of a script (what follows, even a
    correct reply, is never looked at), and a ping time-out that ends the loop before the script does -/
example : (runAll exCfg (fun _ => []) (exEnv ++ [.wait 0 (some (.data exReply))])).trace =
    (runAll exCfg (fun _ => []) exEnv).trace := by decide +kernel
example : eventsOf { exCfg with pingTimeout := 3 } (fun _ => []) (exEnv.take 2 ++ [.wait 1 none, .wait 1 none]) =
    [.connecting, .connected false, .ready none false, .poll, .text [104, 105], .poll, .unresponsive,
     .disconnected "ping-timeout" false] := by decide +kernel

/-- **Once the transport has ended the iteration ends.**  `X` is an end-of-stream, a socket error or
    any other exception from `recv`, or an exception from `selector.wait`.  Whatever the script `post`
    says would happen afterwards is never consumed: the connection over `pre ++ X :: post` is the
    connection over `pre ++ [X]` (all fields of the final state, in particular the trace; only the
    stored script itself differs); its trace is not marked INCOMPLETE; and unless the application
    abandons the iterator `run()` returns, so the event sequence is complete (exactly one terminal
    event, last). -/
theorem terminates_after_transport_end (cfg : Cfg) (react : React) (pre post : List EnvStep) (X : EnvStep)
    (hX : EnvStep.isEnd X = true) :
    runAll cfg react (pre ++ X :: post) = { runAll cfg react (pre ++ [X]) with env := pre ++ X :: post } ∧
    Obs.incomplete ∉ (runAll cfg react (pre ++ X :: post)).trace ∧
    (Mon.complete (eventsOf cfg react (pre ++ X :: post)) ∨ Abandons react) := by
  have hrun := run_pre_end pre X hX post (initSys cfg react [])
  have e1 : setEnv (pre ++ X :: post) (initSys cfg react []) = initSys cfg react (pre ++ X :: post) := rfl
  have e2 : setEnv (pre ++ [X]) (initSys cfg react []) = initSys cfg react (pre ++ [X]) := rfl
  rw [e1, e2] at hrun
  have hcases := run_end_cases pre X hX (initSys cfg react (pre ++ [X])) rfl
  have hEq : runAll cfg react (pre ++ X :: post) = setEnv (pre ++ X :: post) (runAll cfg react (pre ++ [X])) := by
    rcases hcases with ⟨s', h2⟩ | ⟨s', h2, _⟩
    · have h1 : run (initSys cfg react (pre ++ X :: post)) = .ok () (setEnv (pre ++ X :: post) s') := by
        rw [hrun, h2]; rfl
      rcases runAll_cases cfg react (pre ++ X :: post) with ⟨t, ht, et⟩ | ⟨t, ht, _⟩ | ⟨t, ht, _⟩
      · rcases runAll_cases cfg react (pre ++ [X]) with ⟨t2, ht2, et2⟩ | ⟨t2, ht2, _⟩ | ⟨t2, ht2, _⟩
        · rw [et, et2]; rw [h1] at ht; rw [h2] at ht2; cases ht; cases ht2; rfl
        · rw [h2] at ht2; cases ht2
        · rw [h2] at ht2; cases ht2
      · rw [h1] at ht; cases ht
      · rw [h1] at ht; cases ht
    · have h1 : run (initSys cfg react (pre ++ X :: post)) = .err .genExit (setEnv (pre ++ X :: post) s') := by
        rw [hrun, h2]; rfl
      show (match run (initSys cfg react (pre ++ X :: post)) with
        | .ok _ s => s
        | .err .genExit s => if s.abandonedWith then (match closeSocket s with | .ok _ s' => s' | .err _ s' => s') else s
        | .err (.outer .genExit) s => if s.abandonedWith then (match closeSocket s with | .ok _ s' => s' | .err _ s' => s') else s
        | .err .scriptEnd s => { s with trace := .incomplete :: s.trace }
        | .err _ s => { s with trace := .incomplete :: s.trace }) =
        setEnv (pre ++ X :: post) (match run (initSys cfg react (pre ++ [X])) with
        | .ok _ s => s
        | .err .genExit s => if s.abandonedWith then (match closeSocket s with | .ok _ s' => s' | .err _ s' => s') else s
        | .err (.outer .genExit) s => if s.abandonedWith then (match closeSocket s with | .ok _ s' => s' | .err _ s' => s') else s
        | .err .scriptEnd s => { s with trace := .incomplete :: s.trace }
        | .err _ s => { s with trace := .incomplete :: s.trace })
      rw [h1, h2]
      simp only []
      have ha : (setEnv (pre ++ X :: post) s').abandonedWith = s'.abandonedWith := rfl
      rw [ha]
      split
      · rw [mon_ei_closeSocket (pre ++ X :: post) s']
        cases closeSocket s' <;> rfl
      · rfl
  have hInc : Obs.incomplete ∉ (runAll cfg react (pre ++ [X])).trace := by
    rw [incomplete_iff]
    rintro ⟨s, hs⟩
    rcases hcases with ⟨s', h2⟩ | ⟨s', h2, _⟩
    · rw [h2] at hs; cases hs
    · rw [h2] at hs; cases hs
  refine ⟨hEq, ?_, ?_⟩
  · rw [hEq]; exact hInc
  · have hev : eventsOf cfg react (pre ++ X :: post) = eventsOf cfg react (pre ++ [X]) := by
      unfold eventsOf; rw [hEq]; rfl
    rw [hev]
    rcases hcases with ⟨s', h2⟩ | ⟨s', _, ha⟩
    · exact Or.inl (monitor_complete cfg react _ s' h2)
    · exact Or.inr ha

/-- **Once the loop has ended, for whatever reason, nothing more is consumed** — this covers the
    time-outs: a ping time-out (`Unresponsive`) or a close time-out raises inside the loop and ends it.
    If the connection over the script `pre` is not marked INCOMPLETE, then extending the script
    changes nothing (up to the stored script itself). -/
theorem terminates_once_loop_ended (cfg : Cfg) (react : React) (pre post : List EnvStep)
    (h : Obs.incomplete ∉ (runAll cfg react pre).trace) :
    runAll cfg react (pre ++ post) = { runAll cfg react pre with env := pre ++ post } := by
  have hne : ∀ s, run (initSys cfg react pre) ≠ .err .scriptEnd s := by
    intro s hs; exact h ((incomplete_iff cfg react pre).mpr ⟨s, hs⟩)
  -- the two loops agree wherever the shorter one does not run out of script
  have hag : ∀ s1, loop (pre ++ post) s1 = loop pre s1 ∨ ∃ s', loop pre s1 = .err .scriptEnd s' := by
    intro s1
    by_cases hx : ∃ s', loop pre s1 = .err .scriptEnd s'
    · exact Or.inr hx
    · exact Or.inl (loop_prefix pre post s1 (fun s' hs => hx ⟨s', hs⟩))
  have hrun : run (initSys cfg react (pre ++ post)) = Res.mapS (setEnv (pre ++ post)) (run (initSys cfg react pre)) := by
    rw [run_eq_runL, run_eq_runL]
    show runL (loop (pre ++ post)) (setEnv (pre ++ post) (initSys cfg react pre)) = _
    rw [ei_runL (ei_loop _) (pre ++ post) (initSys cfg react pre)]
    rcases runL_agree (loop (pre ++ post)) (loop pre) (initSys cfg react pre) hag with e | ⟨s', hs'⟩
    · rw [e]; rfl
    · exact absurd (by rw [run_eq_runL]; exact hs') (hne s')
  show (match run (initSys cfg react (pre ++ post)) with
    | .ok _ s => s
    | .err .genExit s => if s.abandonedWith then (match closeSocket s with | .ok _ s' => s' | .err _ s' => s') else s
    | .err (.outer .genExit) s => if s.abandonedWith then (match closeSocket s with | .ok _ s' => s' | .err _ s' => s') else s
    | .err .scriptEnd s => { s with trace := .incomplete :: s.trace }
    | .err _ s => { s with trace := .incomplete :: s.trace }) =
    setEnv (pre ++ post) (match run (initSys cfg react pre) with
    | .ok _ s => s
    | .err .genExit s => if s.abandonedWith then (match closeSocket s with | .ok _ s' => s' | .err _ s' => s') else s
    | .err (.outer .genExit) s => if s.abandonedWith then (match closeSocket s with | .ok _ s' => s' | .err _ s' => s') else s
    | .err .scriptEnd s => { s with trace := .incomplete :: s.trace }
    | .err _ s => { s with trace := .incomplete :: s.trace })
  rw [hrun]
  rcases run_outcomes cfg react pre with ⟨s, hs⟩ | ⟨s, hs, _⟩ | ⟨s, hs⟩
  · rw [hs]; rfl
  · rw [hs]
    simp only [Res.mapS_err]
    have ha : (setEnv (pre ++ post) s).abandonedWith = s.abandonedWith := rfl
    rw [ha]
    split
    · rw [mon_ei_closeSocket (pre ++ post) s]
      cases closeSocket s <;> rfl
    · rfl
  · exact absurd hs (hne s)

end Lomond.C07
