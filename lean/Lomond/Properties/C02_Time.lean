/-
  C02, with the clock running (companion of C02; helper lemmas: Proofs/DeliveryTimed,
  DeliveryTimedRun, DeliveryZ).

  `Properties/C02.lean` proves that cutting a burst of reads differently changes nothing *when no
  time passes inside the burst*, and shows why that hypothesis is needed for the full trace: with
  the clock running, `_regular()` legitimately yields Polls (and writes automatic Pings) at
  different places.  What does **not** depend on the timing is what the server's messages turn
  into.  For every conforming server stream (with or without permessage-deflate):

  * `loop_cuts_and_waits` — the session loop, from any state between two messages: any two timed
    scripts (idle cycles and non-empty reads in any order, any waits) carrying the same bytes
    deliver the same events, Polls apart, leave the same fragment list / inflate context / parser
    state, and agree on whether the websocket is closing;
  * `connection_cuts_and_waits`, `connection_cuts_and_waits_compressed` — whole connections
    `runAll`: two timed environments whose reads concatenate to the same `reply ++ stream` — cut
    differently, with different waits before, between and after the reads, idle cycles anywhere —
    hand the application the same events with the same payloads, Polls apart.

  Hypotheses (beyond C02's: `poll > 0`, non-empty reads): the application only sends; `ping_timeout`
  is off; `close_timeout` is off, or the server sends no Close, or the stream ends sooner after the
  last read than the timeout.  The ping rate is arbitrary.

  And for **every** server byte stream, valid or not (helper lemmas: Proofs/TimeIrrel.lean,
  TimeIrrelTimed.lean):

  * `time_unobservable` — with all three timers off (`ping_rate = ping_timeout = close_timeout = 0`)
    and an application that ignores Polls (`PollBlind`: no call at a Poll, reactions independent of
    the Polls seen — it may send, `close()`, `session.close()`, abandon the loop), a connection run
    with the waits of *any* environment script and the same connection with all waits removed
    (`freeze`) have the same trace apart from clock ticks and Polls (`timeless`): the same events
    with the same payloads, **the same bytes written** in the same order, the same results of the
    application's calls, the same final state;
  * `cuts_and_waits_unobservable` — hence (with C02's `connection_same_observations`, which needs
    `poll > 0` and no `session.close()`): two timed environments carrying the same bytes — cut
    differently, with different waits, idle cycles anywhere — give the same `timeless` trace.
    Without the timers, the only thing the timing changes is where the Polls fall.
-/
import Lomond.Properties.C01_E2E2
import Lomond.Properties.C02
import Lomond.Proofs.TimeIrrelTimed

namespace Lomond.C02Time
open Lomond Lomond.Core Lomond.Core.E2E Lomond.Core.DG Lomond.C01E2E2 Lomond.Core.TI

/-- **The session loop: cuts and waits do not matter** (frames phase, any state between two
    messages satisfying `Mid`: send-only application, no ping timeout, close timer not armed, socket
    open, websocket open and not closing, extension state `z`).  `l₁`, `l₂`: timed scripts ending
    with a read, no empty reads, **the same bytes**: the wire form of any items (compressed
    messages included, `ItemsAt`) and an optional Close.  Both runs of the loop go through their
    whole script and continue with what follows (`rest₁`, `rest₂`) from states `s₁`, `s₂` that have
    been handed exactly the same events since `s` (Polls apart) — `gexpected items cl` —, with the
    same parser state, fragment list and inflate context, the same `closing` flag. -/
theorem loop_cuts_and_waits (z : ZP) (s : Sys) (m : Mid z s) (hfr : s.frames = []) (hb : Between s.p)
    (hpc : s.p.compression = z.dc.isSome)
    (items : List GItem) (ic' : ICtx) (hit : ItemsAt z ⟨s.inflHist, s.inflOut⟩ items ic')
    (hzz : ∀ g, GItem.msg g ∈ items → g.zf = true → z.dc.isSome = true)
    (cl : Option CloseF) (hcl : ∀ c, cl = some c → c.Ok)
    (l₁ l₂ : List TStep) (hne₁ : TNonEmpty l₁) (hne₂ : TNonEmpty l₂) (hend₁ : EndsRead l₁) (hend₂ : EndsRead l₂)
    (hb₁ : tbytes l₁ = gstream items cl) (hb₂ : tbytes l₂ = gstream items cl)
    (rest₁ rest₂ : List EnvStep) :
    ∃ s₁ s₂, loop (tscript l₁ ++ rest₁) s = loop rest₁ s₁ ∧ loop (tscript l₂ ++ rest₂) s = loop rest₂ s₂ ∧
      delivered s₁.trace = (gexpected items cl).reverse ++ delivered s.trace ∧
      delivered s₂.trace = delivered s₁.trace ∧
      s₂.p = s₁.p ∧ s₂.closing = s₁.closing ∧ s₂.closed = s₁.closed ∧
      (cl = none → view s₂ = view s₁) := by
  obtain ⟨p1, hp1, hb1, _⟩ := parses_gitems s.cfg.v z.dc.isSome items s.p hb hpc (hit.wireOk hzz)
  obtain ⟨p2, hp2, hb2⟩ := parses_close s.cfg.v cl hcl p1 hb1
  have hpar : ParsesB s.cfg.v s.p (gstream items cl) (items.flatMap GItem.frames ++ closeFrames cl) p2 :=
    parsesB_append hp1 hp2
  obtain ⟨hpe, hpo, hpp⟩ := hpar.run
  have hv : view s = ⟨[], ⟨s.inflHist, s.inflOut⟩⟩ := by unfold view; rw [hfr]
  have he := eat_items z items ⟨s.inflHist, s.inflOut⟩ ic' hit
  rw [← hv] at he
  obtain ⟨s₁, h1, f1, q1⟩ := timed_frames z l₁ hne₁ hend₁ s m _ _ _ he cl hcl (by rw [hb₁]; exact hpe)
    (by rw [hb₁]; exact hpo) (by rw [hb₁, hpp]; exact hb2.b) rest₁
  obtain ⟨s₂, h2, f2, q2⟩ := timed_frames z l₂ hne₂ hend₂ s m _ _ _ he cl hcl (by rw [hb₂]; exact hpe)
    (by rw [hb₂]; exact hpo) (by rw [hb₂, hpp]; exact hb2.b) rest₂
  refine ⟨s₁, s₂, h1, h2, ?_, ?_, by rw [q1, q2, hb₁, hb₂], ?_, ?_, ?_⟩
  · cases cl with
    | none => rw [f1.2.2.evs]; simp [gexpected, closeEvents]
    | some c => rw [f1.st.evs]; simp [gexpected, closeEvents]
  · cases cl with
    | none => rw [f1.2.2.evs, f2.2.2.evs]
    | some c => rw [f1.st.evs, f2.st.evs]
  · cases cl with
    | none => rw [f1.1.ncg, f2.1.ncg]
    | some c => rw [f1.closing, f2.closing]
  · cases cl with
    | none => rw [f1.1.g.closed, f2.1.g.closed]
    | some c => rw [f1.closed, f2.closed]
  · intro hn
    subst hn
    rw [f1.2.1, f2.2.1]

/-- **Whole connections: two ways of cutting the same server byte stream into reads, with different
    waits, give the same events.**  `reply ++ C01.streamBytes items close` is any accepted upgrade
    reply followed by any conforming stream; `l₁` / `l₂` are any two timed scripts whose reads
    concatenate to it (cuts inside the HTTP reply, inside frame headers, extended lengths, UTF-8
    characters; one byte per read; reply and first frames in one read; any wait before every read,
    idle cycles anywhere), followed by any idle cycles and the end of the stream.  The events handed
    to the application, Polls apart, are the same in both runs — namely `C01.expected items close`
    between `Connecting, Connected, Ready` and the terminal `Disconnected`. -/
theorem connection_cuts_and_waits (cfg : Cfg) (react : React) (proxy : Bool) (proto : Option Http.Str)
    (hs : Setup cfg react proxy) (hpt : cfg.pingTimeout = 0)
    (reply : Bytes) (hreply : GoodReply cfg reply proto)
    (items : List Item) (close : Option CloseF) (hconf : C01.Conforming items close)
    (l₁ l₂ : List TStep) (hne₁ : TNonEmpty l₁) (hne₂ : TNonEmpty l₂) (hend₁ : EndsRead l₁) (hend₂ : EndsRead l₂)
    (hb₁ : tbytes l₁ = reply ++ C01.streamBytes items close) (hb₂ : tbytes l₂ = tbytes l₁)
    (ws₁ ws₂ : List Nat) (dt₁ dt₂ : Nat)
    (hct₁ : cfg.closeTimeout = 0 ∨ close = none ∨ ws₁.sum + dt₁ < cfg.closeTimeout)
    (hct₂ : cfg.closeTimeout = 0 ∨ close = none ∨ ws₂.sum + dt₂ < cfg.closeTimeout) :
    deliveredEvents (runAll cfg react (timedEnv l₁ ws₁ dt₁)).trace =
      deliveredEvents (runAll cfg react (timedEnv l₂ ws₂ dt₂)).trace := by
  rw [connection_delivers_any_timing cfg react proxy proto hs hpt reply hreply items close hconf l₁ hne₁ hend₁ hb₁
      ws₁ dt₁ hct₁,
    connection_delivers_any_timing cfg react proxy proto hs hpt reply hreply items close hconf l₂ hne₂ hend₂
      (hb₂.trans hb₁) ws₂ dt₂ hct₂]

/-- … and with permessage-deflate negotiated and compressed messages in the stream (cuts inside
    the compressed data included) -/
theorem connection_cuts_and_waits_compressed (cfg : Cfg) (react : React) (proxy : Bool) (proto : Option Http.Str)
    (d : Http.DeflateCfg) (hs : Setup cfg react proxy) (hpt : cfg.pingTimeout = 0)
    (reply : Bytes) (hreply : GoodReplyD cfg reply proto (some d))
    (items : List GItem) (hst : ∀ it ∈ items, it.Static) (icE : ICtx)
    (hinfl : zOuts ⟨cfg.inflate, some d⟩ ⟨[], 0⟩ (items.filterMap GItem.zpay) = some (items.filterMap GItem.zplain, icE))
    (close : Option CloseF) (hcl : ∀ c, close = some c → c.Ok)
    (l₁ l₂ : List TStep) (hne₁ : TNonEmpty l₁) (hne₂ : TNonEmpty l₂) (hend₁ : EndsRead l₁) (hend₂ : EndsRead l₂)
    (hb₁ : tbytes l₁ = reply ++ gstream items close) (hb₂ : tbytes l₂ = tbytes l₁)
    (ws₁ ws₂ : List Nat) (dt₁ dt₂ : Nat)
    (hct₁ : cfg.closeTimeout = 0 ∨ close = none ∨ ws₁.sum + dt₁ < cfg.closeTimeout)
    (hct₂ : cfg.closeTimeout = 0 ∨ close = none ∨ ws₂.sum + dt₂ < cfg.closeTimeout) :
    deliveredEvents (runAll cfg react (timedEnv l₁ ws₁ dt₁)).trace =
      deliveredEvents (runAll cfg react (timedEnv l₂ ws₂ dt₂)).trace := by
  rw [connection_delivers_compressed cfg react proxy proto d hs hpt reply hreply items hst icE hinfl close hcl
      l₁ hne₁ hend₁ hb₁ ws₁ dt₁ hct₁,
    connection_delivers_compressed cfg react proxy proto d hs hpt reply hreply items hst icE hinfl close hcl
      l₂ hne₂ hend₂ (hb₂.trans hb₁) ws₂ dt₂ hct₂]

/-! ### every stream, every application that ignores Polls: time is unobservable -/

/-- **Time is unobservable with the timers off** (any environment script, any server bytes): see the
    header.  `erase` forgets the clock, all time stamps, the `tick` / `Poll` entries of the trace,
    the Polls of the history and the stored script; everything else of the final state — flags,
    counters, parser, fragment list, inflate context, the rest of the trace — is the same. -/
theorem time_unobservable (cfg : Cfg) (react : React) (h1 : cfg.pingRate = 0) (h2 : cfg.pingTimeout = 0)
    (h3 : cfg.closeTimeout = 0) (hpb : PollBlind react) (env : List EnvStep) :
    erase (runAll cfg react env) = erase (runAll cfg react (freeze env)) ∧
    timeless (runAll cfg react env).trace = timeless (runAll cfg react (freeze env)).trace :=
  ⟨runAll_freeze cfg react h1 h2 h3 hpb env, timeless_freeze cfg react h1 h2 h3 hpb env⟩

/-- every function of the receive pipeline respects `erase`; here `WebSocket.feed`: from any state
    with the timers off and a Poll-blind application, feeding the same bytes from `erase s` and
    from `s` gives the same result up to `erase` -/
theorem feed_time_unobservable (data : Bytes) (s : Sys) (hs : Off s) :
    Monitor.Res.mapS erase (wsFeed data (erase s)) = Monitor.Res.mapS erase (wsFeed data s) :=
  ti_wsFeed data s hs

/-- **Cuts and waits are unobservable** — events *and* writes.  Two timed environments whose reads
    concatenate to the same bytes (any bytes: valid frames, violations, a refused handshake,
    compressed data), cut differently, with different waits before every read, idle cycles
    anywhere, different idle tails before the end of the stream: the two connections have the same
    trace apart from clock ticks and Polls — the same events with the same payloads, the same bytes
    written by the client (handshake request, Pongs, Close frames, the application's messages with
    the same masking keys) in the same order relative to the events, the same results of the
    application's calls.  Timers off, `poll > 0`, the application ignores Polls and never calls
    `session.close()` (it may send, `close()` and abandon the loop). -/
theorem cuts_and_waits_unobservable (cfg : Cfg) (react : React) (h1 : cfg.pingRate = 0) (h2 : cfg.pingTimeout = 0)
    (h3 : cfg.closeTimeout = 0) (hp : 0 < cfg.poll) (hpb : PollBlind react) (hn : SegLoop.NoSessionClose react)
    (l₁ l₂ : List TStep) (hne₁ : TNonEmpty l₁) (hne₂ : TNonEmpty l₂) (hb : tbytes l₁ = tbytes l₂)
    (ws₁ ws₂ : List Nat) (dt₁ dt₂ : Nat) :
    timeless (runAll cfg react (timedEnv l₁ ws₁ dt₁)).trace =
      timeless (runAll cfg react (timedEnv l₂ ws₂ dt₂)).trace := by
  have hf : ∀ l ws dt, freeze (timedEnv l ws dt) =
      [] ++ (SegLoop.readsAt 0 (chunks l) ++ [.wait 0 (some .eof)]) := by
    intro l ws dt
    unfold timedEnv
    rw [freeze_append, freeze_append, freeze_tscript, freeze_idles]
    rfl
  rw [timeless_freeze cfg react h1 h2 h3 hpb, timeless_freeze cfg react h1 h2 h3 hpb (timedEnv l₂ ws₂ dt₂),
    hf, hf]
  have := (C02.connection_same_observations cfg react [] [.wait 0 (some .eof)] 0 (chunks l₁) (chunks l₂) hp hn
    (chunks_ne l₁ hne₁) (chunks_ne l₂ hne₂) (by rw [chunks_flatten, chunks_flatten, hb])).1
  rw [this]

/-! ### Non-vacuity, and why Polls are left out -/

/-- the same bytes as `C01E2E2.exL`, one byte per read, every read after a wait of 2 ticks -/
def exL₂ : List TStep :=
  (C01E2E.exReply ++ C01.streamBytes C01.exItems (some C01.exClose)).map (fun b => (2, some [b]))

set_option maxRecDepth 8192 in
/-- `exL₂` carries the same bytes as `exL` -/
theorem exL₂_bytes : tbytes exL₂ = tbytes exL := by decide +kernel

set_option maxRecDepth 8192 in
/-- `connection_cuts_and_waits` applies: five cycles taking 22 ticks vs 296 one-byte reads taking 592 ticks -/
example : deliveredEvents (runAll C01E2E.exCfg C01E2E.exReact (timedEnv exL [4, 1] 6)).trace =
    deliveredEvents (runAll C01E2E.exCfg C01E2E.exReact (timedEnv exL₂ [] 0)).trace :=
  connection_cuts_and_waits C01E2E.exCfg C01E2E.exReact false none C01E2E.exSetup rfl C01E2E.exReply
    C01E2E.exGoodReply C01.exItems (some C01.exClose) C01.ex_conforming exL exL₂
    (TNonEmpty.of_b (by decide +kernel)) (TNonEmpty.of_b (by decide +kernel))
    (EndsRead.of_b (by decide +kernel)) (EndsRead.of_b (by decide +kernel)) exL_bytes exL₂_bytes
    [4, 1] [] 6 0 (Or.inr (Or.inr (by decide))) (Or.inr (Or.inr (by decide)))

/-- **the full event sequences differ**: the two runs see different numbers of Polls (4 resp. 56),
    which is why the statement is about the events other than Polls -/
theorem polls_depend_on_timing :
    ((Monitor.events (runAll C01E2E.exCfg C01E2E.exReact (timedEnv exL [4, 1] 6)).trace).filter (· = .poll)).length = 4 ∧
    ((Monitor.events (runAll C01E2E.exCfg C01E2E.exReact (timedEnv exL₂ [] 0)).trace).filter (· = .poll)).length ≠ 4 := by
  constructor <;> decide +kernel

/-- an application that ignores Polls: it echoes every Text, answers a Binary with `close()` -/
def exBlind : React := fun hist =>
  match hist with
  | .text t :: _ => [.sendText (.str t) false]
  | .binary _ :: _ => [.close (some 1000) (.bytes [])]
  | _ => []

/-- the example application ignores Polls -/
theorem exBlind_pollBlind : PollBlind exBlind :=
  ⟨fun _ => rfl, fun e h _ => by cases e <;> rfl⟩

/-- … and never calls `session.close()` -/
theorem exBlind_noSessionClose : SegLoop.NoSessionClose exBlind := by
  intro h hm
  unfold exBlind at hm
  split at hm <;> simp at hm

/-- all three timers off -/
def exOff : Cfg := { C01E2E.exCfg with pingRate := 0, closeTimeout := 0 }

set_option maxRecDepth 8192 in
/-- `cuts_and_waits_unobservable` applies to the two scripts above (any bytes would do) -/
example : timeless (runAll exOff exBlind (timedEnv exL [4, 1] 6)).trace =
    timeless (runAll exOff exBlind (timedEnv exL₂ [] 0)).trace :=
  cuts_and_waits_unobservable exOff exBlind rfl rfl rfl (by decide) exBlind_pollBlind exBlind_noSessionClose
    exL exL₂ (TNonEmpty.of_b (by decide +kernel)) (TNonEmpty.of_b (by decide +kernel)) exL₂_bytes.symm [4, 1] [] 6 0

/-- … and what both runs look like without ticks and Polls: the request, the Pong for the Ping
    (written before the Ping event), the Text echoed, the Binary answered with `close()` (the Close
    frame `88 82 key 03 E8`), the server's Close reported as `Closed`, the graceful end -/
example : (timeless (runAll exOff exBlind (timedEnv exL [4, 1] 6)).trace).reverse =
    [.ev .connecting, .wr (Http.lit "GET / HTTP/1.1\r\n\r\n"), .ev (.connected false), .ev (.ready none false),
     .wr [138, 130, 0, 0, 0, 0, 1, 2], .ev (.ping [1, 2]), .ev (.pong []),
     .ev (.text [0x20AC, 0x61]), .wr [129, 132, 0, 0, 0, 0, 0xE2, 0x82, 0xAC, 0x61], .res .ok,
     .ev (.pong [7]), .ev (.binary (List.replicate 126 255)), .wr [136, 130, 0, 0, 0, 0, 3, 232], .res .ok,
     .ev (.closed (some 1000) [111, 107]), .sockClose, .ev (.disconnected "closed" true), .selClose] := by
  decide +kernel

/-- `time_unobservable` applied to the first script: with its waits or without, the same trace
    apart from ticks and Polls -/
example : timeless (runAll exOff exBlind (timedEnv exL [4, 1] 6)).trace =
    timeless (runAll exOff exBlind (freeze (timedEnv exL [4, 1] 6))).trace :=
  (time_unobservable exOff exBlind rfl rfl rfl exBlind_pollBlind _).2

/-- `loop_cuts_and_waits` applies: the compressed example stream of C01E2E2 from the state after its
    handshake, in one read after 5 ticks vs one byte per read with idle cycles of 3 ticks in between -/
example : ∃ s₁ s₂,
    loop (tscript [(5, some (gstream zItems none))] ++ []) zState = loop [] s₁ ∧
    loop (tscript ((gstream zItems none).flatMap (fun b => [(3, none), (1, some [b])])) ++ []) zState = loop [] s₂ ∧
    delivered s₂.trace = delivered s₁.trace := by
  have hm : Mid ⟨zCfg.inflate, some zD⟩ zState :=
    ⟨⟨fun h a ha => by simp [zState] at ha; subst ha; rfl, rfl, Or.inr rfl, rfl, rfl⟩, ⟨rfl, rfl, rfl⟩, rfl,
      by simp [zState]⟩
  obtain ⟨s₁, s₂, h1, h2, _, h4, _⟩ := loop_cuts_and_waits ⟨zCfg.inflate, some zD⟩ zState hm rfl
    ⟨⟨rfl, rfl, rfl, rfl⟩, rfl, rfl⟩ rfl zItems _
    (itemsAt_of_zOuts ⟨zCfg.inflate, some zD⟩ rfl zItems zItems_static _ _ zItems_inflate) (fun _ _ _ => rfl)
    none (fun c hc => by cases hc)
    [(5, some (gstream zItems none))] ((gstream zItems none).flatMap (fun b => [(3, none), (1, some [b])]))
    (TNonEmpty.of_b (by decide +kernel)) (TNonEmpty.of_b (by decide +kernel))
    (EndsRead.of_b (by decide +kernel)) (EndsRead.of_b (by decide +kernel)) (by decide +kernel) (by decide +kernel) [] []
  exact ⟨s₁, s₂, h1, h2, h4⟩

/-- the same bytes in one read, at once -/
def exL₀ : List TStep := [(0, some (C01E2E.exReply ++ C01.streamBytes C01.exItems (some C01.exClose)))]

/-- **the `PollBlind` hypothesis is needed**: C02's example application answers every Poll with a
    Ping — in the first run it is handed two Polls before the stream ends (two Pings written), in
    the second only the one that follows Ready -/
theorem poll_sensitive_application_observes_time :
    timeless (runAll exOff C02.ExS.react (timedEnv exL [] 0)).trace ≠
      timeless (runAll exOff C02.ExS.react (timedEnv exL₀ [] 0)).trace := by
  decide +kernel

end Lomond.C02Time
