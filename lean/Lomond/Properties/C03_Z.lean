/-
  C03 companion — the bytes of compressed sends, the masking-key schedule, `send_json`.
  Property theorems only (helper lemmas: Proofs/KeySched.lean, Proofs/ZFrame.lean, Proofs/ZNest.lean;
  definitions: Model/ZFrame.lean).

  The core model logs a compressed data frame as the abstract entry `.wrz opcode plaintext`.
  `ZFrame.wireOf` says which bytes that entry stands for — `Frame.build opcode z key` with FIN=1,
  RSV1=1, RSV2=RSV3=0, MASK=1 — where `z` is the output of the compressor, a PARAMETER
  (`Deflater`: plaintexts compressed so far ↦ plaintext ↦ payload with the `00 00 ff ff` tail
  stripped, as `Deflate.compress` does), and `key = cfg.maskKey (keyIdx older)` is the masking key
  of the frame's slot in the connection's key schedule.  Proved here, for every configuration,
  application, environment and compressor:

  * every rendered compressed frame is one complete, valid client frame that the independent
    decoder `Spec.decodeClientFrame` reads back as FIN=1, RSV1=1, RSV2=RSV3=0, opcode Text or
    Binary, MASK=1 with that key, shortest length form, payload `z`;
  * the key schedule is the model's: every *plain* frame of the run provably carries the key of
    index `keyIdx older` in its bytes, compressed frames advance the same counter, successive
    frames never share an index, and at the end of a run that still accepts writes the model's
    `keyCtr` is `keyIdx trace`;
  * inflating the payloads in wire order with any inflater that inverts the compressor over
    histories returns the plaintexts of the `.wrz` entries in order; for a compressor that is the
    encoding of a token-level `Deflate.Compressor` this is `C06.lossless_client_to_peer` applied to
    the `.wrz` sequence of the run;
  * `send_json(obj)` is `send_text(json.dumps(obj))` (`json.dumps` a parameter).
-/
import Lomond.Proofs.ZFrame
import Lomond.Proofs.ZNest
import Lomond.Properties.C03
import Lomond.Properties.C06

set_option linter.unusedSimpArgs false
set_option linter.unusedVariables false

namespace Lomond.C03Z
open Lomond Lomond.Core Lomond.Core.KS Lomond.ZFrame

/-! ## 1. One compressed frame, byte for byte -/

/-- what a conforming server reads from a compressed frame: FIN=1, RSV1=1, RSV2=RSV3=0 -/
def zDecoded (op : Nat) (key z : Bytes) : Spec.Decoded :=
  { fin := 1, rsv1 := 1, rsv2 := 0, rsv3 := 0, opcode := op, key := key, payload := z }

/-- **A rendered compressed frame is a valid client frame that round-trips** (frame level: any
    trace prefix `older` whose compressor history is determined, any opcode below 16, any
    compressor).  If the compressor's output is shorter than 2^63 bytes, `wireOf` renders the entry
    `.wrz op plain` to bytes which the independent server-side decoder — it rejects unmasked frames
    and non-minimal length forms — reads, whatever follows in the stream, as exactly one frame with
    FIN=1, RSV1=1, RSV2=RSV3=0, this opcode, MASK=1 with the key of the entry's slot, and the
    compressor's output as unmasked payload; the header is `[0xC0 + op, 0x80 + marker] ++ ext` in
    the *least* length form that can carry the length. -/
theorem compressed_frame_roundtrips (deflate : Deflater) (cfg : Cfg) (older : List Obs) (op : Nat)
    (plain : Bytes) (hist : List Bytes) (hh : zHist older = some hist) (hop : op < 16)
    (hk : (cfg.maskKey (keyIdx older)).length = 4) (hz : (deflate hist plain).length < 2 ^ 63) :
    ∃ bytes, wireOf deflate cfg older (.wrz op plain) = some bytes ∧
      (∀ rest, Spec.decodeClientFrame (bytes ++ rest) =
        some (zDecoded op (cfg.maskKey (keyIdx older)) (deflate hist plain), rest)) ∧
      ∃ f : C03.LenForm,
        bytes = [192 + op, 128 + f.marker (deflate hist plain).length] ++ f.ext (deflate hist plain).length ++
          cfg.maskKey (keyIdx older) ++ maskPayload (cfg.maskKey (keyIdx older)) (deflate hist plain) ∧
        (deflate hist plain).length < f.cap ∧ ∀ g : C03.LenForm, (deflate hist plain).length < g.cap → f.rank ≤ g.rank := by
  have hw : wireOf deflate cfg older (.wrz op plain) =
      Frame.build op (deflate hist plain) (cfg.maskKey (keyIdx older)) 1 1 0 0 := by
    simp [wireOf, hh]
  cases hb : Frame.build op (deflate hist plain) (cfg.maskKey (keyIdx older)) 1 1 0 0 with
  | none => have := (build_none _ _ _ 1 1 0 0).mp hb; omega
  | some bytes =>
    refine ⟨bytes, by rw [hw, hb], fun rest => ?_, ?_⟩
    · exact C03.roundtrip op 1 1 0 0 _ _ rest bytes hop (by omega) (by omega) (by omega) (by omega) hk hb
    · unfold Frame.build at hb
      cases hh' : buildHeader (byte0 1 1 0 0 op) 128 (deflate hist plain).length with
      | none => rw [hh'] at hb; cases hb
      | some h =>
        rw [hh'] at hb
        simp only [Option.map_some, Option.some.injEq] at hb
        obtain ⟨f, rfl, hc, hmin⟩ := C03.shortest _ _ _ h hh'
        refine ⟨f, ?_, hc, hmin⟩
        rw [← hb]
        simp [byte0]

/-- non-vacuity: the second compressed message of a connection (history `[[72, 105]]`), a toy
    compressor that prefixes the number of earlier messages, key source `k ↦ [k+1, 2, 3, 4]`;
    entries so far: the request, one compressed frame and its result ⇒ key index 1 -/
example :
    wireOf (fun hist p => hist.length :: p) { maskKey := fun k => [k + 1, 2, 3, 4] }
      [.res .ok, .wrz 1 [72, 105], .ev (.ready none true), .wr [0x47]] (.wrz 2 [9, 8, 7]) =
      some [0xC2, 0x84, 2, 2, 3, 4, 1 ^^^ 2, 9 ^^^ 2, 8 ^^^ 3, 7 ^^^ 4] := by decide
example : zHist [.res .ok, .wrz 1 [72, 105], .ev (.ready none true), .wr [0x47]] = some [[72, 105]] := by decide
example : Spec.decodeClientFrame [0xC2, 0x84, 2, 2, 3, 4, 1 ^^^ 2, 9 ^^^ 2, 8 ^^^ 3, 7 ^^^ 4] =
    some (zDecoded 2 [2, 2, 3, 4] [1, 9, 8, 7], []) := by decide

/-- A plain write is rendered as itself, and nothing else is rendered: `wireOf` yields bytes only
    for successful writes. -/
theorem wireOf_plain (deflate : Deflater) (cfg : Cfg) (older : List Obs) (o : Obs) (bytes : Bytes)
    (h : wireOf deflate cfg older o = some bytes) :
    o = .wr bytes ∨ ∃ op plain, o = .wrz op plain := by
  cases o <;> simp [wireOf] at h
  · exact Or.inl (by rw [h])
  · exact Or.inr ⟨_, _, rfl⟩

example : wireOf (fun _ p => p) {} [] (.wr [1, 2, 3]) = some [1, 2, 3] := rfl
example : wireOf (fun _ p => p) {} [] (.wrFail [1, 2, 3]) = none := rfl

/-! ## 2. Whole connections: every compressed frame, and the key schedule -/

/-- **Every compressed frame of a connection is a valid client frame** (run level).  For every
    configuration, every application whose payloads are of possible sizes (`Small`: shorter than
    2^63 bytes), every environment script, every compressor and a key source of 4-byte keys: take
    any `.wrz op plain` entry of the trace of `runAll`, with `older` the entries before it, such
    that no compressed write failed before (`zHist older = some hist`) and the compressor's output
    is shorter than 2^63 bytes.  Then the upgrade request was written before it, the opcode is
    Text or Binary, and the entry is rendered to one complete frame that the independent decoder
    reads as FIN=1, RSV1=1, RSV2=RSV3=0, that opcode, masked with the key of index `keyIdx older`,
    payload = the compressor's output for (the plaintexts of the earlier `.wrz` entries, `plain`). -/
theorem every_compressed_frame_is_valid (cfg : Cfg) (react : React) (env : List EnvStep)
    (deflate : Deflater) (hsm : Small react) (hk : ∀ k, (cfg.maskKey k).length = 4)
    (newer older : List Obs) (op : Nat) (plain : Bytes)
    (ht : (runAll cfg react env).trace = newer ++ .wrz op plain :: older)
    (hist : List Bytes) (hh : zHist older = some hist) (hz : (deflate hist plain).length < 2 ^ 63) :
    nWrites older ≠ 0 ∧ (op = 1 ∨ op = 2) ∧ hist = zPlains older ∧
    ∃ bytes, wireOf deflate cfg older (.wrz op plain) = some bytes ∧
      ∀ rest, Spec.decodeClientFrame (bytes ++ rest) =
        some (zDecoded op (cfg.maskKey (keyIdx older)) (deflate hist plain), rest) := by
  obtain ⟨-, hs⟩ := runAll_sched cfg react env hsm
  rw [ht] at hs
  have hat := sched_at cfg newer _ older hs
  unfold SchedAt at hat
  have hw : nWrites older ≠ 0 := by
    intro h0
    rw [if_pos h0] at hat
    rcases hat rfl with h | h <;> cases h
  rw [if_neg hw] at hat
  have hop : op = 1 ∨ op = 2 := hat
  obtain ⟨bytes, hb, hd, -⟩ := compressed_frame_roundtrips deflate cfg older op plain hist hh
    (by omega) (hk _) hz
  exact ⟨hw, hop, zHist_eq older hist hh, bytes, hb, hd⟩

/-- **The key schedule is the model's.**  In every run (application payloads of possible sizes),
    the first write is the upgrade request and every later *plain* write — whose bytes contain
    its masking key — is `Frame.build op payload (cfg.maskKey (keyIdx older))`: built with the
    key whose index is the number of earlier writes and refused calls, minus one for the request.
    The same holds for a frame whose `sendall` raised.  Compressed frames go through the same
    `sendFrame` and advance the same counter (otherwise the index of every later plain frame
    would be off by one): `wireOf` gives them exactly this slot. -/
theorem key_schedule (cfg : Cfg) (react : React) (env : List EnvStep) (hsm : Small react)
    (newer older : List Obs) (o : Obs) (ht : (runAll cfg react env).trace = newer ++ o :: older) :
    (nWrites older = 0 → isWrite o = true → o = .wr cfg.request ∨ o = .wrFail cfg.request) ∧
    (nWrites older ≠ 0 → ∀ bytes, o = .wr bytes →
      ∃ op payload, Frame.build op payload (cfg.maskKey (keyIdx older)) = some bytes) ∧
    (nWrites older ≠ 0 → ∀ bytes, o = .wrFail bytes → bytes = [] ∨
      ∃ op payload, Frame.build op payload (cfg.maskKey (keyIdx older)) = some bytes) := by
  obtain ⟨-, hs⟩ := runAll_sched cfg react env hsm
  rw [ht] at hs
  have hat := sched_at cfg newer _ older hs
  unfold SchedAt at hat
  refine ⟨fun h0 => by rw [if_pos h0] at hat; exact hat, fun h0 bytes ho => ?_, fun h0 bytes ho => ?_⟩
  · rw [if_neg h0, ho] at hat; exact hat
  · rw [if_neg h0, ho] at hat; exact hat

/-- … in decoder terms: a conforming server reads from every plain frame of the run the key of
    the frame's slot. -/
theorem plain_frame_key (cfg : Cfg) (react : React) (env : List EnvStep) (hsm : Small react)
    (hk : ∀ k, (cfg.maskKey k).length = 4)
    (newer older : List Obs) (bytes : Bytes) (ht : (runAll cfg react env).trace = newer ++ .wr bytes :: older)
    (hw : nWrites older ≠ 0) (d : Spec.Decoded) (rest : Bytes) (hd : Spec.decodeClientFrame bytes = some (d, rest))
    (hop : ∀ op payload, Frame.build op payload (cfg.maskKey (keyIdx older)) = some bytes → op < 16) :
    d.key = cfg.maskKey (keyIdx older) := by
  obtain ⟨op, payload, hb⟩ := (key_schedule cfg react env hsm newer older _ ht).2.1 hw bytes rfl
  have := C03.roundtrip op 1 0 0 0 payload _ [] bytes (hop op payload hb) (by omega) (by omega) (by omega)
    (by omega) (hk _) hb
  rw [List.append_nil, hd] at this
  cases this; rfl

/-- **No two frames of a connection share a slot**: the key index of a later write is strictly
    larger than that of an earlier one. -/
theorem key_index_increases (older mid : List Obs) (o : Obs) (ho : isWrite o = true) (hw : nWrites older ≠ 0) :
    keyIdx older < keyIdx (mid ++ o :: older) :=
  keyIdx_strict older mid o ho hw

/-- **The counter of the model is the next slot.**  If at the end of a run the connection still
    accepts writes (socket open, websocket neither closed nor closing), the key the model would
    draw next, `cfg.maskKey keyCtr`, is the one the schedule assigns to the next frame. -/
theorem counter_is_next_slot (cfg : Cfg) (react : React) (env : List EnvStep) (hsm : Small react)
    (hl : Live (runAll cfg react env)) :
    (runAll cfg react env).keyCtr = keyIdx (runAll cfg react env).trace :=
  runAll_counter cfg react env hsm hl

/-- **One accepted compressed call, in bytes.**  In a state that accepts a write, with
    permessage-deflate negotiated, a `send_text` / `send_binary` call with `compress=True` and
    sendable arguments appends exactly `[.res .ok, .wrz op payload]` to the trace, draws exactly one
    key — `cfg.maskKey keyCtr`, the same slot a plain frame would have taken — and advances the
    counter by one. -/
theorem accepted_compressed_call (a : Act) (s : Sys) (op : Nat) (payload : Bytes)
    (hw : C03.wirePayload a = some (op, payload)) (hlen : payload.length < 2 ^ 63) (hs : Accepting s)
    (hc : C03.wantsCompress a = true ∧ s.compression.isSome = true) :
    (doAct a s).state.trace = [.res .ok, .wrz op payload] ++ s.trace ∧
    (doAct a s).state.keyCtr = s.keyCtr + 1 ∧ (doAct a s).state.writeCtr = s.writeCtr + 1 ∧
    (op = 1 ∨ op = 2) := by
  obtain ⟨o, hd, h1, -⟩ := C03.accepted_call a s op payload hw hlen hs
  have ho := h1 hc
  subst ho
  have hop : op = 1 ∨ op = 2 := by
    cases a with
    | sendText arg c =>
      cases arg <;> simp [C03.wirePayload] at hw
      obtain ⟨_, rfl, _⟩ := hw; exact Or.inl rfl
    | sendBinary arg c =>
      cases arg <;> simp [C03.wirePayload] at hw
      obtain ⟨rfl, _⟩ := hw; exact Or.inr rfl
    | _ => simp [C03.wantsCompress] at hc
  rw [hd]
  unfold C03.afterCall
  split
  · exact ⟨rfl, rfl, rfl, hop⟩
  · exact ⟨rfl, rfl, rfl, hop⟩

/-- **Every compressed frame belongs to an application call that returned normally.**  In the
    trace of every run — any configuration, application, environment — the entry directly after a
    `.wrz op plain` entry is `.res .ok`: the frame was written by a `send_text` / `send_binary` /
    `send_json` call (the library itself never sends compressed frames), `sendall` returned, and
    the call returned without an exception.  So the `.wrz` entries of a trace, in order, are
    compressed calls that were accepted, in call order. -/
theorem compressed_frame_of_accepted_call (cfg : Cfg) (react : React) (env : List EnvStep)
    (newer older : List Obs) (op : Nat) (plain : Bytes)
    (ht : (runAll cfg react env).trace = newer ++ .wrz op plain :: older) :
    ∃ newer', newer = newer' ++ [.res .ok] := by
  obtain ⟨hn, hh⟩ := runAll_nested cfg react env
  rw [ht] at hn hh
  exact nested_at newer older op plain hn hh

/-- the handshake reply of the examples: `101`, `Upgrade: websocket`, `Sec-WebSocket-Accept: abc`,
    `Sec-WebSocket-Extensions: permessage-deflate` -/
def exReply : Bytes := C06.bfinalReply

/-- the configuration of the examples -/
def exCfg : Cfg := { challenge := [97, 98, 99], request := [0x47, 0x45, 0x54], maskKey := fun k => [k + 1, 2, 3, 4] }

/-- at `Ready`: a compressed text, a Ping, a compressed binary message, an uncompressed text -/
def exReact : React := fun hist =>
  if hist.length = 3 then
    [.sendText (.str [72, 105]) true, .sendPing (.bytes [7]), .sendBinary (.bytes [1, 2, 3]) true,
     .sendText (.str [72, 105]) false]
  else []

def exEnv : List EnvStep := [.wait 0 (some (.data exReply))]

theorem exSmall : Small exReact := by
  intro hist a ha
  unfold exReact at ha
  split at ha
  · simp only [List.mem_cons, List.mem_nil_iff, or_false] at ha
    rcases ha with rfl | rfl | rfl | rfl <;> simp [actSmall] <;> decide
  · cases ha

/-- the trace of the example run (newest first): request, `Ready` with permessage-deflate, the four
    frames — two of them compressed — each followed by the result of its call -/
theorem exTrace : (runAll exCfg exReact exEnv).trace =
    [.incomplete, .selClose, .sockClose, .ev .poll,
     .res .ok, .wr [0x81, 0x82, 4, 2, 3, 4, 72 ^^^ 4, 105 ^^^ 2],
     .res .ok, .wrz 2 [1, 2, 3],
     .res .ok, .wr [0x89, 0x81, 2, 2, 3, 4, 7 ^^^ 2],
     .res .ok, .wrz 1 [72, 105],
     .ev (.ready none true), .ev (.connected false), .wr [0x47, 0x45, 0x54], .ev .connecting] := by
  decide +kernel

/-- the hypotheses of `every_compressed_frame_is_valid` hold for the second compressed frame of
    the example run, and `wireOf` gives it key index 2 (after the keys 0 and 1 of the first
    compressed frame and the Ping) -/
example : ∃ newer older, (runAll exCfg exReact exEnv).trace = newer ++ .wrz 2 [1, 2, 3] :: older ∧
    zHist older = some [[72, 105]] ∧ keyIdx older = 2 ∧
    wireOf (fun hist p => hist.length :: p) exCfg older (.wrz 2 [1, 2, 3]) =
      some [0xC2, 0x84, 3, 2, 3, 4, 1 ^^^ 3, 1 ^^^ 2, 2 ^^^ 3, 3 ^^^ 4] :=
  ⟨[.incomplete, .selClose, .sockClose, .ev .poll, .res .ok, .wr [0x81, 0x82, 4, 2, 3, 4, 72 ^^^ 4, 105 ^^^ 2], .res .ok],
   [.res .ok, .wr [0x89, 0x81, 2, 2, 3, 4, 7 ^^^ 2], .res .ok, .wrz 1 [72, 105],
    .ev (.ready none true), .ev (.connected false), .wr [0x47, 0x45, 0x54], .ev .connecting],
   by rw [exTrace]; rfl, by decide, by decide, by decide⟩

/-- `key_schedule` on the example run: the Ping is the frame after the request, the first
    compressed frame and its result ⇒ key index 1 = `[2, 2, 3, 4]`, which its bytes show -/
example : ∃ newer older, (runAll exCfg exReact exEnv).trace = newer ++ .wr [0x89, 0x81, 2, 2, 3, 4, 7 ^^^ 2] :: older ∧
    nWrites older ≠ 0 ∧ keyIdx older = 1 ∧ exCfg.maskKey 1 = [2, 2, 3, 4] :=
  ⟨[.incomplete, .selClose, .sockClose, .ev .poll, .res .ok, .wr [0x81, 0x82, 4, 2, 3, 4, 72 ^^^ 4, 105 ^^^ 2],
    .res .ok, .wrz 2 [1, 2, 3], .res .ok],
   [.res .ok, .wrz 1 [72, 105], .ev (.ready none true), .ev (.connected false), .wr [0x47, 0x45, 0x54], .ev .connecting],
   by rw [exTrace]; rfl, by decide, by decide, rfl⟩

/-- `compressed_frame_of_accepted_call` on the example run: both `.wrz` entries are followed by `.res .ok` -/
example : ∃ newer' older, (runAll exCfg exReact exEnv).trace = (newer' ++ [.res .ok]) ++ .wrz 1 [72, 105] :: older :=
  ⟨[.incomplete, .selClose, .sockClose, .ev .poll, .res .ok, .wr [0x81, 0x82, 4, 2, 3, 4, 72 ^^^ 4, 105 ^^^ 2],
    .res .ok, .wrz 2 [1, 2, 3], .res .ok, .wr [0x89, 0x81, 2, 2, 3, 4, 7 ^^^ 2]], _, by rw [exTrace]; rfl⟩

/-- `counter_is_next_slot`: a run can only *end* while still accepting writes if the application
    abandons the iterator under the pre-repair variant `cleanup = false` (finding D4: the socket is
    left open); for the repaired code the statement is about the intermediate states, through the
    invariant `KS.SI` from which it is derived.  Here: a Ping and a binary message, then the loop
    is abandoned at `Connected`; two keys drawn, the next slot is 2. -/
def exLeakCfg : Cfg := { exCfg with v := { cleanup := false } }
def exLeakReact : React := fun hist =>
  if hist.length = 2 then [.sendPing (.bytes [7]), .sendBinary (.bytes [1]) false, .abandon false] else []
theorem exLeakSmall : Small exLeakReact := by
  intro hist a ha
  unfold exLeakReact at ha
  split at ha
  · simp only [List.mem_cons, List.mem_nil_iff, or_false] at ha
    rcases ha with rfl | rfl | rfl <;> simp [actSmall] <;> decide
  · cases ha
example : Live (runAll exLeakCfg exLeakReact exEnv) ∧ (runAll exLeakCfg exLeakReact exEnv).keyCtr = 2 ∧
    keyIdx (runAll exLeakCfg exLeakReact exEnv).trace = 2 :=
  ⟨⟨by decide +kernel, by decide +kernel, by decide +kernel⟩, by decide +kernel, by decide +kernel⟩

/-! ## 3. Lossless: the payloads in wire order give back the plaintexts in call order -/

/-- **The compressed frames of a connection carry `zPayloads`.**  For the `.wrz` entry at any
    position of any trace whose compressor history is determined, the payload `wireOf` puts into
    its frame is the element of `zPayloads deflate [] (zPlains trace)` — the outputs of the
    compressor over the whole plaintext history of the connection, in wire order — with the
    number of that frame. -/
theorem wire_payload_is_zPayload (deflate : Deflater) (newer older : List Obs) (op : Nat) (plain : Bytes)
    (hist : List Bytes) (hh : zHist older = some hist) :
    (zPayloads deflate [] (zPlains (newer ++ .wrz op plain :: older)))[hist.length]? = some (deflate hist plain) := by
  rw [zHist_eq older hist hh]
  exact zPayloads_at deflate newer older op plain

/-- **Lossless over the send path, any compressor, any inverting inflater.**  Let `deflate` be
    the compressor (any function of history and plaintext) and `inflate` the peer's inflater, fed
    the payloads in the order they arrive, such that it undoes the compressor over histories
    (`Inverts`).  Then for every trace — in particular that of any `runAll` — the peer's outputs
    over all compressed payloads in wire order are exactly the plaintexts of the `.wrz` entries,
    i.e. of the accepted compressed calls in call order (each `.wrz` entry is the frame of a call
    that returned normally: `compressed_frame_of_accepted_call`; each accepted compressed call
    appends exactly one: `accepted_compressed_call`, `C03.rsv1_iff`, `C03.writes_only_the_frame`);
    none fails.  (The compressor has consumed exactly these plaintexts iff no compressed write
    failed, `zHist trace = some _`; see `C06Send.lossless_client_to_peer_on_the_wire`.) -/
theorem compressed_sends_lossless (deflate : Deflater) (inflate : List Bytes → Bytes → Option Bytes)
    (hinv : Inverts deflate inflate) (trace : List Obs) :
    peerOutputs inflate [] (zPayloads deflate [] (zPlains trace)) = some (zPlains trace) :=
  peer_lossless_from deflate inflate hinv [] (zPlains trace)

/-- non-vacuity: a compressor with real dependence on the history (it prefixes the number of
    earlier messages) and the inflater that checks that number against what it has seen -/
example : Inverts (fun hist p => hist.length :: p)
    (fun seen z => if z.head? = some seen.length then some (z.drop 1) else none) := by
  intro hist p
  simp [zPayloads_length]

example : zPlains (runAll exCfg exReact exEnv).trace = [[72, 105], [1, 2, 3]] := by
  rw [exTrace]; decide
example : zPayloads (fun hist p => hist.length :: p) [] [[72, 105], [1, 2, 3]] = [[0, 72, 105], [1, 1, 2, 3]] := by
  decide

open Lomond.Deflate in
/-- **`C06.lossless_client_to_peer` on the core send path.**  Let the client's compressor be the
    byte encoding `enc` (Huffman coding, block structure, sync flush, tail stripped: the same
    bijection on both sides) of any token-level compressor `c` obeying zlib's distance bound for
    the window lomond chooses (`2^max(9, cw)`), with context takeover or
    `client_no_context_takeover`.  Then for every run of the core model, with `msgs` the
    plaintexts of the `.wrz` entries of its trace in order:
    the payloads of the compressed frames on the wire are the encodings of `senderTokens c … msgs`,
    frame by frame, and a peer with a `2^cw`-byte window (keeping its context whenever the client
    does) gets back exactly `msgs`. -/
theorem send_path_lossless (cw : Nat) (h8 : 8 ≤ cw) (h15 : cw ≤ 15)
    (c : Compressor (maxDist (clientWbits cw))) (clientNoTakeover peerResets : Bool)
    (hk : clientNoTakeover = false → peerResets = false)
    (enc : List Token → Bytes) (deflate : Deflater)
    (hd : ∀ hist p, deflate hist p = enc (c.comp (if clientNoTakeover then [] else hist.flatten) p))
    (cfg : Cfg) (react : React) (env : List EnvStep) :
    let msgs := zPlains (runAll cfg react env).trace
    zPayloads deflate [] msgs = (senderTokens c clientNoTakeover [] msgs).map enc ∧
    receiverOutputs (2 ^ cw) peerResets [] (senderTokens c clientNoTakeover [] msgs) = some msgs := by
  intro msgs
  refine ⟨?_, C06.lossless_client_to_peer cw h8 h15 c clientNoTakeover peerResets hk msgs⟩
  have := zPayloads_senderTokens c clientNoTakeover enc deflate hd [] msgs
  simpa using this

/-! ## 4. `send_json` -/

/-- **`send_json(obj)` is `send_text(json.dumps(obj))`.**  With `json.dumps` as a parameter
    (`none` = TypeError), for every state: positional *and* keyword arguments ⇒ ValueError, nothing
    else happens; an object `json.dumps` rejects ⇒ TypeError, nothing else happens; otherwise the
    call *is* the call `send_text(text)` with the default `compress=True`, `text` the output of
    `json.dumps` on the positional argument if given, else on the dict of keyword arguments. -/
theorem send_json_is_send_text {J : Type} (dumps : J → Option (List Nat)) (c : JsonCall J) (s : Sys) :
    (c.hasKwargs = true ∧ c.obj.isSome = true → sendJson dumps c s = .ok () (resState s .valueError)) ∧
    (¬ (c.hasKwargs = true ∧ c.obj.isSome = true) → dumps (c.obj.getD c.kwargs) = none →
      sendJson dumps c s = .ok () (resState s .typeError)) ∧
    (¬ (c.hasKwargs = true ∧ c.obj.isSome = true) → ∀ text, dumps (c.obj.getD c.kwargs) = some text →
      sendJson dumps c s = doAct (.sendText (.str text) true) s) := by
  refine ⟨fun h => ?_, fun h hn => ?_, fun h text ht => ?_⟩
  · unfold sendJson; rw [if_pos h]; rfl
  · unfold sendJson; rw [if_neg h, hn]; rfl
  · unfold sendJson; rw [if_neg h, ht]

/-- **The harness's substitution is sound in the model**: the `send_text` call by which the
    correspondence harness presents a `send_json` call to the model (`jsonAsAct`: a lone surrogate
    for "both kinds of arguments", a non-`str` for "not serialisable") behaves exactly like
    `send_json`, in every state. -/
theorem send_json_as_act {J : Type} (dumps : J → Option (List Nat)) (c : JsonCall J) :
    sendJson dumps c = doAct (jsonAsAct dumps c) := by
  unfold sendJson jsonAsAct
  split
  · rfl
  · split <;> rfl

/-- **An accepted `send_json` writes one Text frame carrying the UTF-8 of the JSON text** — plain
    (`Frame.build 1 utf8 key`, round-trips by `C03.accepted_call_roundtrips`) or, when
    permessage-deflate is negotiated, compressed (`.wrz 1 utf8`, rendered by `wireOf`). -/
theorem send_json_accepted {J : Type} (dumps : J → Option (List Nat)) (c : JsonCall J) (s : Sys)
    (hnb : ¬ (c.hasKwargs = true ∧ c.obj.isSome = true)) (text : List Nat)
    (ht : dumps (c.obj.getD c.kwargs) = some text) (hns : hasSurrogate text = false)
    (hlen : (Utf8.encode text).length < 2 ^ 63) (hs : Accepting s) :
    ∃ o, sendJson dumps c s = .ok () (C03.afterCall (.sendText (.str text) true) s o) ∧
      (s.compression.isSome = true → o = .wrz 1 (Utf8.encode text)) ∧
      (s.compression.isSome = false →
        ∃ bytes, Frame.build 1 (Utf8.encode text) (s.cfg.maskKey s.keyCtr) = some bytes ∧ o = .wr bytes) := by
  rw [(send_json_is_send_text dumps c s).2.2 hnb text ht]
  have hw : C03.wirePayload (.sendText (.str text) true) = some (1, Utf8.encode text) := by
    simp [C03.wirePayload, hns, Gen.opText]
  obtain ⟨o, hd, h1, h2⟩ := C03.accepted_call _ s 1 (Utf8.encode text) hw hlen hs
  refine ⟨o, hd, fun hc => h1 ⟨rfl, hc⟩, fun hc => h2 (fun h => ?_)⟩
  rw [hc] at h; cases h.2

/-- non-vacuity: `send_json({"a": 1})` with `json.dumps` giving `{"a": 1}` -/
example : (sendJson (J := Nat) (fun _ => some [0x7b, 0x22, 0x61, 0x22, 0x3a, 0x20, 0x31, 0x7d])
    { obj := some 0, kwargs := 1, hasKwargs := false } C03.exState).state.trace =
    [.res .ok, .wr [0x81, 0x88, 1, 0x37, 0xfa, 0x21, 0x7b ^^^ 1, 0x22 ^^^ 0x37, 0x61 ^^^ 0xfa, 0x22 ^^^ 0x21,
      0x3a ^^^ 1, 0x20 ^^^ 0x37, 0x31 ^^^ 0xfa, 0x7d ^^^ 0x21]] := by decide
example : (sendJson (J := Nat) (fun _ => none) { obj := some 0, kwargs := 1, hasKwargs := false } C03.exState).state.trace =
    [.res .typeError] := by decide
example : (sendJson (J := Nat) (fun _ => some []) { obj := some 0, kwargs := 1, hasKwargs := true } C03.exState).state.trace =
    [.res .valueError] := by decide
example : (sendJson (J := Nat) (fun j => if j = 1 then some [0x7b, 0x7d] else none)
    { obj := none, kwargs := 1, hasKwargs := false } { C03.exState with compression := some default }).state.trace =
    [.res .ok, .wrz 1 [0x7b, 0x7d]] := by decide

end Lomond.C03Z
