/-
  C15 companion — the timers over a whole connection (`Core.runAll`), for every configuration,
  application (`React`) and environment script.  Property theorems only; helper lemmas are in
  Proofs/LiftX.lean (result-aware lifting through the receive pipeline, the session loop and
  `run()`) and Proofs/TimerRun.lean (the invariants).

  Time is `Nat` ticks read off the trace (`clockOf`, `sessOf`: Proofs/TimerInv.lean).  A position of
  the trace is a split `trace = l ++ o :: t` (newest first: `t` is what happened before the entry
  `o`, `l` what happened after it).

  The environment hypothesis of every upper bound is `EnvBound cfg.poll env`: `selector.wait(max_bytes,
  poll)` returns after at most `poll`.  It is the decidable well-formedness condition "every wait step
  of the script has `dt ≤ poll`" (`env_bound_iff`), every script can be normalised to it
  (`env_bound_normalise`), and the harness asserts it for every scenario it generates.
-/
import Lomond.Proofs.TimerRun

namespace Lomond.C15Run
open Lomond Lomond.Core Lomond.Core.Timers Lomond.Core.TimerRun

/-! ### the environment hypothesis -/

/-- **`EnvBound` is exactly "every `selector.wait` step lasts at most `D`"**, it is decidable
    (`envBoundB` computes it), holds of the empty script and is compositional. -/
theorem env_bound_iff (D : Nat) (env : List EnvStep) :
    (EnvBound D env ↔ ∀ st ∈ env, stepWithin D st = true) ∧
    (EnvBound D env ↔ envBoundB D env = true) ∧
    EnvBound D [] ∧
    (∀ st, EnvBound D (st :: env) ↔ stepWithin D st = true ∧ EnvBound D env) ∧
    (∀ env', EnvBound D (env ++ env') ↔ EnvBound D env ∧ EnvBound D env') := by
  refine ⟨?_, envBound_iff D env, envBound_nil D, fun st => envBound_cons D st env,
    fun env' => envBound_append D env env'⟩
  rw [envBound_iff, envBoundB, List.all_eq_true]

example : EnvBound 5 [.wait 5 none, .wait 0 (some .eof), .selErr] := by decide
example : ¬ EnvBound 5 [.wait 5 none, .wait 6 none] := by decide

/-- **Every script can be normalised**: truncating each wait to `D` (what the real selector does with
    its time-out argument) gives a well-formed script, and changes nothing if it was one already. -/
theorem env_bound_normalise (D : Nat) (env : List EnvStep) :
    EnvBound D (clampEnv D env) ∧ (EnvBound D env → clampEnv D env = env) :=
  ⟨envBound_clamp D env, clamp_of_bound D env⟩

example : clampEnv 5 [.wait 9 none, .wait 2 (some .eof)] = [.wait 5 none, .wait 2 (some .eof)] := by decide

/-! ### close timeout -/

/-- **The close-timer invariant holds at the end of every connection** (with `hi` — the upper
    bounds — under the cycle bound).  The trace-level theorems below are read off it. -/
theorem close_invariant (hi : Bool) (cfg : Cfg) (react : React) (env : List EnvStep)
    (h : hi = true → EnvBound cfg.poll env) : FinC hi cfg env (runAll cfg react env) :=
  finC_runAll hi cfg react env h

/-- **`Disconnected('close-timeout')` only when due.**  In the trace of any connection, such an event
    (`t` = the entries before it) is non-graceful, happens with `close_timeout = c ≠ 0`, with no
    `Closed` event before it, and `close()` had armed the timer at a session time `ct` — marked on the
    trace by the Close frame handed to `sendall` (written or failed) at that time, or, when `close()`
    found no usable socket, by a point with that session time at which the socket was already gone —
    with `ct + c ≤` the session time of the disconnect. -/
theorem close_timeout_only_when_due (cfg : Cfg) (react : React) (env : List EnvStep) (l t : List Obs) (g : Bool)
    (htr : (runAll cfg react env).trace = l ++ .ev (.disconnected "close-timeout" g) :: t) :
    g = false ∧ cfg.closeTimeout ≠ 0 ∧ closedSeen t = false ∧
    ∃ ct, Armed cfg.v.closeArgs ct t ∧ ct + cfg.closeTimeout ≤ sessOf t := by
  have inv := (close_invariant false cfg react env (fun h => by cases h)).1.2.cto
  rw [htr] at inv
  obtain ⟨h1, h2, h3, ct, h4, h5, _⟩ := ((ctoOK_cons _ _ _ _ _ _).mp (ctoOK_suffix _ _ _ _ l _ inv)).1 rfl
  refine ⟨?_, h2, h3, ct, h4, h5⟩
  cases h1; rfl

/-- … and **within `poll` of the deadline** (cycle bound): its session time is `< ct + c + poll`. -/
theorem close_timeout_window (cfg : Cfg) (react : React) (env : List EnvStep)
    (henv : EnvBound cfg.poll env) (l t : List Obs) (g : Bool)
    (htr : (runAll cfg react env).trace = l ++ .ev (.disconnected "close-timeout" g) :: t) :
    ∃ ct, Armed cfg.v.closeArgs ct t ∧ ct + cfg.closeTimeout ≤ sessOf t ∧
      sessOf t < ct + cfg.closeTimeout + cfg.poll := by
  have inv := (close_invariant true cfg react env (fun _ => henv)).1.2.cto
  rw [htr] at inv
  obtain ⟨_, _, _, ct, h4, h5, h6⟩ := ((ctoOK_cons _ _ _ _ _ _).mp (ctoOK_suffix _ _ _ _ l _ inv)).1 rfl
  exact ⟨ct, h4, h5, h6 rfl⟩

/-- **Never when `close_timeout` is None/0.** -/
theorem no_close_timeout_when_zero (cfg : Cfg) (react : React) (env : List EnvStep)
    (h0 : cfg.closeTimeout = 0) (g : Bool) :
    Obs.ev (.disconnected "close-timeout" g) ∉ (runAll cfg react env).trace := by
  intro hm
  obtain ⟨l, t, e⟩ := List.append_of_mem hm
  exact (close_timeout_only_when_due cfg react env l t g e).2.1 h0

/-- **The loop never waits again with the close timer overdue** (liveness, safety form).  `ReqOk0`:
    the upgrade request is not mistaken for a Close frame.  At every clock mark `n` of the trace of
    any connection (`t` = before it): if the client's Close frame was handed to `sendall` before, at
    session time `ct`, then the loop went into that `selector.wait` before the deadline
    (`sessOf t < ct + c`), and — cycle bound — came out of it before `ct + c + poll`. -/
theorem close_deadline (cfg : Cfg) (react : React) (env : List EnvStep) (hreq : ReqOk0 cfg)
    (hc : cfg.closeTimeout ≠ 0) (l t : List Obs) (n ct : Nat)
    (htr : (runAll cfg react env).trace = l ++ .tick n :: t) (hw : CloseWr ct t) :
    sessOf t < ct + cfg.closeTimeout ∧
    (EnvBound cfg.poll env → sessOf (.tick n :: t) < ct + cfg.closeTimeout + cfg.poll) := by
  have key : ∀ hi, (hi = true → EnvBound cfg.poll env) →
      clockOf t ≤ n ∧ (hi = true → n ≤ clockOf t + cfg.poll) ∧ sessOf t < ct + cfg.closeTimeout := by
    intro hi h
    have inv := (close_invariant hi cfg react env h).1.2.tok
    rw [htr] at inv
    obtain ⟨a, b, c⟩ := ((tickC_cons _ _ _ _ _ _).mp (tickC_suffix _ _ _ _ l _ inv)).1 n rfl
    exact ⟨a, b, c hreq hc ct hw⟩
  refine ⟨(key false (fun h => by cases h)).2.2, fun henv => ?_⟩
  obtain ⟨a, b, c⟩ := key true (fun _ => henv)
  have hb := b rfl
  have : sessOf (.tick n :: t) ≤ sessOf t + cfg.poll := by
    unfold sessOf
    rw [readyAt_tick, clockOf_tick]
    cases readyAt t with
    | none => simp
    | some t0 => simp only; omega
  omega

/-- **The forced disconnect happens** (liveness).  If the loop lived through a `selector.wait` that
    ended (clock mark `n`) at or after the deadline `ct + c` of a Close frame handed to `sendall`
    before it (no Ready in between), then: that was the last wait (no clock mark after it), under the
    cycle bound it ended before `ct + c + poll`, and the connection is over — the forced
    `Disconnected('close-timeout')` was yielded, unless the ping timeout struck at that same
    `_regular()` (it is checked first: `Disconnected('ping-timeout')`) or the application abandoned
    the iterator there (no `Disconnected` at all). -/
theorem close_timeout_fires (cfg : Cfg) (react : React) (env : List EnvStep) (hreq : ReqOk0 cfg)
    (hc : cfg.closeTimeout ≠ 0) (l t : List Obs) (n ct : Nat)
    (htr : (runAll cfg react env).trace = l ++ .tick n :: t) (hw : CloseWr ct t)
    (hnr : ∀ o ∈ l, o.tmIsReady = false) (hpast : ct + cfg.closeTimeout ≤ sessOf (.tick n :: t)) :
    (∀ o ∈ l, o.tmTickVal = none) ∧
    (EnvBound cfg.poll env → sessOf (.tick n :: t) < ct + cfg.closeTimeout + cfg.poll) ∧
    (ctoD ∈ (runAll cfg react env).trace ∨ ptoD ∈ (runAll cfg react env).trace ∨
      discAny (runAll cfg react env).trace = false) := by
  have inv := close_invariant false cfg react env (fun h => by cases h)
  refine ⟨?_, (close_deadline cfg react env hreq hc l t n ct htr hw).2, ?_⟩
  · intro o ho
    cases hv : o.tmTickVal with
    | none => rfl
    | some n2 =>
      exfalso
      obtain ⟨l2, l1, e⟩ := List.append_of_mem ho
      have ho2 : o = .tick n2 := by cases o <;> simp [Obs.tmTickVal] at hv; rw [hv]
      subst ho2
      have htr2 : (runAll cfg react env).trace = l2 ++ .tick n2 :: (l1 ++ .tick n :: t) := by
        rw [htr, e]; simp
      have hw2 : CloseWr ct (l1 ++ .tick n :: t) := closeWr_append ct l1 _ (closeWr_append ct [.tick n] t hw)
      have h1 := (close_deadline cfg react env hreq hc l2 _ n2 ct htr2 hw2).1
      have tok := inv.1.2.tok
      rw [htr2] at tok
      have tok2 := (tickC_suffix _ _ _ _ (l2 ++ [.tick n2]) _ (by simpa using tok))
      have := sessOf_mono _ _ _ _ l1 _ tok2 (fun o ho => hnr o (by rw [e]; simp [ho]))
      omega
  · exact inv.2 hreq hc ⟨l, n, t, ct, htr, hw, hnr, hpast⟩

/-! ### ping timeout -/

/-- **The ping-timeout rules hold for the trace of every connection.** -/
theorem unresponsive_invariant (hi : Bool) (cfg : Cfg) (react : React) (env : List EnvStep)
    (h : hi = true → EnvBound cfg.poll env) : FinU hi cfg (runAll cfg react env) :=
  finU_runAll hi cfg react env h

/-- **Unresponsive within `poll` of the deadline.**  In the trace of any connection an Unresponsive
    event (`t` = the entries before it) happens after Ready, with `ping_timeout = pt ≠ 0`, more than
    `pt` after the newest sign of life (the newest Pong since Ready, or Ready itself), and — cycle
    bound — at most `pt + poll` after it. -/
theorem unresponsive_window (cfg : Cfg) (react : React) (env : List EnvStep) (l t : List Obs)
    (htr : (runAll cfg react env).trace = l ++ .ev .unresponsive :: t) :
    cfg.pingTimeout ≠ 0 ∧ readyAt t ≠ none ∧ lastAlive t + cfg.pingTimeout < sessOf t ∧
    (EnvBound cfg.poll env → sessOf t ≤ lastAlive t + cfg.pingTimeout + cfg.poll) := by
  have key : ∀ hi, (hi = true → EnvBound cfg.poll env) →
      cfg.pingTimeout ≠ 0 ∧ readyAt t ≠ none ∧ lastAlive t + cfg.pingTimeout < sessOf t ∧
      (hi = true → sessOf t ≤ lastAlive t + cfg.pingTimeout + cfg.poll) := by
    intro hi h
    have inv := (unresponsive_invariant hi cfg react env h).1.uhi
    rw [htr] at inv
    exact ((unrespHi_cons _ _ _ _ _).mp (unrespHi_suffix _ _ _ l _ inv)).1 rfl
  obtain ⟨a, b, c, _⟩ := key false (fun h => by cases h)
  exact ⟨a, b, c, fun henv => (key true (fun _ => henv)).2.2.2 rfl⟩

/-- **Nothing but `Disconnected('ping-timeout', graceful=False)` follows Unresponsive.**  In the trace
    of any connection, an event `e` whose predecessor (the newest event before it) is Unresponsive is
    that forced disconnect — whatever the application does at Unresponsive, whatever else is in the
    read being processed or in the rest of the script.  (`C07.timeout_terminates`: at most one event
    follows.) -/
theorem unresponsive_then_forced_disconnect (cfg : Cfg) (react : React) (env : List EnvStep) (l t : List Obs)
    (e : Event) (htr : (runAll cfg react env).trace = l ++ .ev e :: t)
    (hprev : newestEv t = some .unresponsive) : e = .disconnected "ping-timeout" false := by
  have inv := (unresponsive_invariant false cfg react env (fun h => by cases h)).1.unext
  rw [htr] at inv
  exact ((unext_cons _ _).mp (unext_suffix l _ inv)).1 e rfl hprev

/-- **Never when `ping_timeout` is None/0.** -/
theorem no_unresponsive_when_zero (cfg : Cfg) (react : React) (env : List EnvStep) (h0 : cfg.pingTimeout = 0) :
    Obs.ev .unresponsive ∉ (runAll cfg react env).trace := by
  intro hm
  obtain ⟨l, t, e⟩ := List.append_of_mem hm
  exact (unresponsive_window cfg react env l t e).1 h0

/-- **The loop never waits again with the ping timeout overdue** (liveness, safety form).  At every
    clock mark `n` of the trace of any connection (`t` = before it), once ready and with
    `ping_timeout = pt ≠ 0`: the loop went into that `selector.wait` at most `pt` after the newest sign
    of life, and — cycle bound — came out of it at most `pt + poll` after it. -/
theorem unresponsive_deadline (cfg : Cfg) (react : React) (env : List EnvStep) (hp : cfg.pingTimeout ≠ 0)
    (l t : List Obs) (n : Nat) (htr : (runAll cfg react env).trace = l ++ .tick n :: t) (hr : readyAt t ≠ none) :
    sessOf t ≤ lastAlive t + cfg.pingTimeout ∧
    (EnvBound cfg.poll env → sessOf (.tick n :: t) ≤ lastAlive t + cfg.pingTimeout + cfg.poll) := by
  have inv := (unresponsive_invariant false cfg react env (fun h => by cases h)).1.tok
  rw [htr] at inv
  have h1 := (((tickU_cons _ _ _).mp (tickU_suffix _ l _ inv)).1 n rfl).2 hp hr
  refine ⟨h1, fun henv => ?_⟩
  have tok := (close_invariant true cfg react env (fun _ => henv)).1.2.tok
  rw [htr] at tok
  obtain ⟨_, b, _⟩ := ((tickC_cons _ _ _ _ _ _).mp (tickC_suffix _ _ _ _ l _ tok)).1 n rfl
  have hb := b rfl
  have : sessOf (.tick n :: t) ≤ sessOf t + cfg.poll := by
    unfold sessOf
    rw [readyAt_tick, clockOf_tick]
    cases readyAt t with
    | none => simp
    | some t0 => simp only; omega
  omega

/-- **Unresponsive is emitted** (liveness).  If the loop lived through a `selector.wait` that ended
    (clock mark `n`) more than `pt` after the newest sign of life, and no Pong (or Ready) was seen
    after it, then the connection is over: Unresponsive and the forced
    `Disconnected('ping-timeout')` were yielded — unless the application abandoned the iterator at
    that `_regular()` (at its Poll or at Unresponsive: then no `Disconnected` at all). -/
theorem unresponsive_fires (cfg : Cfg) (react : React) (env : List EnvStep) (hp : cfg.pingTimeout ≠ 0)
    (l t : List Obs) (n : Nat) (htr : (runAll cfg react env).trace = l ++ .tick n :: t) (hr : readyAt t ≠ none)
    (hquiet : ∀ o ∈ l, o.tmIsReady = false ∧ o.tmIsPong = false)
    (hpast : lastAlive t + cfg.pingTimeout < sessOf (.tick n :: t)) :
    (Obs.ev .unresponsive ∈ (runAll cfg react env).trace ∧ ptoD ∈ (runAll cfg react env).trace) ∨
    discAny (runAll cfg react env).trace = false :=
  (unresponsive_invariant false cfg react env (fun h => by cases h)).2 hp ⟨l, n, t, htr, hr, hquiet, hpast⟩

/-! ### automatic Ping -/

/-- **The automatic-Ping rule holds for the trace of every connection** (cycle bound). -/
theorem ping_invariant_run (cfg : Cfg) (react : React) (env : List EnvStep) (henv : EnvBound cfg.poll env) :
    TickP cfg (runAll cfg react env).trace :=
  finP_runAll true cfg react env (fun _ => henv) rfl

/-- **Every period the run lives through gets its Ping within `poll`** (liveness; cycle bound).  With
    `ping_rate = r ≠ 0` and the repaired argument check of `close()`: at every clock mark of the trace
    of any connection — i.e. every time the loop goes back into `selector.wait` (`t` = the trace before
    that) — while the connection is open (`Connected` was yielded and nothing of the closing
    handshake has happened: no Close frame handed to `sendall`, no `Closing` / `Closed` event, socket
    not closed), for every `k` with `k·r <` the session time: the library attempted a Ping at a
    session time in `(k·r, k·r + poll]` — one of its own Ping frames written then (a member of
    `pingStamps t`, the list `C15.ping_grid` speaks about: never two in one period), or a Ping frame
    whose write failed then. -/
theorem ping_every_period (cfg : Cfg) (react : React) (env : List EnvStep) (henv : EnvBound cfg.poll env)
    (hr : cfg.pingRate ≠ 0) (hv : cfg.v.closeArgs = true) (l t : List Obs) (n : Nat)
    (htr : (runAll cfg react env).trace = l ++ .tick n :: t) (hrd : readyAt t ≠ none)
    (hconn : connSeen t = true) (hopen : closeStarted t = false) (k : Nat) (hk : k * cfg.pingRate < sessOf t) :
    HasTry cfg.pingRate cfg.poll k t := by
  have inv := ping_invariant_run cfg react env henv
  rw [htr] at inv
  exact (tickP_suffix _ l _ inv).1 rfl hr hv hrd hconn hopen k (by omega)

/-! ### non-vacuity: three concrete connections -/

/-- `HTTP/1.1 101 X\r\nUpgrade: websocket\r\nSec-WebSocket-Accept: k\r\n\r\n` -/
def exReply : Bytes :=
  [72, 84, 84, 80, 47, 49, 46, 49, 32, 49, 48, 49, 32, 88, 13, 10, 85, 112, 103, 114, 97, 100, 101, 58, 32, 119,
   101, 98, 115, 111, 99, 107, 101, 116, 13, 10, 83, 101, 99, 45, 87, 101, 98, 83, 111, 99, 107, 101, 116, 45, 65,
   99, 99, 101, 112, 116, 58, 32, 107, 13, 10, 13, 10]

/-- close timeout 3, poll 5: the application closes at Ready (session time 0); the server stays
    silent; waits of 2 and 5 ticks -/
def cfgC : Cfg := { challenge := [107], closeTimeout := 3, pingRate := 0, request := [71, 69, 84] }
def reactC : React := fun h => if h.length = 3 then [.close (some 1000) (.bytes [])] else []
def envC : List EnvStep := [.wait 0 (some (.data exReply)), .wait 2 none, .wait 5 none, .wait 5 none]

/-- the trace before the clock mark 7 -/
def trC : List Obs :=
  [.tick 2, .ev .poll, .res .ok, .wr [136, 130, 0, 0, 0, 0, 3, 232], .ev (.ready none false),
   .ev (.connected false), .wr [71, 69, 84], .ev .connecting]

-- not due at session time 2, due at 7 ∈ [0 + 3, 0 + 3 + 5): the forced disconnect; the last wait of the
-- script is never reached
example : (runAll cfgC reactC envC).trace =
    [.selClose, .ev (.disconnected "close-timeout" false), .sockClose, .ev .poll] ++ .tick 7 :: trC := by
  decide +kernel

example : EnvBound cfgC.poll envC ∧ ReqOk0 cfgC ∧ cfgC.closeTimeout ≠ 0 :=
  ⟨by decide, by unfold ReqOk0; decide, by decide⟩

-- the hypotheses of `close_timeout_fires` / `close_deadline` on this run
example : CloseWr 0 trC ∧ 0 + cfgC.closeTimeout ≤ sessOf (.tick 7 :: trC) ∧
    sessOf (.tick 7 :: trC) < 0 + cfgC.closeTimeout + cfgC.poll :=
  ⟨⟨[.tick 2, .ev .poll, .res .ok], .wr [136, 130, 0, 0, 0, 0, 3, 232], _, rfl, rfl, by decide⟩, by decide, by decide⟩

-- the evidence of `close_timeout_only_when_due`: the Close frame at session time 0
example : Armed true 0 ([.sockClose, .ev .poll] ++ .tick 7 :: trC) :=
  Or.inl ⟨[.sockClose, .ev .poll, .tick 7, .tick 2, .ev .poll, .res .ok], .wr [136, 130, 0, 0, 0, 0, 3, 232], _, rfl, rfl,
    by decide⟩

/-- ping timeout 3, poll 5, no automatic Ping: silence; waits of 2 and 3 ticks -/
def cfgU : Cfg := { challenge := [107], pingTimeout := 3, pingRate := 0, request := [71, 69, 84] }
def envU : List EnvStep := [.wait 0 (some (.data exReply)), .wait 2 none, .wait 3 none, .wait 5 none]
def trU : List Obs :=
  [.tick 2, .ev .poll, .ev (.ready none false), .ev (.connected false), .wr [71, 69, 84], .ev .connecting]

-- Unresponsive at session time 5 ∈ (0 + 3, 0 + 3 + 5], followed by the forced disconnect only
example : (runAll cfgU (fun _ => []) envU).trace =
    [.selClose, .ev (.disconnected "ping-timeout" false), .sockClose, .ev .unresponsive, .ev .poll] ++
      .tick 5 :: trU := by decide +kernel

-- the hypotheses of `unresponsive_fires` / `unresponsive_then_forced_disconnect` on this run
example : readyAt trU ≠ none ∧ lastAlive trU + cfgU.pingTimeout < sessOf (.tick 5 :: trU) ∧
    newestEv ([.sockClose, .ev .unresponsive, .ev .poll] ++ .tick 5 :: trU) = some .unresponsive := by decide

/-- automatic Ping every 4, poll 5: silence; waits of 5, 5 and 3 ticks -/
def cfgP : Cfg := { challenge := [107], pingRate := 4, request := [71, 69, 84] }
def envP : List EnvStep := [.wait 0 (some (.data exReply)), .wait 5 none, .wait 5 none, .wait 3 none]
def trP : List Obs :=
  [.wr [137, 128, 0, 0, 0, 0], .ev .poll, .tick 5, .ev .poll, .ev (.ready none false), .ev (.connected false),
   .wr [71, 69, 84], .ev .connecting]

example : (runAll cfgP (fun _ => []) envP).trace =
    [.incomplete, .selClose, .sockClose, .wr [137, 128, 0, 0, 0, 0], .tick 13, .wr [137, 128, 0, 0, 0, 0], .ev .poll] ++
      .tick 10 :: trP := by decide +kernel

-- the hypotheses of `ping_every_period` at the clock mark 10: the session time before it is 5, so the
-- periods k = 0 (window (0, 5]) and k = 1 (window (4, 9]) have been entered — the Ping at 5 serves both
example : EnvBound cfgP.poll envP ∧ cfgP.pingRate ≠ 0 ∧ cfgP.v.closeArgs = true ∧ readyAt trP ≠ none ∧
    connSeen trP = true ∧ closeStarted trP = false ∧ 1 * cfgP.pingRate < sessOf trP ∧ pingStamps trP = [5] := by
  decide

end Lomond.C15Run
