/-
  C08 companion 2 — after the closing handshake nothing more is fed, and a lost connection is a
  failure only while the websocket is active: what websocket.py says.

  Produced by harness/py2lean.py from the source on every check run: `wsFeedGuard` (the first
  statement of `WebSocket.feed`: `if self.is_closed: return`) and `wsIsActive` (the property
  `WebSocket.is_active`, read by `WebsocketSession.run` when `_recv` returned no data).
  The theorems state that `Core.wsFeed` and `Core.onEof` decide exactly like these.
-/
import Lomond.Proofs.GenTie
import Lomond.Generated.Code

namespace Lomond.C08Gen2
open Lomond Lomond.Core Lomond.GenTie
open Lomond.Gen.Code

/-- the data goes to the stream iff the websocket is not closed (the `closing` flag plays no part) -/
theorem gen_feedGuard_spec (closed closing : Bool) : wsFeedGuard closed closing = !closed := by
  cases closed <;> rfl

/-- active = neither closing nor closed -/
theorem gen_isActive_spec (closed closing : Bool) : wsIsActive closed closing = (!closing && !closed) := by
  cases closed <;> cases closing <;> rfl

/-- `Core.wsFeed` starts with the translated guard of `WebSocket.feed`: a closed websocket drops
    the data without touching the stream; otherwise the `try` body and its handlers run -/
theorem gen_wsFeed (data : Bytes) (s : Sys) :
    wsFeed data s =
      if wsFeedGuard s.closed s.closing then tryC (tryC (feedBody data) feedHandler) unwrapOuter s
      else .ok () s := by
  rw [gen_feedGuard_spec]
  unfold wsFeed
  cases s.closed <;> simp

/-- `Core.onEof` (`_recv` returned no data) raises `connection lost` exactly when the translated
    `is_active` holds; otherwise the loop is left by `break` -/
theorem gen_onEof (s : Sys) :
    onEof s =
      if wsIsActive s.closed s.closing then .err (.socketFail "connection-lost") s else .ok false s := by
  rw [gen_isActive_spec]
  unfold onEof
  cases s.closed <;> cases s.closing <;> simp

example : wsFeedGuard true false = false := by decide
example : wsFeedGuard false true = true := by decide
example : wsIsActive false false = true := by decide
example : wsIsActive false true = false := by decide
example : wsIsActive true false = false := by decide

end Lomond.C08Gen2
