/-
  C19 on the composed system — the Proxy model linked to the core model.

  `Properties/C19.lean` is about `Proxy.run`, the Proxy model's own log of `run()` up to
  `ConnectFail` / `Connected`.  `Properties/C09.lean` etc. are about `Core.run`, in which `_connect()`
  is the single value `cfg.connect`.  Here the two are composed (`Model/ConnectLink.lean`):

    * `i : Inputs`               the inputs of the connection phase: the `WebSocket` object (target,
                                 proxies mapping, upgrade request), the outcome of `getaddrinfo` and of
                                 every address for the one `_connect_sock` call, the outcome of every
                                 `sendall`, the proxy's reply as a script of `recv` results, the outcome of
                                 the TLS wrap over the tunnel and of the selector's constructor;
    * `connectOutcome i`         the `ConnOutcome` that `_connect()` produces for them;
    * `coreCfg base i`           the core configuration of that connection (`base` supplies everything
                                 that is not about connecting: timers, masking keys, variant flags);
    * `composed base i react env`  ONE trace of the whole connection, oldest first: the core model's
                                 observations (`Item.core`), with what `_connect()` does to the world
                                 (`Item.io`: connects, the CONNECT request, reads, TLS wrap; `Item.sock`:
                                 the socket calls of `_connect_sock`) inserted where `run()` calls it.

  `proxyEnv i` is the Proxy model's environment for these inputs (its `_connect_sock` outcome is the
  result of the Connect model).  All statements are for every `base`, `i`, application `react` and
  environment script `env`.
-/
import Lomond.Proofs.ConnectLink
import Lomond.Properties.C09
import Lomond.Properties.C19

set_option linter.unusedSimpArgs false
set_option linter.unusedVariables false

namespace Lomond.C19Core
open Lomond Lomond.Http Lomond.Core Lomond.Core.Monitor Lomond.Proxy Lomond.ConnectLink

/-! ### (a) the connect outcome and the events of `Core.run` -/

/-- **The connect outcome of the core model is the verdict of the Proxy model.**  With a proxy chosen
    for the scheme: `_connect()` hands `run()` a socket — outcome `ok true`, or `selFail true` when the
    selector's constructor then raises — exactly when the tunnel comes up (`TunnelUp`: usable proxy URL,
    a target host, connect and CONNECT succeed, the reads deliver a complete 200 reply before any stop
    (`C19_tunnel_iff`), TLS succeeds for wss); it fails — `socketFail` or `otherFail`, both reported as
    `ConnectFail` — exactly in the failure classes of `C19_fail_writes_nothing`; and the failure is a
    `_SocketFail` (rather than an exception caught by `except Exception`) exactly when the proxy URL is
    usable and the proxy cannot be reached: the name does not resolve or no address connects
    (`C09.all_addresses_tried`). -/
theorem connect_outcome_is_tunnel_verdict (i : Inputs) (purl : Str) (hc : proxyChoice i.ws = some purl) :
    (TunnelUp i.ws (proxyEnv i) purl ↔
      connectOutcome i = (if i.selOk then .ok true else .selFail true)) ∧
    (TunnelFails i.ws (proxyEnv i) purl ↔
      (connectOutcome i = .socketFail ∨ connectOutcome i = .otherFail)) ∧
    (connectOutcome i = .socketFail ↔
      (∃ u p, parseUrl purl = some u ∧ u.port = some p) ∧
      (i.gai = none ∨ ∃ addrs, i.gai = some addrs ∧ ∀ a ∈ addrs, a ≠ .ok)) := by
  obtain ⟨h1, h2, h3⟩ := connectResult_proxy i purl hc
  have hso : sockOk i = false ↔ (i.gai = none ∨ ∃ addrs, i.gai = some addrs ∧ ∀ a ∈ addrs, a ≠ .ok) := by
    rw [← (C09.all_addresses_tried i.gai).1]
    have := sockOk_iff i
    cases hs : sockOk i
    · simp only [true_iff]
      cases hf : (Connect.connectSock i.gai).1 with
      | fail => rfl
      | sock k => exact absurd hs (by rw [this.mpr (by rw [hf]; intro h; cases h)]; decide)
    · simp only [Bool.true_eq_false, false_iff]
      exact this.mp hs
  have hup : TunnelUp i.ws (proxyEnv i) purl ↔ connectOutcome i = (if i.selOk then .ok true else .selFail true) := by
    rw [← h1]
    unfold connectOutcome
    constructor
    · intro h; rw [h]; rfl
    · intro h
      cases hr : connectResult i with
      | sock q => rw [h2 q hr]
      | socketFail => rw [hr] at h; cases hsel : i.selOk <;> rw [hsel] at h <;> cases h
      | otherFail => rw [hr] at h; cases hsel : i.selOk <;> rw [hsel] at h <;> cases h
  refine ⟨hup, ?_, ?_⟩
  · constructor
    · intro hf
      rcases connectOutcome_cases i with ⟨q, hq, _⟩ | ⟨_, h⟩
      · rw [h2 q hq] at hq
        exact absurd (h1.mp hq) (not_up_of_fails _ _ _ hf)
      · exact h
    · intro hf
      rcases tunnelUp_or_fails i.ws (proxyEnv i) purl with h | h
      · have := hup.mp h
        rcases hf with hf | hf <;> rw [hf] at this <;> cases hsel : i.selOk <;> rw [hsel] at this <;> cases this
      · exact h
  · rw [← hso, ← h3]
    unfold connectOutcome
    cases hr : connectResult i with
    | sock q => cases hsel : i.selOk <;> simp
    | socketFail => simp
    | otherFail => simp

/-- **`Core.run` yields `ConnectFail` for a failed connect exactly when the Proxy model fails.**  With a
    proxy chosen, the run of the core model on the linked configuration contains the event
    `ConnectFail("connect-failed")` iff the tunnel fails (any class of `TunnelFails`) — unless the
    application had stopped iterating at `Connecting`, before `_connect()` is called.  Then the events are
    exactly `Connecting, ConnectFail` (`C09.terminal_kind_connectFail`: nothing precedes it but
    `Connecting`, nothing follows). -/
theorem connectFail_iff_tunnel_fails (base : Core.Cfg) (i : Inputs) (react : React) (env : List EnvStep)
    (purl : Str) (hc : proxyChoice i.ws = some purl) :
    (Event.connectFail "connect-failed" ∈ C09.eventsOf (coreCfg base i) react env ↔
      (TunnelFails i.ws (proxyEnv i) purl ∧ ¬ StopsAtConnecting react)) ∧
    (Event.connectFail "connect-failed" ∈ C09.eventsOf (coreCfg base i) react env →
      C09.eventsOf (coreCfg base i) react env = [.connecting, .connectFail "connect-failed"]) := by
  have hev : C09.eventsOf (coreCfg base i) react env = evs (composed base i react env) :=
    (evs_composed base i react env).symm
  have hfail : TunnelFails i.ws (proxyEnv i) purl ↔ ¬ Connects i := by
    rw [(connect_outcome_is_tunnel_verdict i purl hc).2.1]
    constructor
    · rintro h ⟨q, hq⟩
      unfold connectOutcome at h; rw [hq] at h
      cases hsel : i.selOk <;> rw [hsel] at h <;> rcases h with h | h <;> cases h
    · intro h
      rcases connectOutcome_cases i with ⟨q, hq, _⟩ | ⟨_, h'⟩
      · exact absurd ⟨q, hq⟩ h
      · exact h'
  rw [hev, hfail]
  rcases shape_events (composed_shape base i react env) with ⟨hs, e⟩ | ⟨hs, hnc, e⟩ | ⟨hs, q, hq, ⟨e, _⟩ | ⟨_, E, e⟩⟩
  · rw [e]; exact ⟨⟨fun h => by simp at h, fun h => absurd hs h.2⟩, fun h => by simp at h⟩
  · rw [e]; exact ⟨⟨fun _ => ⟨hnc, hs⟩, fun _ => by simp⟩, fun _ => rfl⟩
  · rw [e]; exact ⟨⟨fun h => by simp at h, fun h => absurd ⟨q, hq⟩ h.1⟩, fun h => by simp at h⟩
  · have hm := C09.terminal_kind_connectFail (coreCfg base i) react env
    rw [e]
    refine ⟨⟨fun h => ?_, fun h => absurd ⟨q, hq⟩ h.1⟩, fun h => ?_⟩ <;>
    · exfalso
      simp only [List.mem_cons, reduceCtorEq, false_or] at h
      obtain ⟨a, b, hab⟩ := List.append_of_mem h
      have := (hm (.connecting :: .connected q.isSome :: a) b "connect-failed"
        (by rw [hev, e, hab]; rfl)).2.1
      cases this

/-- **`Connected(proxy=…)` reports the proxy exactly when the tunnel came up through it.**  Whenever the
    run of the core model on the linked configuration yields `Connected p`: `p` says whether a proxy is
    configured for the scheme; with a proxy (`p = true`) the tunnel is up — in particular the proxy
    answered with a complete 200 reply (`C19_tunnel_iff`) before the upgrade request, which precedes this
    event, was written; without (`p = false`) `_connect_sock` connected some address of the target
    (`C09.all_addresses_tried`: the first that connects). -/
theorem connected_reports_tunnel (base : Core.Cfg) (i : Inputs) (react : React) (env : List EnvStep) (p : Bool)
    (h : Event.connected p ∈ C09.eventsOf (coreCfg base i) react env) :
    p = (proxyChoice i.ws).isSome ∧
    (∀ purl, proxyChoice i.ws = some purl →
      TunnelUp i.ws (proxyEnv i) purl ∧ Reply200 (rxStop i.reads) ∧ (readLoop i.reads []).2 = .ok ()) ∧
    (proxyChoice i.ws = none → ∃ k, (Connect.connectSock i.gai).1 = .sock k) ∧
    i.writeFails (sentBefore i) = false := by
  have hev : C09.eventsOf (coreCfg base i) react env = evs (composed base i react env) :=
    (evs_composed base i react env).symm
  have hm := C09.terminal_kind_connectFail (coreCfg base i) react env
  rw [hev] at h
  rcases shape_events (composed_shape base i react env) with ⟨hs, e⟩ | ⟨hs, hnc, e⟩ | ⟨hs, q, hq, ⟨e, _⟩ | ⟨hwf, E, e⟩⟩
  · rw [e] at h; simp at h
  · rw [e] at h; simp at h
  · rw [e] at h; simp at h
  · -- `Connected` is yielded once, as the second event
    obtain ⟨ph, hph⟩ := runAll_accepted (coreCfg base i) react env
    have hph' : Mon.run .start (evs (composed base i react env)) = some ph := by rw [evs_composed]; exact hph
    rw [e] at h hph'
    have hp : p = q.isSome := by
      simp only [List.mem_cons, reduceCtorEq, false_or, Event.connected.injEq] at h
      rcases h with h | h
      · exact h
      · -- a second `Connected` is rejected by the monitor
        exfalso
        have h1 : Mon.run .start (.connecting :: .connected q.isSome :: E) = Mon.run .connected E := rfl
        rw [h1] at hph'
        exact no_connected_later E .connected ph (by decide) (by decide) hph' p h
    subst hp
    cases hc : proxyChoice i.ws with
    | none =>
      have hd := connectResult_direct i hc
      rw [hd] at hq
      cases hs : sockOk i with
      | false => rw [hs] at hq; cases hq
      | true =>
        rw [hs] at hq; cases hq
        refine ⟨rfl, fun purl h => (by cases h), fun _ => ?_, hwf⟩
        have := (sockOk_iff i).mp hs
        cases hf : (Connect.connectSock i.gai).1 with
        | fail => exact absurd hf this
        | sock k => exact ⟨k, rfl⟩
    | some purl =>
      obtain ⟨hq', hup, _⟩ := connectLog_up i purl q hc hq
      subst hq'
      refine ⟨rfl, fun purl' h => ?_, fun h => (by cases h), hwf⟩
      cases h
      exact ⟨hup, hup.reply, (C19.C19_tunnel_iff i.reads).mpr hup.reply⟩

/-- **… and conversely** (for an application that does nothing at `Connecting`): the run yields
    `Connected(proxy)` with a proxy iff a proxy is configured for the scheme, the tunnel comes up, and the
    upgrade request — the second `sendall` of the connection — can be written; it yields
    `Connected(proxy=None)` iff no proxy is configured, some address of the target connects, and the upgrade
    request — the first `sendall` — can be written. -/
theorem connected_iff_tunnel_up (base : Core.Cfg) (i : Inputs) (react : React) (env : List EnvStep)
    (hre : react [.connecting] = []) :
    (Event.connected true ∈ C09.eventsOf (coreCfg base i) react env ↔
      ∃ purl, proxyChoice i.ws = some purl ∧ TunnelUp i.ws (proxyEnv i) purl ∧ i.writeFails 1 = false) ∧
    (Event.connected false ∈ C09.eventsOf (coreCfg base i) react env ↔
      proxyChoice i.ws = none ∧ (∃ k, (Connect.connectSock i.gai).1 = .sock k) ∧ i.writeFails 0 = false) := by
  have hev : C09.eventsOf (coreCfg base i) react env = evs (composed base i react env) :=
    (evs_composed base i react env).symm
  have hns : ¬ StopsAtConnecting react := by rintro ⟨w, hw⟩; rw [hre] at hw; cases hw
  -- when `_connect()` returns a socket and the request can be written, `Connected` is the second event
  have back : ∀ q, connectResult i = .sock q → i.writeFails (sentBefore i) = false →
      Event.connected q.isSome ∈ evs (composed base i react env) := by
    intro q hq hwf
    rcases shape_events (composed_shape base i react env) with ⟨hs, _⟩ | ⟨_, hnc, _⟩ | ⟨_, q', hq', ⟨_, h | h⟩ | ⟨_, E, e⟩⟩
    · exact absurd hs hns
    · exact absurd ⟨q, hq⟩ hnc
    · exact absurd hre h
    · rw [hwf] at h; cases h
    · rw [hq] at hq'; cases hq'
      rw [e]; simp
  constructor
  · constructor
    · intro h
      obtain ⟨hp, hup, _, hwf⟩ := connected_reports_tunnel base i react env true h
      cases hc : proxyChoice i.ws with
      | none => rw [hc] at hp; cases hp
      | some purl =>
        have hsb : sentBefore i = 1 := by unfold sentBefore; rw [hc]; rfl
        rw [hsb] at hwf
        exact ⟨purl, rfl, (hup purl hc).1, hwf⟩
    · rintro ⟨purl, hc, hup, hwf⟩
      have hq := (connectResult_proxy i purl hc).1.mpr hup
      have hsb : sentBefore i = 1 := by unfold sentBefore; rw [hc]; rfl
      rw [hev]
      exact back (some purl) hq (by rw [hsb]; exact hwf)
  · constructor
    · intro h
      obtain ⟨hp, _, hdir, hwf⟩ := connected_reports_tunnel base i react env false h
      cases hc : proxyChoice i.ws with
      | some purl => rw [hc] at hp; cases hp
      | none =>
        have hsb : sentBefore i = 0 := by unfold sentBefore; rw [hc]; rfl
        rw [hsb] at hwf
        exact ⟨rfl, hdir hc, hwf⟩
    · rintro ⟨hc, ⟨k, hk⟩, hwf⟩
      have hso : sockOk i = true := (sockOk_iff i).mpr (by rw [hk]; intro h; cases h)
      have hq : connectResult i = .sock none := by rw [connectResult_direct i hc, hso]; rfl
      have hsb : sentBefore i = 0 := by unfold sentBefore; rw [hc]; rfl
      rw [hev]
      exact back none hq (by rw [hsb]; exact hwf)

/-! ### (b) the composed trace -/

/-- **The composed trace is conservative**: its core observations are exactly the trace of the core model
    on the linked configuration (so every theorem about `Core.runAll` speaks about it), and — unless the
    application stops at `Connecting`, when `_connect()` is never called and nothing of the connection phase
    appears — its connection-phase actions are exactly what `_connect()` does in the Proxy model. -/
theorem composed_projections (base : Core.Cfg) (i : Inputs) (react : React) (env : List EnvStep) :
    coreLog (composed base i react env) = (runAll (coreCfg base i) react env).trace.reverse ∧
    (¬ StopsAtConnecting react → ioLog (composed base i react env) = connectLog i) ∧
    (StopsAtConnecting react → ioLog (composed base i react env) = [] ∧ sockLog (composed base i react env) = []) := by
  refine ⟨coreLog_composed base i react env, ?_, ?_⟩
  · intro hs
    have hsh := composed_shape base i react env
    generalize composed base i react env = L at hsh
    cases hsh with
    | abandoned c0 n0 h => exact absurd h hs
    | failed c0 c1 n0 n1 _ _ => simp only [ioLog_append, ioLog_core, ioLog_phaseItems, List.nil_append, List.append_nil]
    | refused q c0 c1 n0 n1 _ _ _ => simp only [ioLog_append, ioLog_core, ioLog_phaseItems, List.nil_append, List.append_nil]
    | writeFailed q c0 c1 n0 n1 _ _ _ => simp only [ioLog_append, ioLog_core, ioLog_phaseItems, List.nil_append, List.append_nil]
    | connected q c0 X n0 _ _ _ => simp only [ioLog_append, ioLog_core, ioLog_phaseItems, List.nil_append, List.append_nil]
  · intro hs
    have hsh := composed_shape base i react env
    generalize composed base i react env = L at hsh
    cases hsh with
    | abandoned c0 n0 h => exact ⟨ioLog_core _, sockLog_core _⟩
    | failed c0 c1 n0 n1 h _ => exact absurd hs h
    | refused q c0 c1 n0 n1 h _ _ => exact absurd hs h
    | writeFailed q c0 c1 n0 n1 h _ _ => exact absurd hs h
    | connected q c0 X n0 h _ _ => exact absurd hs h

/-- **The Proxy model's log is the beginning of the composed trace.**  For an application that does
    nothing at `Connecting`, `Proxy.run` on the linked environment — the object of every theorem of
    `Properties/C19.lean` — is a prefix of the composed trace seen through `view` (which maps the core
    model's `Connecting` / `ConnectFail` / `Connected` / upgrade-request write to the Proxy model's items
    and drops what that model does not log: socket-module calls, the socket close, results of application
    calls).  When the connection ends before `Connected` the two are equal. -/
theorem proxy_run_is_prefix_of_composed (base : Core.Cfg) (i : Inputs) (react : React) (env : List EnvStep)
    (hre : react [.connecting] = []) :
    Proxy.run i.ws (proxyEnv i) <+: (composed base i react env).filterMap (view i) :=
  run_prefix_view base i react env hre

/-- **C19 over the composed trace: nothing of the core model is written before the proxy has answered
    200.**  With a proxy chosen, whenever the composed trace contains a `sendall` of the core model — the
    upgrade request, any frame — then before it: the whole connection phase has taken place (`pre` begins
    with `Connecting`, the application's reaction, and then all of `_connect()`), its reads have delivered
    a complete 200 reply within the size limit, the CONNECT request was written (successfully, on the plain
    socket) and is the only write of that phase; and the tunnel is up in the sense of the Proxy model. -/
theorem composed_no_handshake_before_200 (base : Core.Cfg) (i : Inputs) (react : React) (env : List EnvStep)
    (purl : Str) (hc : proxyChoice i.ws = some purl)
    (pre post : List Item) (x : Item) (hsplit : composed base i react env = pre ++ x :: post)
    (hx : x.isCoreWrite = true) :
    (∃ c0 r, pre = (Obs.ev .connecting :: c0).map .core ++ phaseItems i ++ r ∧ ioLog r = []) ∧
    ioLog pre = connectLog i ∧
    Reply200 (received (ioLog pre)) ∧
    (∃ req, connectRequestOf i.ws purl = some req ∧ writes (ioLog pre) = [.write false req true]) ∧
    TunnelUp i.ws (proxyEnv i) purl := by
  have hsh := composed_shape base i react env
  rw [hsplit] at hsh
  generalize hL : pre ++ x :: post = L at hsh
  -- the two shapes with a core write
  have key : ∀ (q : Option Str) (c0 T : List Obs), (∀ o ∈ c0, isRes o = true) → connectResult i = .sock q →
      L = (Obs.ev .connecting :: c0).map .core ++ phaseItems i ++ T.map .core →
      (∃ c0 r, pre = (Obs.ev .connecting :: c0).map .core ++ phaseItems i ++ r ∧ ioLog r = []) ∧
      ioLog pre = connectLog i ∧ Reply200 (received (ioLog pre)) ∧
      (∃ req, connectRequestOf i.ws purl = some req ∧ writes (ioLog pre) = [.write false req true]) ∧
      TunnelUp i.ws (proxyEnv i) purl := by
    intro q c0 T n0 hq hLe
    rw [← hL] at hLe
    have hno : ∀ z ∈ (Obs.ev .connecting :: c0).map Item.core ++ phaseItems i, z.isCoreWrite = false :=
      noCW_append (noCW_map (noCW_cons rfl (noCW_res n0))) (isCoreWrite_phaseItems i)
    obtain ⟨r, hr, hr2⟩ := prefix_of_split Item.isCoreWrite hLe hx hno
    have hior : ioLog r = [] := by
      have : ioLog (r ++ x :: post) = [] := by rw [hr2]; exact ioLog_core _
      rw [ioLog_append] at this
      exact (List.append_eq_nil_iff.mp this).1
    have hio : ioLog pre = connectLog i := by
      rw [hr, ioLog_append, ioLog_append, ioLog_core, ioLog_phaseItems, hior]; simp
    obtain ⟨_, hup, u, p, req, hu, hp, hreq, hlog, h200⟩ := connectLog_up i purl q hc hq
    refine ⟨⟨c0, r, hr, hior⟩, hio, by rw [hio]; exact h200, ⟨req, hreq, ?_⟩, hup⟩
    rw [hio, hlog]
    have hwr := writes_reads _ (readLoop_reads i.reads [])
    simp only [writes] at hwr ⊢
    simp only [List.filter_append, hwr, List.append_nil]
    cases i.ws.target.secure <;> simp [List.filter_cons, Io.isWrite, proxyAddr]
  -- in the other shapes no item is a core write
  have none : (∀ z ∈ L, z.isCoreWrite = false) → False := by
    intro hno
    have : x ∈ L := by rw [← hL]; simp
    have := hno x this
    rw [hx] at this; cases this
  rcases shape_sends hsh with ⟨_, _, h⟩ | ⟨_, _, h⟩ | ⟨q, hq, h⟩
  · exact (none h).elim
  · exact (none h).elim
  · cases hsh with
    | abandoned c0 n0 _ => exact (none (noCW_map (noCW_cons rfl (noCW_res n0)))).elim
    | failed c0 c1 n0 n1 _ hnc => exact absurd ⟨q, hq⟩ hnc
    | refused q' c0 c1 n0 n1 _ _ _ =>
      exact (none (noCW_append (noCW_append (noCW_map (noCW_cons rfl (noCW_res n0))) (isCoreWrite_phaseItems i))
        (noCW_map (noCW_cons rfl (noCW_cons rfl (noCW_res n1)))))).elim
    | writeFailed q' c0 c1 n0 n1 _ hq' _ => exact key q' c0 _ n0 hq' rfl
    | connected q' c0 X n0 _ hq' _ => exact key q' c0 _ n0 hq' rfl

/-- **C19 over the composed trace: when the tunnel fails, nothing of the core model is written.**  With a
    proxy chosen and the tunnel failing (any class of `TunnelFails`): no item of the composed trace is a
    `sendall` of the core model — not one byte of the upgrade request —, the events are `Connecting` and
    (unless the application stopped there) `ConnectFail`, no `Connected`; and the whole connection has at
    most one `sendall`: the CONNECT request on the plain socket. -/
theorem composed_fail_writes_nothing (base : Core.Cfg) (i : Inputs) (react : React) (env : List EnvStep)
    (purl : Str) (hc : proxyChoice i.ws = some purl) (hf : TunnelFails i.ws (proxyEnv i) purl) :
    (∀ x ∈ composed base i react env, x.isCoreWrite = false) ∧
    evs (composed base i react env) <+: [.connecting, .connectFail "connect-failed"] ∧
    (sends (composed base i react env)).length ≤ 1 ∧
    (∀ w ∈ sends (composed base i react env), ∃ req ok,
      connectRequestOf i.ws purl = some req ∧ w = .io (.write false req ok)) := by
  have hnc : ¬ Connects i := by
    rintro ⟨q, hq⟩
    obtain ⟨_, hup, _⟩ := connectLog_up i purl q hc hq
    exact not_up_of_fails _ _ _ hf hup
  obtain ⟨hlen, hwr, _⟩ := connectLog_fail i purl hc hnc
  have hsh := composed_shape base i react env
  generalize composed base i react env = L at hsh
  have hev : evs L <+: [.connecting, .connectFail "connect-failed"] := by
    rcases shape_events hsh with ⟨_, e⟩ | ⟨_, _, e⟩ | ⟨_, q, hq, _⟩
    · rw [e]; exact ⟨[_], rfl⟩
    · rw [e]; exact List.prefix_refl _
    · exact absurd ⟨q, hq⟩ hnc
  rcases shape_sends hsh with ⟨_, e, h⟩ | ⟨_, e, h⟩ | ⟨q, hq, _⟩
  · refine ⟨h, hev, by rw [e]; simp, fun w hw => ?_⟩
    rw [e] at hw; cases hw
  · refine ⟨h, hev, by rw [e, List.length_map]; exact hlen, fun w hw => ?_⟩
    rw [e] at hw
    obtain ⟨y, hy, rfl⟩ := List.mem_map.mp hw
    obtain ⟨req, ok, h1, h2⟩ := hwr y hy
    exact ⟨req, ok, h1, by rw [h2]⟩
  · exact absurd ⟨q, hq⟩ hnc

/-- **The `sendall`s of the composed connection, in order.**  With a proxy chosen there are three
    possibilities, whatever the application and the environment do: nothing is ever sent; or exactly one
    thing, the CONNECT request on the plain socket (`C19_connect_names_target`: it names the target host and
    port); or the CONNECT request went out, the reads delivered a complete 200 reply (the tunnel is up) and
    the next `sendall` — the first of the core model — is the upgrade request `WebSocket.build_request()`
    (successful, or raising), followed by whatever the core model writes later.  In particular every byte
    the Proxy model writes precedes every byte the core model writes. -/
theorem composed_wire (base : Core.Cfg) (i : Inputs) (react : React) (env : List EnvStep)
    (purl : Str) (hc : proxyChoice i.ws = some purl) :
    sends (composed base i react env) = [] ∨
    ∃ req, connectRequestOf i.ws purl = some req ∧
      ((∃ ok, sends (composed base i react env) = [.io (.write false req ok)]) ∨
       (TunnelUp i.ws (proxyEnv i) purl ∧ Reply200 (rxStop i.reads) ∧
        ∃ w rest, sends (composed base i react env) = .io (.write false req true) :: .core w :: rest ∧
          (w = .wr i.ws.request ∨ w = .wrFail i.ws.request) ∧ ∀ z ∈ rest, z.isCoreWrite = true)) := by
  have hsh := composed_shape base i react env
  generalize composed base i react env = L at hsh
  have hwup : ∀ q, connectResult i = .sock q → ∃ req, connectRequestOf i.ws purl = some req ∧
      writes (connectLog i) = [.write false req true] ∧ TunnelUp i.ws (proxyEnv i) purl := by
    intro q hq
    obtain ⟨_, hup, u, p, req, hu, hp, hreq, hlog, _⟩ := connectLog_up i purl q hc hq
    refine ⟨req, hreq, ?_, hup⟩
    rw [hlog]
    have hwr := writes_reads _ (readLoop_reads i.reads [])
    simp only [writes] at hwr ⊢
    simp only [List.filter_append, hwr, List.append_nil]
    cases i.ws.target.secure <;> simp [List.filter_cons, Io.isWrite, proxyAddr]
  rcases shape_sends hsh with ⟨_, e, _⟩ | ⟨hnc, e, _⟩ | ⟨q, hq, ⟨e, _⟩ | e | ⟨X, e⟩⟩
  · exact Or.inl e
  · obtain ⟨hlen, hwr, _⟩ := connectLog_fail i purl hc hnc
    rw [e]
    cases hw : writes (connectLog i) with
    | nil => exact Or.inl rfl
    | cons y r =>
      rw [hw] at hlen hwr
      have hr : r = [] := by
        cases r with
        | nil => rfl
        | cons _ _ => simp at hlen
      subst hr
      obtain ⟨req, ok, h1, h2⟩ := hwr y List.mem_cons_self
      exact Or.inr ⟨req, h1, Or.inl ⟨ok, by rw [h2]; rfl⟩⟩
  · obtain ⟨req, hreq, hw, _⟩ := hwup q hq
    exact Or.inr ⟨req, hreq, Or.inl ⟨true, by rw [e, hw]; rfl⟩⟩
  · obtain ⟨req, hreq, hw, hup⟩ := hwup q hq
    exact Or.inr ⟨req, hreq, Or.inr ⟨hup, hup.reply, _, [], by rw [e, hw]; rfl, Or.inr rfl, fun z hz => by cases hz⟩⟩
  · obtain ⟨req, hreq, hw, hup⟩ := hwup q hq
    refine Or.inr ⟨req, hreq, Or.inr ⟨hup, hup.reply, _, sends (X.map Item.core), by rw [e, hw]; rfl, Or.inl rfl, ?_⟩⟩
    intro z hz
    rw [sends_core] at hz
    obtain ⟨o, ho, rfl⟩ := List.mem_map.mp hz
    exact (List.mem_filter.mp ho).2

/-! ### finding D11: the socket that had connected to the proxy, when the tunnel fails -/

/-- **What becomes of the proxy socket when the tunnel fails after the TCP connect — both code shapes.**  With
    a proxy chosen, a usable proxy URL, `_connect_sock` returning the socket of address `k`, and the tunnel
    failing afterwards (no target host, CONNECT `sendall`, `recv`, reply, TLS wrap), the composed trace is
    exactly: `Connecting`, the application's reaction, the connection-phase log with the address loop's
    socket calls, then — in the repaired shape (`pclose`) — the close of socket `k`, then `ConnectFail`.  In the
    pinned shape nothing closes that socket: neither a `close k` nor the session's `sockClose` occurs anywhere
    in the trace, although `ConnectFail` is delivered (C09's "… and the socket is closed" fails; see
    `C09Connect.composed_fail_closes_socket` / `proxy_socket_left_open_witness`). -/
theorem tunnel_failure_closes_proxy_socket (base : Core.Cfg) (i : Inputs) (react : React) (env : List EnvStep)
    (purl : Str) (hc : proxyChoice i.ws = some purl) (hf : TunnelFails i.ws (proxyEnv i) purl)
    (hurl : ∃ u p, parseUrl purl = some u ∧ u.port = some p)
    (k : Nat) (hk : (Connect.connectSock i.gai).1 = .sock k) (hns : ¬ StopsAtConnecting react) :
    (∃ c0 c1, composed base i react env =
        (Obs.ev .connecting :: c0).map .core ++ (connectLog i).flatMap (expand i) ++
        (if i.pclose then [Item.sock (.close k)] else []) ++
        (Obs.ev (.connectFail "connect-failed") :: c1).map .core ∧
      (∀ o ∈ c0, isRes o = true) ∧ (∀ o ∈ c1, isRes o = true)) ∧
    (i.pclose = false →
      Item.sock (.close k) ∉ composed base i react env ∧ Item.core .sockClose ∉ composed base i react env) := by
  have hnc : ¬ Connects i := by
    rintro ⟨q, hq⟩
    obtain ⟨_, hup, _⟩ := connectLog_up i purl q hc hq
    exact not_up_of_fails _ _ _ hf hup
  have hne := connectLog_nonempty i purl hc hurl
  have hcl : closeItems i = if i.pclose then [Item.sock (.close k)] else [] := by
    rw [closeItems_fail i hnc k hk, hne]; simp
  have hsh := composed_shape base i react env
  generalize composed base i react env = L at hsh
  cases hsh with
  | abandoned c0 n0 h => exact absurd h hns
  | refused q c0 c1 _ _ _ hq _ => exact absurd ⟨q, hq⟩ hnc
  | writeFailed q c0 c1 _ _ _ hq _ => exact absurd ⟨q, hq⟩ hnc
  | connected q c0 X _ _ hq _ => exact absurd ⟨q, hq⟩ hnc
  | failed c0 c1 n0 n1 _ _ =>
    have hph : phaseItems i = (connectLog i).flatMap (expand i) ++ (if i.pclose then [Item.sock (.close k)] else []) := by
      unfold phaseItems; rw [hcl]
    refine ⟨⟨c0, c1, by rw [hph]; simp [List.append_assoc], n0, n1⟩, fun hp => ?_⟩
    rw [hph, hp]
    simp only [Bool.false_eq_true, ↓reduceIte, List.append_nil]
    -- the only socket-module items are the address loop's calls, and the loop closes only sockets whose connect() failed
    have hnoclose : Connect.Call.close k ∉ (Connect.connectSock i.gai).2 := by
      intro hm
      obtain ⟨addrs, hg, hok, _⟩ := ((C09.all_addresses_tried i.gai).2.1 k).mp hk
      have := ((C09.all_addresses_tried i.gai).2.2 addrs hg).2.2.2 k |>.mp hm
      rw [hok] at this
      cases this.2
    constructor
    · intro hm
      rcases List.mem_append.mp hm with h | h
      · rcases List.mem_append.mp h with h | h
        · obtain ⟨o, _, ho⟩ := List.mem_map.mp h; cases ho
        · exact hnoclose (sock_mem_flatMap_expand i _ _ h)
      · obtain ⟨o, _, ho⟩ := List.mem_map.mp h; cases ho
    · intro hm
      rcases List.mem_append.mp hm with h | h
      · rcases List.mem_append.mp h with h | h
        · obtain ⟨o, ho, he⟩ := List.mem_map.mp h
          cases he
          rcases List.mem_cons.mp ho with h' | h'
          · cases h'
          · have := n0 _ h'; cases this
        · obtain ⟨y, _, hy⟩ := List.mem_flatMap.mp h
          cases y <;> simp [expand] at hy
      · obtain ⟨o, ho, he⟩ := List.mem_map.mp h
        cases he
        rcases List.mem_cons.mp ho with h' | h'
        · cases h'
        · have := n1 _ h'; cases this

/-! ### Non-vacuity: concrete connections through the Proxy model's example configurations -/

section Examples
open Lomond.C19

/-- inputs: the target resolves to one address that connects; the proxy's reply arrives in two reads -/
def inOk : Inputs :=
  { ws := cfgWs, gai := some [.connectFail, .ok], writeFails := fun _ => false,
    reads := [.data (ok200.take 7), .data (ok200.drop 7)], wrapOk := true, selOk := true }
/-- the proxy answers 407 -/
def in407 : Inputs := { inOk with reads := [.data no407] }
/-- the proxy cannot be reached: no address connects -/
def inDown : Inputs := { inOk with gai := some [.connectFail, .sockCreateFail] }

example : proxyChoice inOk.ws = some (ofString "http://user:pw@Proxy.example:3128") := by decide
example : connectOutcome inOk = .ok true ∧ connectOutcome { inOk with selOk := false } = .selFail true := by decide
example : connectOutcome in407 = .otherFail ∧ connectOutcome inDown = .socketFail := by decide
example : TunnelUp inOk.ws (proxyEnv inOk) (ofString "http://user:pw@Proxy.example:3128") :=
  ⟨⟨{ scheme := ofString "http", netloc := ofString "user:pw@Proxy.example:3128" }, some 3128, by decide, by decide⟩,
   by decide, rfl, rfl, by decide, by decide⟩
example : TunnelFails in407.ws (proxyEnv in407) (ofString "http://user:pw@Proxy.example:3128") :=
  .reply (by decide)

/-- the whole composed trace of a connection through the proxy whose server then closes the stream:
    `Connecting`, connect to the proxy (two addresses tried, the refused socket closed), CONNECT, two reads,
    then — and only then — the upgrade request of the core model, `Connected(proxy)`, and the end -/
example : (composed {} inOk (fun _ => []) [.wait 0 (some .eof)]).map Item.isWrite =
    [false, false, false, false, false, false, false, true, false, false, true, false, false, false, false] := by
  decide +kernel
example : evs (composed {} inOk (fun _ => []) [.wait 0 (some .eof)]) =
    [.connecting, .connected true, .disconnected "connection-lost" false] := by decide +kernel
example : sockLog (composed {} inOk (fun _ => []) [.wait 0 (some .eof)]) =
    [.socket 0, .connect 0, .close 0, .socket 1, .connect 1] := by decide +kernel
/-- a 407: one `sendall` (CONNECT), `ConnectFail`, nothing of the core model on the wire -/
example : (sends (composed {} in407 (fun _ => []) [])).length = 1 ∧
    evs (composed {} in407 (fun _ => []) []) = [.connecting, .connectFail "connect-failed"] := by decide +kernel
/-- finding D11, both shapes: after the 407 the repaired `_connect_proxy` closes socket 1 (the one that had
    connected) before `ConnectFail`; the pinned shape does not -/
example : (composed {} in407 (fun _ => []) []).drop 9 =
    [.sock (.close 1), .core (.ev (.connectFail "connect-failed"))] := by decide +kernel
example : (composed {} { in407 with pclose := false } (fun _ => []) []).drop 9 =
    [.core (.ev (.connectFail "connect-failed"))] := by decide +kernel
/-- an application that stops at `Connecting`: `_connect()` is never called -/
example : composed {} inOk (fun h => if h.length = 1 then [.abandon false] else []) [] =
    [.core (.ev .connecting)] := by decide +kernel
example : StopsAtConnecting (fun h => if h.length = 1 then [.abandon false] else []) := ⟨false, by decide⟩
/-- the view of the composed trace begins with the Proxy model's log -/
example : Proxy.run inOk.ws (proxyEnv inOk) <+:
    (composed {} inOk (fun _ => []) [.wait 0 (some .eof)]).filterMap (view inOk) := by decide +kernel

end Examples

end Lomond.C19Core
