/-
  C08 — the closing handshake completes correctly in both directions.
  Property theorems only (helper lemmas: Proofs/Closing.lean, built on Proofs/Step.lean).

  Vocabulary (Proofs/Closing.lean).  The trace of a connection records everything handed to
  `sendall` (`.wr bytes` / `.wrz opcode plain` on success, `.wrFail bytes` when `sendall` raised),
  every event given to the application (`.ev e`) and the result of every API call the application
  made (`.res r`).  `Obs.isWrite` = any of the three write entries; `Obs.isClose` = a write entry
  (successful **or failed**) whose first header byte has opcode 8; `Obs.isCloseWr` / `Obs.isDataWr`
  = a successfully written Close / data frame (opcode 0, 1, 2, or a compressed frame).
  `Open s` = socket present, not closing, not closed; `Shut s` = closing or closed.
  The application is any `React`, the environment any script, the configuration any `Cfg`
  (timers, auto-pong, write failures, masking keys, both variants of every known finding).
-/
import Lomond.Proofs.Closing

namespace Lomond.C08
open Lomond Lomond.Core

/-! ## 1. `close()` writes exactly one Close frame -/

/-- **`close(code, reason)` on a connected websocket** (socket present, not closing, not closed)
    with arguments that fit a control frame, when `sendall` succeeds: exactly one entry is added
    to the trace — the masked Close frame `88 80+len key masked(code ++ reason)` built with the
    next masking key —, the call returns normally, `closing` is set and the time of the Close is
    recorded (for the close timeout).  Nothing else changes. -/
theorem close_writes_one_frame (code : Option Nat) (reason : Arg) (rb : Bytes) (s : Sys)
    (hr : reasonBytes reason = some rb) (ha : CloseArgsOk code rb) (ho : Open s)
    (hw : s.cfg.writeFails s.writeCtr = false) :
    Frame.build 8 (buildClosePayload code rb) (s.cfg.maskKey s.keyCtr)
        = some (closeFrame (buildClosePayload code rb) (s.cfg.maskKey s.keyCtr)) ∧
    wsClose code reason s =
      .ok .ok { s with keyCtr := s.keyCtr + 1, writeCtr := s.writeCtr + 1,
                       trace := .wr (closeFrame (buildClosePayload code rb) (s.cfg.maskKey s.keyCtr)) :: s.trace,
                       closing := true, sentCloseTime := some (sessionTime s) } :=
  ⟨build_close _ _ ha.2, wsClose_open code reason rb s hr ha ho hw⟩

/-- non-vacuity: `close(1000, b'bye')` on a connected websocket; the frame on the wire -/
example : (wsClose (some 1000) (.bytes [98, 121, 101]) Ex.opened).state.trace
    = [.wr [136, 133, 0, 0, 0, 0, 3, 232, 98, 121, 101]] := by
  rw [(close_writes_one_frame (some 1000) (.bytes [98, 121, 101]) [98, 121, 101] Ex.opened rfl
        ⟨fun c h => by cases h; decide, by decide⟩ ⟨rfl, rfl, rfl⟩ rfl).2]
  decide

/-- **calling `close()` again** — while closing or once closed, with any arguments (valid or
    not) — returns normally and changes nothing: no second Close frame. -/
theorem close_again_is_noop (code : Option Nat) (reason : Arg) (s : Sys) (h : Shut s) :
    wsClose code reason s = .ok .ok s :=
  wsClose_again code reason s h

/-- non-vacuity: a second `close()`, even with arguments `close()` would reject, is a no-op -/
example : wsClose (some 70000) .other Ex.closing = .ok .ok Ex.closing :=
  close_again_is_noop _ _ _ (Or.inl rfl)

/-! ## 2. Every later send is refused and writes nothing -/

/-- **`session.write` / `send` / `send_compressed` once closing or closed**: the answer is the
    WebSocketError `refusal s` — `WebSocketClosing` while closing, `WebSocketClosed` once closed
    (`WebSocketUnavailable` if there is no socket any more) — and the state, in particular the
    trace, is unchanged (`sendFrame` has drawn a masking key, nothing else). -/
theorem sends_refused_after_close (s : Sys) (h : Shut s) :
    (∀ d z, write d z s = .ok (refusal s) s) ∧
    (∀ op pl c, ∃ r, sendFrame op pl c s = .ok r { s with keyCtr := s.keyCtr + 1 } ∧ r ≠ .ok ∧
        (pl.length < 2 ^ 63 → r = refusal s)) ∧
    (∀ op pl c, ∃ r, sendData op pl c s = .ok r { s with keyCtr := s.keyCtr + 1 } ∧ r ≠ .ok ∧
        (pl.length < 2 ^ 63 → r = refusal s)) ∧
    wsError (refusal s) = true ∧
    (s.sockOpen = true → s.closed = false → refusal s = .wsClosing) ∧
    (s.sockOpen = true → s.closed = true → refusal s = .wsClosed) :=
  ⟨fun d z => write_refused d z s h, fun op pl c => sendFrame_refused op pl c s h,
   fun op pl c => sendData_refused op pl c s h, refusal_wsError s, refusal_closing s, refusal_closed s⟩

/-- non-vacuity: the three answers -/
example : write [1, 2] none Ex.closing = .ok .wsClosing Ex.closing :=
  (sends_refused_after_close Ex.closing (Or.inl rfl)).1 _ _
example : refusal { Ex.opened with closed := true } = .wsClosed ∧
    refusal { Ex.closing with sockOpen := false } = .wsUnavailable := by decide

/-- **the application's send calls** (`send_text`, `send_binary`, `send_ping`, `send_pong`, any
    arguments) made once closing or closed: the call fails (its recorded result is never `ok`),
    the only trace entry added is that result — no `.wr`, `.wrz`, `.wrFail` —, and for arguments
    the API accepts the failure is the WebSocketError `refusal s`. -/
theorem send_calls_refused_after_close (a : Act) (hs : a.isSend = true) (s : Sys) (h : Shut s) :
    ∃ r k, doAct a s = .ok () { s with keyCtr := k, trace := .res r :: s.trace } ∧ r ≠ .ok ∧
      (a.sendOk = true → r = refusal s ∧ wsError r = true) := by
  obtain ⟨r, k, h1, h2, h3⟩ := doAct_send_refused a hs s h
  exact ⟨r, k, h1, h2, fun ok => ⟨h3 ok, by rw [h3 ok]; exact refusal_wsError s⟩⟩

/-- non-vacuity: `send_text('hi')` after `close()` -/
example : (Act.sendText (.str [104, 105]) false).isSend = true ∧
    (Act.sendText (.str [104, 105]) false).sendOk = true ∧ Shut Ex.closing ∧
    (doAct (.sendText (.str [104, 105]) false) Ex.closing).state.trace = [.res .wsClosing] :=
  ⟨rfl, by decide, Or.inl rfl, by decide⟩

/-! ## 3. At most one Close frame per connection, and nothing after it -/

/-- **Single Close, nothing after it — every single-threaded history.**  For every configuration,
    every application (closing at any event, including before `Ready`, sending at any event,
    closing twice, abandoning the loop, …) and every environment script (any frames in any
    segmentation, server Close with any payload, EOF, errors, timeouts, failing writes), the
    trace of the whole connection, read oldest first, contains **at most one** Close frame handed
    to `sendall` (counting failed attempts), and **after it nothing at all** is handed to
    `sendall` — no data frame, no control frame, no second Close.
    `hreq`: the upgrade request (the one write that is not a frame) does not start with a byte
    whose low nibble is 8; the real request starts with `G`. -/
theorem single_close_no_data_after (cfg : Cfg) (react : React) (env : List EnvStep)
    (hreq : isCloseBytes cfg.request = false) :
    ((runAll cfg react env).trace.reverse.filter Obs.isClose).length ≤ 1 ∧
    ∀ pre c post, (runAll cfg react env).trace.reverse = pre ++ c :: post → c.isClose = true →
      ∀ o ∈ post, o.isWrite = false :=
  quiet_oldest_first _ (runAll_inv cfg react env hreq).1

/-- non-vacuity: a whole connection in which the application closes at `Ready`, immediately tries
    to send (refused), receives a Text while closing (delivered), tries to send and to close again
    (refused / no-op), and the server's Close ends it gracefully: one Close frame, nothing after -/
example : isCloseBytes Ex.cfg.request = false ∧
    (runAll Ex.cfg Ex.reactClient Ex.envClient).trace.reverse =
      [.ev .connecting, .wr [71, 69, 84], .ev (.connected false), .ev (.ready none false),
       .wr [136, 133, 0, 0, 0, 0, 3, 232, 98, 121, 101], .res .ok, .res .wsClosing, .ev .poll, .tick 1,
       .ev (.text [104, 105]), .res .wsClosing, .res .ok, .tick 2, .ev (.closed (some 1000) []),
       .sockClose, .ev (.disconnected "closed" true), .selClose] ∧
    ((runAll Ex.cfg Ex.reactClient Ex.envClient).trace.reverse.filter Obs.isClose).length = 1 := by
  decide +kernel

/-- `hreq` holds for every request the library builds: `WebSocket.build_request()` starts with
    `GET ` (whatever the resource, host, key, protocols, custom headers, compression offer) -/
theorem built_request_is_not_a_close (rc : Http.ReqCfg) : isCloseBytes (Http.buildRequest rc) = false :=
  buildRequest_not_close rc

/-- non-vacuity / use: any connection whose request was built by the library -/
example (rc : Http.ReqCfg) (cfg : Cfg) (react : React) (env : List EnvStep) :
    ((runAll { cfg with request := Http.buildRequest rc } react env).trace.reverse.filter Obs.isClose).length ≤ 1 :=
  (single_close_no_data_after _ react env (built_request_is_not_a_close rc)).1

/-- the same in the property's words: at most one Close frame is written, and no data frame
    (opcode 0/1/2 or compressed) is written after it -/
theorem no_data_frame_after_close (cfg : Cfg) (react : React) (env : List EnvStep)
    (hreq : isCloseBytes cfg.request = false) :
    ((runAll cfg react env).trace.reverse.filter Obs.isCloseWr).length ≤ 1 ∧
    ∀ pre c post, (runAll cfg react env).trace.reverse = pre ++ c :: post → c.isCloseWr = true →
      ∀ o ∈ post, o.isDataWr = false ∧ o.isCloseWr = false := by
  obtain ⟨h1, h2⟩ := single_close_no_data_after cfg react env hreq
  refine ⟨Nat.le_trans ?_ h1, ?_⟩
  · exact filter_length_mono _ _ (fun o h => Obs.isCloseWr_isClose h) _
  · intro pre c post e hc o ho
    have hw := h2 pre c post e (Obs.isCloseWr_isClose hc) o ho
    constructor
    · cases hd : o.isDataWr
      · rfl
      · rw [Obs.isDataWr_isWrite hd] at hw; cases hw
    · cases hd : o.isCloseWr
      · rfl
      · rw [Obs.isClose_isWrite (Obs.isCloseWr_isClose hd)] at hw; cases hw

/-- the invariant behind it, from **any** state: if so far nothing was written after a Close
    frame and a written Close frame implies closing-or-closed (`Inv`), the same holds after any
    further run of the event loop; and "closing or closed" never drops back to "open" while the
    connection lives. -/
theorem closing_invariant_preserved (env : List EnvStep) (s : Sys) :
    (Inv s → Inv (loop env s).state) ∧ (Shut s → Shut (loop env s).state) :=
  ⟨(cl_loop env s).inv, (cl_loop env s).keep⟩

/-- non-vacuity: the invariant holds in a fresh connected state, and `Shut` in a closing one -/
example : Inv Ex.opened ∧ Shut Ex.closing := ⟨⟨rfl, fun h => by cases h⟩, Or.inl rfl⟩

/-! ## 4. The server closes first -/

/-- **a received Close frame reaches `_on_close`** with the code and reason of its payload, in
    every state (stream layer: control frames bypass the fragment list; message layer:
    `Close.from_payload`); afterwards `WebSocket.feed` goes on iff the websocket is not closed. -/
theorem close_frame_reaches_on_close (f : Frame) (hop : f.opcode = 8) (code : Option Nat) (reason : List Nat)
    (hp : closeFromPayload f.payload = .ok (.close code reason)) (s : Sys)
    (hz : f.rsv1 = 0 ∨ s.decompress = false) :
    onOut (.frame f) s = (do onClose code reason; notClosed : M Bool) s :=
  onOut_close_frame f hop code reason hp s hz

/-- non-vacuity: Close 1000 arriving on an open websocket: `Closing`, then the echo -/
example : (onOut (.frame Ex.closeFrame1000) Ex.opened).state.trace =
    [.wr [136, 130, 0, 0, 0, 0, 3, 232], .ev (.closing (some 1000) [])] := by decide

/-- **The `Closing` event and the application's sends during it.**  When a Close with an
    acceptable code arrives on a connected websocket, `_on_close` first hands `Closing(code,
    reason)` to the application *with the websocket still open*: the reaction starts in the state
    `handed (.closing code reason) s`, which is `Open`; and from any `Open` state (so for each send
    of the reaction in turn) a send call is written — one frame, result `ok` — and leaves the
    websocket `Open`. -/
theorem server_close_closing_event (code : Option Nat) (reason : List Nat) (s : Sys) (hv : ValidCode code)
    (ho : Open s) :
    onClose code reason s =
      (do feedYield true (.closing code reason)
          let r ← wsClose code (.str reason)
          raiseIfArgError r
          modS fun s => { s with closing := true } : M Unit) s ∧
    feedYield true (.closing code reason) s
        = tryC reactThenRegular (afterYield true) (handed (.closing code reason) s) ∧
    Open (handed (.closing code reason) s) ∧
    (handed (.closing code reason) s).trace = .ev (.closing code reason) :: s.trace ∧
    ∀ (a : Act) (s' : Sys) (o : Obs), Open s' → s'.cfg.writeFails s'.writeCtr = false → a.sent s' = some o →
      doAct a s' = .ok () { s' with keyCtr := s'.keyCtr + 1, writeCtr := s'.writeCtr + 1,
                                    trace := .res .ok :: o :: s'.trace } ∧
      Open { s' with keyCtr := s'.keyCtr + 1, writeCtr := s'.writeCtr + 1, trace := .res .ok :: o :: s'.trace } :=
  ⟨onClose_open_eq code reason s hv ho.2.1 ho.2.2, (closing_event_open code reason s ho).1,
   (closing_event_open code reason s ho).2, rfl,
   fun a s' o ho' hw hs => ⟨doAct_send_open a s' o ho' hw hs, ho'⟩⟩

/-- non-vacuity: the frame a `send_binary` made during `Closing` puts on the wire -/
example : ValidCode (some 1000) ∧ Open (Ex.opened Ex.reactServer) ∧
    (Act.sendBinary (.bytes [7]) false).sent (handed (.closing (some 1000) [111, 107]) (Ex.opened Ex.reactServer))
      = some (.wr [130, 129, 0, 0, 0, 0, 7]) :=
  ⟨fun c h => by cases h; decide, ⟨rfl, rfl, rfl⟩, by decide⟩

/-- **The echo.**  Once the `Closing` event has been handled (state `s1`):
    * if the websocket is still open, **exactly one** Close frame is written, carrying the
      received code and the re-encoded reason, `closing` is set and the close time recorded;
    * if the application itself called `close()` during the event (or the websocket got closed),
      nothing more is written — its Close is the only one.
    Either way later sends are refused (§2) and no second Close can follow (§3). -/
theorem server_close_echo (code : Option Nat) (reason : List Nat) (s s1 : Sys) (hv : ValidCode code)
    (hcg : s.closing = false) (hcd : s.closed = false)
    (hy : feedYield true (.closing code reason) s = .ok () s1) :
    (Open s1 → s1.cfg.writeFails s1.writeCtr = false → CloseArgsOk code (encodeReplace reason) →
      onClose code reason s =
        .ok () { s1 with keyCtr := s1.keyCtr + 1, writeCtr := s1.writeCtr + 1,
                         trace := .wr (closeFrame (buildClosePayload code (encodeReplace reason))
                                        (s1.cfg.maskKey s1.keyCtr)) :: s1.trace,
                         closing := true, sentCloseTime := some (sessionTime s1) }) ∧
    (Shut s1 → onClose code reason s = .ok () { s1 with closing := true }) :=
  ⟨fun ho hw ha => onClose_echo code reason s s1 hv hcg hcd hy ho hw ha,
   fun hs => onClose_echo_skipped code reason s s1 hv hcg hcd hy hs⟩

/-- non-vacuity: server Close 1000 `ok`; the application sends one Binary during `Closing`
    (written), then the echo with the same code and reason -/
example : ∃ s1, feedYield true (.closing (some 1000) [111, 107]) (Ex.opened Ex.reactServer) = .ok () s1 ∧ Open s1 ∧
    s1.cfg.writeFails s1.writeCtr = false ∧ CloseArgsOk (some 1000) (encodeReplace [111, 107]) ∧
    (onClose (some 1000) [111, 107] (Ex.opened Ex.reactServer)).state.trace =
      [.wr [136, 132, 0, 0, 0, 0, 3, 232, 111, 107], .res .ok, .wr [130, 129, 0, 0, 0, 0, 7],
       .ev (.closing (some 1000) [111, 107])] :=
  ⟨_, rfl, ⟨rfl, rfl, rfl⟩, rfl, ⟨fun c h => by cases h; decide, by decide⟩, by decide⟩

/-- **The echo carries what was received** (`encode (decode reason) = reason`): the code and
    reason that `Close.from_payload` extracts from a received Close payload rebuild exactly that
    payload; the reason is free of surrogates (so `errors='replace'` changes nothing) and the code
    fits 16 bits; hence with the control-frame limit respected they are acceptable arguments for
    the echo. -/
theorem echo_matches_received (payload : Bytes) (hwf : Bytes.WF payload) (code : Option Nat)
    (reason : List Nat) (h : closeFromPayload payload = .ok (.close code reason)) :
    buildClosePayload code (encodeReplace reason) = payload ∧
    encodeReplace reason = Utf8.encode reason ∧
    (payload.length ≤ 125 → CloseArgsOk code (encodeReplace reason)) := by
  obtain ⟨h1, h2, h3⟩ := closeFromPayload_echo payload hwf code reason h
  exact ⟨h1, encodeReplace_eq _ h2, fun hl => ⟨h3, by rw [h1]; exact hl⟩⟩

/-- non-vacuity: payload `03 E8 'o' 'k'` -/
example : closeFromPayload [3, 232, 111, 107] = .ok (.close (some 1000) [111, 107]) ∧
    Bytes.WF [3, 232, 111, 107] := ⟨rfl, by decide⟩

/-- **a Close without a code is echoed with an empty payload** -/
theorem empty_close_echo (reason : List Nat) (key : Bytes) :
    closeFromPayload [] = .ok (.close none []) ∧
    closeFrame (buildClosePayload none (encodeReplace reason)) key = 136 :: 128 :: (key ++ []) :=
  ⟨rfl, rfl⟩

/-- non-vacuity: a whole connection in which the server sends an empty Close: `Closing(None, '')`,
    the empty echo `88 80 key`, EOF, graceful end -/
example : (runAll Ex.cfg (fun _ => []) Ex.envServerEmpty).trace.reverse =
    [.ev .connecting, .wr [71, 69, 84], .ev (.connected false), .ev (.ready none false), .ev .poll, .tick 1,
     .ev (.closing none []), .wr [136, 128, 0, 0, 0, 0], .tick 2, .sockClose,
     .ev (.disconnected "closed" true), .selClose] := by
  decide +kernel

/-- **…and ends gracefully when the server drops the connection.**  While closing (or closed),
    EOF — or a vanished socket — is not an error: the loop cycle that receives it (its
    housekeeping `regularTop` having raised nothing, e.g. no close timeout) ends the loop
    normally, `run()` takes its `else:` branch: the socket is closed, then
    `Disconnected('closed', graceful=True)` is handed to the application; the connection ends with
    the socket closed. -/
theorem server_close_then_eof_graceful (dt : Nat) (rest : List EnvStep) (s s2 : Sys)
    (hcd : s.closed = false) (hreg : regularTop (tick s dt) = .ok () s2) (hs : Shut s2) :
    onEof s2 = .ok false s2 ∧
    loop (.wait dt (some .eof) :: rest) s = .ok () s2 ∧
    runBody (.wait dt (some .eof) :: rest) s =
      doActs (s2.react (.disconnected "closed" true :: s2.hist))
        (handed (.disconnected "closed" true) (sockClosed s2)) ∧
    (runBody (.wait dt (some .eof) :: rest) s).state.sockOpen = false ∧
    ∃ l, (runBody (.wait dt (some .eof) :: rest) s).state.trace
          = l ++ .ev (.disconnected "closed" true) :: (sockClosed s2).trace := by
  have hl := loop_eof_shut dt rest s s2 hcd hreg hs
  have hb := runBody_of_loop_ok _ s s2 hl
  refine ⟨onEof_shut s2 hs, hl, ?_, ?_, ?_⟩
  · rw [hb]; exact onLoopEnd_none_eq s2
  · rw [hb]; exact (onLoopEnd_none_state s2).1
  · rw [hb]; exact (onLoopEnd_none_state s2).2

/-- non-vacuity: EOF one tick after the echo -/
example : loop [.wait 1 (some .eof)] (Ex.closing Ex.reactServer) = .ok () (tick (Ex.closing Ex.reactServer) 1) :=
  (server_close_then_eof_graceful 1 [] (Ex.closing Ex.reactServer) _ rfl rfl (Or.inl rfl)).2.1
example : (runBody [.wait 1 (some .eof)] (Ex.closing Ex.reactServer)).state.trace =
    [.res .wsUnavailable, .ev (.disconnected "closed" true), .sockClose, .tick 1] := by decide

/-- non-vacuity: the whole server-initiated handshake — `Closing`, a send during it (written),
    the echo, EOF, graceful `Disconnected`; a send at `Disconnected` is refused -/
example : (runAll Ex.cfg Ex.reactServer Ex.envServer).trace.reverse =
    [.ev .connecting, .wr [71, 69, 84], .ev (.connected false), .ev (.ready none false), .ev .poll, .tick 1,
     .ev (.closing (some 1000) [111, 107]), .wr [130, 129, 0, 0, 0, 0, 7], .res .ok,
     .wr [136, 132, 0, 0, 0, 0, 3, 232, 111, 107], .tick 2, .sockClose,
     .ev (.disconnected "closed" true), .res .wsUnavailable, .selClose] := by
  decide +kernel

/-! ## 5. The client closes first -/

/-- **The server's Close arrives while closing.**  For a Close frame `f` (any acceptable code,
    empty payload included) received in a state with `closing = true`:
    * it reaches `_on_close`, which hands `Closed(code, reason)` to the application;
    * if handling it raises nothing, `closing := false, closed := true`;
    * in **every** outcome (including an exception or abandonment while handling `Closed`) the
      websocket ends up closed and not closing, and `WebSocket.feed` stops iterating (`break`). -/
theorem client_close_then_server_close (f : Frame) (hop : f.opcode = 8) (code : Option Nat) (reason : List Nat)
    (hp : closeFromPayload f.payload = .ok (.close code reason)) (s : Sys)
    (hz : f.rsv1 = 0 ∨ s.decompress = false) (hv : ValidCode code)
    (hcg : s.closing = true) (hcd : s.closed = false) :
    onOut (.frame f) s = (do onClose code reason; notClosed : M Bool) s ∧
    feedYield true (.closed code reason) s
        = tryC reactThenRegular (afterYield true) (handed (.closed code reason) s) ∧
    (handed (.closed code reason) s).trace = .ev (.closed code reason) :: s.trace ∧
    (∀ s1, feedYield true (.closed code reason) s = .ok () s1 →
        onClose code reason s = .ok () { s1 with closing := false, closed := true }) ∧
    (onOut (.frame f) s).state.closed = true ∧
    (∀ b s', onOut (.frame f) s = .ok b s' → b = false) := by
  obtain ⟨h1, h2, _⟩ := onClose_when_closing code reason s hv hcg hcd
  obtain ⟨h3, h4⟩ := onOut_close_when_closing f hop code reason hp s hz hv hcg hcd
  exact ⟨onOut_close_frame f hop code reason hp s hz, h1, rfl, h2, h3, h4⟩

/-- non-vacuity: the server's Close 1000 arriving after `close()` -/
example : (onOut (.frame Ex.closeFrame1000) Ex.closing).state.closed = true :=
  (client_close_then_server_close Ex.closeFrame1000 rfl (some 1000) [] rfl Ex.closing (Or.inl rfl)
    (fun c h => by cases h; decide) rfl rfl).2.2.2.2.1
example : (onOut (.frame Ex.closeFrame1000) Ex.closing).state.trace = [.ev (.closed (some 1000) [])] := by decide

/-- **…then the loop stops and the connection ends gracefully.**  A loop cycle after which the
    websocket is closed (the cycle that fed the server's Close) ends the `while not is_closed`
    loop normally — as does any later entry into the loop —, and `run()` closes the socket and
    then yields `Disconnected('closed', graceful=True)`. -/
theorem closed_then_graceful_disconnect (dt : Nat) (o : RecvOutcome) (rest : List EnvStep) (s s2 s3 : Sys)
    (b : Bool) (hcd : s.closed = false) (hreg : regularTop (tick s dt) = .ok () s2)
    (hrecv : recvStep o s2 = .ok b s3) (h3 : s3.closed = true) :
    loop (.wait dt (some o) :: rest) s = .ok () s3 ∧
    (∀ env, loop env s3 = .ok () s3) ∧
    runBody (.wait dt (some o) :: rest) s =
      doActs (s3.react (.disconnected "closed" true :: s3.hist))
        (handed (.disconnected "closed" true) (sockClosed s3)) ∧
    (runBody (.wait dt (some o) :: rest) s).state.sockOpen = false ∧
    ∃ l, (runBody (.wait dt (some o) :: rest) s).state.trace
          = l ++ .ev (.disconnected "closed" true) :: (sockClosed s3).trace := by
  have hl := loop_step_closed dt o rest s s2 s3 b hcd hreg hrecv h3
  have hb := runBody_of_loop_ok _ s s3 hl
  refine ⟨hl, fun env => loop_closed env s3 h3, ?_, ?_, ?_⟩
  · rw [hb]; exact onLoopEnd_none_eq s3
  · rw [hb]; exact (onLoopEnd_none_state s3).1
  · rw [hb]; exact (onLoopEnd_none_state s3).2

/-- non-vacuity: the loop cycle that reads the server's Close `88 02 03 E8` while closing -/
example : regularTop (tick Ex.closing 1) = .ok () (tick Ex.closing 1) ∧
    (match recvStep (.data [0x88, 2, 3, 232]) (tick Ex.closing 1) with
     | .ok _ s3 => s3.closed
     | .err _ _ => false) = true ∧
    (runBody [.wait 1 (some (.data [0x88, 2, 3, 232]))] Ex.closing).state.trace =
      [.ev (.disconnected "closed" true), .sockClose, .ev (.closed (some 1000) []), .tick 1] :=
  ⟨rfl, by decide +kernel, by decide +kernel⟩

/-! ## 6. Incoming messages are still delivered while closing -/

/-- **`WebSocket.feed`'s dispatch of Text / Binary / Ping / Pong does not look at `closing`**:
    in every state — in particular after `close()` — the message is handed to the application as
    its event (`handed e s1`: trace and history extended), the application's reaction and
    `_regular()` run next; `closing`/`closed` are unchanged by the delivery; on the way at most
    the automatic Pong is attempted, and while closing not even that reaches the socket.
    (`hp`: a Ping longer than 125 bytes — only reachable in the unrepaired D1 variant — makes
    the auto-pong raise before the event.) -/
theorem messages_still_delivered_while_closing (m : Msg) (e : Event) (hm : msgEvent m = some e) (s : Sys)
    (hp : ∀ d, m = .ping d → s.cfg.autoPong = true → d.length ≤ 125) :
    ∃ s1, onEvent e s = .ok () s1 ∧ s1.hist = s.hist ∧ s1.react = s.react ∧
      s1.closing = s.closing ∧ s1.closed = s.closed ∧ s1.sockOpen = s.sockOpen ∧
      (∃ l, s1.trace = l ++ s.trace ∧ l.length ≤ 1) ∧ (Shut s → s1.trace = s.trace) ∧
      onMessage m s = tryC reactThenRegular (afterYield true) (handed e s1) :=
  onMessage_delivers m e hm s hp

/-- non-vacuity: a Text while closing is delivered (the reply the application attempts is
    refused); a Ping while closing is delivered and no Pong is written; the same Ping on an open
    websocket is answered first -/
example : (onMessage (.text [104, 105]) (Ex.closing Ex.reactText)).state.trace
      = [.res .wsClosing, .ev (.text [104, 105])] ∧
    (onMessage (.ping [1]) (Ex.closing Ex.reactText)).state.trace = [.ev (.ping [1])] ∧
    (onMessage (.ping [1]) (Ex.opened Ex.reactText)).state.trace
      = [.ev (.ping [1]), .wr [138, 129, 0, 0, 0, 0, 1]] := by decide

/-! ## 7. `close()` before `Ready` -/

/-- **`close()` at `Connecting`** (no socket yet): nothing is written (`WebSocketUnavailable` is
    swallowed), the websocket is closing; the upgrade request is then refused and the connection
    attempt ends with `ConnectFail('request-failed')` after closing the socket.
    (`close()` at `Connected`/later is the ordinary case of §1: the socket exists, one Close
    frame is written; §3 bounds it to one and §2 refuses later sends.) -/
theorem close_before_connect (code : Option Nat) (reason : Arg) (rb : Bytes) (s : Sys) (proxy : Bool)
    (hr : reasonBytes reason = some rb) (ha : CloseArgsOk code rb)
    (hso : s.sockOpen = false) (hcg : s.closing = false) (hcd : s.closed = false) :
    ∃ s', wsClose code reason s = .ok .ok s' ∧ s'.trace = s.trace ∧ Shut s' ∧
      afterConnect proxy s' =
        (do closeSocket; yieldEv (.connectFail "request-failed") : M Unit) { s' with sockOpen := true } := by
  obtain ⟨s', h1, h2, h3⟩ := wsClose_no_socket code reason rb s hr ha hso hcg hcd
  exact ⟨s', h1, h2, Or.inl h3, afterConnect_shut proxy s' (Or.inl h3)⟩

/-- non-vacuity: a whole connection attempt in which the application closes at `Connecting` -/
example : (runAll Ex.cfg Ex.reactEarly []).trace.reverse =
    [.ev .connecting, .res .ok, .sockClose, .ev (.connectFail "request-failed")] := by decide

end Lomond.C08
