import Lomond.Model.Core
namespace Lomond.C08
end Lomond.C08
