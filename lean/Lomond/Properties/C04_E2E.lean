/-
  C04, end to end — `C04.violation_end_to_end_partial` completed: a whole connection
  `Core.runAll cfg react env` in which the server, after the handshake and any conforming prefix,
  sends one violating frame.  Composition of C10 (handshake), C02 (any segmentation), C01
  (`feed_items`: the prefix is delivered), C04 (`header_violation_stops`, `close_frame_violation`:
  the frame is refused and nothing after it is read; the `except` clauses report once) and C07/C09
  (`run()`'s handlers).  Helper lemmas: Proofs/EndToEnd.lean (`run_violation`).

  Setting: configuration with the repaired length rule (`ctrlLen = true`), `_connect()` and the
  request write succeed, `poll > 0`; a send-only application (`E2E.SendOnly`); the server's bytes
    reply ++ wire(items) ++ bad ++ rest
  arrive in the reads `chunks` — **one read or any segmentation** (non-empty reads, `wait 0`) —
  followed by any further environment script `restEnv` (never consulted); `items` are conforming
  C01 items, `bad` is a violating frame (`Violating`), `rest` is arbitrary.
-/
import Lomond.Proofs.EndToEndText
import Lomond.Properties.C01
import Lomond.Properties.C04
import Lomond.Properties.C01_E2E

namespace Lomond.C04E2E
open Lomond Lomond.Core Lomond.Core.E2E

/-- one violating frame, as bytes, with no extension negotiated; `mid` says whether a fragmented
    data message is open when it arrives:
    * `header`: any two header bytes that RFC 6455's classification (`Spec.headerVerdict`, with
      `deflate = false`) calls a violation — RSV1/2/3 set, reserved opcode, control frame with
      FIN = 0 or a length above 125, MASK = 1, continuation with nothing to continue (`mid = false`),
      new Text/Binary frame inside a fragmented message (`mid = true`) — followed by a complete
      body (`WireBody`);
    * `close`: an unfragmented, unmasked Close frame of legal length whose payload is one byte
      long, or carries a reserved status code, or a reason that is not well-formed UTF-8. -/
inductive Violating (mid : Bool) : Bytes → Prop
  | header (b0 b1 : Nat) (ext key payload : Bytes) (hb0 : b0 < 256) (hb1 : b1 < 256)
      (hw : WireBody b1 ext key payload) (hv : Spec.headerVerdict false mid b0 b1 = .violation) :
      Violating mid ([b0, b1] ++ (ext ++ (key ++ payload)))
  | close (payload : Bytes) (hlen : payload.length ≤ 125)
      (hbad : payload.length = 1 ∨
        ∃ c0 c1 rb, payload = c0 :: c1 :: rb ∧ (Spec.reservedCloseCode (c0 * 256 + c1) ∨ Utf8.wf rb = false)) :
      Violating mid ([0x88, payload.length] ++ payload)

/-- a violating frame stops `Parser.feed`'s loop with an exception that `WebSocket.feed` reports;
    nothing of it is delivered, `rest` is not read (C04 `header_violation_stops`,
    `close_frame_violation`) -/
theorem violating_stops (mid : Bool) (bad : Bytes) (hb : Violating mid bad) (sp : Sys) (hv : sp.cfg.v.ctrlLen = true)
    (hs : AwaitHeader sp.p) (hc : sp.p.compression = false) (hf : decide (sp.frames ≠ []) = mid) (rest : Bytes) :
    ∃ x p'' msg crit, feedLoop (bad ++ rest) sp = .err x { sp with p := p'' } ∧ violationOf x = some (msg, crit) := by
  cases hb with
  | header b0 b1 ext key payload hb0 hb1 hw hvd =>
    have hvd' : Spec.headerVerdict sp.p.compression (decide (sp.frames ≠ [])) b0 b1 = .violation := by
      rw [hc, hf]; exact hvd
    obtain ⟨x, p'', e, hx⟩ := C04.header_violation_stops sp hv hs b0 b1 hb0 hb1 ext key payload rest hw hvd'
    have ea : [b0, b1] ++ (ext ++ (key ++ payload)) ++ rest = [b0, b1] ++ (ext ++ (key ++ (payload ++ rest))) := by
      simp
    rw [ea]
    rcases hx with ⟨rfl, _⟩ | ⟨msg, _, rfl⟩
    · exact ⟨_, p'', _, _, e, rfl⟩
    · exact ⟨_, p'', _, _, e, rfl⟩
  | close payload hlen hbad =>
    obtain ⟨x, p'', e, hx⟩ := C04.close_frame_violation sp hv hs payload rest hlen hbad
    have ea : [0x88, payload.length] ++ payload ++ rest = [0x88, payload.length] ++ (payload ++ rest) := by
      simp
    rw [ea]
    cases hvx : violationOf x with
    | none => rw [hvx] at hx; cases hx
    | some mc => exact ⟨x, p'', mc.1, mc.2, e, hvx⟩

/-- **Violation, end to end** (all prefixes, every segmentation).  The complete trace of the
    connection is

        post ++ cw ++ l ++ ProtocolError(msg, crit) :: pre        (newest first)

    * `pre` — everything up to the violation — carries exactly the events Connecting, Connected,
      Ready, Poll and then `C01.expected items none`: every message of the prefix delivered once,
      in order, byte-exact;
    * exactly one ProtocolError event;
    * `l`, the application's reaction to it, contains no event; `cw`, what the library writes
      itself, is nothing or — for a non-critical error only — one Close frame carrying 1002 and the
      error text (`CloseWrite`);
    * `post`: the socket is closed, `Disconnected(k, graceful=False)` is yielded (`k = 'forced'`,
      or `'error'` when the Close reason does not fit), the application's calls in reaction to it
      only report results (nothing is written any more), the selector is closed;
    hence (last conjunct) the events of the whole connection are exactly
    `Connecting, Connected, Ready, Poll, expected items, ProtocolError, Disconnected(graceful=False)`:
    no message event after the ProtocolError, nothing of `bad` or `rest` is delivered, and the
    rest of the environment script is never consulted. -/
theorem violation_end_to_end (cfg : Cfg) (react : React) (proxy : Bool) (proto : Option Http.Str)
    (hs : Setup cfg react proxy) (hv : cfg.v.ctrlLen = true)
    (reply : Bytes) (hreply : GoodReply cfg reply proto)
    (items : List Item) (hok : ∀ it ∈ items, it.Ok) (bad : Bytes) (hbad : Violating false bad) (rest : Bytes)
    (chunks : List Bytes) (hne : ∀ c ∈ chunks, c ≠ [])
    (hflat : chunks.flatten = reply ++ (wireBytes (items.flatMap Item.wire) ++ (bad ++ rest)))
    (restEnv : List EnvStep) :
    ∃ msg crit k cw l post pre,
      (runAll cfg react (reads chunks ++ restEnv)).trace = post ++ cw ++ l ++ .ev (.protocolError msg crit) :: pre ∧
      Monitor.histOf pre = (C01.expected items none).reverse ++ [.poll, .ready proto false, .connected proxy, .connecting] ∧
      (∀ o ∈ l, Obs.isEv o = false) ∧ CloseWrite msg crit cw ∧
      Monitor.histOf post = [.disconnected k false] ∧ (∀ o ∈ post, TailObs (.disconnected k false) o) ∧
      (k = "forced" ∨ (crit = false ∧ k = "error")) ∧
      Monitor.events (runAll cfg react (reads chunks ++ restEnv)).trace =
        [.connecting, .connected proxy, .ready proto false, .poll] ++ C01.expected items none ++
          [.protocolError msg crit, .disconnected k false] := by
  have hex : C01.expected items none = items.flatMap Item.events := by simp [C01.expected]
  rw [hex]
  obtain ⟨msg, crit, k, cw, l, post, pre, _, h1, h2, h3, h4, h5, h6, h7, h8⟩ :=
    run_violation hs hreply chunks _ restEnv hne hflat (items.flatMap Item.events) (fun _ _ => True) (by
      intro s4 h4
      obtain ⟨sp, hfl, a⟩ := feed_items_I h4.idle items hok
      have b := a.idle
      obtain ⟨x, p'', msg, crit, e, hx⟩ := violating_stops false bad hbad sp (by rw [b.hcfg]; exact hv)
        ⟨b.between.b.cont, b.between.b.rem, b.between.b.utf8, b.between.b.buf⟩ b.comp (by rw [b.frames]; rfl) rest
      refine ⟨x, { sp with p := p'' }, msg, crit, ?_, hx, ⟨b.i.app, b.i.poll, b.i.sock, b.i.nr, b.i.rd⟩, a.hist, trivial⟩
      rw [feedLoop_append, hfl]
      exact e)
  exact ⟨msg, crit, k, cw, l, post, pre, h1, h2, h3, h4, h5, h6, h7, h8⟩

/-- **Violation inside a fragmented message, end to end.**  As `violation_end_to_end`, but the
    violating frame arrives while a data message is open: after the conforming `items` the server
    has sent the first fragment (FIN = 0) of a Text (`text = true`) or Binary message, any number
    of non-final continuation fragments `r1` with interleaved Ping/Pong, and further Ping/Pong
    frames `cs` (`E2E.openWire`).  For a Text message the bytes received so far must still be
    salvageable (otherwise *they* are the violation, see C05E2E) and the repaired `_is_text`
    bookkeeping is assumed.  `bad` is violating with `mid = true`: in particular a **new Text or
    Binary frame** ("continuation frame expected"), but also every class of the `mid = false` case
    except the orphan continuation.  The interleaved control frames are delivered; nothing of the
    unfinished message, of `bad` or of `rest` is. -/
theorem violation_end_to_end_mid (cfg : Cfg) (react : React) (proxy : Bool) (proto : Option Http.Str)
    (hs : Setup cfg react proxy) (hv : cfg.v.ctrlLen = true)
    (reply : Bytes) (hreply : GoodReply cfg reply proto)
    (items : List Item) (hok : ∀ it ∈ items, it.Ok)
    (text : Bool) (first : Frag) (r1 : List (List CtrlF × Frag)) (cs : List CtrlF)
    (hfirst : first.Ok) (hr1 : contOk r1) (hcs : ∀ c ∈ cs, c.Ok)
    (htext : text = true → cfg.v.keepIsText = true ∧ ∃ d, Utf8.validate 0 (first.payload ++ contPayload r1) = some d)
    (bad : Bytes) (hbad : Violating true bad) (rest : Bytes)
    (chunks : List Bytes) (hne : ∀ c ∈ chunks, c ≠ [])
    (hflat : chunks.flatten =
      reply ++ (wireBytes (items.flatMap Item.wire) ++ (wireBytes (openWire text first r1 cs) ++ (bad ++ rest))))
    (restEnv : List EnvStep) :
    ∃ msg crit k cw l post pre,
      (runAll cfg react (reads chunks ++ restEnv)).trace = post ++ cw ++ l ++ .ev (.protocolError msg crit) :: pre ∧
      (∀ o ∈ l, Obs.isEv o = false) ∧ CloseWrite msg crit cw ∧
      Monitor.histOf post = [.disconnected k false] ∧ (∀ o ∈ post, TailObs (.disconnected k false) o) ∧
      (k = "forced" ∨ (crit = false ∧ k = "error")) ∧
      Monitor.events (runAll cfg react (reads chunks ++ restEnv)).trace =
        [.connecting, .connected proxy, .ready proto false, .poll] ++
          (C01.expected items none ++ (contCtrls r1 ++ cs).map CtrlF.event) ++
          [.protocolError msg crit, .disconnected k false] := by
  have hex : C01.expected items none = items.flatMap Item.events := by simp [C01.expected]
  rw [hex]
  obtain ⟨msg, crit, k, cw, l, post, pre, _, h1, _, h3, h4, h5, h6, h7, h8⟩ :=
    run_violation hs hreply chunks _ restEnv hne hflat
      (items.flatMap Item.events ++ (contCtrls r1 ++ cs).map CtrlF.event) (fun _ _ => True) (by
      intro s4 h4
      obtain ⟨sp0, hfl0, a0⟩ := feed_items_I h4.idle items hok
      obtain ⟨sp, hfl, a⟩ := feed_open a0.idle text first r1 cs hfirst hr1 hcs htext
      obtain ⟨x, p'', msg, crit, e, hx⟩ := violating_stops true bad hbad sp (by rw [a.hcfg]; exact hv)
        a.await a.comp (by simp [a.frames]) rest
      refine ⟨x, { sp with p := p'' }, msg, crit, ?_, hx, ⟨a.i.app, a.i.poll, a.i.sock, a.i.nr, a.i.rd⟩, ?_, trivial⟩
      · rw [feedLoop_append, hfl0]
        show feedLoop (wireBytes (openWire text first r1 cs) ++ (bad ++ rest)) sp0 = _
        rw [feedLoop_append, hfl]
        exact e
      · have := a.hist
        rw [a0.hist] at this
        exact this.trans (by simp))
  exact ⟨msg, crit, k, cw, l, post, pre, h1, h3, h4, h5, h6, h7, h8⟩

/-! ### Non-vacuity -/

/-- a Pong with a reserved opcode's neighbour: `8B 00` is opcode 0xB (reserved), FIN set, empty -/
theorem ex_violating : Violating false ([0x8B, 0] ++ ([] ++ ([] ++ []))) :=
  .header 0x8B 0 [] [] [] (by decide) (by decide)
    ⟨by decide, by decide, by decide, by decide, by decide, by decide⟩ (by decide)

/-- an oversize Ping in the 16-bit form, a masked Text, an orphan continuation, RSV1 without
    extension, a Close with the reserved code 1005, a Close whose reason is cut inside a character -/
example : Violating false ([0x89, 126] ++ ([0, 130] ++ ([] ++ List.replicate 130 7))) :=
  .header 0x89 126 [0, 130] [] _ (by decide) (by decide)
    ⟨by decide, by simp [beVal], by decide, by decide, by simp, by simp⟩ (by decide)
example : Violating false ([0x81, 0x82] ++ ([] ++ ([1, 2, 3, 4] ++ [104, 105]))) :=
  .header 0x81 0x82 [] [1, 2, 3, 4] [104, 105] (by decide) (by decide)
    ⟨by decide, by decide, by decide, by decide, by decide, by decide⟩ (by decide)
example : Violating false ([0x80, 1] ++ ([] ++ ([] ++ [65]))) :=
  .header 0x80 1 [] [] [65] (by decide) (by decide)
    ⟨by decide, by decide, by decide, by decide, by decide, by decide⟩ (by decide)
example : Violating false ([0xC1, 1] ++ ([] ++ ([] ++ [65]))) :=
  .header 0xC1 1 [] [] [65] (by decide) (by decide)
    ⟨by decide, by decide, by decide, by decide, by decide, by decide⟩ (by decide)
example : Violating false ([0x88, 2] ++ [3, 237]) :=
  .close [3, 237] (by decide) (Or.inr ⟨3, 237, [], rfl, Or.inl (by unfold Spec.reservedCloseCode; omega)⟩)
example : Violating false ([0x88, 4] ++ [3, 232, 0xE2, 0x82]) :=
  .close [3, 232, 0xE2, 0x82] (by decide) (Or.inr ⟨3, 232, [0xE2, 0x82], rfl, Or.inr (by decide)⟩)

/-- inside a fragmented message a new Text frame is a violation, an orphan-looking continuation is not -/
example : Violating true ([0x81, 1] ++ ([] ++ ([] ++ [65]))) :=
  .header 0x81 1 [] [] [65] (by decide) (by decide)
    ⟨by decide, by decide, by decide, by decide, by decide, by decide⟩ (by decide)
example : Spec.headerVerdict false true 0x80 1 = .ok ∧ Spec.headerVerdict false false 0x81 1 = .ok := by decide

/-- `violation_end_to_end_mid` applies: a Binary message is begun (FIN = 0, then a Ping), then a
    complete Text frame arrives -/
example : ∃ msg crit k, Monitor.events (runAll C01E2E.exCfg C01E2E.exReact
      (reads [C01E2E.exReply ++ ([] ++ (wireBytes (openWire false { payload := [1, 2], form := .short } []
        [{ pong := false, payload := [9], form := .short }]) ++ (([0x81, 1] ++ ([] ++ ([] ++ [65]))) ++ [0x8A, 0])))] ++ [])).trace =
    [.connecting, .connected false, .ready none false, .poll] ++ ([] ++ [.ping [9]]) ++
      [.protocolError msg crit, .disconnected k false] := by
  obtain ⟨msg, crit, k, _, _, _, _, _, _, _, _, _, _, h⟩ :=
    violation_end_to_end_mid C01E2E.exCfg C01E2E.exReact false none C01E2E.exSetup rfl C01E2E.exReply C01E2E.exGoodReply
      [] (by simp) false { payload := [1, 2], form := .short } [] [{ pong := false, payload := [9], form := .short }]
      (by decide) (by intro x hx; cases hx) (by decide) (by intro h; cases h)
      ([0x81, 1] ++ ([] ++ ([] ++ [65])))
      (.header 0x81 1 [] [] [65] (by decide) (by decide)
        ⟨by decide, by decide, by decide, by decide, by decide, by decide⟩ (by decide)) [0x8A, 0]
      [C01E2E.exReply ++ ([] ++ (wireBytes (openWire false { payload := [1, 2], form := .short } []
        [{ pong := false, payload := [9], form := .short }]) ++ (([0x81, 1] ++ ([] ++ ([] ++ [65]))) ++ [0x8A, 0])))]
      (by decide +kernel) (by simp [wireBytes]) []
  exact ⟨msg, crit, k, h⟩

/-- … evaluated directly: "continuation frame expected" -/
example : Monitor.events (runAll C01E2E.exCfg C01E2E.exReact
      (reads [C01E2E.exReply ++ ([0x02, 2, 1, 2] ++ [0x89, 1, 9] ++ [0x81, 1, 65] ++ [0x8A, 0])])).trace =
    [.connecting, .connected false, .ready none false, .poll, .ping [9],
     .protocolError "continuation frame expected" false, .disconnected "forced" false] := by
  decide +kernel

/-- the stream of the concrete example: C01's items, the reserved-opcode frame, then a Binary
    frame that must never be delivered -/
def exStream : Bytes :=
  wireBytes (C01.exItems.flatMap Item.wire) ++ (([0x8B, 0] ++ ([] ++ ([] ++ []))) ++ [0x82, 1, 65])

/-- the theorem applies: C01's example items, then the reserved-opcode frame, then a Binary frame,
    one byte per read, with further reads in the script that are never consulted -/
example : ∃ msg crit k, Monitor.events (runAll C01E2E.exCfg C01E2E.exReact
      (reads ((C01E2E.exReply ++ exStream).map (fun b => [b])) ++ [.wait 3 (some (.data [0x81, 1, 66]))])).trace =
    [.connecting, .connected false, .ready none false, .poll] ++ C01.expected C01.exItems none ++
      [.protocolError msg crit, .disconnected k false] := by
  obtain ⟨msg, crit, k, _, _, _, _, _, _, _, _, _, _, _, h⟩ :=
    violation_end_to_end C01E2E.exCfg C01E2E.exReact false none C01E2E.exSetup rfl C01E2E.exReply C01E2E.exGoodReply
      C01.exItems C01.ex_conforming.1 _ ex_violating [0x82, 1, 65] _ (bytewise_ne _) (bytewise_flatten _)
      [.wait 3 (some (.data [0x81, 1, 66]))]
  exact ⟨msg, crit, k, h⟩

/-- … and the same run evaluated directly: the text is `opcode is reserved`, the kind `forced`; in
    one read, the Close frame 1002 is the last thing written -/
example : Monitor.events (runAll C01E2E.exCfg C01E2E.exReact
      (reads [C01E2E.exReply ++ exStream] ++ [.wait 3 (some (.data [0x81, 1, 66]))])).trace =
    [.connecting, .connected false, .ready none false, .poll,
     .ping [1, 2], .pong [], .text [0x20AC, 0x61], .pong [7], .binary (List.replicate 126 255),
     .protocolError "opcode is reserved" false, .disconnected "forced" false] := by
  decide +kernel

end Lomond.C04E2E
