/-
  C16 companion — the back-off arithmetic of the hand-written `persist` model is what persist.py says.

  `Lomond.Gen.Code.persist*` are produced from `lomond/persist.py` by harness/py2lean.py on every
  check run: `retries = 0` before the loop, `retries += 1` as the first statement of the loop body,
  `if event.name == 'ready': retries = 0` in the `for` loop, and
  `wait_for = min_wait + random() * min(random_wait, 2**retries)` with
  `random_wait = max_wait - min_wait` (numbers read as exact rationals, `random()` as a parameter).
  The theorems state that `Persist.waitFor`, `afterEvent`, `forLoop`, `run` and `persist` use
  exactly these.  Theorems only.
-/
import Lomond.Model.Persist
import Lomond.Generated.Code

namespace Lomond.C16Gen
open Lomond Lomond.Persist
open Lomond.Gen.Code

variable {ε π : Type}

/-- the delay formula -/
theorem gen_waitFor (c : Cfg π) (retries : Nat) (u : Rat) :
    persistWaitFor c.minWait c.maxWait retries u = waitFor c retries u := by
  unfold persistWaitFor waitFor
  simp [Rat.natCast_pow]
  all_goals (first | rfl | grind)

example : persistWaitFor 5 30 2 (1 / 2) = 7 := by decide +kernel
example : persistWaitFor 5 30 10 (1 / 2) = 35 / 2 := by decide +kernel

/-- `if event.name == 'ready': retries = 0` -/
theorem gen_afterEvent (isReady : ε → Bool) (retries : Nat) (e : ε) :
    persistAfterEvent (isReady e) retries = afterEvent isReady retries e := by
  unfold persistAfterEvent afterEvent
  split <;> rfl

/-- the `for` loop as far as `retries` is concerned -/
theorem gen_forLoop (isReady : ε → Bool) (retries : Nat) (evs : List ε) :
    evs.foldl (fun r e => persistAfterEvent (isReady e) r) retries = forLoop isReady retries evs := by
  unfold forLoop
  simp only [gen_afterEvent]

/-- `retries = 0` before the loop: `persist` starts `run` with the generated initial value -/
theorem gen_persist_init (isReady : ε → Bool) (c : Cfg π) (rs : List (Round ε)) :
    persist isReady c rs = run isReady c persistRetriesInit rs := rfl

/-- one pass through the `while True:` body: `retries += 1`, the `for` loop, the delay — all
    computed by the generated definitions -/
theorem gen_run_step (isReady : ε → Bool) (c : Cfg π) (retries : Nat) (r : Round ε) (rs : List (Round ε)) :
    run isReady c retries (r :: rs) =
      (let retries1 := persistRetriesNext retries
       let retries2 := r.events.foldl (fun k e => persistAfterEvent (isReady e) k) retries1
       let d := persistWaitFor c.minWait c.maxWait retries2 r.draw
       if r.exit then (roundObs c r d, .exited)
       else
         let rest := run isReady c retries2 rs
         (roundObs c r d ++ rest.1, rest.2)) := by
  simp only [run, gen_forLoop, gen_waitFor]
  rfl

example : persistRetriesInit = 0 := by decide
example : persistRetriesNext 4 = 5 := by decide

end Lomond.C16Gen
