/-
  C09 on the composed system — the per-address connect loop (`Model/Connect.lean`) linked to the core
  model.

  `C09.all_addresses_tried` is about `_connect_sock` alone; `C09.terminal_kind*`, `no_escape`,
  `socket_closed_at_terminal` are about `Core.run`, in which `_connect()` is the single value
  `cfg.connect`.  Here they are composed (`Model/ConnectLink.lean`, see the header of
  `Properties/C19_Core.lean` for the vocabulary): `connectOutcome i` is the connect outcome that
  `_connect()` produces from the outcome of `getaddrinfo` and of each resolved address (`i.gai`),
  `coreCfg base i` the core configuration of that connection, `composed base i react env` the one
  trace of the whole connection with the socket-module calls (`Item.sock`) in place.

  This file: direct connections (`proxyChoice i.ws = none`: no proxy entry for the scheme) and what
  holds with or without a proxy; the proxy dialogue itself is in `Properties/C19_Core.lean`.
-/
import Lomond.Proofs.ConnectLink
import Lomond.Properties.C09

set_option linter.unusedSimpArgs false
set_option linter.unusedVariables false

namespace Lomond.C09Connect
open Lomond Lomond.Http Lomond.Core Lomond.Core.Monitor Lomond.Proxy Lomond.Connect Lomond.ConnectLink

/-- the inputs of `proxy_socket_left_open_witness`: `ws://example.com:8080` through `http://Proxy.example:3128`, first
    address of the proxy refused, second connects, the proxy answers `HTTP/1.1 407 No`; the pinned code shape -/
def d11Witness : Inputs :=
  { ws := { target := { host := some (ofString "example.com"), port := 8080, secure := false }
            proxyHttp := some (ofString "http://Proxy.example:3128"), proxyHttps := none
            request := [71, 69, 84] }
    gai := some [.connectFail, .ok], writeFails := fun _ => false
    reads := [.data [72, 84, 84, 80, 47, 49, 46, 49, 32, 52, 48, 55, 32, 78, 111, 13, 10, 13, 10]]
    wrapOk := true, selOk := true, pclose := false }

/-- **The connect outcome of a direct connection is the verdict of the address loop.**  Without a proxy:
    `_connect()` raises `_SocketFail` (outcome `socketFail`, which `run()` turns into `ConnectFail`)
    exactly when the name does not resolve or no resolved address connects; it never fails in any other
    way; and when address `k` is the first that connects (`C09.all_addresses_tried`) the outcome is
    `ok false` — or `selFail false` when the selector's constructor then raises. -/
theorem connect_outcome_direct (i : Inputs) (hc : proxyChoice i.ws = none) :
    (connectOutcome i = .socketFail ↔
      (i.gai = none ∨ ∃ addrs, i.gai = some addrs ∧ ∀ a ∈ addrs, a ≠ .ok)) ∧
    connectOutcome i ≠ .otherFail ∧
    (∀ k, (connectSock i.gai).1 = .sock k →
      (∃ addrs, i.gai = some addrs ∧ addrs[k]? = some .ok ∧ ∀ j, j < k → addrs[j]? ≠ some .ok) ∧
      connectOutcome i = (if i.selOk then .ok false else .selFail false)) := by
  have hd := connectResult_direct i hc
  have hall := C09.all_addresses_tried i.gai
  have hso := sockOk_iff i
  unfold connectOutcome
  rw [hd]
  cases hs : sockOk i with
  | false =>
    have hf : (connectSock i.gai).1 = .fail := by
      cases h : (connectSock i.gai).1 with
      | fail => rfl
      | sock k => exact absurd (hso.mpr (by rw [h]; intro h'; cases h')) (by rw [hs]; decide)
    refine ⟨⟨fun _ => hall.1.mp hf, fun _ => rfl⟩, fun h => (by cases h), fun k hk => ?_⟩
    rw [hf] at hk; cases hk
  | true =>
    have hnf := hso.mp hs
    refine ⟨⟨fun h => ?_, fun h => absurd (hall.1.mpr h) hnf⟩, ?_, fun k hk => ⟨(hall.2.1 k).mp hk, rfl⟩⟩
    · cases hsel : i.selOk <;> rw [hsel] at h <;> cases h
    · cases hsel : i.selOk <;> simp

/-- **`Core.run` yields `ConnectFail` for a failed connect exactly when the Connect model fails.**
    Without a proxy, the run of the core model on the linked configuration contains
    `ConnectFail("connect-failed")` iff the name does not resolve or no address connects — unless the
    application had stopped iterating at `Connecting`, before `_connect()` is called.  Then the events are
    exactly `Connecting, ConnectFail`. -/
theorem connectFail_iff_no_address_connects (base : Core.Cfg) (i : Inputs) (react : React) (env : List EnvStep)
    (hc : proxyChoice i.ws = none) :
    (Event.connectFail "connect-failed" ∈ C09.eventsOf (coreCfg base i) react env ↔
      ((i.gai = none ∨ ∃ addrs, i.gai = some addrs ∧ ∀ a ∈ addrs, a ≠ .ok) ∧ ¬ StopsAtConnecting react)) ∧
    (Event.connectFail "connect-failed" ∈ C09.eventsOf (coreCfg base i) react env →
      C09.eventsOf (coreCfg base i) react env = [.connecting, .connectFail "connect-failed"]) := by
  have hev : C09.eventsOf (coreCfg base i) react env = evs (composed base i react env) :=
    (evs_composed base i react env).symm
  have hfail : (i.gai = none ∨ ∃ addrs, i.gai = some addrs ∧ ∀ a ∈ addrs, a ≠ .ok) ↔ ¬ Connects i := by
    rw [← (connect_outcome_direct i hc).1]
    constructor
    · rintro h ⟨q, hq⟩
      unfold connectOutcome at h; rw [hq] at h
      cases hsel : i.selOk <;> rw [hsel] at h <;> cases h
    · intro h
      rcases connectOutcome_cases i with ⟨q, hq, _⟩ | ⟨_, h' | h'⟩
      · exact absurd ⟨q, hq⟩ h
      · exact h'
      · exact absurd h' (connect_outcome_direct i hc).2.1
  rw [hev, hfail]
  have hm := C09.terminal_kind_connectFail (coreCfg base i) react env
  rcases shape_events (composed_shape base i react env) with ⟨hs, e⟩ | ⟨hs, hnc, e⟩ | ⟨hs, q, hq, ⟨e, _⟩ | ⟨_, E, e⟩⟩
  · rw [e]; exact ⟨⟨fun h => by simp at h, fun h => absurd hs h.2⟩, fun h => by simp at h⟩
  · rw [e]; exact ⟨⟨fun _ => ⟨hnc, hs⟩, fun _ => by simp⟩, fun _ => rfl⟩
  · rw [e]; exact ⟨⟨fun h => by simp at h, fun h => absurd ⟨q, hq⟩ h.1⟩, fun h => by simp at h⟩
  · rw [e]
    refine ⟨⟨fun h => ?_, fun h => absurd ⟨q, hq⟩ h.1⟩, fun h => ?_⟩ <;>
    · exfalso
      simp only [List.mem_cons, reduceCtorEq, false_or] at h
      obtain ⟨a, b, hab⟩ := List.append_of_mem h
      have := (hm (.connecting :: .connected q.isSome :: a) b "connect-failed"
        (by rw [hev, e, hab]; rfl)).2.1
      cases this

/-- **The terminal event, in terms of the connection-phase models** (`C09.terminal_kind` on the linked
    configuration, with or without a proxy).  When `run()` returns, the last event is the terminal one:
    `ConnectFail("connect-failed")` right after `Connecting` iff `_connect()` raised (no address connects /
    the tunnel fails); `ConnectFail("request-failed")` right after `Connecting` only if `_connect()` returned
    a socket; and `Disconnected` only if `_connect()` returned a socket and the upgrade request went out —
    then the second event is `Connected(proxy)` with `proxy` = "a proxy is configured for the scheme". -/
theorem terminal_kind_linked (base : Core.Cfg) (i : Inputs) (react : React) (env : List EnvStep) (s : Sys)
    (hr : run (initSys (coreCfg base i) react env) = .ok () s) :
    ∃ a e, C09.eventsOf (coreCfg base i) react env = a ++ [e] ∧
      ((e = .connectFail "connect-failed" ∧ a = [.connecting] ∧ ¬ Connects i) ∨
       (e = .connectFail "request-failed" ∧ a = [.connecting] ∧ Connects i) ∨
       (∃ k g, e = .disconnected k g ∧ Connects i ∧ i.writeFails (sentBefore i) = false ∧
          ∃ E, a = .connecting :: .connected (proxyChoice i.ws).isSome :: E)) := by
  obtain ⟨a, e, hae, hk⟩ := C09.terminal_kind (coreCfg base i) react env s hr
  have hev : C09.eventsOf (coreCfg base i) react env = evs (composed base i react env) :=
    (evs_composed base i react env).symm
  refine ⟨a, e, hae, ?_⟩
  rw [hev] at hae
  have two : ∀ x y : Event, [x, y] = a ++ [e] → a = [x] ∧ e = y := by
    intro x y h
    have := List.append_inj' (show [x] ++ [y] = a ++ [e] from h) rfl
    exact ⟨this.1.symm, by have := this.2; simp at this; exact this.symm⟩
  rcases shape_events (composed_shape base i react env) with ⟨hs, ev⟩ | ⟨hs, hnc, ev⟩ | ⟨hs, q, hq, ⟨ev, _⟩ | ⟨hwf, E, ev⟩⟩
  · -- stopped at `Connecting`: `run()` does not return
    rw [ev] at hae
    have := List.append_inj' (show [] ++ [Event.connecting] = a ++ [e] from hae) rfl
    have he : e = .connecting := by have := this.2; simp at this; exact this.symm
    subst he
    rcases hk with ⟨⟨k, g, h⟩, _⟩ | ⟨⟨k, h⟩, _⟩ <;> cases h
  · rw [ev] at hae
    obtain ⟨ha, he⟩ := two _ _ hae
    exact Or.inl ⟨he, ha, hnc⟩
  · rw [ev] at hae
    obtain ⟨ha, he⟩ := two _ _ hae
    exact Or.inr (Or.inl ⟨he, ha, q, hq⟩)
  · rw [ev] at hae
    have hqq := connectResult_sock_eq i q hq
    rcases hk with ⟨⟨k, g, he⟩, _⟩ | ⟨⟨k, he⟩, hno⟩
    · subst he
      refine Or.inr (Or.inr ⟨k, g, rfl, ⟨q, hq⟩, hwf, ?_⟩)
      match a, hae with
      | [], h => simp at h
      | [x], h => simp at h
      | x :: y :: a', h =>
        simp only [List.cons_append, List.cons.injEq] at h
        exact ⟨a', by rw [← h.1, ← h.2.1, hqq]⟩
    · exfalso
      subst he
      have : Event.connected q.isSome ∈ a := by
        match a, hae with
        | [], h => simp at h
        | [x], h => simp at h
        | x :: y :: a', h =>
          simp only [List.cons_append, List.cons.injEq] at h
          rw [← h.2.1]; simp
      exact hno _ this

/-- **Every address is tried, and every failed socket closed, before `ConnectFail` is reported**
    (`C09.all_addresses_tried` placed in the trace of the whole connection).  Without a proxy, and unless
    the application stops at `Connecting`: the composed trace is `Connecting`, the results of what the
    application called there, the one `_connect_sock(host, port, ssl)` call with exactly the socket-module
    calls of the address loop, and then the core model's continuation `T` — which begins with
    `ConnectFail("connect-failed")` when `_connect_sock` failed (then `socket()` was called for every
    resolved address, in order) and otherwise with the upgrade request (or, if the application had called
    `close()` at `Connecting`, with the socket close).  So every `socket()` / `connect()` / `close()` of
    the address loop precedes every write and every later event of the connection. -/
theorem composed_direct (base : Core.Cfg) (i : Inputs) (react : React) (env : List EnvStep)
    (hc : proxyChoice i.ws = none) (hns : ¬ StopsAtConnecting react) :
    ∃ c0 T, composed base i react env =
        (Obs.ev .connecting :: c0).map .core ++
        (.io (.connectTo i.ws.target.host i.ws.target.port i.ws.target.secure) ::
          (connectSock i.gai).2.map .sock) ++ T.map .core ∧
      (∀ o ∈ c0, isRes o = true) ∧
      sockLog (composed base i react env) = (connectSock i.gai).2 ∧
      (((connectSock i.gai).1 = .fail ∧ (∃ c1, T = .ev (.connectFail "connect-failed") :: c1) ∧
          ∀ addrs, i.gai = some addrs →
            (connectSock i.gai).2.filterMap Call.socketIdx? = List.range addrs.length) ∨
       (∃ k, (connectSock i.gai).1 = .sock k ∧
          ∃ o T', T = o :: T' ∧ (o = .wr i.ws.request ∨ o = .wrFail i.ws.request ∨ o = .sockClose))) := by
  have hsh := composed_shape base i react env
  generalize composed base i react env = L at hsh
  have hph := phaseItems_direct i hc
  have hall := C09.all_addresses_tried i.gai
  have hfail : ¬ Connects i → (connectSock i.gai).1 = .fail := by
    intro hnc
    cases h : (connectSock i.gai).1 with
    | fail => rfl
    | sock k =>
      exfalso; apply hnc
      have := connectResult_direct i hc
      rw [(sockOk_iff i).mpr (by rw [h]; intro h'; cases h')] at this
      exact ⟨none, this⟩
  have hok : ∀ q, connectResult i = .sock q → ∃ k, (connectSock i.gai).1 = .sock k := by
    intro q hq
    have := connectResult_direct i hc
    rw [this] at hq
    cases hs : sockOk i with
    | false => rw [hs] at hq; cases hq
    | true =>
      have := (sockOk_iff i).mp hs
      cases h : (connectSock i.gai).1 with
      | fail => exact absurd h this
      | sock k => exact ⟨k, rfl⟩
  have hsl : ∀ (A T : List Obs), sockLog (A.map Item.core ++ phaseItems i ++ T.map Item.core) = (connectSock i.gai).2 := by
    intro A T
    rw [sockLog_append, sockLog_append, sockLog_core, sockLog_core, sockLog_phaseItems_direct i hc]; simp
  cases hsh with
  | abandoned c0 n0 h => exact absurd h hns
  | failed c0 c1 n0 n1 _ hnc =>
    refine ⟨c0, _, by rw [hph], n0, hsl _ _, Or.inl ⟨hfail hnc, ⟨c1, rfl⟩, fun addrs ha => ?_⟩⟩
    obtain ⟨h1, _, h3, _⟩ := hall.2.2 addrs ha
    rw [h1, h3 (hfail hnc)]
  | refused q c0 c1 n0 n1 _ hq _ =>
    obtain ⟨k, hk⟩ := hok q hq
    exact ⟨c0, _, by rw [hph], n0, hsl _ _, Or.inr ⟨k, hk, _, _, rfl, Or.inr (Or.inr rfl)⟩⟩
  | writeFailed q c0 c1 n0 n1 _ hq _ =>
    obtain ⟨k, hk⟩ := hok q hq
    exact ⟨c0, _, by rw [hph], n0, hsl _ _, Or.inr ⟨k, hk, _, _, rfl, Or.inr (Or.inl rfl)⟩⟩
  | connected q c0 X n0 _ hq _ =>
    obtain ⟨k, hk⟩ := hok q hq
    exact ⟨c0, _, by rw [hph], n0, hsl _ _, Or.inr ⟨k, hk, _, _, rfl, Or.inl rfl⟩⟩

/-- **The socket that connected is closed when the terminal event is delivered** — with or without a
    proxy, also when the selector's constructor raised: `C09.socket_closed_at_terminal` for every linked
    configuration whose connection phase returns a socket. -/
theorem socket_closed_at_terminal_linked (base : Core.Cfg) (i : Inputs) (react : React) (env : List EnvStep)
    (hcn : Connects i) (post pre : List Obs) (e : Event)
    (ht : (runAll (coreCfg base i) react env).trace = post ++ .ev e :: pre) (hterm : Event.isTerminal e = true) :
    Obs.sockClose ∈ pre := by
  obtain ⟨q, hq⟩ := hcn
  have ho : (coreCfg base i).connect = (if i.selOk then .ok q.isSome else .selFail q.isSome) := by
    show connectOutcome i = _
    unfold connectOutcome; rw [hq]
  cases hsel : i.selOk with
  | true =>
    rw [hsel] at ho
    exact C09.socket_closed_at_terminal _ react env q.isSome ho post pre e ht hterm
  | false =>
    rw [hsel] at ho
    exact C09.socket_closed_at_terminal_selector_failure _ react env q.isSome ho post pre e ht hterm

/-! ### finding D11: every socket that was connected is closed before `ConnectFail` is delivered -/

/-- **"… it produces ConnectFail before the connection is up … and the socket is closed" — over the
    composed trace, for the repaired shape of `_connect_proxy`** (`i.pclose = true`).  For every input — proxy or
    not, whatever fails and where —: when `ConnectFail` is delivered, every socket on which the connection
    phase had called `connect()` (the candidates of the address loop, in particular the one that connected — to
    the proxy or to the target) has been closed before that event: inside `_connect()` (`Item.sock (.close j)`:
    by the address loop when its `connect()` failed, by `_connect_proxy` when the tunnel fails after the TCP
    connect — a non-200 reply, a `recv` error / timeout / end of stream, an oversized reply, a failing CONNECT
    `sendall`, a failing TLS wrap, a target URL without host), or by the session (`sockClose`) when `_connect()`
    had returned it and the upgrade request could not be written. -/
theorem composed_fail_closes_socket (base : Core.Cfg) (i : Inputs) (react : React) (env : List EnvStep)
    (hp : i.pclose = true) (j : Nat) (pre post : List Item) (r : String)
    (hsplit : composed base i react env = pre ++ .core (.ev (.connectFail r)) :: post)
    (hconn : Item.sock (.connect j) ∈ pre) :
    Item.sock (.close j) ∈ pre ∨ Item.core .sockClose ∈ pre := by
  have hx : isCF (.core (.ev (.connectFail r))) = true := rfl
  have hsh := composed_shape base i react env
  have hev := evs_composed base i react env
  rw [hsplit] at hsh hev
  generalize hL : pre ++ Item.core (.ev (.connectFail r)) :: post = L at hsh
  cases hsh with
  | abandoned c0 n0 _ =>
    exfalso
    have : Item.core (.ev (.connectFail r)) ∈ (Obs.ev .connecting :: c0).map Item.core := by rw [← hL]; simp
    rw [List.map_cons] at this
    rcases List.mem_cons.mp this with h | h
    · cases h
    · have := isCF_res n0 _ h; rw [hx] at this; cases this
  | failed c0 c1 n0 n1 _ hnc =>
    obtain ⟨r', hr', _⟩ := prefix_of_split isCF (a := (Obs.ev .connecting :: c0).map Item.core ++ phaseItems i)
      hL hx (isCF_head i n0)
    have hpre : ∀ z ∈ phaseItems i, z ∈ pre := by
      intro z hz; rw [hr']; exact List.mem_append_left _ (List.mem_append_right _ hz)
    -- the connect() call is one of the address loop's
    have hin : Item.sock (.connect j) ∈ phaseItems i := by
      have h1 : Item.sock (.connect j) ∈ (Obs.ev .connecting :: c0).map Item.core ++ phaseItems i ++
          (Obs.ev (.connectFail "connect-failed") :: c1).map Item.core := by
        rw [← hL]; exact List.mem_append_left _ hconn
      rcases List.mem_append.mp h1 with h | h
      · rcases List.mem_append.mp h with h | h
        · obtain ⟨o, _, ho⟩ := List.mem_map.mp h; cases ho
        · exact h
      · obtain ⟨o, _, ho⟩ := List.mem_map.mp h; cases ho
    left
    rcases mem_phaseItems_sock i _ hin with ⟨hcall, hne⟩ | hcl
    · rcases connectSock_connect i.gai j hcall with hclose | hwin
      · -- its connect() failed: the loop closed it
        exact hpre _ (calls_in_phaseItems i _ hclose hne)
      · -- it is the socket `_connect_sock` returned: `_connect_proxy` closes it when the tunnel fails
        apply hpre
        unfold phaseItems
        refine List.mem_append_right _ ?_
        rw [closeItems_fail i hnc j hwin, hp, hne]
        simp
    · -- (a close is not a connect)
      rcases closeItems_cases i with h | ⟨k, h⟩ <;> rw [h] at hcl <;> simp at hcl
  | refused q c0 c1 n0 n1 _ _ _ =>
    right
    have hno : ∀ z ∈ ((Obs.ev .connecting :: c0).map Item.core ++ phaseItems i) ++ [Item.core .sockClose], isCF z = false := by
      intro z hz
      rcases List.mem_append.mp hz with h | h
      · exact isCF_head i n0 z h
      · simp only [List.mem_singleton] at h; subst h; rfl
    obtain ⟨r', hr', _⟩ := prefix_of_split isCF
      (a := ((Obs.ev .connecting :: c0).map Item.core ++ phaseItems i) ++ [Item.core .sockClose])
      (b := (Obs.ev (.connectFail "request-failed") :: c1).map Item.core)
      (hL.trans (by simp)) hx hno
    rw [hr']; simp
  | writeFailed q c0 c1 n0 n1 _ _ _ =>
    right
    have hno : ∀ z ∈ ((Obs.ev .connecting :: c0).map Item.core ++ phaseItems i) ++
        [Item.core (.wrFail i.ws.request), Item.core .sockClose], isCF z = false := by
      intro z hz
      rcases List.mem_append.mp hz with h | h
      · exact isCF_head i n0 z h
      · simp only [List.mem_cons, List.not_mem_nil, or_false] at h
        rcases h with rfl | rfl <;> rfl
    obtain ⟨r', hr', _⟩ := prefix_of_split isCF
      (a := ((Obs.ev .connecting :: c0).map Item.core ++ phaseItems i) ++
        [Item.core (.wrFail i.ws.request), Item.core .sockClose])
      (b := (Obs.ev (.connectFail "request-failed") :: c1).map Item.core)
      (hL.trans (by simp)) hx hno
    rw [hr']; simp
  | connected q c0 X n0 _ _ _ =>
    -- `Connected` was yielded: no `ConnectFail` can follow (C09.terminal_kind_connectFail)
    exfalso
    have hm := C09.terminal_kind_connectFail (coreCfg base i) react env
    have e1 := evs_split pre post (.connectFail r)
    have e2 : evs (pre ++ Item.core (.ev (.connectFail r)) :: post) =
        .connecting :: .connected q.isSome :: X.filterMap Obs.event? := by
      rw [hL]
      unfold evs
      rw [coreLog_append, coreLog_append, coreLog_core, coreLog_core, coreLog_phaseItems]
      simp [List.filterMap_cons, event?_wr, event?_ev, events_res n0]
    have hpos := hm (evs pre) (evs post) r (by
      show events (runAll (coreCfg base i) react env).trace = _
      rw [← hev, e1])
    rw [e1, hpos.2.1] at e2
    simp at e2

/-- **The pinned shape (`pclose = false`) leaves the proxy socket open: witness.**  A `ws://` connection through
    a proxy whose second address connects and which answers 407: `ConnectFail` is delivered, `connect()` had
    succeeded on socket 1, and nothing in the whole trace closes that socket — neither `_connect()` nor the
    session.  (With `pclose = true` the same inputs give `close 1` right before `ConnectFail`.) -/
theorem proxy_socket_left_open_witness :
    ∃ (i : Inputs) (pre post : List Item), i.pclose = false ∧
      composed {} i (fun _ => []) [] = pre ++ .core (.ev (.connectFail "connect-failed")) :: post ∧
      Item.sock (.connect 1) ∈ pre ∧ (Connect.connectSock i.gai).1 = .sock 1 ∧
      Item.sock (.close 1) ∉ composed {} i (fun _ => []) [] ∧ Item.core .sockClose ∉ composed {} i (fun _ => []) [] ∧
      Item.sock (.close 1) ∈ composed {} { i with pclose := true } (fun _ => []) [] := by
  refine ⟨d11Witness, (composed {} d11Witness (fun _ => []) []).take 9, [], rfl, ?_, ?_, ?_, ?_, ?_, ?_⟩ <;>
    decide +kernel

/-! ### Non-vacuity -/

section Examples

/-- a `ws://` target without proxies: three addresses — refused, `socket()` fails, connects -/
def inDirect : Inputs :=
  { ws := { target := { host := some (ofString "example.com"), port := 80, secure := false }
            proxyHttp := none, proxyHttps := none, request := [71, 69, 84] }
    gai := some [.connectFail, .sockCreateFail, .ok], writeFails := fun _ => false, reads := [],
    wrapOk := true, selOk := true }
/-- no address connects -/
def inNone : Inputs := { inDirect with gai := some [.connectFail, .connectFail] }

example : proxyChoice inDirect.ws = none := by decide
example : connectOutcome inDirect = .ok false ∧ connectOutcome inNone = .socketFail ∧
    connectOutcome { inDirect with gai := none } = .socketFail ∧
    connectOutcome { inDirect with selOk := false } = .selFail false := by decide
/-- the whole composed trace when no address connects: both addresses tried and closed, then `ConnectFail` -/
example : composed {} inNone (fun _ => []) [] =
    [.core (.ev .connecting), .io (.connectTo (some (ofString "example.com")) 80 false),
     .sock (.socket 0), .sock (.connect 0), .sock (.close 0), .sock (.socket 1), .sock (.connect 1), .sock (.close 1),
     .core (.ev (.connectFail "connect-failed"))] := by decide +kernel
/-- the third address connects: the request goes out after the address loop; the peer closes -/
example : composed {} inDirect (fun _ => []) [.wait 0 (some .eof)] =
    [.core (.ev .connecting), .io (.connectTo (some (ofString "example.com")) 80 false),
     .sock (.socket 0), .sock (.connect 0), .sock (.close 0), .sock (.socket 1), .sock (.socket 2), .sock (.connect 2),
     .core (.wr [71, 69, 84]), .core (.ev (.connected false)), .core .sockClose,
     .core (.ev (.disconnected "connection-lost" false)), .core .selClose] := by decide +kernel
example : ∃ s, run (initSys (coreCfg {} inNone) (fun _ => []) []) = .ok () s := ⟨_, rfl⟩
example : Connects inDirect ∧ ¬ Connects inNone :=
  ⟨⟨none, by decide⟩, fun ⟨q, h⟩ => by rw [show connectResult inNone = .socketFail by decide] at h; cases h⟩

end Examples

end Lomond.C09Connect
