import Lomond.Model.Core
namespace Lomond.C13
end Lomond.C13
