/-
  C13 — abandoning the event loop at any event releases the socket (and the selector).
  Property theorems only (helper lemmas: Proofs/Step.lean, Proofs/Release.lean, Proofs/SelFail.lean).

  In the model, abandoning the generator (by `close()`, by dropping it, by an exception raised
  in the handler, or by an exception leaving a `with` block) is the application action
  `Act.abandon`, available in the reaction to *every* event; it raises `GeneratorExit` at that
  `yield`, and exactly the handlers Python would run are run.  "For every scenario, every event
  index and every mechanism" is therefore "for every `cfg`, `react`, `env`".
-/
import Lomond.Proofs.Release
import Lomond.Proofs.SelFail
import Lomond.Generated.Facts

namespace Lomond.C13
open Lomond Lomond.Core

/-- **Abandonment releases the socket and the selector.**  For the repaired `run()`
    (`cleanup = true`), for every configuration (timers, connect outcome, write failures),
    every environment script (server bytes with any segmentation, EOF, errors, silence) and
    every application — in particular one that stops iterating at any event of its choice, by
    any of the four mechanisms — the connection ends with the TCP socket closed and the
    selector closed. -/
theorem abandon_releases (cfg : Cfg) (react : React) (env : List EnvStep)
    (hc : cfg.v.cleanup = true) :
    (runAll cfg react env).sockOpen = false ∧ (runAll cfg react env).selOpen = false := by
  have h := run_released { cfg := cfg, react := react, env := env } ⟨rfl, rfl⟩ hc
  unfold runAll
  simp only []
  generalize run { cfg := cfg, react := react, env := env } = r at h
  have cs : ∀ s : Sys, Released s →
      (match closeSocket s with | .ok _ s' => s' | .err _ s' => s').sockOpen = false ∧
      (match closeSocket s with | .ok _ s' => s' | .err _ s' => s').selOpen = false := by
    intro s hs
    obtain ⟨s', e⟩ := closeSocket_ok s
    have c := closeSocket_state s
    rw [e] at c ⊢
    exact ⟨c.1, c.2.1.trans hs.2⟩
  cases r with
  | ok a s => exact h
  | err x s =>
    simp only [Res.state_err] at h
    cases x with
    | genExit => simp only []; split; exact cs s h; exact h
    | outer y =>
      cases y with
      | genExit => simp only []; split; exact cs s h; exact h
      | _ => exact h
    | _ => exact h

/-- The pinned commit (`cleanup = false`) did **not** have the property: the consumer closes the
    generator at the `Connected` event and the socket stays open (finding D4). -/
theorem present_variant_leaks :
    ∃ (react : React) (env : List EnvStep),
      (runAll { v := { cleanup := false } } react env).sockOpen = true := by
  refine ⟨fun hist => if hist.length = 2 then [.abandon false] else [], [], ?_⟩
  decide

/-- non-vacuity: in the repaired variant the same application really is abandoning at
    `Connected`, with the socket open at that moment, and the trace shows the close -/
example :
    (runAll { v := { cleanup := true } }
      (fun hist => if hist.length = 2 then [.abandon false] else []) []).trace
      = [.sockClose, .ev (.connected false), .wr [], .ev .connecting] := by
  decide


/-- **Abandonment when the selector could not be created.**  When `self._selector_cls(sock)` raises
    right after `Connected` (`cfg.connect = .selFail proxy`) — for every configuration, every
    environment script and every application, in particular one that stops iterating at `Connecting`,
    at `Connected` or at the `Disconnected('error')` that reports the failure, by any mechanism —
    the connection ends with no selector open, `selector.close()` was never called (there is no
    selector object: `finally` tests `selector is not None`), and, in the repaired `run()`, with
    the socket closed. -/
theorem abandon_releases_without_selector (cfg : Cfg) (react : React) (env : List EnvStep) (proxy : Bool)
    (hs : cfg.connect = .selFail proxy) :
    (runAll cfg react env).selOpen = false ∧ Obs.selClose ∉ (runAll cfg react env).trace ∧
    (cfg.v.cleanup = true → (runAll cfg react env).sockOpen = false) := by
  have h := Monitor.runAll_noSelector cfg react env (fun p hp => by rw [hs] at hp; cases hp)
  exact ⟨h.1, h.2, fun hc => (abandon_releases cfg react env hc).1⟩

/-- the same for the other connect outcomes that never reach a selector (`_connect` failed):
    nothing to release, nothing released -/
theorem no_selector_without_connection (cfg : Cfg) (react : React) (env : List EnvStep)
    (hs : cfg.connect = .socketFail ∨ cfg.connect = .otherFail) :
    (runAll cfg react env).selOpen = false ∧ Obs.selClose ∉ (runAll cfg react env).trace := by
  have h := Monitor.runAll_noSelector cfg react env (fun p hp => by rcases hs with hs | hs <;> (rw [hs] at hp; cases hp))
  exact ⟨h.1, h.2⟩

/-- non-vacuity: the application leaves its `with ws:` block at the `Disconnected('error')` that
    reports the selector failure (third event), and one that drops the generator at `Connected`
    (second event) — socket closed once, no `selClose` -/
example :
    (runAll { connect := .selFail false }
      (fun hist => if hist.length = 3 then [.abandon true] else []) [.wait 1 none]).trace
      = [.ev (.disconnected "error" false), .sockClose, .ev (.connected false), .wr [], .ev .connecting] := by
  decide
example :
    (runAll { connect := .selFail false }
      (fun hist => if hist.length = 2 then [.abandon false] else []) []).trace
      = [.sockClose, .ev (.connected false), .wr [], .ev .connecting] := by
  decide

/-- for comparison, an ordinary connection whose `selector.wait` raises, abandoned at the resulting
    `Disconnected('error')`: the same events, but there was a selector and `finally` closes it -/
example :
    (runAll {} (fun hist => if hist.length = 3 then [.abandon false] else []) [.selErr]).trace
      = [.selClose, .ev (.disconnected "error" false), .sockClose, .ev (.connected false), .wr [], .ev .connecting] := by
  decide

/-- The source has the structure the repaired model (`cleanup = true`) assumes — re-extracted
    from `/repo/lomond/session.py` on every run: the `Connected` event is yielded inside the last
    `try` statement of `run()`, whose `finally` clause closes the socket and the selector. -/
theorem source_has_repaired_structure :
    Gen.connectedYieldInTry = true ∧
    (∃ t ∈ Gen.runTries.getLast?, "self._close_socket" ∈ t.2.2 ∧ "selector.close" ∈ t.2.2) := by
  decide

/-- The model's `closeSocket` closes the socket unconditionally; in the source that is true only because
    `close()` sits in the `finally` of the `try` around `shutdown()` (finding D12: after a connection reset
    `shutdown()` raises ENOTCONN, and the pinned code skipped the `close()` that followed it).  Re-extracted
    from `/repo/lomond/session.py` on every run. -/
theorem close_reached_when_shutdown_fails : Gen.closeAfterFailedShutdown = true := by decide

end Lomond.C13
