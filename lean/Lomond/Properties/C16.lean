/-
  C16 — persist() reconnects forever with bounded, growing, resettable back-off.
  Property theorems only; the model is `Model/Persist`, vocabulary and lemmas are in `Proofs/Persist`.

  Reading guide.  `rs : List (Round ε)` is an arbitrary finite prefix of what the world supplies:
  per pass through `while True:` the events of the connection attempt (any events at all, each
  either "ready" or not: connect failure, rejection, drop before/after Ready, graceful close,
  protocol error are all just such lists), the draw of `random()`, and what `exit_event.wait`
  returns.  `live rs` are the rounds up to and including the first whose `wait` returns true.
  `streak isReady as` is the number of consecutive attempts at the end of `as` without Ready.
  All statements are for every `isReady`, every configuration, every list of rounds.
-/
import Lomond.Proofs.Persist
import Lomond.Generated.Facts

namespace Lomond.C16
open Lomond Lomond.Persist

variable {ε π : Type}

/-! ### delays -/

/-- One delay: for `min_wait ≤ max_wait` and a draw in `[0,1)`, whatever the retry counter,
    the delay lies in `[min_wait, max_wait]`. -/
theorem C16_delay_bounds (c : Cfg π) (k : Nat) (u : Rat)
    (hmm : c.minWait ≤ c.maxWait) (h0 : 0 ≤ u) (h1 : u < 1) :
    c.minWait ≤ waitFor c k u ∧ waitFor c k u ≤ c.maxWait :=
  waitFor_bounds c k u hmm h0 h1

/-- The `k`-th BackOff that `persist` yields exists exactly when a `k`-th round happens, and its delay is
    `min_wait + u_k · min(max_wait − min_wait, 2^s)` with `u_k` the draw of that round and `s` the number of
    consecutive attempts, ending with the `k`-th, that did not reach Ready. -/
theorem C16_limit_formula (isReady : ε → Bool) (c : Cfg π) (rs : List (Round ε)) (k : Nat) :
    (backOffs (yielded (persist isReady c rs).1))[k]? =
      (live rs)[k]?.map (fun r =>
        c.minWait + r.draw * min (c.maxWait - c.minWait) ((2 : Rat) ^ streak isReady (rs.take (k + 1)))) := by
  have h := run_delays isReady c [] rs k
  simpa [persist, waitFor] using h

/-- The exponent grows by one with each further attempt that did not reach Ready … -/
theorem C16_limit_doubles (isReady : ε → Bool) (as : List (Round ε)) (a : Round ε)
    (h : hasReady isReady a = false) :
    streak isReady (as ++ [a]) = streak isReady as + 1 := by
  rw [streak_snoc, h]; rfl

/-- … and is back to 0 (upper limit `min_wait + min(max_wait − min_wait, 1)`) after one that did. -/
theorem C16_limit_resets (isReady : ε → Bool) (as : List (Round ε)) (a : Round ε)
    (h : hasReady isReady a = true) :
    streak isReady (as ++ [a]) = 0 := by
  rw [streak_snoc, h]; rfl

/-- Every BackOff of every run lies in `[min_wait, max_wait]`. -/
theorem C16_all_delays_bounded (isReady : ε → Bool) (c : Cfg π) (rs : List (Round ε))
    (hmm : c.minWait ≤ c.maxWait) (hu : ∀ r ∈ rs, 0 ≤ r.draw ∧ r.draw < 1) :
    ∀ d ∈ backOffs (yielded (persist isReady c rs).1), c.minWait ≤ d ∧ d ≤ c.maxWait := by
  intro d hd
  obtain ⟨k, hk⟩ := List.mem_iff_getElem?.mp hd
  rw [C16_limit_formula] at hk
  cases hl : (live rs)[k]? with
  | none => rw [hl] at hk; cases hk
  | some r =>
    rw [hl] at hk
    have hmem : r ∈ rs := by
      obtain ⟨post, hp⟩ := live_prefix rs
      rw [hp]; exact List.mem_append_left _ (List.mem_of_getElem? hl)
    have hd' : d = waitFor c (streak isReady (rs.take (k + 1))) r.draw := by
      simp only [Option.map_some, Option.some.injEq] at hk; exact hk.symm
    rw [hd']
    exact waitFor_bounds c _ _ hmm (hu r hmem).1 (hu r hmem).2

/-! ### pass-through -/

/-- What the consumer sees is, for each round that happens and in order, the events of that attempt,
    unchanged and in order, followed by exactly one BackOff — and nothing else. -/
theorem C16_passthrough (isReady : ε → Bool) (c : Cfg π) (rs : List (Round ε)) :
    yielded (persist isReady c rs).1 =
        (List.zip (live rs) (backOffs (yielded (persist isReady c rs).1))).flatMap
          (fun p => p.1.events.map Out.ev ++ [Out.backOff p.2])
      ∧ (backOffs (yielded (persist isReady c rs).1)).length = (live rs).length
      ∧ passed (yielded (persist isReady c rs).1) = (live rs).flatMap (fun r => r.events) := by
  have hb := backOffs_run isReady c 0 rs
  have hs := run_shape isReady c 0 rs
  have hlen := delaysFrom_length isReady c 0 (live rs)
  unfold persist
  refine ⟨?_, ?_, ?_⟩
  · rw [hb]; conv => lhs; rw [hs]
    exact yielded_flatMap_roundObs c _
  · rw [hb, hlen]
  · rw [hs, yielded_flatMap_roundObs, passed_flatMap, List.map_fst_zip (by omega)]

/-- The same with the calls on the outside world included: each round is
    `connect(poll, ping_rate, ping_timeout)`, the events, `random()`, `BackOff(d)`, `wait(d)`, in this order,
    with the same `d` in the BackOff and in the wait. -/
theorem C16_round_shape (isReady : ε → Bool) (c : Cfg π) (rs : List (Round ε)) :
    (persist isReady c rs).1 =
      (List.zip (live rs) (backOffs (yielded (persist isReady c rs).1))).flatMap
        (fun p => roundObs c p.1 p.2) := by
  unfold persist
  rw [backOffs_run]; exact run_shape isReady c 0 rs

/-! ### never ends by itself -/

/-- The generator finishes iff some `exit_event.wait` returned true. -/
theorem C16_only_exit_via_event (isReady : ε → Bool) (c : Cfg π) (rs : List (Round ε)) :
    (persist isReady c rs).2 = .exited ↔ ∃ r ∈ rs, r.exit = true := by
  constructor
  · intro h
    cases hd : rs.all (fun r => !r.exit) with
    | true =>
      have : ∀ r ∈ rs, r.exit = false := by
        intro r hr; have := List.all_eq_true.mp hd r hr; simpa using this
      have hrun := run_status_running isReady c 0 rs this
      unfold persist at h; rw [hrun] at h; cases h
    | false =>
      have hn : ¬ (rs.all (fun r => !r.exit) = true) := by rw [hd]; decide
      rw [List.all_eq_true] at hn
      have : ∃ r, ¬ (r ∈ rs → (!r.exit) = true) := Classical.not_forall.mp hn
      obtain ⟨r, hr⟩ := this
      have hr' : r ∈ rs ∧ ¬ ((!r.exit) = true) := Classical.not_imp.mp hr
      refine ⟨r, hr'.1, ?_⟩
      cases hx : r.exit
      · rw [hx] at hr'; exact absurd rfl hr'.2
      · rfl
  · exact run_status_exited isReady c 0 rs

/-- When it finishes, it does so right after the BackOff of the first round whose `wait` returned true:
    that round is the last one that happens, the last yield is its BackOff, the last action is the `wait`
    with the same delay, and nothing the world would have supplied later is touched. -/
theorem C16_exit_right_after_backoff (isReady : ε → Bool) (c : Cfg π) (rs : List (Round ε))
    (h : ∃ r ∈ rs, r.exit = true) :
    (∃ pre r, live rs = pre ++ [r] ∧ (∀ q ∈ pre, q.exit = false) ∧ r.exit = true)
      ∧ persist isReady c (live rs) = persist isReady c rs
      ∧ ∃ d, (persist isReady c rs).1.getLast? = some (Obs.wait d)
           ∧ (yielded (persist isReady c rs).1).getLast? = some (Out.backOff d) := by
  refine ⟨live_exit_split rs h, run_live isReady c 0 rs, ?_⟩
  apply run_last
  obtain ⟨r, hr, _⟩ := h
  intro hn; rw [hn] at hr; cases hr

/-- As long as no `wait` has returned true the generator is not finished, has yielded one BackOff per
    attempt, and whatever the world supplies next is processed on top of what happened so far
    (so the output has no end unless a `wait` returns true). -/
theorem C16_never_ends_by_itself (isReady : ε → Bool) (c : Cfg π) (rs : List (Round ε))
    (h : ∀ r ∈ rs, r.exit = false) :
    (persist isReady c rs).2 = .running
      ∧ (backOffs (yielded (persist isReady c rs).1)).length = rs.length
      ∧ ∃ k, ∀ more, persist isReady c (rs ++ more) =
          ((persist isReady c rs).1 ++ (run isReady c k more).1, (run isReady c k more).2) := by
  refine ⟨run_status_running isReady c 0 rs h, ?_, retriesAfter isReady 0 rs, fun more => ?_⟩
  · have := (C16_passthrough isReady c rs).2.1
    rw [this, live_eq_self rs h]
  · exact run_append isReady c 0 rs more h

/-- … and the first thing it does with the next round is to call `connect` again, with the given arguments. -/
theorem C16_reconnects (isReady : ε → Bool) (c : Cfg π) (k : Nat) (r : Round ε) (more : List (Round ε)) :
    (run isReady c k (r :: more)).1.head? = some (Obs.connect c.poll c.pingRate c.pingTimeout) := by
  cases hr : r.exit
  · rw [run_cons_go _ _ _ _ _ hr]; rfl
  · rw [run_cons_exit _ _ _ _ _ hr]; rfl

/-- The infinite reading: in a world `w` (round `i` for every `i`) in which no `wait` ever returns true,
    after any number `n` of rounds persist is still running, has yielded exactly `n` BackOffs, and the next
    round strictly extends what was observed so far — the output has no end. -/
theorem C16_forever (isReady : ε → Bool) (c : Cfg π) (w : Nat → Round ε) (h : ∀ i, (w i).exit = false) (n : Nat) :
    (persist isReady c ((List.range n).map w)).2 = .running
      ∧ (backOffs (yielded (persist isReady c ((List.range n).map w)).1)).length = n
      ∧ ∃ ext, ext ≠ [] ∧ (persist isReady c ((List.range (n + 1)).map w)).1 =
          (persist isReady c ((List.range n).map w)).1 ++ ext := by
  have hall : ∀ r ∈ (List.range n).map w, r.exit = false := by
    intro r hr
    obtain ⟨i, _, hi⟩ := List.mem_map.mp hr
    rw [← hi]; exact h i
  obtain ⟨h1, h2, k, h3⟩ := C16_never_ends_by_itself isReady c _ hall
  refine ⟨h1, by simpa using h2, (run isReady c k [w n]).1, ?_, ?_⟩
  · intro hn
    have := C16_reconnects isReady c k (w n) []
    rw [hn] at this; cases this
  · rw [List.range_succ, List.map_append, h3]; rfl

/-! ### arguments of `connect` -/

/-- Generated from the source: the `websocket.connect(...)` call in `persist` forwards exactly
    `poll`, `ping_rate`, `ping_timeout`, each from the parameter of the same name. -/
theorem C16_args :
    Gen.persistConnectKw = [("ping_rate", "ping_rate"), ("ping_timeout", "ping_timeout"), ("poll", "poll")] := by
  decide

/-- In the model every `connect` carries the configured values (so the model has the shape the generated
    fact describes). -/
theorem C16_connect_args (isReady : ε → Bool) (c : Cfg π) (rs : List (Round ε)) (p q t : π)
    (h : Obs.connect p q t ∈ (persist isReady c rs).1) :
    p = c.poll ∧ q = c.pingRate ∧ t = c.pingTimeout := by
  rw [C16_round_shape] at h
  obtain ⟨x, _, hx⟩ := List.mem_flatMap.mp h
  simp only [roundObs, List.mem_cons, List.mem_append, List.mem_map, Obs.connect.injEq] at hx
  rcases hx with hx | hx | hx
  · exact hx
  · obtain ⟨_, _, he⟩ := hx; cases he
  · simp at hx

/-! ### Non-vacuity: a concrete world.
    Attempts: connect failure, rejection, one that reaches Ready then drops, failure, failure (exit). -/

section Examples

private def cfg : Cfg Nat := { minWait := 5, maxWait := 30, poll := 5, pingRate := 30, pingTimeout := 0 }
private def isR (s : String) : Bool := s == "ready"
private def world : List (Round String) :=
  [ { events := ["connecting", "connect_fail"], draw := 1 / 2, exit := false },
    { events := ["connecting", "connected", "rejected", "disconnected"], draw := 3 / 4, exit := false },
    { events := ["connecting", "connected", "ready", "text", "disconnected"], draw := 63 / 64, exit := false },
    { events := ["connecting", "connect_fail"], draw := 0, exit := false },
    { events := ["connecting", "connect_fail"], draw := 1 / 4, exit := true },
    { events := ["never", "looked", "at"], draw := 1 / 2, exit := true } ]

-- delays: 5 + 1/2·2, 5 + 3/4·4, 5 + 63/64·1, 5 + 0·2, 5 + 1/4·4
example : backOffs (yielded (persist isR cfg world).1) = [6, 8, 383 / 64, 5, 6] := by decide +kernel
example : (persist isR cfg world).2 = .exited := by decide +kernel
example : (live world).length = 5 := by decide
example : (List.range 5).map (fun k => streak isR (world.take (k + 1))) = [1, 2, 0, 1, 2] := by decide
example : (persist isR cfg (world.take 4)).2 = .running := by decide +kernel
example : (yielded (persist isR cfg (world.take 1)).1) =
    [Out.ev "connecting", Out.ev "connect_fail", Out.backOff 6] := by decide +kernel
example : cfg.minWait ≤ cfg.maxWait ∧ ∀ r ∈ world, 0 ≤ r.draw ∧ r.draw < 1 := by decide +kernel
-- the cap is reached: after 5 consecutive failures 2^5 = 32 > 25 = max − min
example : waitFor cfg 5 (63 / 64) = 5 + 63 / 64 * 25 := by decide +kernel

end Examples

end Lomond.C16
