/-
  C10 companion — two decisions of the handshake model are what the source says.

  `Lomond.Gen.Code.wsDefaultPort` is produced from `WebSocket.__init__`
  (`int(_url.port) if _url.port else (443 if self.scheme == 'wss' else 80)`) and
  `deflateWbitsCheck` from `Deflate.get_wbits` (`if wbits < 8 or wbits > 15: raise …; return wbits`)
  by harness/py2lean.py on every check run.  The theorems state that `Handshake.Url.effPort` (the
  port in the `Host:` header) and `Http.getWbits` (the window-bits parameters accepted in the
  server's `permessage-deflate` reply) decide exactly like these.  Theorems only.
-/
import Lomond.Model.Handshake
import Lomond.Model.Http
import Lomond.Proofs.GenTie
import Lomond.Generated.Code

namespace Lomond.C10Gen
open Lomond Lomond.GenTie
open Lomond.Gen.Code

/-- the effective port: the URL's port when present and non-zero, else 443 for `wss`, else 80 -/
theorem gen_effPort (u : Handshake.Url) : u.effPort = wsDefaultPort u.port u.secure := by
  unfold Handshake.Url.effPort wsDefaultPort
  cases u.port <;> simp only [decide_eq_true_eq] <;> all_goals (gen_branches <;> gen_close)

example : wsDefaultPort none true = 443 := by decide
example : wsDefaultPort none false = 80 := by decide
example : wsDefaultPort (some 0) true = 443 := by decide
example : wsDefaultPort (some 8080) true = 8080 := by decide

/-- the integer Python's `int()` produced, from the model's (sign, magnitude) reading -/
theorem gen_wbitsRange (neg : Bool) (n : Nat) :
    deflateWbitsCheck (if neg then -(n : Int) else (n : Int)) =
      if neg ∨ n < 8 ∨ n > 15 then .error ⟨"CompressionParameterError", "{}={} is invalid"⟩
      else .ok (n : Int) := by
  unfold deflateWbitsCheck
  cases neg <;> simp only [decide_eq_true_eq, Bool.or_eq_true, Bool.false_eq_true, if_false, if_true, false_or, true_or] <;>
    all_goals (gen_branches <;> gen_close)

/-- `Http.getWbits`: after `int(options.get(key, "15"))`, the value is accepted exactly when the
    translated `if wbits < 8 or wbits > 15` does not raise, and then it is that value. -/
theorem gen_getWbits (opts : List (Http.Str × Http.Str)) (key : String) :
    Http.getWbits opts key =
      match Http.pyInt Http.isStrSpace ((Http.optGet opts (Http.ofString key)).getD (Http.ofString "15")) with
      | none => .error (Http.ofString (key ++ " is not an integer"))
      | some (neg, n) =>
        match deflateWbitsCheck (if neg then -(n : Int) else (n : Int)) with
        | .error _ =>
          .error (Http.ofString (key ++ "=" ++ (if neg then "-" else "") ++ toString n ++ " is invalid"))
        | .ok w => .ok w.toNat := by
  unfold Http.getWbits
  simp only []
  generalize Http.pyInt Http.isStrSpace _ = r
  rcases r with _ | ⟨neg, n⟩
  · rfl
  · simp only [gen_wbitsRange]
    by_cases c : (neg = true ∨ n < 8 ∨ n > 15) <;> simp [c]

example : deflateWbitsCheck 8 = .ok 8 := by decide
example : deflateWbitsCheck 15 = .ok 15 := by decide
example : deflateWbitsCheck 7 = .error ⟨"CompressionParameterError", "{}={} is invalid"⟩ := by decide
example : deflateWbitsCheck 16 = .error ⟨"CompressionParameterError", "{}={} is invalid"⟩ := by decide
example : deflateWbitsCheck (-9) = .error ⟨"CompressionParameterError", "{}={} is invalid"⟩ := by decide

end Lomond.C10Gen
