/-
  C10 companion — two decisions of the handshake model are what the source says.

  `Lomond.Gen.Code.wsDefaultPort` is produced from `WebSocket.__init__`
  (`int(_url.port) if _url.port else (443 if self.scheme == 'wss' else 80)`) and
  `deflateWbitsCheck` from `Deflate.get_wbits` (`if wbits < 8 or wbits > 15: raise …; return wbits`)
  by harness/py2lean.py on every check run.  The theorems state that `Handshake.Url.effPort` (the
  port in the `Host:` header) and `Http.getWbits` (the window-bits parameters accepted in the
  server's `permessage-deflate` reply) decide exactly like these.
  `wsOnResponse` is `WebSocket.on_response` up to the extensions (status 101, `Upgrade` header
  lower-cased equal to `websocket`, `Sec-WebSocket-Accept` present and equal to the challenge
  after lower-casing both — the case-insensitive comparison is the recorded finding D5 —, then
  the protocol), `responseGetStr` / `responseGetOpt` are `Response.get`; `readUntilCheckLength`
  is `_ReadUntil.check_length` and `feedReadUntil` the length accounting of `Parser.feed` while it
  waits for the header separator (the limit is compared with the buffer length when the separator
  is missing, with the index *after* the separator when it is found).  `Http.onResponse` and
  `Core.feedHeader` are these.  Theorems only.
-/
import Lomond.Model.Handshake
import Lomond.Model.Http
import Lomond.Proofs.GenTie
import Lomond.Generated.Code

namespace Lomond.C10Gen
open Lomond Lomond.GenTie
open Lomond.Gen.Code

/-- the effective port: the URL's port when present and non-zero, else 443 for `wss`, else 80 -/
theorem gen_effPort (u : Handshake.Url) : u.effPort = wsDefaultPort u.port u.secure := by
  unfold Handshake.Url.effPort wsDefaultPort
  cases u.port <;> simp only [decide_eq_true_eq] <;> all_goals (gen_branches <;> gen_close)

example : wsDefaultPort none true = 443 := by decide
example : wsDefaultPort none false = 80 := by decide
example : wsDefaultPort (some 0) true = 443 := by decide
example : wsDefaultPort (some 8080) true = 8080 := by decide

/-- the integer Python's `int()` produced, from the model's (sign, magnitude) reading -/
theorem gen_wbitsRange (neg : Bool) (n : Nat) :
    deflateWbitsCheck (if neg then -(n : Int) else (n : Int)) =
      if neg ∨ n < 8 ∨ n > 15 then .error ⟨"CompressionParameterError", "{}={} is invalid"⟩
      else .ok (n : Int) := by
  unfold deflateWbitsCheck
  cases neg <;> simp only [decide_eq_true_eq, Bool.or_eq_true, Bool.false_eq_true, if_false, if_true, false_or, true_or] <;>
    all_goals (gen_branches <;> gen_close)

/-- `Http.getWbits`: after `int(options.get(key, "15"))`, the value is accepted exactly when the
    translated `if wbits < 8 or wbits > 15` does not raise, and then it is that value. -/
theorem gen_getWbits (opts : List (Http.Str × Http.Str)) (key : String) :
    Http.getWbits opts key =
      match Http.pyInt Http.isStrSpace ((Http.optGet opts (Http.ofString key)).getD (Http.ofString "15")) with
      | none => .error (Http.ofString (key ++ " is not an integer"))
      | some (neg, n) =>
        match deflateWbitsCheck (if neg then -(n : Int) else (n : Int)) with
        | .error _ =>
          .error (Http.ofString (key ++ "=" ++ (if neg then "-" else "") ++ toString n ++ " is invalid"))
        | .ok w => .ok w.toNat := by
  unfold Http.getWbits
  simp only []
  generalize Http.pyInt Http.isStrSpace _ = r
  rcases r with _ | ⟨neg, n⟩
  · rfl
  · simp only [gen_wbitsRange]
    by_cases c : (neg = true ∨ n < 8 ∨ n > 15) <;> simp [c]

/-! ### `on_response` -/

/-- the status code as Python's integer (`none` = `status_code is None`) -/
def statusZ (sc : Option (Bool × Nat)) : Option Int :=
  sc.map (fun p => if p.1 then -(p.2 : Int) else (p.2 : Int))

/-- `Response.get(name, default)` with a `str` default / with `None` -/
theorem gen_responseGetStr (r : Http.Response) (name dflt : Http.Str) :
    responseGetStr r.headers name dflt = (r.get name).getD dflt := rfl

theorem gen_responseGetOpt (r : Http.Response) (name : Http.Str) :
    responseGetOpt r.headers name none = r.get name := by
  unfold responseGetOpt
  show (match r.get name with | some v => some v | none => none) = r.get name
  cases r.get name <;> rfl

/-- `Http.onResponse` (with the comparison the code performs, `strictAccept = false`) is the
    translated `on_response`: the same four checks in the same order, each with the
    HandshakeError the source raises (the model carries the formatted text), then the protocol
    header; the extensions follow. -/
theorem gen_onResponse (challenge : Http.Str) (r : Http.Response) :
    Http.onResponse false challenge r =
      match wsOnResponse (statusZ r.statusCode) r.headers challenge with
      | .error e =>
        .error (if e.msg = "Websocket upgrade failed (code={})" then
                  Http.ofString ("Websocket upgrade failed (code=" ++ Http.showStatus r.statusCode ++ ")")
                else if e.msg = "Can't upgrade to {}" then
                  Http.ofString "Can't upgrade to " ++
                    Http.lower ((r.get (Http.ofString "upgrade")).getD (Http.ofString "<header missing>"))
                else Http.ofString e.msg)
      | .ok protocol =>
        match Http.processExtensions (r.getList (Http.ofString "sec-websocket-extensions")) none with
        | .error m => .error m
        | .ok d => .ok { protocol := protocol, deflate := d } := by
  unfold Http.onResponse wsOnResponse
  simp only [gen_responseGetStr, gen_responseGetOpt, decide_eq_true_eq,
    show ∀ x, Py.str x = Http.ofString x from fun _ => rfl,
    show ∀ x, Py.strLower x = Http.lower x from fun _ => rfl]
  rcases hs : r.statusCode with _ | ⟨neg, n⟩
  · simp [statusZ]
  · have hz : statusZ (some (neg, n)) = some (if neg then -(n : Int) else (n : Int)) := rfl
    rw [hz]
    by_cases h1 : (some (neg, n) : Option (Bool × Nat)) ≠ some (false, 101)
    · have h1' : (if neg then -(n : Int) else (n : Int)) ≠ 101 := by
        cases neg
        · simp at h1 ⊢; omega
        · simp; omega
      simp [h1, h1']
    · have h1' : (if neg then -(n : Int) else (n : Int)) = 101 := by
        cases neg
        · simp at h1 ⊢; omega
        · simp at h1
      rw [if_neg h1]
      simp only [h1', ne_eq, not_true_eq_false, decide_true, decide_false, Bool.not_true, Bool.not_false,
        Bool.false_eq_true, if_false]
      by_cases h2 : Http.lower ((r.get (Http.ofString "upgrade")).getD (Http.ofString "<header missing>")) =
          Http.ofString "websocket"
      · simp only [h2, not_true_eq_false, if_false]
        cases ha : r.get (Http.ofString "sec-websocket-accept") with
        | none => rfl
        | some acc =>
          simp only []
          by_cases h3 : Http.lower acc = Http.lower challenge
          · simp only [h3, not_true_eq_false, if_false]
            cases Http.processExtensions (r.getList (Http.ofString "sec-websocket-extensions")) none <;> rfl
          · simp only [h3, not_false_eq_true, if_true]
            rfl
      · simp only [h2, not_false_eq_true, if_true]
        rfl

example : wsOnResponse (some 200) [] [] = .error ⟨"HandshakeError", "Websocket upgrade failed (code={})"⟩ := by decide
example : wsOnResponse none [] [] = .error ⟨"HandshakeError", "Websocket upgrade failed (code={})"⟩ := by decide
example : wsOnResponse (some 101) [] [] = .error ⟨"HandshakeError", "Can't upgrade to {}"⟩ := by decide
example : wsOnResponse (some 101) [(Py.str "upgrade", Py.str "WebSocket")] [] =
    .error ⟨"HandshakeError", "No Sec-WebSocket-Accept header"⟩ := by decide
example : wsOnResponse (some 101) [(Py.str "upgrade", Py.str "websocket"), (Py.str "sec-websocket-accept", Py.str "aB=")]
    (Py.str "Ab=") = .ok none := by decide
example : wsOnResponse (some 101) [(Py.str "upgrade", Py.str "websocket"), (Py.str "sec-websocket-accept", Py.str "aB=")]
    (Py.str "Ac=") = .error ⟨"HandshakeError", "Sec-WebSocket-Accept challenge failed"⟩ := by decide

/-! ### the header block: `read_until(b"\r\n\r\n", max_bytes=…)` in `Parser.feed` -/

/-- `max_bytes` of the header read, as the generated tables give it -/
def headerMaxBytes : Option Nat := if Gen.headerMaxIsNone then none else some Gen.headerMax

/-- `_ReadUntil.check_length(pos)` raises exactly when the model's `headerTooLong pos` holds -/
theorem gen_checkLength (n : Nat) :
    readUntilCheckLength headerMaxBytes (n : Int) =
      if Core.headerTooLong n then .error ⟨"ParseError", "expected {!r}"⟩ else .ok () := by
  unfold readUntilCheckLength headerMaxBytes Core.headerTooLong
  by_cases h : Gen.headerMaxIsNone = true
  · simp [h]
  · by_cases c : n > Gen.headerMax
    · have : (n : Int) > (Gen.headerMax : Int) := by omega
      simp [h, c, this]
    · have : ¬ (n : Int) > (Gen.headerMax : Int) := by omega
      simp [h, c, this]

/-- what the translated `if sep_index == -1:` statement computes: without the separator the
    whole buffer length is checked and nothing is sent to the parser; with the separator at index
    `i` the checked and sent length is `i + len(sep)` (the separator included) -/
theorem gen_feedReadUntil_spec (idx : Option Nat) (sepLen bufLen : Nat) :
    feedReadUntil headerMaxBytes (match idx with | none => -1 | some i => (i : Int)) sepLen bufLen =
      match idx with
      | none => if Core.headerTooLong bufLen then .error ⟨"ParseError", "expected {!r}"⟩ else .ok (-1)
      | some i =>
        if Core.headerTooLong (i + sepLen) then .error ⟨"ParseError", "expected {!r}"⟩
        else .ok ((i + sepLen : Nat) : Int) := by
  unfold feedReadUntil
  cases idx with
  | none =>
    simp only [decide_true, if_true, gen_checkLength]
    by_cases h : Core.headerTooLong bufLen = true <;> simp [h]
  | some i =>
    have hne : ¬ ((i : Int) = -1) := by omega
    simp only [hne, decide_false, Bool.false_eq_true, if_false]
    rw [show (i : Int) + (sepLen : Int) = ((i + sepLen : Nat) : Int) by omega, gen_checkLength]
    by_cases h : Core.headerTooLong (i + sepLen) = true <;> simp [h]

/-- `Core.feedHeader` is the translated length accounting of `Parser.feed`: the data is appended
    to the buffer, the separator searched in the whole buffer, the ParseError raised exactly when
    the translated code raises it, and the parser is resumed with exactly the bytes the
    translated code sends (`_buffer[:sep_index]`). -/
theorem gen_feedHeader (data : Bytes) (s : Core.Sys) :
    Core.feedHeader data s =
      (let buf := s.p.buf ++ data
       let idx := Core.findSep Gen.headerSep buf
       match feedReadUntil headerMaxBytes (match idx with | none => -1 | some i => (i : Int))
               Gen.headerSep.length buf.length with
       | .error _ => .err (.parse "expected separator") { s with p := Core.deadParser s.p }
       | .ok sent =>
         if sent = -1 then .ok () { s with p := { s.p with buf := buf } }
         else
           match Core.resume s.cfg.v s.p (buf.take sent.toNat) with
           | .error x => .err x { s with p := Core.deadParser s.p }
           | .ok (p', out) => Core.afterHeader (buf.drop sent.toNat) out { s with p := p' }) := by
  simp only [gen_feedReadUntil_spec]
  unfold Core.feedHeader
  simp only []
  cases Core.findSep Gen.headerSep (s.p.buf ++ data) with
  | none =>
    simp only []
    split <;> simp
  | some i =>
    simp only []
    split
    · rfl
    · have hne : ¬ (((i + Gen.headerSep.length : Nat) : Int) = -1) := by omega
      simp only [hne, if_false, Int.toNat_natCast]
      cases Core.resume s.cfg.v s.p (List.take (i + Gen.headerSep.length) (s.p.buf ++ data)) with
      | error x => rfl
      | ok q => rcases q with ⟨p', out⟩; rfl

example : feedReadUntil (some 16384) (-1) 4 16384 = .ok (-1) := by decide
example : feedReadUntil (some 16384) (-1) 4 16385 = .error ⟨"ParseError", "expected {!r}"⟩ := by decide
example : feedReadUntil (some 16384) 16380 4 20000 = .ok 16384 := by decide
example : feedReadUntil (some 16384) 16381 4 16385 = .error ⟨"ParseError", "expected {!r}"⟩ := by decide
example : feedReadUntil none 99999 4 100003 = .ok 100003 := by decide

example : deflateWbitsCheck 8 = .ok 8 := by decide
example : deflateWbitsCheck 15 = .ok 15 := by decide
example : deflateWbitsCheck 7 = .error ⟨"CompressionParameterError", "{}={} is invalid"⟩ := by decide
example : deflateWbitsCheck 16 = .error ⟨"CompressionParameterError", "{}={} is invalid"⟩ := by decide
example : deflateWbitsCheck (-9) = .error ⟨"CompressionParameterError", "{}={} is invalid"⟩ := by decide

end Lomond.C10Gen
