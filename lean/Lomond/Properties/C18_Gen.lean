/-
  C18 companion — the selector consults `pending()` before it blocks: what selectors.py says.

  Produced by harness/py2lean.py from the source on every check run: `selectorWait`
  (`SelectorBase.wait`, which no selector class overrides): decrypted data pending in the TLS
  layer is reported as readable with its size, without blocking; otherwise `wait_readable` decides
  and the caller's `max_bytes` is passed through.
  The theorem states that `Transport.selWait` (the shipped variant) returns exactly this.
-/
import Lomond.Proofs.GenTie
import Lomond.Model.Transport
import Lomond.Generated.Code

namespace Lomond.C18Gen
open Lomond Lomond.Transport Lomond.GenTie
open Lomond.Gen.Code

/-- `SelectorBase.wait` as a table -/
theorem gen_selectorWait_spec (hasPending : Bool) (pending : Nat) (readable : Bool) (maxBytes : Nat) :
    selectorWait hasPending pending readable maxBytes =
      if hasPending ∧ pending ≠ 0 then (true, pending) else (readable, maxBytes) := by
  unfold selectorWait
  cases hasPending <;> by_cases h : pending = 0 <;> simp [h]

/-- `Transport.selWait` (with the short-cut, as shipped) answers what the translated `wait`
    answers, where `has_pending` / `pending` are the socket's `pending()` and `readable` is the
    answer of `wait_readable` on the state in which it is called (after the one `pending()` call
    that returned 0, when the socket has that method) -/
theorem gen_selWait (cfg : Cfg) (maxBytes : Nat) (s : St) (h : cfg.shortcut = true) :
    let w := selWait cfg maxBytes s
    (w.1, w.2.1) =
      selectorWait s.sock.pending?.isSome (s.sock.pending?.getD 0)
        (waitReadable cfg.poll
          (match s.sock.pending? with
           | some n => { s with trace := s.trace ++ [Tok.pend n] }
           | none => s)).1 maxBytes := by
  rw [gen_selectorWait_spec]
  unfold selWait
  simp only [h]
  cases hp : s.sock.pending? with
  | none => simp
  | some n => by_cases hn : n = 0 <;> simp [hn]

example : selectorWait true 5 false 65536 = (true, 5) := by decide
example : selectorWait true 0 true 65536 = (true, 65536) := by decide
example : selectorWait false 0 false 65536 = (false, 65536) := by decide
example : ({ poll := 5 } : Cfg).shortcut = true := rfl

end Lomond.C18Gen
