/-
  C15 companion — the timers of the hand-written model are what session.py says.

  `Lomond.Gen.Code.sessionCheck*` are produced from `WebsocketSession._check_poll`,
  `_check_auto_ping`, `_check_ping_timeout`, `_check_close_timeout` by harness/py2lean.py on every
  check run (times are integer ticks; `math.ceil(t / r)` is ceiling division; Python's `t - x` is
  translated over `Int`, never as truncated subtraction).  The theorems state that
  `Core.checkPoll`, `checkAutoPing`, `checkPingTimeout`, `checkCloseTimeout` take their decisions
  and compute the next-ping time exactly as these definitions do.
  Theorems only; helpers are in `Proofs/GenTie`.
-/
import Lomond.Proofs.GenTie
import Lomond.Generated.Code

namespace Lomond.C15Gen
open Lomond Lomond.Core Lomond.GenTie
open Lomond.Gen.Code

/-! ### the decisions and formulas as arithmetic -/

/-- `_check_poll`: fires when no poll has happened yet or `poll` ticks have passed; the model's
    truncated `t - p0 ≥ poll` agrees with Python's integer subtraction because the clock never
    runs backwards (`p0 ≤ t`; for `poll > 0` even that is not needed). -/
theorem gen_poll (poll t : Nat) (ps : Option Nat) (h : ∀ p0, ps = some p0 → p0 ≤ t ∨ 0 < poll) :
    sessionCheckPoll poll t ps =
      (match (generalizing := false) ps with
       | none => (true, some t)
       | some p0 => if t - p0 ≥ poll then (true, some t) else (false, some p0)) := by
  unfold sessionCheckPoll
  cases ps with
  | none => simp
  | some p0 =>
    have := h p0 rfl
    simp only [decide_eq_true_eq]
    all_goals (gen_branches <;> gen_close)

/-- `_check_auto_ping`: a ping is due when `ping_rate` is non-zero and the time is past
    `_next_ping`; the next one is scheduled at `ceil(t / rate) * rate`. -/
theorem gen_autoPing (rate t next : Nat) :
    sessionCheckAutoPing rate t next =
      if rate ≠ 0 ∧ t > next then (true, ceilDiv t rate * rate) else (false, next) := by
  unfold sessionCheckAutoPing
  simp only [gen_ceilDiv_eq, decide_eq_true_eq, Bool.and_eq_true]
  all_goals (gen_branches <;> gen_close)

/-- what the formula achieves: the next ping time is the first multiple of the rate that is not
    in the past — never earlier than now, less than one period ahead (C15's "no drift"). -/
theorem gen_autoPing_next (rate t next : Nat) (hr : 0 < rate) (hd : t > next) :
    let n := (sessionCheckAutoPing rate t next).2
    t ≤ n ∧ n < t + rate ∧ n % rate = 0 := by
  have hs := gen_ceilDiv_spec t rate hr
  rw [gen_autoPing, if_pos ⟨by omega, hd⟩]
  simp only [← gen_ceilDiv_eq]
  refine ⟨hs.1, ?_, Nat.mul_mod_left _ _⟩
  have h2 := hs.2 (Py.ceilDiv t rate - 1)
  by_cases hz : Py.ceilDiv t rate = 0
  · rw [hz] at hs ⊢; omega
  · have h3 : ¬ t ≤ (Py.ceilDiv t rate - 1) * rate := fun hle => by have := h2 hle; omega
    have h4 : (Py.ceilDiv t rate - 1) * rate + rate = Py.ceilDiv t rate * rate := by
      have : Py.ceilDiv t rate = (Py.ceilDiv t rate - 1) + 1 := by omega
      rw [this, Nat.add_mul, Nat.one_mul]; simp
    omega

example : sessionCheckAutoPing 30 31 30 = (true, 60) := by decide
example : sessionCheckAutoPing 30 60 30 = (true, 60) := by decide
example : sessionCheckAutoPing 30 30 30 = (false, 30) := by decide
example : sessionCheckAutoPing 0 99 0 = (false, 0) := by decide

/-- `_check_ping_timeout`: enabled by a non-zero timeout, fires when more than `ping_timeout`
    ticks have passed since the last Pong (Python's `t - last` may be negative; then it does not
    fire, and neither does the model's truncated difference). -/
theorem gen_pingTimeout (timeout t last : Nat) :
    sessionCheckPingTimeout timeout t last = decide (timeout ≠ 0 ∧ t - last > timeout) := by
  unfold sessionCheckPingTimeout
  simp only [decide_eq_true_eq]
  all_goals (gen_branches <;> gen_close)

/-- `_check_close_timeout`: raises `_ForceDisconnect` exactly when a close timeout is set, a Close
    was sent at `ct`, and `t ≥ ct + close_timeout`. -/
theorem gen_closeTimeout (timeout t : Nat) (sent : Option Nat) :
    sessionCheckCloseTimeout timeout t sent =
      (match sent with
       | none => .ok ()
       | some ct =>
         if timeout ≠ 0 ∧ t ≥ ct + timeout then
           .error ⟨"_ForceDisconnect", "server didn't respond to close packet within {}s"⟩
         else .ok ()) := by
  unfold sessionCheckCloseTimeout
  cases sent <;> simp only [decide_eq_true_eq] <;> all_goals (gen_branches <;> gen_close)

example : sessionCheckCloseTimeout 30 40 (some 10) =
    .error ⟨"_ForceDisconnect", "server didn't respond to close packet within {}s"⟩ := by decide
example : sessionCheckCloseTimeout 30 39 (some 10) = .ok () := by decide
example : sessionCheckCloseTimeout 0 1000 (some 10) = .ok () := by decide
example : sessionCheckCloseTimeout 30 1000 none = .ok () := by decide

/-! ### the model's timer functions are the generated decisions + the effects the translation drops -/

/-- `Core.checkPoll` = generated `_check_poll` (decision and new `_poll_start`), then `yield Poll()` -/
theorem gen_checkPoll (s : Sys)
    (h : ∀ p0, s.pollStart = some p0 → p0 ≤ sessionTime s ∨ 0 < s.cfg.poll) :
    checkPoll s =
      (let r := sessionCheckPoll s.cfg.poll (sessionTime s) s.pollStart
       if r.1 then (do modS (fun s => { s with pollStart := r.2 }); yieldEv .poll : M Unit) s
       else .ok () s) := by
  rw [gen_poll _ _ _ h]
  unfold checkPoll
  cases hp : s.pollStart with
  | none => simp [bind, M.bind, getS, hp]
  | some p0 =>
    by_cases c : sessionTime s - p0 ≥ s.cfg.poll <;> simp [bind, M.bind, getS, hp, c, pure, M.pure]

/-- `Core.checkAutoPing` = generated `_check_auto_ping` (decision and new `_next_ping`), then
    `send_ping()` with its WebSocketError swallowed -/
theorem gen_checkAutoPing (s : Sys) :
    checkAutoPing s =
      (let r := sessionCheckAutoPing s.cfg.pingRate (sessionTime s) s.nextPing
       if r.1 then (do modS (fun s => { s with nextPing := r.2 })
                       let _ ← sendFrame Gen.opPing [] none
                       pure () : M Unit) s
       else .ok () s) := by
  rw [gen_autoPing]
  unfold checkAutoPing
  by_cases c : s.cfg.pingRate ≠ 0 ∧ sessionTime s > s.nextPing
  · simp only [bind, M.bind, getS, if_pos c, modS]; rfl
  · simp only [bind, M.bind, getS, if_neg c, pure, M.pure]; simp

/-- `Core.checkPingTimeout` = generated `_check_ping_timeout`, then `yield Unresponsive()` and
    `raise _ForceDisconnect` (the part of `_regular` that follows a `True` result) -/
theorem gen_checkPingTimeout (s : Sys) :
    checkPingTimeout s =
      (if sessionCheckPingTimeout s.cfg.pingTimeout (sessionTime s) s.lastPong then
         (do yieldEv .unresponsive; throwE (.forceDisconnect "ping-timeout") : M Unit) s
       else .ok () s) := by
  rw [gen_pingTimeout]
  unfold checkPingTimeout
  by_cases c : s.cfg.pingTimeout ≠ 0 ∧ sessionTime s - s.lastPong > s.cfg.pingTimeout
  · simp only [bind, M.bind, getS, if_pos c, decide_eq_true c, if_true]
  · simp only [bind, M.bind, getS, if_neg c, decide_eq_false c, pure, M.pure]; simp

/-- `Core.checkCloseTimeout` = generated `_check_close_timeout`; its `_ForceDisconnect` is the
    model's `forceDisconnect "close-timeout"` -/
theorem gen_checkCloseTimeout (s : Sys) :
    checkCloseTimeout s =
      (match sessionCheckCloseTimeout s.cfg.closeTimeout (sessionTime s) s.sentCloseTime with
       | .error _ => .err (.forceDisconnect "close-timeout") s
       | .ok _ => .ok () s) := by
  rw [gen_closeTimeout]
  unfold checkCloseTimeout
  cases hs : s.sentCloseTime with
  | none => by_cases c : s.cfg.closeTimeout ≠ 0 <;> simp [bind, M.bind, getS, hs, c, pure, M.pure]
  | some ct =>
    by_cases c : s.cfg.closeTimeout ≠ 0 <;> by_cases d : sessionTime s ≥ ct + s.cfg.closeTimeout <;>
      simp [bind, M.bind, getS, hs, c, d, pure, M.pure, throwE]

end Lomond.C15Gen
