/-
  C12 companion — `close()` is atomic ALSO when the racing calls start before the connection exists.

  The run starts in `initPre`: `session._sock is None`, nothing on the wire, the lock free.  The event-loop thread's first
  call is `.connect` (`Model/Threads.lean`): it stores the socket, writes the HTTP request through the same
  `session.write` (lock, state checks, `sendall`) as every frame, and then either reads the server's reply or — when the
  request was refused because a racing `close()` had already set `closing`, or its `sendall` failed — closes the socket
  and ends (`ConnectFail`).  Application threads run `close()` and the send methods at any time: before the socket
  exists (`WebSocketUnavailable`; `close()` swallows it and still sets `closing`), while the loop thread is inside
  `_send_request`, after it.  On the model's wire the request stands as a placeholder frame (opcode 0): its position is
  modelled, its bytes are not.

  The theorems are the statements of `C12.one_close_no_data_after`, `C12.close_sets_flag`,
  `C12Fail.one_whole_close_nothing_after` and `C12Fail.close_always_ends_closing`, transported to `initPre`, for ALL
  programs (in particular: a loop thread whose program starts with `.connect`, any number of application threads with
  any programs of sends and `close()`), ALL schedules, and — second group — every socket (any number of chunks per
  `sendall`, any pattern of failing writes, the request's own `sendall` included).  Hypothesis: `closeAtomic = true`
  (the repaired `close()`, which is what /repo has; `compressUnderLock` is irrelevant to these statements and left free).
  New here: `request_never_after_close` — not even the HTTP request is written after a Close frame.

  Proofs: the invariants `Base` / `CInv` (and `BaseN` / `CInvN` / `KInv`) are preserved by every step from ANY state that
  satisfies them (`Proofs/ThreadsC.lean`, `ThreadsNC.lean`, `ThreadsNK.lean`, now including the steps of the two new
  calls); `Proofs/ThreadsPre.lean` shows that `initPre` satisfies them.

  Tie to the code: `harness/props/c12.py before_connect_cases` (loop program `cn`) — every run is compared with this model
  on the executed step log, the chunks (request chunks at their position), results and flags.
-/
import Lomond.Proofs.ThreadsPre

namespace Lomond.C12Pre
open Lomond Lomond.Threads

/-- the run from "no socket yet" (two chunks per `sendall`, no failing write) -/
abbrev finalPre (v : Variant) (cfg : Cfg) (progs : Tid → List Call) (sched : List Tid) : State :=
  run v cfg (initPre progs) sched

/-- the same on the general socket -/
abbrev finalPreN (env : Env) (v : Variant) (cfg : Cfg) (progs : Tid → List Call) (sched : List Tid) : State :=
  runN env v cfg (initPre progs) sched

/-- **C12 before the connection exists.**  With the repaired `close()`, for all programs — the loop thread connecting
    (`.connect`), application threads sending and closing — and all schedules, starting with no socket:
    at most one Close frame is written, nothing is written after it (no frame, no second Close, not the first half of
    anything, not the request), and a finished send has written its frame iff it raised no error. -/
theorem one_close_no_data_after_before_connect (v : Variant) (hv : v.closeAtomic = true) (cfg : Cfg)
    (progs : Tid → List Call) (sched : List Tid) :
    let s := finalPre v cfg progs sched
    closeCount s.sh.wire ≤ 1 ∧ nothingAfterClose s.sh.wire = true ∧
    (∀ (t : Tid) (i : Nat) (r : Result), (s.th t).results[i]? = some r →
      ∃ call, (progs t)[i]? = some call ∧ (r.err ≠ none → r.wrote = false) ∧
        (call.isSend = true → (r.wrote = true ↔ r.err = none))) := by
  intro s
  have B := base_run v cfg _ sched (base_initPre v cfg progs)
  have I := cInv_run v cfg _ sched hv (base_initPre v cfg progs) (cInv_initPre v cfg progs hv)
  refine ⟨nac_count _ I.i5, I.i5, ?_⟩
  intro t i r hr
  obtain ⟨call, h1, h2, h3⟩ := B.C.res t i r hr
  rw [run_prog] at h1
  refine ⟨call, h1, h2, fun hs => ⟨fun hw => ?_, h3 hs⟩⟩
  cases he : r.err with
  | none => rfl
  | some e =>
    have := h2 (by rw [he]; simp)
    rw [hw] at this; cases this

/-- **The request is never written after a Close frame**: if a chunk of a Close frame is on the wire, no chunk that
    follows it belongs to a `.connect` call — a `close()` that wins the race against `_send_request` makes the request
    fail (`WebSocketClosing` -> `ConnectFail`) instead of being sent on a connection that is already closing. -/
theorem request_never_after_close (v : Variant) (hv : v.closeAtomic = true) (cfg : Cfg)
    (progs : Tid → List Call) (sched : List Tid) (pre mid post : List Chunk) (y x : Chunk) :
    let s := finalPre v cfg progs sched
    s.sh.wire = pre ++ y :: (mid ++ x :: post) → isClose y = true → (progs x.tid)[x.idx]? ≠ some .connect := by
  intro s hw hy hx
  have B := base_run v cfg _ sched (base_initPre v cfg progs)
  have I := cInv_run v cfg _ sched hv (base_initPre v cfg progs) (cInv_initPre v cfg progs hv)
  have h5 : nothingAfterClose (pre ++ y :: (mid ++ x :: post)) = true := hw ▸ I.i5
  obtain ⟨ht, hi⟩ := nac_after pre y _ h5 hy x (by simp)
  obtain ⟨call, hcall, hd⟩ := B.C.wire y (by rw [show (run v cfg (initPre progs) sched).sh.wire = _ from hw]; simp)
  rw [run_prog, initPre_prog, ← ht, ← hi, hx] at hcall
  cases hcall
  have : y.desc.op = 0 := hd.1
  simp [isClose, this] at hy

/-- once a Close frame is (even partly) on the wire and nobody holds the lock, the connection is closing or closed -/
theorem close_sets_flag_before_connect (v : Variant) (hv : v.closeAtomic = true) (cfg : Cfg)
    (progs : Tid → List Call) (sched : List Tid) :
    let s := finalPre v cfg progs sched
    hasClose s.sh.wire = true → s.sh.lock = none → s.sh.closing = true ∨ s.sh.closed = true := by
  intro s hc hl
  have B := base_run v cfg _ sched (base_initPre v cfg progs)
  have I := cInv_run v cfg _ sched hv (base_initPre v cfg progs) (cInv_initPre v cfg progs hv)
  rcases I.i2 hc with h | h | ⟨u, hu⟩
  · exact Or.inl h
  · exact Or.inr h
  · have := (B.L.holder u).mp (closerMid_holds _ (B.L.disc u) hu)
    rw [hl] at this; cases this

/-- **The same for every socket** (any number of chunks per `sendall`, any pattern of failing writes — of the Close
    frame, of data frames, of the request itself): at most one COMPLETE Close frame, nothing after its last chunk, a
    finished send wrote its complete frame iff it raised no error. -/
theorem one_whole_close_nothing_after_before_connect (env : Env) (v : Variant) (hv : v.closeAtomic = true) (cfg : Cfg)
    (progs : Tid → List Call) (sched : List Tid) :
    let s := finalPreN env v cfg progs sched
    closeCount s.sh.wire ≤ 1 ∧
    (∀ pre post x, s.sh.wire = pre ++ x :: post → x.second = true → isClose x = true → post = []) ∧
    (∀ (t : Tid) (i : Nat) (r : Result), (s.th t).results[i]? = some r →
      ∃ call, (progs t)[i]? = some call ∧ (r.err ≠ none → r.wrote = false) ∧
        (call.isSend = true → (r.wrote = true ↔ r.err = none))) := by
  intro s
  have B := baseN_run env v cfg _ sched (baseN_initPre v cfg progs)
  have I := cInvN_run env v cfg _ sched hv (baseN_initPre v cfg progs) (cInvN_initPre v cfg progs hv)
  refine ⟨nawc_count _ I.i5, fun pre post x hw hx hc => nawc_spec _ I.i5 pre post x hw hx hc, ?_⟩
  intro t i r hr
  obtain ⟨call, h1, h2, h3⟩ := B.C.res t i r hr
  rw [runN_prog] at h1
  refine ⟨call, h1, h2, fun hs => ⟨fun hw => ?_, h3 hs⟩⟩
  cases he : r.err with
  | none => rfl
  | some e =>
    have := h2 (by rw [he]; simp)
    rw [hw] at this; cases this

/-- a `close()` that has returned — refused because there was no socket yet (`WebSocketUnavailable`, swallowed), written,
    or failed at any chunk — leaves the connection closing or closed; so does the loop's echo of a server Close -/
theorem close_always_ends_closing_before_connect (env : Env) (v : Variant) (hv : v.closeAtomic = true) (cfg : Cfg)
    (progs : Tid → List Call) (sched : List Tid) (t : Tid) (i : Nat) (r : Result) (call : Call) :
    let s := finalPreN env v cfg progs sched
    (s.th t).results[i]? = some r → (progs t)[i]? = some call → call.isClose = true →
      s.sh.closing = true ∨ s.sh.closed = true := by
  intro s hr hcall hcl
  have K := kInv_run env v cfg _ sched hv (baseN_initPre v cfg progs) (cInvN_initPre v cfg progs hv) (kInv_initPre v cfg progs)
  exact K.kres t i r call hr (by rw [runN_prog]; exact hcall) hcl

/-- the two-chunk socket without failures is an instance of the general one -/
theorem two_chunk_instance (v : Variant) (cfg : Cfg) (progs : Tid → List Call) (sched : List Tid) :
    finalPreN Env.two v cfg progs sched = finalPre v cfg progs sched :=
  runN_default v cfg _ sched

/-! ### non-vacuity: concrete races around the connect -/

def ca : Variant := { closeAtomic := true, compressUnderLock := true }
def txt : Bytes := [104, 105]
/-- thread 0 closes, thread 1 sends, thread 2 is the event loop connecting -/
def progs3 : Tid → List Call := progsOf [[.close (some 1000) []], [.sendText txt false], [.connect]]

/-- `close()` is INSIDE the write lock (it has taken it and not yet tested the socket) when the loop thread stores the
    socket; the loop then waits for the lock; `close()` finds a socket, writes its Close frame and sets `closing` under
    the lock; thread 1's send and the loop's request are both refused (`WebSocketClosing`); the loop closes the socket:
    one Close frame, nothing after it, no request. -/
def schedCloseWins : List Tid :=
  [0, 0, 0] ++ [2, 2] ++ List.replicate 9 0 ++ List.replicate 5 1 ++ List.replicate 10 2

example : let s := finalPre ca {} progs3 schedCloseWins
    (s.sh.wire.map fun c => (c.tid, c.desc.op, c.second)) = [(0, 8, false), (0, 8, true)] ∧
    (s.th 0).results = [⟨true, none, false⟩] ∧ (s.th 1).results = [⟨false, some .closing, false⟩] ∧
    (s.th 2).results = [⟨false, some .closing, true⟩] ∧ (s.th 2).halted = true ∧
    s.sh.closing = true ∧ s.sh.sockOpen = false ∧ s.sh.sockShut = true ∧ s.sh.lock = none := by
  decide +kernel

/-- the lock is held by `close()` at the moment the loop thread connects (after entries `0 0 0 2`): the loop waits for it -/
example : let s := finalPre ca {} progs3 [0, 0, 0, 2]
    s.sh.lock = some 0 ∧ s.sh.sockOpen = true ∧ enabled ca {} s 2 = false ∧ enabled ca {} s 0 = true := by
  decide +kernel

/-- the send is inside the write lock while the loop connects: its Text frame goes out BEFORE the request, the loop
    waits, then writes the request and reads the reply; `close()` comes last: Text, request, Close — nothing after -/
def schedSendFirst : List Tid :=
  [2, 1, 1, 1, 2] ++ List.replicate 4 1 ++ List.replicate 12 2 ++ List.replicate 12 0

example : let s := finalPre ca {} progs3 schedSendFirst
    (s.sh.wire.map fun c => (c.tid, c.desc.op, c.second)) =
      [(1, 1, false), (1, 1, true), (2, 0, false), (2, 0, true), (0, 8, false), (0, 8, true)] ∧
    (s.th 2).results = [⟨true, none, false⟩] ∧ (s.th 1).results = [⟨true, none, false⟩] ∧
    closeCount s.sh.wire = 1 ∧ s.sh.closing = true ∧ s.sh.sockOpen = true := by
  decide +kernel

/-- before the socket exists a send fails with `WebSocketUnavailable` and `close()` still sets `closing` -/
example : let s := finalPre ca {} progs3 (List.replicate 7 0 ++ List.replicate 3 1)
    s.sh.wire = [] ∧ (s.th 0).results = [⟨false, some .unavailable, false⟩] ∧
    (s.th 1).results = [⟨false, some .unavailable, false⟩] ∧ s.sh.closing = true := by
  decide +kernel

/-- the request's own `sendall` fails after its first chunk (general socket): TransportFail -> the loop closes the socket -/
def envReqFails : Env := { failAt := fun t i => if t = 2 ∧ i = 0 then some 1 else none }

example : let s := finalPreN envReqFails ca {} progs3 (List.replicate 14 2)
    (s.sh.wire.map fun c => (c.tid, c.desc.op, c.second)) = [(2, 0, false)] ∧
    (s.th 2).results = [⟨false, some .transport, true⟩] ∧ s.sh.sockShut = true := by
  decide +kernel

end Lomond.C12Pre
