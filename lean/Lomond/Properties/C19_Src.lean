/-
  C19 — source facts (re-extracted from `/repo/lomond/session.py` on every run): the socket is put back into blocking mode
  only after the proxy negotiation.  Property theorems only.

  Why it matters: `_connect_sock` sets the connect timeout (30 s) before `connect()`; the CONNECT request is written and the
  proxy's answer read on that same socket.  While the timeout is in force a proxy that accepts the connection and then stays
  silent makes `recv()` raise `socket.timeout`, which `_connect_proxy` turns into ConnectFail (`Proxy.negotiate`, read outcome
  `timeout`; theorems `C19.*`).  A `settimeout(None)` before the answer has been read would make that `recv()` block for ever:
  neither ConnectFail nor Connected would be emitted (seeded change C19-r4m2; the composed-connection harness reports `HUNG`).
  The model counterpart is `ConnectLink.attempt` with the shape flag `Inputs.blockBeforeTunnel`; the theorems are in
  `Properties/C19_Timeout.lean` (`silent_proxy_gives_connect_fail`, `blocking_before_tunnel_hangs`, `source_has_pinned_order`).
-/
import Lomond.Generated.Facts

namespace Lomond.C19Src
open Lomond

/-- `settimeout(None)` is called in `_connect` only - not in `_connect_sock` (which runs before the negotiation), not in
    `_connect_proxy`. -/
theorem blocking_mode_set_in_connect_only : Gen.settimeoutNoneIn = ["_connect"] := by decide

/-- ... and there it is the last of the connection steps: after `_connect_proxy(...)` / `_connect_sock(...)` have returned. -/
theorem blocking_mode_after_negotiation :
    Gen.connectCallOrder.getLast? = some "settimeout(None)" ∧
    "_connect_proxy" ∈ Gen.connectCallOrder.dropLast ∧ "settimeout(None)" ∉ Gen.connectCallOrder.dropLast := by decide

end Lomond.C19Src
