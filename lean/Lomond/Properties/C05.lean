/-
  C05 — Text is delivered iff it is strictly valid UTF-8 (validator level).
  Property theorems only; helper lemmas live in `Proofs/Utf8`.
  All statements are over the DFA table *generated from the source*.
-/
import Lomond.Proofs.Utf8

namespace Lomond.C05
open Lomond Lomond.Utf8

/-- The shipped DFA (generated table), started in ACCEPT, ends in ACCEPT exactly on the
    byte strings that are well-formed UTF-8 per RFC 3629. -/
theorem dfa_iff_wf (bs : Bytes) (hb : Bytes.WF bs) : run 0 bs = 0 ↔ wf bs = true := by
  rw [run_eq_srun 0 bs (by decide) hb]; exact srun_zero_iff_wf bs

/-- Fail-fast is exact: the DFA is in REJECT after `bs` iff *no* continuation of `bs`
    is well-formed; i.e. the validator rejects at the first byte that makes the
    message unsalvageable, and never earlier. -/
theorem reject_iff_no_extension (bs : Bytes) (hb : Bytes.WF bs) :
    run 0 bs = 1 ↔ ∀ ext, wf (bs ++ ext) = false := by
  rw [run_eq_srun 0 bs (by decide) hb]
  constructor
  · intro h ext
    have : srun 0 (bs ++ ext) = 1 := by rw [srun_append, h, srun_reject]
    cases hw : wf (bs ++ ext)
    · rfl
    · have := (srun_zero_iff_wf (bs ++ ext)).mpr hw; omega
  · intro h
    by_cases h1 : srun 0 bs = 1
    · exact h1
    · exfalso
      have hlt := srun_lt 0 bs (by decide)
      have hc := completion_accepts ⟨srun 0 bs, hlt⟩ h1
      have : srun 0 (bs ++ completion (srun 0 bs)) = 0 := by rw [srun_append]; exact hc
      have := (srun_zero_iff_wf _).mp this
      rw [h] at this; cases this

/-- `Utf8Validator.validate` fed chunk by chunk (state threaded, early exit) gives the
    verdict of one call on the concatenation: the verdict is independent of how a
    message is split across frames and reads. -/
theorem validate_chunks (s : Nat) (chunks : List Bytes) :
    chunks.foldl (fun st c => st.bind (fun s' => validate s' c)) (some s) = validate s chunks.flatten := by
  induction chunks generalizing s with
  | nil => simp [validate]
  | cons c r ih =>
    simp only [List.foldl_cons, List.flatten_cons, validate_append, Option.bind_some]
    cases h : validate s c with
    | some s' => simpa using ih s'
    | none =>
      simp only [Option.bind_none]
      clear ih h
      induction r with
      | nil => rfl
      | cons _ _ ih' => simpa using ih'

/-- `validate` says "invalid" exactly when the bytes so far admit no well-formed extension;
    otherwise it leaves the DFA state of the plain run. -/
theorem validate_verdict (bs : Bytes) (hb : Bytes.WF bs) :
    validate 0 bs = none ↔ ∀ ext, wf (bs ++ ext) = false := by
  rw [← reject_iff_no_extension bs hb, run_eq_srun 0 bs (by decide) hb,
      validate_eq_run 0 bs (by decide) (by decide) hb]
  by_cases h : srun 0 bs = 1 <;> simp [h]

/-- The strict decoder is defined exactly on well-formed input. -/
theorem decode_defined_iff_wf (bs : Bytes) : (decode bs).isSome = wf bs := decode_isSome bs

/-- Decoding is exact: it inverts the shortest-form encoder on every scalar sequence … -/
theorem decode_encode (cs : List Nat) (h : ∀ c ∈ cs, isScalar c = true) :
    decode (encode cs) = some cs := Utf8.decode_encode cs h

/-- … and whatever it returns re-encodes to the very bytes received and consists of scalar
    values only (no surrogates, nothing above U+10FFFF, no overlong forms). -/
theorem encode_decode (bs : Bytes) (cs : List Nat) (h : decode bs = some cs) :
    encode cs = bs ∧ ∀ c ∈ cs, isScalar c = true := Utf8.encode_decode bs cs h

/-! Non-vacuity: concrete inputs on both sides of each statement. -/
example : wf [0xE2, 0x82, 0xAC, 0x41, 0xF0, 0x9F, 0x98, 0x80] = true := by decide
example : run 0 [0xE2, 0x82] ≠ 1 ∧ run 0 [0xE2, 0x82] ≠ 0 := by decide
example : run 0 [0x61, 0xED, 0xA0] = 1 := by decide       -- surrogate: rejected at the 2nd byte
example : run 0 [0xC0] = 1 ∧ run 0 [0xF4, 0x90] = 1 ∧ run 0 [0xE0, 0x9F] = 1 := by decide
example : decode [0xE2, 0x82, 0xAC] = some [0x20AC] := by decide
example : validate 0 [0xE2] = some 3 ∧ validate 3 [0x82, 0xAC] = some 0 := by decide

end Lomond.C05
