/-
  C05 — Text is delivered iff it is strictly valid UTF-8 (validator level).
  Property theorems only; helper lemmas live in `Proofs/Utf8`.
  All statements are over the DFA table *generated from the source*.
-/
import Lomond.Proofs.Utf8
import Lomond.Proofs.TextMsg

namespace Lomond.C05
open Lomond Lomond.Utf8

/-- The shipped DFA (generated table), started in ACCEPT, ends in ACCEPT exactly on the
    byte strings that are well-formed UTF-8 per RFC 3629. -/
theorem dfa_iff_wf (bs : Bytes) (hb : Bytes.WF bs) : run 0 bs = 0 ↔ wf bs = true := by
  rw [run_eq_srun 0 bs (by decide) hb]; exact srun_zero_iff_wf bs

/-- Fail-fast is exact: the DFA is in REJECT after `bs` iff *no* continuation of `bs`
    is well-formed; i.e. the validator rejects at the first byte that makes the
    message unsalvageable, and never earlier. -/
theorem reject_iff_no_extension (bs : Bytes) (hb : Bytes.WF bs) :
    run 0 bs = 1 ↔ ∀ ext, wf (bs ++ ext) = false := by
  rw [run_eq_srun 0 bs (by decide) hb]
  constructor
  · intro h ext
    have : srun 0 (bs ++ ext) = 1 := by rw [srun_append, h, srun_reject]
    cases hw : wf (bs ++ ext)
    · rfl
    · have := (srun_zero_iff_wf (bs ++ ext)).mpr hw; omega
  · intro h
    by_cases h1 : srun 0 bs = 1
    · exact h1
    · exfalso
      have hlt := srun_lt 0 bs (by decide)
      have hc := completion_accepts ⟨srun 0 bs, hlt⟩ h1
      have : srun 0 (bs ++ completion (srun 0 bs)) = 0 := by rw [srun_append]; exact hc
      have := (srun_zero_iff_wf _).mp this
      rw [h] at this; cases this

/-- `Utf8Validator.validate` fed chunk by chunk (state threaded, early exit) gives the
    verdict of one call on the concatenation: the verdict is independent of how a
    message is split across frames and reads. -/
theorem validate_chunks (s : Nat) (chunks : List Bytes) :
    chunks.foldl (fun st c => st.bind (fun s' => validate s' c)) (some s) = validate s chunks.flatten := by
  induction chunks generalizing s with
  | nil => simp [validate]
  | cons c r ih =>
    simp only [List.foldl_cons, List.flatten_cons, validate_append, Option.bind_some]
    cases h : validate s c with
    | some s' => simpa using ih s'
    | none =>
      simp only [Option.bind_none]
      clear ih h
      induction r with
      | nil => rfl
      | cons _ _ ih' => simpa using ih'

/-- `validate` says "invalid" exactly when the bytes so far admit no well-formed extension;
    otherwise it leaves the DFA state of the plain run. -/
theorem validate_verdict (bs : Bytes) (hb : Bytes.WF bs) :
    validate 0 bs = none ↔ ∀ ext, wf (bs ++ ext) = false := by
  rw [← reject_iff_no_extension bs hb, run_eq_srun 0 bs (by decide) hb,
      validate_eq_run 0 bs (by decide) (by decide) hb]
  by_cases h : srun 0 bs = 1 <;> simp [h]

/-- The strict decoder is defined exactly on well-formed input. -/
theorem decode_defined_iff_wf (bs : Bytes) : (decode bs).isSome = wf bs := decode_isSome bs

/-- Decoding is exact: it inverts the shortest-form encoder on every scalar sequence … -/
theorem decode_encode (cs : List Nat) (h : ∀ c ∈ cs, isScalar c = true) :
    decode (encode cs) = some cs := Utf8.decode_encode cs h

/-- … and whatever it returns re-encodes to the very bytes received and consists of scalar
    values only (no surrogates, nothing above U+10FFFF, no overlong forms). -/
theorem encode_decode (bs : Bytes) (cs : List Nat) (h : decode bs = some cs) :
    encode cs = bs ∧ ∀ c ∈ cs, isScalar c = true := Utf8.encode_decode bs cs h

/-! Non-vacuity: concrete inputs on both sides of each statement. -/
example : wf [0xE2, 0x82, 0xAC, 0x41, 0xF0, 0x9F, 0x98, 0x80] = true := by decide
example : run 0 [0xE2, 0x82] ≠ 1 ∧ run 0 [0xE2, 0x82] ≠ 0 := by decide
example : run 0 [0x61, 0xED, 0xA0] = 1 := by decide       -- surrogate: rejected at the 2nd byte
example : run 0 [0xC0] = 1 ∧ run 0 [0xF4, 0x90] = 1 ∧ run 0 [0xE0, 0x9F] = 1 := by decide
example : decode [0xE2, 0x82, 0xAC] = some [0x20AC] := by decide
example : validate 0 [0xE2] = some 3 ∧ validate 3 [0x82, 0xAC] = some 0 := by decide


/-! ### message level (core model of frame_parser.py / message.py) -/
open Lomond.Core

/-- **Verdict.**  A complete text payload (all fragments joined, inflated if compressed) becomes a
    Text message iff it is well-formed UTF-8, and then the text is its exact decoding; otherwise
    the result is the critical error (→ one ProtocolError event, no Text). -/
theorem text_message_iff_wf (payload : Bytes) :
    (∀ cps, msgOfPayload Gen.opText payload = .ok (.text cps) ↔ Utf8.decode payload = some cps) ∧
    (msgOfPayload Gen.opText payload = .error (.critical "payload contains invalid utf-8") ↔
      Utf8.wf payload = false) :=
  msgOfPayload_text payload

/-- **Fail-fast.**  With `pre` the text bytes of the current message already accepted, a bite of
    a payload read with incremental validation is rejected at once iff `pre ++ chunk` admits no
    well-formed continuation (the first offending byte has arrived); otherwise it passes. -/
theorem failfast (v : Variant) (p : PState) (pre chunk : Bytes) (hu : p.utf8 = true)
    (hpre : Utf8.validate 0 pre = some p.dfa) (hw : Bytes.WF (pre ++ chunk)) :
    ((∀ ext, Utf8.wf (pre ++ chunk ++ ext) = false) →
        biteBytes v p chunk = .error (.parse "invalid utf8")) ∧
    ((∃ ext, Utf8.wf (pre ++ chunk ++ ext) = true) → ∃ d, vres p.utf8 p.dfa chunk = some d) :=
  failfast_bite v p pre chunk hu hpre hw

/-- An uncompressed text frame is read with incremental validation also when
    permessage-deflate was negotiated (the pinned commit did not: finding D9). -/
theorem uncompressed_text_is_validated (v : Variant) (hv : v.perMsgValidate = true) (p : PState)
    (b0 len : Nat) (key : Option Bytes) (r : PState × Option Out)
    (hop : b0 % 16 = Gen.opText) (hrsv : b0 / 64 % 2 = 0) (hlen : len ≠ 0)
    (h : gotMask v p b0 len key = .ok r) :
    r.1.utf8 = true ∧ r.1.isText = true ∧ r.1.isCompressed = false :=
  text_frame_is_validated v hv p b0 len key r hop hrsv hlen h

/-- D9 in the pinned commit (`perMsgValidate = false`): with the extension negotiated an
    RSV1 = 0 text frame is read without validation. -/
theorem present_variant_no_failfast_when_negotiated :
    ∃ r, gotMask { perMsgValidate := false } { cont := .hdr2, remPred := 1, compression := true } 0x81 3 none = .ok r ∧
      r.1.utf8 = false := by
  refine ⟨_, rfl, ?_⟩; decide

/-- D2 in the pinned commit (`keepIsText = false`): a Ping between two fragments of a text
    message clears the text flag, so the next continuation frame is read without validation;
    with the repair the flag survives. -/
theorem present_variant_ping_clears_text_state :
    (∃ r, frameDone { keepIsText := false } { cont := .hdr2, isText := true } { opcode := 9 } = .ok r ∧ r.1.isText = false) ∧
    (∃ r, frameDone { keepIsText := true } { cont := .hdr2, isText := true } { opcode := 9 } = .ok r ∧ r.1.isText = true) := by
  refine ⟨⟨_, rfl, ?_⟩, ⟨_, rfl, ?_⟩⟩ <;> decide

example : msgOfPayload Gen.opText [0xE2, 0x82, 0xAC] = .ok (.text [0x20AC]) := by rfl

end Lomond.C05
