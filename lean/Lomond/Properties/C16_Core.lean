/-
  C16 on the composed system — `persist()` over the core model.

  In `Properties/C16.lean` a round carries an opaque list of events.  Here (`Model/PersistLink.lean`)
  round `i` is the core model's `i`-th connection: `as : List Attempt` is what the world supplies per
  pass through `while True:` — the connection's own configuration (`base`: connect outcome, request,
  faults, …), the consumer's reactions and the environment script of that connection, the draw of
  `random()` and what `exit_event.wait` returns.  `attemptCfg c a` is the configuration `persist` runs
  the connection with (`poll`, `ping_rate`, `ping_timeout` from `persist`'s own arguments),
  `attemptEvents c a = events (Core.runAll (attemptCfg c a) a.react a.env)` the events it yields,
  `ended c a` says that `run()` returned (the `for` loop of `persist` is over), and

      persistCore c as

  is `persist()` over these connections.  `liveA as` are the attempts up to and including the first
  whose `wait` returns true; `failStreak c as` is the number of consecutive attempts at the end of `as`
  whose core run yielded no `Ready`.  All statements are for every configuration and every list of
  attempts.
-/
import Lomond.Proofs.PersistLink
import Lomond.Properties.C16
import Lomond.Properties.C09

set_option linter.unusedSimpArgs false
set_option linter.unusedVariables false

namespace Lomond.C16Core
open Lomond Lomond.Core Lomond.Core.Monitor Lomond.Persist Lomond.PersistLink

/-! ### the rounds of `Properties/C16.lean` are met by connections of the core model -/

/-- **`hasReady` of a round is "a `Ready` event in that core run"** — and the run yields at most one. -/
theorem hasReady_iff_ready_event (c : Persist.Cfg Nat) (a : Attempt) :
    (hasReady isReadyEv (roundOf c a) = true ↔
      ∃ p d, Event.ready p d ∈ events (runAll (attemptCfg c a) a.react a.env).trace) ∧
    (hasReady isReadyEv (roundOf c a) = !noReady c a) ∧
    ((events (runAll (attemptCfg c a) a.react a.env).trace).filter isReadyEv).length ≤ 1 := by
  refine ⟨?_, hasReady_roundOf c a, ?_⟩
  · unfold hasReady roundOf
    simp only [attemptEvents_eq, List.any_eq_true]
    constructor
    · rintro ⟨e, he, hr⟩
      cases e <;> simp [isReadyEv] at hr
      exact ⟨_, _, he⟩
    · rintro ⟨p, d, h⟩
      exact ⟨_, h, rfl⟩
  · obtain ⟨ph, h⟩ := runAll_accepted (attemptCfg c a) a.react a.env
    exact ready_at_most_once _ _ _ h

/-- **An attempt that ends is a round as `Properties/C16.lean` reads it**: a finite, complete event
    sequence — accepted by the C07 monitor, beginning with `Connecting`, ending with its one terminal
    event (`ConnectFail` or `Disconnected`, `C09.terminal_kind`) —, in which `Ready` occurs at most
    once.  "Connect failure, rejection, drop before/after Ready, graceful close, protocol error are all
    just such lists" — here they are the lists the core model produces. -/
theorem ended_attempt_is_a_round (c : Persist.Cfg Nat) (a : Attempt) (h : ended c a = true) :
    (roundOf c a).events = events (runAll (attemptCfg c a) a.react a.env).trace ∧
    Mon.complete (roundOf c a).events ∧
    (∃ x e, (roundOf c a).events = x ++ [e] ∧ Event.isTerminal e = true ∧ ∀ y ∈ x, Event.isTerminal y = false) ∧
    (∃ x e, (roundOf c a).events = x ++ [e] ∧
      (((∃ k g, e = .disconnected k g) ∧ ∃ p, Event.connected p ∈ x) ∨
       ((∃ k, e = .connectFail k) ∧ ∀ p, Event.connected p ∉ x))) := by
  obtain ⟨s, hr⟩ := (ended_iff c a).mp h
  have he : (roundOf c a).events = events (runAll (attemptCfg c a) a.react a.env).trace := attemptEvents_eq c a
  have hc : Mon.complete (roundOf c a).events := by
    rw [he]
    have h1 := (run_spec (attemptCfg c a) a.react a.env).1
    unfold Mon.complete
    rw [runAll_events, ← phaseOf_eq_run]
    rw [hr] at h1 ⊢; exact h1
  refine ⟨he, hc, Mon.complete_ends_terminal hc, ?_⟩
  rw [he]
  exact C09.terminal_kind (attemptCfg c a) a.react a.env s hr

/-- each connection runs with exactly the three parameters `persist` forwards (`C16_args`) -/
theorem attempt_uses_persist_args (c : Persist.Cfg Nat) (a : Attempt) :
    (attemptCfg c a).poll = c.poll ∧ (attemptCfg c a).pingRate = c.pingRate ∧
    (attemptCfg c a).pingTimeout = c.pingTimeout ∧
    (attemptCfg c a).connect = a.base.connect ∧ (attemptCfg c a).request = a.base.request ∧
    (attemptCfg c a).closeTimeout = a.base.closeTimeout ∧ (attemptCfg c a).autoPong = a.base.autoPong :=
  ⟨rfl, rfl, rfl, rfl, rfl, rfl, rfl⟩

/-! ### `C16_limit_formula` / `C16_passthrough` over the composed system -/

/-- **The limit formula over the composed system.**  When every attempt ends, the `k`-th BackOff that
    `persist` yields exists exactly when a `k`-th attempt happens, and its delay is
    `min_wait + u_k · min(max_wait − min_wait, 2^s)` with `u_k` the draw of that attempt and `s` the
    number of consecutive attempts, ending with the `k`-th, whose core run yielded no `Ready`. -/
theorem limit_formula_core (c : Persist.Cfg Nat) (as : List Attempt) (h : ∀ a ∈ as, ended c a = true) (k : Nat) :
    (backOffs (yielded (persistCore c as).1))[k]? =
      (liveA as)[k]?.map (fun a =>
        c.minWait + a.draw * min (c.maxWait - c.minWait) ((2 : Rat) ^ failStreak c (as.take (k + 1)))) := by
  rw [persistCore_all_ended c as h]
  simp only []
  rw [C16.C16_limit_formula, live_map, List.getElem?_map, ← List.map_take, streak_map]
  cases (liveA as)[k]? <;> rfl

/-- the exponent grows by one with each further attempt without `Ready`, and is back to 0 after one with -/
theorem failStreak_snoc (c : Persist.Cfg Nat) (as : List Attempt) (a : Attempt) :
    failStreak c (as ++ [a]) = if noReady c a then failStreak c as + 1 else 0 := by
  rw [← streak_map, ← streak_map, List.map_append, List.map_cons, List.map_nil, streak_snoc, hasReady_roundOf]
  cases noReady c a <;> rfl

/-- **Pass-through over the composed system.**  When every attempt ends, what the consumer of `persist`
    sees is, for each attempt that happens and in order, the events of that connection's core run —
    unchanged and in order —, followed by exactly one BackOff; and nothing else. -/
theorem passthrough_core (c : Persist.Cfg Nat) (as : List Attempt) (h : ∀ a ∈ as, ended c a = true) :
    yielded (persistCore c as).1 =
        (List.zip (liveA as) (backOffs (yielded (persistCore c as).1))).flatMap
          (fun p => (events (runAll (attemptCfg c p.1) p.1.react p.1.env).trace).map Out.ev ++ [Out.backOff p.2])
      ∧ (backOffs (yielded (persistCore c as).1)).length = (liveA as).length
      ∧ passed (yielded (persistCore c as).1) =
          (liveA as).flatMap (fun a => events (runAll (attemptCfg c a) a.react a.env).trace)
      ∧ ((persistCore c as).2 = .exited ↔ ∃ a ∈ as, a.exit = true) := by
  rw [persistCore_all_ended c as h]
  simp only []
  obtain ⟨h1, h2, h3⟩ := C16.C16_passthrough isReadyEv c (as.map (roundOf c))
  rw [live_map] at h1 h2 h3
  refine ⟨?_, by rw [h2, List.length_map], ?_, ?_⟩
  · conv => lhs; rw [h1]
    generalize backOffs (yielded (persist isReadyEv c (as.map (roundOf c))).1) = ds
    generalize liveA as = l
    induction l generalizing ds with
    | nil => rfl
    | cons a r ih =>
      cases ds with
      | nil => rfl
      | cons d ds =>
        simp only [List.map_cons, List.zip_cons_cons, List.flatMap_cons]
        rw [ih ds]
        show (attemptEvents c a).map Out.ev ++ _ ++ _ = _
        rw [attemptEvents_eq]
  · rw [h3, List.flatMap_map]
    congr 1
  · have := C16.C16_only_exit_via_event isReadyEv c (as.map (roundOf c))
    cases hs : (persist isReadyEv c (as.map (roundOf c))).2 with
    | exited =>
      obtain ⟨r, hr, hx⟩ := this.mp hs
      obtain ⟨a, ha, rfl⟩ := List.mem_map.mp hr
      exact ⟨fun _ => ⟨a, ha, hx⟩, fun _ => rfl⟩
    | running =>
      refine ⟨fun h' => (by cases h'), fun ⟨a, ha, hx⟩ => ?_⟩
      have := this.mpr ⟨roundOf c a, List.mem_map_of_mem ha, hx⟩
      rw [hs] at this; cases this

/-- **An attempt that does not end gets no BackOff.**  In general, the attempts before the first one whose
    `run()` does not return (the consumer stopped iterating inside it, or the model's environment script ran
    out) are rounds of `persist` as above; if `persist` gets to that attempt it calls `connect`, passes on
    the events the connection yields, and that is all: no BackOff follows them, and the later attempts the
    world would have supplied are not touched. -/
theorem unfinished_attempt_gets_no_backoff (c : Persist.Cfg Nat) (good : List Attempt) (a : Attempt) (rest : List Attempt)
    (hg : ∀ b ∈ good, ended c b = true) (ha : ended c a = false) :
    ((persistCore c good).2 = .exited → persistCore c (good ++ a :: rest) = persistCore c good) ∧
    ((persistCore c good).2 = .running →
      (persistCore c (good ++ a :: rest)).2 = .inAttempt ∧
      yielded (persistCore c (good ++ a :: rest)).1 =
        yielded (persistCore c good).1 ++ (events (runAll (attemptCfg c a) a.react a.env).trace).map Out.ev ∧
      backOffs (yielded (persistCore c (good ++ a :: rest)).1) = backOffs (yielded (persistCore c good).1) ∧
      (backOffs (yielded (persistCore c (good ++ a :: rest)).1)).length = good.length) := by
  have hgood := persistCore_all_ended c good hg
  rcases persistCore_split c (good ++ a :: rest) with hall | ⟨g', a', r', hsplit, hg', ha', hcase⟩
  · have := hall a (by simp)
    rw [ha] at this; cases this
  · -- the split is the given one
    have hgg : g' = good ∧ a' = a := by
      have key : ∀ (g1 g2 : List Attempt) (x y : Attempt) (r1 r2 : List Attempt),
          g1 ++ x :: r1 = g2 ++ y :: r2 → (∀ b ∈ g1, ended c b = true) → (∀ b ∈ g2, ended c b = true) →
          ended c x = false → ended c y = false → g1 = g2 ∧ x = y := by
        intro g1
        induction g1 with
        | nil =>
          intro g2 x y r1 r2 he _ h2 hx _
          cases g2 with
          | nil => simp at he; exact ⟨rfl, he.1⟩
          | cons z g2 =>
            simp at he
            have := h2 z (by simp)
            rw [← he.1, hx] at this; cases this
        | cons z g1 ih =>
          intro g2 x y r1 r2 he h1 h2 hx hy
          cases g2 with
          | nil =>
            simp at he
            have := h1 z (by simp)
            rw [he.1, hy] at this; cases this
          | cons w g2 =>
            simp only [List.cons_append, List.cons.injEq] at he
            obtain ⟨e1, e2⟩ := ih g2 x y r1 r2 he.2 (fun b hb => h1 b (by simp [hb])) (fun b hb => h2 b (by simp [hb])) hx hy
            exact ⟨by rw [he.1, e1], e2⟩
      exact key g' good a' a r' rest hsplit.symm hg' hg ha' ha
    obtain ⟨rfl, rfl⟩ := hgg
    have hst : (persistCore c g').2 = liftStatus (persist isReadyEv c (g'.map (roundOf c))).2 := by rw [hgood]
    have hobs : (persistCore c g').1 = (persist isReadyEv c (g'.map (roundOf c))).1 := by rw [hgood]
    rcases hcase with ⟨hs, he⟩ | ⟨hs, he⟩
    · refine ⟨fun _ => ?_, fun h => ?_⟩
      · rw [he, hgood, hs]; rfl
      · rw [hst, hs] at h; cases h
    · refine ⟨fun h => ?_, fun _ => ?_⟩
      · rw [hst, hs] at h; cases h
      · rw [he, hobs]
        have hy : yielded (Persist.Obs.connect c.poll c.pingRate c.pingTimeout ::
            (attemptEvents c a').map (fun e => Persist.Obs.yield (Persist.Out.ev e))) =
            (attemptEvents c a').map Out.ev := by
          simp only [yielded]
          generalize attemptEvents c a' = l
          induction l with
          | nil => rfl
          | cons e r ih => simp [yielded, ih]
        have hb : backOffs ((attemptEvents c a').map (Out.ev (ε := Event))) = [] := by
          generalize attemptEvents c a' = l
          induction l with
          | nil => rfl
          | cons e r ih => simpa [backOffs] using ih
        have hnoexit : ∀ r ∈ g'.map (roundOf c), r.exit = false := by
          intro r hr
          cases hx : r.exit
          · rfl
          · have := (C16.C16_only_exit_via_event isReadyEv c (g'.map (roundOf c))).mpr ⟨r, hr, hx⟩
            rw [hs] at this; cases this
        have hlen := (C16.C16_never_ends_by_itself isReadyEv c (g'.map (roundOf c)) hnoexit).2.1
        refine ⟨rfl, ?_, ?_, ?_⟩
        · simp only []
          rw [yielded_append, hy, attemptEvents_eq]
        · simp only []
          rw [yielded_append, backOffs_append, hy, hb, List.append_nil]
        · simp only []
          rw [yielded_append, backOffs_append, hy, hb, List.append_nil, hlen, List.length_map]

/-! ### `min_wait > max_wait` -/

/-- **The exact delay without the hypothesis `min_wait ≤ max_wait`.**  `persist` computes
    `random_wait = max_wait - min_wait` and `wait_for = min_wait + random() * min(random_wait, 2**retries)`
    whatever the order of the two.  Whenever `max_wait − min_wait ≤ 2^retries` — in particular always when
    `max_wait < min_wait`, since then the difference is negative — the cap `random_wait` is the smaller
    operand of `min`, so the delay is `min_wait + u · (max_wait − min_wait)` and does not depend on the retry
    counter at all: there is no exponential growth. -/
theorem delay_formula_without_bound (c : Persist.Cfg Nat) (k : Nat) (u : Rat) :
    (c.maxWait - c.minWait ≤ (2 : Rat) ^ k → waitFor c k u = c.minWait + u * (c.maxWait - c.minWait)) ∧
    ((2 : Rat) ^ k ≤ c.maxWait - c.minWait → waitFor c k u = c.minWait + u * (2 : Rat) ^ k) ∧
    (c.maxWait < c.minWait → waitFor c k u = c.minWait - u * (c.minWait - c.maxWait)) := by
  have hp : (0 : Rat) < (2 : Rat) ^ k := Rat.pow_pos (by decide)
  unfold waitFor
  refine ⟨fun h => ?_, fun h => ?_, fun h => ?_⟩
  · rw [Rat.min_def, if_pos h]
  · rw [Rat.min_def]
    split
    · rename_i h'
      have : c.maxWait - c.minWait = (2 : Rat) ^ k := Rat.le_antisymm h' h
      rw [this]
    · rfl
  · have hle : c.maxWait - c.minWait ≤ (2 : Rat) ^ k := by grind
    rw [Rat.min_def, if_pos hle]
    grind

/-- **With `min_wait > max_wait` the delays lie in the reversed interval `(max_wait, min_wait]`.**  For a
    draw in `[0,1)`: `max_wait < delay ≤ min_wait`, with `delay = min_wait` exactly for the draw 0 — so the
    upper bound `max_wait` of `C16_delay_bounds` fails for every draw, and the hypothesis
    `min_wait ≤ max_wait` of `C16_all_delays_bounded` is necessary. -/
theorem delay_reversed_interval (c : Persist.Cfg Nat) (k : Nat) (u : Rat)
    (hmm : c.maxWait < c.minWait) (h0 : 0 ≤ u) (h1 : u < 1) :
    c.maxWait < waitFor c k u ∧ waitFor c k u ≤ c.minWait ∧ (waitFor c k u = c.minWait ↔ u = 0) := by
  rw [(delay_formula_without_bound c k u).2.2 hmm]
  have hd : 0 < c.minWait - c.maxWait := by grind
  have h2 : 0 ≤ u * (c.minWait - c.maxWait) := Rat.mul_nonneg h0 (Rat.le_of_lt hd)
  have h3 : 0 < (1 - u) * (c.minWait - c.maxWait) := Rat.mul_pos (by grind) hd
  refine ⟨by grind, by grind, ?_⟩
  constructor
  · intro h
    have hz : u * (c.minWait - c.maxWait) = 0 := by grind
    rcases Rat.mul_eq_zero.mp hz with h' | h'
    · exact h'
    · rw [h'] at hd; exact absurd hd (by decide)
  · intro h; rw [h]; grind

/-- … over the composed system: with `min_wait > max_wait` every BackOff of every run of `persist` over the
    core model is `min_wait − u_k · (min_wait − max_wait)` for the draw `u_k` of its attempt, whatever the
    history of `Ready`s, and lies in `(max_wait, min_wait]`. -/
theorem all_delays_reversed_core (c : Persist.Cfg Nat) (as : List Attempt) (h : ∀ a ∈ as, ended c a = true)
    (hmm : c.maxWait < c.minWait) (hu : ∀ a ∈ as, 0 ≤ a.draw ∧ a.draw < 1) (k : Nat) :
    (backOffs (yielded (persistCore c as).1))[k]? =
      (liveA as)[k]?.map (fun a => c.minWait - a.draw * (c.minWait - c.maxWait)) ∧
    ∀ d, (backOffs (yielded (persistCore c as).1))[k]? = some d → c.maxWait < d ∧ d ≤ c.minWait := by
  have hf := limit_formula_core c as h k
  have hw : ∀ (n : Nat) (u : Rat), c.minWait + u * min (c.maxWait - c.minWait) ((2 : Rat) ^ n) = waitFor c n u :=
    fun _ _ => rfl
  cases hl : (liveA as)[k]? with
  | none => rw [hl] at hf; rw [hf]; exact ⟨rfl, fun d hd => by cases hd⟩
  | some a =>
    rw [hl] at hf
    have hmem : a ∈ as := by
      obtain ⟨post, hp⟩ := liveA_prefix as
      rw [hp]; exact List.mem_append_left _ (List.mem_of_getElem? hl)
    have hval : c.minWait + a.draw * min (c.maxWait - c.minWait) ((2 : Rat) ^ failStreak c (as.take (k + 1))) =
        c.minWait - a.draw * (c.minWait - c.maxWait) := by
      rw [hw, (delay_formula_without_bound c _ a.draw).2.2 hmm]
    refine ⟨by rw [hf]; simp only [Option.map_some, hval], fun d hd => ?_⟩
    rw [hf] at hd
    simp only [Option.map_some, Option.some.injEq] at hd
    subst hd
    have := delay_reversed_interval c (failStreak c (as.take (k + 1))) a.draw hmm (hu a hmem).1 (hu a hmem).2
    exact ⟨this.1, this.2.1⟩

/-! ### Non-vacuity: three connections of the core model under `persist` -/

section Examples

/-- the upgrade reply used by `C09.exReply` (accept value `k`) -/
private def reply : Bytes := C09.exReply
private def pc : Persist.Cfg Nat := { minWait := 5, maxWait := 30, poll := 5, pingRate := 30, pingTimeout := 0 }
/-- connect failure; a connection that reaches Ready and is then dropped; connect failure (exit) -/
private def world : List Attempt :=
  [ { base := { connect := .socketFail }, react := fun _ => [], env := [], draw := 1 / 2, exit := false },
    { base := C09.exCfg, react := fun _ => [], env := [.wait 0 (some (.data reply)), .wait 0 (some .eof)],
      draw := 3 / 4, exit := false },
    { base := { connect := .otherFail }, react := fun _ => [], env := [], draw := 1 / 4, exit := true } ]

example : ∀ a ∈ world, ended pc a = true := by decide +kernel
example : world.map (noReady pc) = [true, false, true] := by decide +kernel
example : (List.range 3).map (fun k => failStreak pc (world.take (k + 1))) = [1, 0, 1] := by decide +kernel
-- delays: 5 + 1/2·2, 5 + 3/4·1, 5 + 1/4·2
example : backOffs (yielded (persistCore pc world).1) = [6, 23 / 4, 11 / 2] := by decide +kernel
example : (persistCore pc world).2 = .exited := by decide +kernel
example : passed (yielded (persistCore pc world).1) =
    [.connecting, .connectFail "connect-failed",
     .connecting, .connected false, .ready none false, .poll, .disconnected "connection-lost" false,
     .connecting, .connectFail "connect-failed"] := by decide +kernel
/-- a consumer that stops iterating at `Connected` of the second connection: no BackOff for it -/
private def stop : Attempt :=
  { base := C09.exCfg, react := fun h => if h.length = 2 then [.abandon false] else [], env := [.wait 0 (some .eof)],
    draw := 0, exit := false }
example : ended pc stop = false := by decide +kernel
example : yielded (persistCore pc (world.take 1 ++ stop :: world.drop 1)).1 =
    [.ev .connecting, .ev (.connectFail "connect-failed"), .backOff 6, .ev .connecting, .ev (.connected false)] ∧
    (persistCore pc (world.take 1 ++ stop :: world.drop 1)).2 = .inAttempt := by decide +kernel
/-- `min_wait = 30 > max_wait = 5`: the delay for the draw 1/2 is 17.5, whatever the retry counter -/
example : waitFor { pc with minWait := 30, maxWait := 5 } 0 (1 / 2) = 35 / 2 ∧
    waitFor { pc with minWait := 30, maxWait := 5 } 9 (1 / 2) = 35 / 2 := by decide +kernel

end Examples

end Lomond.C16Core
