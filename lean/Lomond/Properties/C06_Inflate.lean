/-
  C06 (companion) — the bit-level inflater of Model/Inflate.lean is CORRECT on stored,
  fixed-Huffman and dynamic-Huffman blocks: the hypothesis `Agrees cfg.inflate …` / `AgreesSafe cfg.inflate …` of
  `C06.core_refines_tokens`, `C06.core_lossless_peer_to_client` and `C06.never_wrong_core` is
  discharged — for every history, not for instances — for `Inflate.inflateAll` /
  `Inflate.inflateAllSafe` and the reference encoder `DeflEnc.encMsg` (Model/DeflEnc.lean: LZ77
  tokens → RFC 1951 bits; stored blocks, fixed-Huffman blocks and dynamic-Huffman blocks — canonical
  codes for any complete code lengths chosen by the caller — with the §3.2.5 length / distance
  tables, BFINAL anywhere, sync-flush tail).  The encoder itself is validated against
  real zlib by the C06 check (`deflenc` driver op: zlib inflates its output to the LZ77 expansion).

  Property theorems only; proofs in Proofs/InflateBits, InflateHuff, InflateCanon, InflateSym,
  InflateStored, InflateDyn, InflateCorrect.  What is proved, bottom up:

    bits      `bits_read`                 the LSB-first bit reader returns the number that was written
    codes     `fixed_literal_code`, `fixed_distance_code`, `fixed_code_prefix_free`
              all 288 + 32 code words of the fixed code decode to their symbol, whatever follows
              `canonical_code_decodes`, `canonical_code_prefix_free`: the same for the canonical code
              (RFC 1951 §3.2.2) of ANY code lengths that are not over-subscribed (Kraft)
    tables    `length_table`, `distance_table`   base + extra bits for every length 3..258 and
              every distance 1..32768 (the encoder's arithmetic tables invert the inflater's arrays)
    blocks    `fixed_block_body`, `huffman_block_body` (any pair of codes), `stored_block`,
              `dynamic_header`, `block_correct`
    messages  `inflate_expand`, `inflate_message_after_history`
    histories `inflateAllSafe_correct` (= `AgreesSafe`), `inflateAll_correct` (= `Agrees`)
    client    `never_wrong_core_inflater`, `core_refines_tokens_inflater`,
              `lossless_any_blocks_repaired`, `lossless_any_blocks_pinned`

  Dynamic blocks whose header uses the repeat codes 16/17/18, any complete code-length code and any
  HCLEN (`Kind.dynRle`) are covered by the theorems below that quantify over `kind` and spelled
  out in Properties/C06_InflateRle.lean.

  NOT proved (covered only by the differential test of `Inflate.inflateAll[Safe]` against zlib in
  the C06 check): incomplete codes (zlib's single-code distance tree, the empty distance code);
  what the inflater does on bytes that NO encoder writes (truncated input, invalid codes,
  over-subscribed codes: the error paths) is likewise only tested.
-/
import Lomond.Properties.C06
import Lomond.Proofs.InflateCorrect

set_option linter.unusedSimpArgs false
set_option linter.unusedVariables false

namespace Lomond.C06
open Lomond Lomond.Deflate Lomond.Core Lomond.DeflEnc Lomond.Inflate

/-! ## 1. Bits, codes, tables -/

/-- **The bit reader.**  If the bits of `inp` from position `pos` on start with the `n ≤ 16` bits
    of `v` (least significant first), `bits inp pos n` returns `v` and advances by `n`. -/
theorem bits_read (inp : Array Nat) (hwf : ∀ x ∈ inp.toList, x < 256) (pos n v : Nat) (r : List Bool)
    (hn : n ≤ 16) (hv : v < 2 ^ n) (hp : pos ≤ 8 * inp.size) (h : Rest inp pos = bitsLE n v ++ r) :
    Inflate.bits inp pos n = .ok v (pos + n) :=
  bits_spec hwf hn hv hp h

example : Inflate.bits #[0xf3, 0x48] 3 7 = .ok 30 10 :=
  bits_read _ (by decide) 3 7 30 [false, true, false, false, true, false] (by decide) (by decide) (by decide) (by decide)

/-- **Fixed literal/length code** (RFC 1951 §3.2.6): each of the 288 code words, followed by
    anything, decodes to its symbol and uses exactly its length. -/
theorem fixed_literal_code (inp : Array Nat) (pos s : Nat) (r : List Bool) (hs : s < 288)
    (h : Rest inp pos = litCode s ++ r) :
    Inflate.decode fixedLit inp pos = .ok (some s) (pos + (litCode s).length) :=
  decode_fixedLit hs h

/-- **Fixed distance code**: each 5-bit code word, followed by anything, decodes to its symbol. -/
theorem fixed_distance_code (inp : Array Nat) (pos s : Nat) (r : List Bool) (hs : s < 32)
    (h : Rest inp pos = bitsMSB 5 s ++ r) :
    Inflate.decode fixedDist inp pos = .ok (some s) (pos + 5) :=
  decode_fixedDist hs h

/-- RFC 7692 §7.2.3.2, the second "Hello" with context takeover (`f2 00 11 00 00`) and the tail:
    block header, `H`, a match of length 4 at distance 5, end of block -/
def helloArr : Array Nat := #[0xf2, 0x00, 0x11, 0x00, 0x00, 0x00, 0x00, 0xff, 0xff]
/-- at bit 18 comes the 5-bit code of distance symbol 4 (distances 5..6) -/
example : Inflate.decode fixedDist helloArr 18 = .ok (some 4) 23 :=
  fixed_distance_code _ 18 4 (Rest helloArr 23) (by decide) (by decide +kernel)

/-- **The fixed code is prefix-free**: no code word is the beginning of another one. -/
theorem fixed_code_prefix_free (s t : Nat) (hs : s < 288) (ht : t < 288) (h : litCode s <+: litCode t) : s = t := by
  obtain ⟨r, hr⟩ := h
  have h1 := goL_append fixedLit 15 1 0 0 0 (litCode s) r _ _ (fixedLit_words s hs)
  rw [hr, fixedLit_words t ht] at h1
  simp only [Option.some.injEq, Prod.mk.injEq] at h1
  exact h1.1.symm

/-- `f3 48 cd …` (RFC 7692 §7.2.3.4): after the 3 header bits comes the code word of `H` -/
example : Inflate.decode fixedLit #[0xf3, 0x48, 0xcd] 3 = .ok (some 72) 11 :=
  fixed_literal_code _ 3 72 [true, false, false, true, false, true, false, true, true, false, false, true, true]
    (by decide) (by decide)

/-- **Canonical Huffman codes, any code lengths** (RFC 1951 §3.2.2).  `lens[s]` = code length of
    symbol `s` (0 = unused, at most 15), not over-subscribed (Kraft: Σ 2^(15−len) ≤ 2^15); `h` the
    table `mkHuff` builds from them, of complete shape.  Then every used symbol's canonical code
    word — smallest code of its length + rank among the symbols of that length, MSB first —
    followed by anything decodes to that symbol and uses exactly its length. -/
theorem canonical_code_decodes (lens : List Nat) (isCodes : Bool) (h : Huff)
    (hm : Inflate.mkHuff lens.toArray isCodes = some h) (hsh : h.shape = .complete)
    (hk : kraft lens ≤ 2 ^ 15) (h15 : ∀ l ∈ lens, l ≤ 15)
    (inp : Array Nat) (pos s : Nat) (r : List Bool) (hs : 1 ≤ lens.getD s 0)
    (hr : Rest inp pos = canonCode lens s ++ r) :
    Inflate.decode h inp pos = .ok (some s) (pos + lens.getD s 0) := by
  have := (code_canon lens isCodes h hm hsh hk h15).dec hs hr
  simpa [canonCode] using this

/-- complete lengths (Kraft sum exactly 1) are accepted by `mkHuff` as a complete code, so the
    hypotheses of `canonical_code_decodes` are satisfiable for every such assignment -/
theorem complete_lengths_accepted (lens : List Nat) (isCodes : Bool) (hk : kraft lens = 2 ^ 15) :
    ∃ h, Inflate.mkHuff lens.toArray isCodes = some h ∧ h.shape = .complete :=
  mkHuff_complete lens isCodes hk

/-- **A canonical code is prefix-free** whenever Kraft's inequality holds: no code word of a used
    symbol is the beginning of another one. -/
theorem canonical_code_prefix_free (lens : List Nat) (hk : kraft lens ≤ 2 ^ 15) (h15 : ∀ l ∈ lens, l ≤ 15)
    (s t : Nat) (hs : 1 ≤ lens.getD s 0) (ht : 1 ≤ lens.getD t 0) (h : canonCode lens s <+: canonCode lens t) :
    s = t := by
  obtain ⟨r, hr⟩ := h
  -- any table in canonical form will do: take the one `mkHuff` computes, whatever its shape
  have hcanon : Canon { count := countLens lens, symbol := ((List.range 15).flatMap (fun l => symsOf (l + 1) 0 lens)).toArray, shape := .complete } lens := by
    constructor
    · intro l h1 h15'
      exact countLens_getD lens l (by omega)
    · intro s' l hs' h1 h15'
      simp only []
      rw [← getD_toList]
      simp only [List.getD_eq_getElem?_getD]
      have h0 := symsOf_getElem? l 0 lens s' hs'
      obtain ⟨k, rfl⟩ : ∃ k, l = k + 1 := ⟨l - 1, by omega⟩
      have := flatMap_range_getElem? (fun l => symsOf (l + 1) 0 lens) 15 k _ _ (by omega) h0
      rw [segs_length] at this
      rw [this]
      simp
  have get : ∀ u, 1 ≤ lens.getD u 0 → lens[u]? = some (lens.getD u 0) ∧ lens.getD u 0 ≤ 15 := by
    intro u hu
    rw [List.getD_eq_getElem?_getD] at hu ⊢
    cases hx : lens[u]? with
    | none => rw [hx] at hu; simp at hu
    | some x =>
      refine ⟨by simp, ?_⟩
      simp only [Option.getD_some]
      rw [List.getElem?_eq_some_iff] at hx
      obtain ⟨hi, he⟩ := hx
      rw [← he]; exact h15 _ (List.getElem_mem hi)
  have h1 := goL_canonCode _ lens hcanon s _ r (get s hs).1 hs (get s hs).2 (kraft_fits lens hk _ hs (get s hs).2)
  have h2 := goL_canonCode _ lens hcanon t _ [] (get t ht).1 ht (get t ht).2 (kraft_fits lens hk _ ht (get t ht).2)
  rw [List.append_nil, ← hr, h1] at h2
  simp only [Option.some.injEq, Prod.mk.injEq] at h2
  exact h2.1

/-- a complete code on the symbols `A`, `B`, end-of-block and the length code 257 (lengths 1, 2, 3, 3) -/
def sampleLitLens : List Nat := List.replicate 65 0 ++ [1, 2] ++ List.replicate 189 0 ++ [3, 3]
example : kraft sampleLitLens = 2 ^ 15 ∧ (∀ l ∈ sampleLitLens, l ≤ 15) ∧ sampleLitLens.length = 258 := by decide +kernel
example : canonCode sampleLitLens 65 = [false] ∧ canonCode sampleLitLens 66 = [true, false] ∧
    canonCode sampleLitLens 256 = [true, true, false] ∧ canonCode sampleLitLens 257 = [true, true, true] := by decide +kernel

/-- a dynamic block with those lengths: `A B A` and a match of length 3 at distance 2 -/
def dynArr : Array Nat :=
  (encMsg (fun _ => .dyn sampleLitLens [1, 1]) [⟨false, [.lit 65, .lit 66, .lit 65, .copy 2 3]⟩] ++ TAIL).toArray
/-- after the 3 + 14 + 57 + 4·260 header bits comes the 1-bit code word of `A` -/
example : Rest dynArr (3 + (dynHeader sampleLitLens [1, 1]).length) =
    canonCode sampleLitLens 65 ++ Rest dynArr (3 + (dynHeader sampleLitLens [1, 1]).length + 1) := by decide +kernel
example : ∃ h, Inflate.mkHuff sampleLitLens.toArray false = some h ∧ h.shape = .complete :=
  complete_lengths_accepted _ _ (by decide +kernel)

/-- **Length table**: for every match length 3..258 the encoder's (code, extra bits) is what the
    inflater's `lbase`/`lext` arrays turn back into that length. -/
theorem length_table (n : Nat) (h3 : 3 ≤ n) (h258 : n ≤ 258) :
    (lenCode n).1 < 29 ∧ lext.getD (lenCode n).1 0 = (lenCode n).2.1 ∧
    lbase.getD (lenCode n).1 0 + (lenCode n).2.2 = n ∧ (lenCode n).2.2 < 2 ^ (lenCode n).2.1 :=
  let h := lenCode_spec n (by omega) h3
  ⟨h.1, h.2.1, h.2.2.1, h.2.2.2.1⟩

/-- **Distance table**: the same for every distance 1..32768. -/
theorem distance_table (d : Nat) (h1 : 1 ≤ d) (h2 : d ≤ 32768) :
    (distCode d).1 < 30 ∧ dext.getD (distCode d).1 0 = (distCode d).2.1 ∧
    dbase.getD (distCode d).1 0 + (distCode d).2.2 = d ∧ (distCode d).2.2 < 2 ^ (distCode d).2.1 :=
  let h := distCode_spec d h1 h2
  ⟨h.1, h.2.1, h.2.2.1, h.2.2.2.1⟩

example : lenCode 258 = (28, 0, 0) ∧ lenCode 257 = (27, 5, 30) ∧ distCode 32768 = (29, 13, 8191) ∧ distCode 1 = (0, 0, 0) := by
  decide

/-! ## 2. Blocks -/

/-- **The body of a fixed-Huffman block**, from any state of the inflater (`out` = everything
    produced so far = the history; its newest `wsize` bytes are the window): if the input from
    `pos` on is the encoder's bits for `toks`, the end-of-block code and anything else, the symbol
    loop returns exactly what the token model's windowed inflater says — `.bad` (zlib.error) when
    some distance reaches beyond the window or the history, otherwise the block's end position
    and the history extended by the LZ77 expansion — overlapping copies (distance 1, length 258)
    and window edges included. -/
theorem fixed_block_body (inp : Array Nat) (hwf : ∀ x ∈ inp.toList, x < 256) (wsize : Nat)
    (toks : List Token) (hok : ∀ t ∈ toks, DeflEnc.Token.ok t = true) (fuel pos : Nat) (out : Array Nat)
    (r : List Bool) (hf : toks.length < fuel)
    (h : Rest inp pos = toks.flatMap tokBits ++ (litCode 256 ++ r)) :
    Inflate.symLoop inp fixedLit fixedDist wsize fuel pos out =
      match inflTokens wsize (winOf wsize out) toks with
      | none => .bad
      | some (_, e) => .done (pos + (toks.flatMap tokBits).length + 7) (out ++ e.reverse.toArray) :=
  symLoop_toks hwf wsize toks hok fuel pos out r hf h

/-- **The body of a Huffman block for any pair of codes** (`Code h cw S`: the code words `cw` of
    the symbols in `S` decode in table `h`, whatever follows — the fixed codes by
    `fixed_literal_code` / `fixed_distance_code`, canonical codes by `canonical_code_decodes`):
    the statement of `fixed_block_body` for tokens written in those codes. -/
theorem huffman_block_body {lit dist : Huff} {lc dc : Nat → List Bool} {Sl Sd : Nat → Prop}
    (cl : Code lit lc Sl) (cd : Code dist dc Sd) (inp : Array Nat) (hwf : ∀ x ∈ inp.toList, x < 256) (wsize : Nat)
    (toks : List Token) (hok : ∀ t ∈ toks, DeflEnc.Token.ok t = true) (hin : ∀ t ∈ toks, tokIn Sl Sd t) (heob : Sl 256)
    (fuel pos : Nat) (out : Array Nat) (r : List Bool) (hf : toks.length < fuel)
    (h : Rest inp pos = toks.flatMap (tokBitsG lc dc) ++ (lc 256 ++ r)) :
    Inflate.symLoop inp lit dist wsize fuel pos out =
      match inflTokens wsize (winOf wsize out) toks with
      | none => .bad
      | some (_, e) =>
        .done (pos + (toks.flatMap (tokBitsG lc dc)).length + (lc 256).length) (out ++ e.reverse.toArray) :=
  symLoopG_toks cl cd hwf wsize toks hok hin heob fuel pos out r hf h

/-- **The header of a dynamic block** (HLIT, HDIST, HCLEN, the code-length code, the
    `|ll| + |dl|` code lengths sent as 4-bit codes): `dynamicTables` rebuilds exactly the tables
    `mkHuff` makes of the encoder's code lengths and stops just after the header. -/
theorem dynamic_header (inp : Array Nat) (hwf : ∀ x ∈ inp.toList, x < 256) (ll dl : List Nat) (p0 : Nat)
    (r : List Bool) (hl1 : 257 ≤ ll.length) (hl2 : ll.length ≤ 286) (hd1 : 1 ≤ dl.length) (hd2 : dl.length ≤ 30)
    (h15 : ∀ l ∈ ll ++ dl, l ≤ 15) (heob : 1 ≤ ll.getD 256 0) (lit dist : Huff)
    (hlit : Inflate.mkHuff ll.toArray false = some lit) (hdist : Inflate.mkHuff dl.toArray false = some dist)
    (h : Rest inp p0 = dynHeader ll dl ++ r) :
    Inflate.dynamicTables inp p0 = .ok (lit, dist) (p0 + (dynHeader ll dl).length) :=
  dynamicTables_spec hwf ll dl p0 r hl1 hl2 hd1 hd2 h15 heob lit dist hlit hdist h

example : dynOk sampleLitLens [1, 1] [.lit 65, .lit 66, .copy 2 3] = true := by decide +kernel

/-- non-vacuity of `fixed_block_body` / `huffman_block_body`: the bits of `helloArr` after the header -/
example : Rest helloArr 3 = [Token.lit 72, .copy 5 4].flatMap tokBits ++ (litCode 256 ++ Rest helloArr 31) := by
  decide +kernel
example : Inflate.symLoop helloArr fixedLit fixedDist 512 100 3 #[1, 2, 3, 4, 5] = .done 31 #[1, 2, 3, 4, 5, 72, 2, 3, 4, 5] := by
  rw [fixed_block_body helloArr (by decide) 512 [.lit 72, .copy 5 4] (by decide) 100 3 #[1, 2, 3, 4, 5] (Rest helloArr 31)
    (by decide) (by decide +kernel)]
  rfl
/-- … and of `dynamic_header`: the header of `dynArr` -/
example : Rest dynArr 3 = dynHeader sampleLitLens [1, 1] ++ Rest dynArr (3 + (dynHeader sampleLitLens [1, 1]).length) := by
  decide +kernel

/-- **A stored block**: after the header the encoder wrote padding to the byte boundary, LEN,
    ~LEN and the bytes; `stored` returns the history extended by those bytes. -/
theorem stored_block (inp : Array Nat) (hwf : ∀ x ∈ inp.toList, x < 256) (p0 off : Nat) (data : Bytes)
    (r : List Bool) (out : Array Nat) (hdata : ∀ x ∈ data, x < 256) (hlen : data.length ≤ 65535)
    (hp : p0 % 8 = off % 8)
    (h : Rest inp p0 = pad off ++ (bitsLE 16 data.length ++ (bitsLE 16 (65535 - data.length) ++ (bitsOf data ++ r)))) :
    Inflate.stored inp p0 out = .done (p0 + (pad off).length + 32 + 8 * data.length) (out ++ data.toArray) :=
  stored_spec hwf out hdata hlen hp h

/-- `00 | 02 00 fd ff | 48 69`: a stored block with the two bytes `Hi` -/
example : Rest #[0x00, 0x02, 0x00, 0xfd, 0xff, 0x48, 0x69] 3 =
    pad 3 ++ (bitsLE 16 2 ++ (bitsLE 16 (65535 - 2) ++ (bitsOf [0x48, 0x69] ++ []))) := by decide +kernel

/-- **One block, whole** (header included; stored, fixed or dynamic as `sb.1` says, BFINAL or not, at
    any bit offset, followed by anything): one round of the block loop does the token model's
    step, fails exactly when it fails, and continues — or, for a BFINAL=1 block, stops
    (`cont = false`, zlib's object) / restarts at the next byte boundary (`cont = true`, the
    repaired code) — with the extended history. -/
theorem block_correct (cont : Bool) (inp : Array Nat) (hwf : ∀ x ∈ inp.toList, x < 256) (wsize fuel pos off : Nat)
    (out : Array Nat) (sb : Kind × Blk) (r : List Bool) (hok : DeflEnc.Blk.ok sb.2 = true)
    (hp : pos % 8 = off % 8) (h : Rest inp pos = blkBits off sb ++ r) :
    Inflate.blocks cont inp wsize (fuel + 1) pos out =
      match inflTokens wsize (winOf wsize out) sb.2.toks with
      | none => none
      | some (_, e) =>
        afterBlk cont inp wsize fuel sb.2.final (pos + (blkBits off sb).length) (out ++ e.reverse.toArray) :=
  blocks_blk cont hwf wsize fuel pos off out sb r
    (fun t ht => by simp only [DeflEnc.Blk.ok, List.all_eq_true] at hok; exact hok t ht) hp h

example : Rest helloArr 0 = blkBits 0 (.fixed, ⟨false, [.lit 72, .copy 5 4]⟩) ++ Rest helloArr 31 := by decide +kernel
example : Rest dynArr 0 = blkBits 0 (.dyn sampleLitLens [1, 1], ⟨false, [.lit 65, .lit 66, .lit 65, .copy 2 3]⟩) ++
    Rest dynArr (blkBits 0 (.dyn sampleLitLens [1, 1], ⟨false, [.lit 65, .lit 66, .lit 65, .copy 2 3]⟩)).length := by
  decide +kernel

/-! ## 3. Messages and histories -/

/-- **The inflater is correct on every history written by the encoder — repaired code.**  For
    every window size, every choice of block types (stored / fixed / dynamic with any complete
    code lengths) and every history of messages made of any
    blocks of encodable tokens (BFINAL anywhere, distances valid or not), `inflateAllSafe` on the
    bytes the client hands to zlib (`enc m₁ ++ 00 00 ff ff ++ enc m₂ ++ …`) returns exactly what
    the token model says these blocks mean, and `none` exactly when the model says so. -/
theorem inflateAllSafe_correct (kind : Blk → Kind) (wbits : Nat) (ms : List (List Blk)) (hok : HistOk ms) :
    AgreesSafe Inflate.inflateAllSafe wbits (encMsg kind) ms :=
  agreesSafe_enc kind wbits ms hok

/-- **… and zlib's object (pinned code)**: `inflateAll` returns what the token model of the
    object (`inflBlocks`: end of stream at the first BFINAL=1 block) says — all histories. -/
theorem inflateAll_correct (kind : Blk → Kind) (wbits : Nat) (ms : List (List Blk)) (hok : HistOk ms) :
    Agrees Inflate.inflateAll wbits (encMsg kind) ms :=
  agrees_enc kind wbits ms hok

/-- a history with stored and fixed blocks, a BFINAL=1 block in the middle of a message, a match
    of length 258 at distance 1 and a match reaching into the previous message -/
def sampleHist : List (List Blk) :=
  [[⟨false, [.lit 72, .lit 105]⟩, ⟨true, [.lit 33, .copy 1 258, .copy 3 100]⟩, ⟨false, [.lit 1]⟩], [⟨false, [.copy 5 4, .lit 9]⟩]]

example : HistOk sampleHist := by decide
example : encMsg (fun b => if b.toks.length = 2 then .stored else .fixed) (sampleHist.getD 0 []) =
    [0x00, 0x02, 0x00, 0xfd, 0xff, 0x48, 0x69, 0x53, 0x1c, 0x05, 0xf4, 0x40, 0x00, 0x62, 0x04, 0x00] := by decide +kernel
example : (tokenOutSafe (2 ^ 9) sampleHist).map List.length = some 367 := by decide +kernel

/-- **One message, in terms of the LZ77 meaning**: if the tokens of the message's blocks (any
    block structure) expand to `out` with every distance at most `D ≤ 2^wbits`, the inflater
    returns exactly `out`. -/
theorem inflate_expand (kind : Blk → Kind) (wbits D : Nat) (hD : D ≤ 2 ^ wbits) (m : List Blk) (hok : HistOk [m])
    (out : Bytes) (h : expand D [] (m.flatMap (·.toks)) = some out) :
    Inflate.inflateAllSafe wbits (encMsg kind m ++ TAIL) = some out.reverse := by
  have hA := agreesSafe_enc kind wbits [m] hok
  simp only [AgreesSafe, encHist, List.flatMap_cons, List.flatMap_nil, List.append_nil, tokenOutSafe] at hA
  rw [hA, inflBlocksAll_flat]
  have : (unstrip m).flatMap (·.toks) = m.flatMap (·.toks) := by simp [unstrip, tailBlk]
  rw [this]
  have := inflTokens_of_expand D (2 ^ wbits) hD _ [] [] out h
  simp only [List.append_nil, List.take_nil] at this
  rw [this]
  rfl

example : expand 300 [] (([⟨false, [.lit 7, .copy 1 258]⟩, ⟨true, [.copy 259 3]⟩] : List Blk).flatMap (·.toks))
    = some (List.replicate 262 7) := by decide +kernel

/-- **A message after a history**: `prev` has been received and means `e0` (newest first), leaving
    the window `win`; the next message's bytes appended to the history inflate to `e0` followed by
    what the windowed token inflater makes of the message's tokens from `win` — or fail with it. -/
theorem inflate_message_after_history (kind : Blk → Kind) (wbits : Nat) (prev : List (List Blk)) (m : List Blk)
    (hok : HistOk (prev ++ [m])) (win e0 : Bytes)
    (h0 : inflBlocksAll (2 ^ wbits) [] (prev.flatMap unstrip) = some (win, e0)) :
    Inflate.inflateAllSafe wbits (encHist (encMsg kind) prev ++ encMsg kind m ++ TAIL) =
      (inflTokens (2 ^ wbits) win (m.flatMap (·.toks))).map (fun r => e0.reverse ++ r.2.reverse) := by
  have hA := agreesSafe_enc kind wbits (prev ++ [m]) hok
  simp only [AgreesSafe, encHist_snoc, tokenOutSafe, flatMap_unstrip_snoc] at hA
  rw [hA, inflBlocksAll_append, h0]
  simp only
  rw [inflBlocksAll_flat]
  have : (unstrip m).flatMap (·.toks) = m.flatMap (·.toks) := by simp [unstrip, tailBlk]
  rw [this]
  cases inflTokens (2 ^ wbits) win (m.flatMap (·.toks)) with
  | none => rfl
  | some r => simp

example : HistOk ([sampleHist.getD 0 []] ++ [sampleHist.getD 1 []]) ∧
    (inflBlocksAll (2 ^ 9) [] ([sampleHist.getD 0 []].flatMap unstrip)).isSome = true := by
  constructor
  · decide
  · decide +kernel

/-! ## 4. The client: the `Agrees` hypotheses discharged -/

/-- **Never wrong, core model with the proved inflater (repaired code).**  `never_wrong_core`
    without its hypothesis about `inflate`: a client whose inflater is `Inflate.inflateAllSafe`,
    fed any history of messages written by the reference encoder — any blocks, stored or fixed,
    BFINAL anywhere, valid or invalid distances — delivers for each message exactly what RFC 7692
    says its DEFLATE data means, and fails exactly where that is undefined. -/
theorem never_wrong_core_inflater (kind : Blk → Kind) (d : Http.DeflateCfg) (msgs : List (List Blk)) (s : Sys)
    (hd : s.compression = some d) (hh : s.inflHist = []) (ho : s.inflOut = 0)
    (hi : s.cfg.inflate = Inflate.inflateAllSafe) (hok : HistOk msgs) :
    feedMsgs (msgs.map (encMsg kind)) s = rfcOutputs (2 ^ d.decompressWbits) d.resetDecompress [] msgs := by
  apply never_wrong_core (encMsg kind) d msgs s hd hh ho
  rw [hi]
  split
  · intro m hm
    exact agreesSafe_enc kind _ [m] (histOk_single msgs hok m hm)
  · intro k _
    exact agreesSafe_enc kind _ _ (histOk_take msgs hok k)

/-- **The pinned code**: `core_refines_tokens` without its hypothesis — with `Inflate.inflateAll`
    the core model computes the token-level `wholeOutputs` (zlib's object: D6 included) on every
    history written by the encoder. -/
theorem core_refines_tokens_inflater (kind : Blk → Kind) (d : Http.DeflateCfg) (msgs : List (List Blk)) (s : Sys)
    (hd : s.compression = some d) (hh : s.inflHist = []) (ho : s.inflOut = 0)
    (hi : s.cfg.inflate = Inflate.inflateAll) (hok : HistOk msgs) :
    feedMsgs (msgs.map (encMsg kind)) s = wholeOutputs (2 ^ d.decompressWbits) d.resetDecompress [] 0 msgs := by
  apply core_refines_tokens (encMsg kind) d msgs s hd hh ho
  rw [hi]
  split
  · intro m hm
    exact agrees_enc kind _ [m] (histOk_single msgs hok m hm)
  · intro k _
    exact agrees_enc kind _ _ (histOk_take msgs hok k)

/-- **Lossless peer → client, unconditional in the inflater (repaired code).**  Any peer
    compressor honouring the negotiated window (`Compressor (2^sw)`: distances within its history
    and ≤ 2^sw), context takeover or reset as negotiated, any message history; each message's
    tokens cut into **any** blocks (`bs`: the blocks of message `i`, concatenated, are the
    compressor's tokens for message `i`; stored or fixed per block as `kind` says; BFINAL=1
    anywhere) and written by the reference encoder: the client delivers every message exactly. -/
theorem lossless_any_blocks_repaired (kind : Blk → Kind) (d : Http.DeflateCfg)
    (c : Compressor (2 ^ d.decompressWbits)) (peerResets : Bool) (hk : peerResets = false → d.resetDecompress = false)
    (msgs : List Bytes) (bs : List (List Blk))
    (hbs : bs.map (fun m => m.flatMap (·.toks)) = senderTokens c peerResets [] msgs) (hok : HistOk bs)
    (s : Sys) (hd : s.compression = some d) (hh : s.inflHist = []) (ho : s.inflOut = 0)
    (hi : s.cfg.inflate = Inflate.inflateAllSafe) :
    feedMsgs (bs.map (encMsg kind)) s = some msgs := by
  rw [never_wrong_core_inflater kind d bs s hd hh ho hi hok, rfc_flat, hbs]
  exact lossless_history c _ (Nat.le_refl _) _ _ hk msgs

/-- **… and the pinned code**, for peers that never set BFINAL (as `core_lossless_peer_to_client`,
    now for any block structure and without the hypothesis about `inflate`). -/
theorem lossless_any_blocks_pinned (kind : Blk → Kind) (d : Http.DeflateCfg)
    (c : Compressor (2 ^ d.decompressWbits)) (peerResets : Bool) (hk : peerResets = false → d.resetDecompress = false)
    (msgs : List Bytes) (bs : List (List Blk))
    (hbs : bs.map (fun m => m.flatMap (·.toks)) = senderTokens c peerResets [] msgs) (hok : HistOk bs)
    (hn : ∀ m ∈ bs, ∀ b ∈ m, b.final = false)
    (s : Sys) (hd : s.compression = some d) (hh : s.inflHist = []) (ho : s.inflOut = 0)
    (hi : s.cfg.inflate = Inflate.inflateAll) :
    feedMsgs (bs.map (encMsg kind)) s = some msgs := by
  rw [core_refines_tokens_inflater kind d bs s hd hh ho hi hok, whole_history_is_streaming,
    never_wrong_partial _ _ _ hn, rfc_flat, hbs]
  exact lossless_history c _ (Nat.le_refl _) _ _ hk msgs

/-! ### non-vacuity of the client theorems -/

/-- four messages through `echoCompressor` (the 2nd and 3rd are single back-references into the
    previous messages), the first cut into a stored and a fixed BFINAL=1 block -/
def sampleMsgs : List Bytes := [[1, 2, 3], [1, 2, 3], [3, 1, 2, 3], [9]]
def sampleBlocks : List (List Blk) :=
  [[⟨false, [.lit 1]⟩, ⟨true, [.lit 2, .lit 3]⟩], [⟨false, [.copy 3 3]⟩], [⟨false, []⟩, ⟨true, [.copy 4 4]⟩], [⟨false, [.lit 9]⟩]]

/-- complete code lengths for the literals 1, 2, 3, 9, end-of-block and the length codes 257, 258 -/
def sampleLens2 : List Nat := [0, 3, 3, 3, 0, 0, 0, 0, 0, 3] ++ List.replicate 246 0 ++ [3, 3, 2]
/-- the two BFINAL=1 blocks are really written as dynamic blocks (distance codes 2 and 3 of lengths 1, 1) -/
example : dynOk sampleLens2 [0, 0, 1, 1] [.lit 2, .lit 3] = true ∧ dynOk sampleLens2 [0, 0, 1, 1] [.copy 4 4] = true := by
  decide +kernel

example : sampleBlocks.map (fun m => m.flatMap (·.toks)) = senderTokens (echoCompressor (2 ^ 9)) false [] sampleMsgs := by
  decide
example : HistOk sampleBlocks := by decide

example (r : React) :
    feedMsgs (sampleBlocks.map (encMsg (fun b => if b.final then .dyn sampleLens2 [0, 0, 1, 1] else .stored)))
      { cfg := { inflate := Inflate.inflateAllSafe }, react := r, env := [],
        compression := some { decompressWbits := 9, compressWbits := 15, resetDecompress := false, resetCompress := false } }
      = some sampleMsgs :=
  lossless_any_blocks_repaired _ _ (echoCompressor (2 ^ 9)) false (fun _ => rfl) sampleMsgs sampleBlocks
    (by decide) (by decide) _ rfl rfl rfl rfl

example (r : React) :
    feedMsgs ((sampleMsgs.map fun m => oneBlock (m.map Token.lit)).map (encMsg (fun _ => .stored)))
      { cfg := { inflate := Inflate.inflateAll }, react := r, env := [],
        compression := some { decompressWbits := 8, compressWbits := 15, resetDecompress := true, resetCompress := false } }
      = rfcOutputs (2 ^ 8) true [] (sampleMsgs.map fun m => oneBlock (m.map Token.lit)) := by
  rw [core_refines_tokens_inflater _ _ _ _ rfl rfl rfl rfl (by decide), whole_history_is_streaming,
    never_wrong_partial _ _ _ (by decide)]

/-- the same four messages as non-final blocks (what `lossless_any_blocks_pinned` needs), mixed kinds -/
def sampleBlocksNF : List (List Blk) :=
  [[⟨false, [.lit 1]⟩, ⟨false, [.lit 2, .lit 3]⟩], [⟨false, [.copy 3 3]⟩], [⟨false, []⟩, ⟨false, [.copy 4 4]⟩], [⟨false, [.lit 9]⟩]]

example (r : React) :
    feedMsgs (sampleBlocksNF.map (encMsg (fun b => if b.toks.length = 1 then .dyn sampleLens2 [0, 0, 1, 1] else .stored)))
      { cfg := { inflate := Inflate.inflateAll }, react := r, env := [],
        compression := some { decompressWbits := 9, compressWbits := 15, resetDecompress := false, resetCompress := false } }
      = some sampleMsgs :=
  lossless_any_blocks_pinned _ _ (echoCompressor (2 ^ 9)) false (fun _ => rfl) sampleMsgs sampleBlocksNF
    (by decide) (by decide) (by decide) _ rfl rfl rfl rfl

end Lomond.C06
