/-
  C08, end to end — the closing handshake over a whole connection `Core.runAll cfg react env`,
  in both directions.  (The theorems of Properties/C08.lean about the two central clauses are step
  lemmas under hypotheses such as `regularTop … = .ok`; here the whole run is computed.)
  Helper lemmas: Proofs/ClosingRun.lean.

  Setting (as in C01E2E / C04E2E):
  * configuration: `_connect()` succeeds (`connect = .ok proxy`), **no write fault**
    (`writeFails k = false` for every `sendall`), `poll > 0`; every variant, any `autoPong`, any
    ping rate / timeouts (no timer fires: see the environment);
  * environment: the reads `chunks` — non-empty, otherwise arbitrary: **every segmentation**, cuts
    inside the HTTP reply, inside frame headers, between the client's and the server's Close —
    all with `wait 0` (**the clock stands still, so no timer fires**: the first Poll directly after
    Ready is the only one; close timeout / ping timeout / automatic Ping are C15), whose
    concatenation is `reply ++ wire(items) ++ Close frame`, followed by any further script;
  * `reply`: any upgrade reply accepted without extension (`E2E.GoodReply`, cf. C10);
    `items`: any conforming server items (`Item.Ok`: control frames, data messages in any
    fragmentation with interleaved Ping/Pong, any legal length form, Text valid UTF-8);
    `c : CloseF`: any legal Close frame (no body, or a non-reserved code and a UTF-8 reason);
  * application (`CR.AppK`): an arbitrary function of the event history that only *sends* (text /
    binary / ping / pong, any arguments, valid or not, at any event), except — client-first — that
    its reaction to the event with index `K - 1` (history length `K`, `K ≥ 2`: `Connected` or any
    later event, **also a Ping/Pong arriving between the fragments of a message**) is
    `sends ++ [close(code, reason)] ++ sends` with arguments `close()` accepts.

  Vocabulary for traces (newest first; Proofs/ClosingRun.lean):
  * `Tstart cfg l0 = .wr request :: l0 ++ [.ev Connecting]`, `l0` = results of the calls made at
    `Connecting` (no socket yet);
  * `PhaseA auto A` — the trace while the websocket is open consists of: events; for every Ping
    event (automatic pongs on) the library's Pong frame `Pong.pongBytes d key` *directly before
    it*; results of application calls, a frame handed to `sendall` directly before the result of
    the call that wrote it.  So the library writes exactly one Pong per Ping and nothing else
    (`PhaseA.write_kinds`, `PhaseA.ping_answered`, `PhaseA.no_pong`);
  * `PongsOnly auto A` — `PhaseA` without application calls: events and the Pong directly before
    each Ping event, nothing else (`PongsOnly.written`: the frames written are the Pongs for the
    Pings, in order);
  * `PhaseB B` — no entry of `B` is a write (`.wr`, `.wrz`, `.wrFail`) and none is `.res ok`:
    nothing reaches `sendall`, every call fails.
-/
import Lomond.Proofs.ClosingRun
import Lomond.Properties.C01_E2E
import Lomond.Properties.C08

namespace Lomond.C08E2E
open Lomond Lomond.Core Lomond.Core.E2E Lomond.Core.CR

/-- the history (newest first) the application has been shown once the server's Close has been
    reported as `last` (`Closed` / `Closing`): the histories it was shown earlier are the proper
    suffixes of this list -/
def allEvents (proxy : Bool) (proto : Option Http.Str) (items : List Item) (last : Event) : List Event :=
  last :: ((items.flatMap Item.events).reverse ++ [.poll, .ready proto false, .connected proxy, .connecting])

/-! ## (a) The client closes first -/

/-- **Client-initiated closing handshake, end to end.**  The application calls
    `close(code, reason)` in its reaction to the event with index `K - 1 ≥ 1` (`Connected`, `Ready`,
    the first `Poll`, or any message event: `K ≤ 4 + number of item events`) and otherwise only
    sends; the server sends `items`, then the Close frame `c`.  Then the whole trace of the
    connection is (newest first)

        B ++ .res ok :: .wr (Close frame) :: A ++ Tstart cfg l0

    * `A` (`PhaseA`): everything from `Connected` up to the `close()` call — the events (exactly
      `K` of them including `Connecting`: the newest is the one the application reacted to), the
      library's Pong directly before each Ping event seen so far, the application's own sends —
      and **nothing else written**;
      for an application that makes no call before its `close()` (`react h = []` for the histories
      of fewer than `K` events it is actually shown, `close()` first in its reaction to the
      K-th) `A` is `PongsOnly`: events, the Pong directly
      before each Ping event, and nothing else — **the bytes written between the upgrade request
      and the Close frame are exactly the Pongs for the Pings seen so far, in order**
      (`PongsOnly.written`);
    * then **one** Close frame `88 80+len key masked(code ++ reason)` carrying exactly the given
      code and reason, and the `ok` result of `close()`;
    * `B` (`PhaseB`): after it nothing at all is handed to `sendall` (no Pong for later Pings, no
      data frame, no second Close) and every application call fails (`WebSocketClosing`, at
      `Disconnected` `WebSocketUnavailable`, or the argument errors);
    * the events of the connection are exactly `Connecting, Connected, Ready, Poll`, **every item
      event — those arriving after the `close()` included —**, then `Closed(code', reason')` with
      the server's code and reason, then `Disconnected('closed', graceful=True)`;
    * the socket is closed at the end; the rest of the environment script is never consulted. -/
theorem client_close_end_to_end (cfg : Cfg) (react : React) (proxy : Bool) (proto : Option Http.Str)
    (K : Nat) (code : Option Nat) (reason : Arg) (rb : Bytes)
    (hconn : cfg.connect = .ok proxy) (hnf : ∀ k, cfg.writeFails k = false) (hpoll : 0 < cfg.poll)
    (hK2 : 2 ≤ K) (hrb : reasonBytes reason = some rb) (hargs : CloseArgsOk code rb)
    (happ : AppK (some K) code reason react)
    (reply : Bytes) (hreply : GoodReply cfg reply proto)
    (items : List Item) (hok : ∀ it ∈ items, it.Ok) (c : CloseF) (hc : c.Ok)
    (hK : K ≤ 4 + (items.flatMap Item.events).length)
    (chunks : List Bytes) (hne : ∀ x ∈ chunks, x ≠ [])
    (hflat : chunks.flatten = reply ++ (wireBytes (items.flatMap Item.wire) ++ c.wire.bytes))
    (rest : List EnvStep) :
    ∃ l0 A key B,
      (runAll cfg react (reads chunks ++ rest)).trace =
        B ++ .res .ok :: .wr (closeFrame (buildClosePayload code rb) key) :: (A ++ Tstart cfg l0) ∧
      (∀ o ∈ l0, Obs.isRes o = true) ∧ PhaseA cfg.autoPong A ∧
      (Monitor.histOf (A ++ Tstart cfg l0)).length = K ∧ PhaseB B ∧
      ((∀ h, h <:+ allEvents proxy proto items (.closed c.code c.reason) → h.length < K → react h = []) →
        (∀ h, h <:+ allEvents proxy proto items (.closed c.code c.reason) → h.length = K → HeadNotSend (react h)) →
        PongsOnly cfg.autoPong A) ∧
      Monitor.events (runAll cfg react (reads chunks ++ rest)).trace =
        [.connecting, .connected proxy, .ready proto false, .poll] ++ items.flatMap Item.events ++
          [.closed c.code c.reason, .disconnected "closed" true] ∧
      (runAll cfg react (reads chunks ++ rest)).sockOpen = false := by
  have hp : Par (some K) code reason rb cfg :=
    ⟨hnf, hpoll, hrb, hargs, (fun K' h => by cases h; exact hK2)⟩
  have hD : reply ++ (wireBytes (items.flatMap Item.wire) ++ c.wire.bytes) ≠ [] := by
    intro e; exact goodReply_ne hreply (List.append_eq_nil_iff.mp e).1
  obtain ⟨ht, hs⟩ := runAll_one_read cfg react hpoll happ.noSessionClose chunks _ rest hne hD hflat
  obtain ⟨l0, B, A, key, h1, h2, h3, h4, h5, hn, h6, h7⟩ :=
    client_close_run K code reason rb cfg hp react proxy proto hconn happ hreply items hok c hc hK rest
  refine ⟨l0, A, key, B, ht.trans h1, h2, h3, h5, h4, fun a b => h3.pongsOnly (hn a b), ?_, hs.trans h7⟩
  rw [events_eq_hist, ht, h6]
  simp

/-! ## (c) `close()` at the `Connected` event, before the handshake reply -/

/-- **`close()` at `Connected`** (the instance `K = 2` of `client_close_end_to_end`, spelled out).
    The upgrade request has been written; `close()` finds the socket open and the websocket
    neither closing nor closed, so **the Close frame goes out right behind the request**, before
    the server's reply has been read (`A` contains exactly one event, `Connected`, and what the
    application sent before calling `close()`).  The handshake is *not* abandoned: the reply is
    still parsed and accepted, `Ready` and the first `Poll` are handed to the application, every
    message the server sends is delivered — but nothing is written any more (no Pong, every send
    refused: `PhaseB`) — and when the server's Close arrives the connection ends with
    `Closed(code', reason')`, `Disconnected('closed', graceful=True)` and the socket closed.
    (Behaviour as the code has it — `WebSocket.close()` only looks at `is_closed` / `is_closing`,
    `feed()` does not look at `is_closing` — fixed here at run level.) -/
theorem close_at_connected_end_to_end (cfg : Cfg) (react : React) (proxy : Bool) (proto : Option Http.Str)
    (code : Option Nat) (reason : Arg) (rb : Bytes)
    (hconn : cfg.connect = .ok proxy) (hnf : ∀ k, cfg.writeFails k = false) (hpoll : 0 < cfg.poll)
    (hrb : reasonBytes reason = some rb) (hargs : CloseArgsOk code rb)
    (happ : AppK (some 2) code reason react)
    (reply : Bytes) (hreply : GoodReply cfg reply proto)
    (items : List Item) (hok : ∀ it ∈ items, it.Ok) (c : CloseF) (hc : c.Ok)
    (chunks : List Bytes) (hne : ∀ x ∈ chunks, x ≠ [])
    (hflat : chunks.flatten = reply ++ (wireBytes (items.flatMap Item.wire) ++ c.wire.bytes))
    (rest : List EnvStep) :
    ∃ l0 A key B,
      (runAll cfg react (reads chunks ++ rest)).trace =
        B ++ .res .ok :: .wr (closeFrame (buildClosePayload code rb) key) :: (A ++ Tstart cfg l0) ∧
      (∀ o ∈ l0, Obs.isRes o = true) ∧ PhaseA cfg.autoPong A ∧
      Monitor.histOf A = [.connected proxy] ∧ PhaseB B ∧
      Monitor.histOf B =
        [.disconnected "closed" true, .closed c.code c.reason] ++ (items.flatMap Item.events).reverse ++
          [.poll, .ready proto false] ∧
      (runAll cfg react (reads chunks ++ rest)).sockOpen = false := by
  obtain ⟨l0, A, key, B, h1, h2, h3, h4, h5, _, h6, h7⟩ :=
    client_close_end_to_end cfg react proxy proto 2 code reason rb hconn hnf hpoll (Nat.le_refl 2) hrb hargs happ
      reply hreply items hok c hc (by omega) chunks hne hflat rest
  have hl0 : hist l0 = [] := hist_nonEv l0 (fun o ho => by
    have := h2 o ho
    cases o <;> first | rfl | (simp [Obs.isRes] at this))
  have hT : hist (Tstart cfg l0) = [.connecting] := by
    show hist (.wr cfg.request :: (l0 ++ [.ev .connecting])) = _
    rw [hist_cons_nonEv _ _ rfl, hist_append, hl0]; rfl
  -- all events, newest first
  have hall : hist (runAll cfg react (reads chunks ++ rest)).trace =
      [.disconnected "closed" true, .closed c.code c.reason] ++ (items.flatMap Item.events).reverse ++
        [.poll, .ready proto false, .connected proxy, .connecting] := by
    have := congrArg List.reverse h6
    rw [events_eq_hist, List.reverse_reverse] at this
    rw [this]; simp
  rw [h1, hist_append, hist_cons_nonEv _ _ rfl, hist_cons_nonEv _ _ rfl, hist_append, hT] at hall
  have hA : (hist A).length = 1 := by
    have : (hist (A ++ Tstart cfg l0)).length = 2 := h4
    rw [hist_append, hT] at this
    simpa using this
  -- split by lengths
  have e1 : hist B ++ (hist A ++ [Event.connecting]) =
      ([.disconnected "closed" true, .closed c.code c.reason] ++ (items.flatMap Item.events).reverse ++
        [.poll, .ready proto false]) ++ ([.connected proxy] ++ [Event.connecting]) := by
    rw [hall]; simp
  have hlen : (hist A ++ [Event.connecting]).length = ([Event.connected proxy] ++ [Event.connecting]).length := by
    simp [hA]
  obtain ⟨eB, eA⟩ := List.append_inj' e1 hlen
  exact ⟨l0, A, key, B, h1, h2, h3, List.append_cancel_right eA, h5, eB, h7⟩

/-! ## (b) The server closes first -/

/-- **Server-initiated closing handshake, end to end.**  The application only sends (at any event,
    in particular while handling `Closing`); the server sends `items`, then the Close frame `c`,
    then drops the connection (end of stream).  Then the whole trace of the connection is

        post ++ .wr (Close echo) :: l ++ A ++ Tstart cfg l0

    * `A` (`PhaseA`): from `Connected` to just before the server's Close: the item events, one
      Pong directly before each Ping event, the application's sends — nothing else written;
      for an application that is silent up to then (`react h = []` for every history it is
      actually shown before `Closing`) `A` is `PongsOnly`: the bytes written after the
      request are exactly the Pongs for the Pings;
    * `l`: the `Closing(code, reason)` event — the only event in `l` — followed by what the
      application did in reaction to it: its sends are still carried out (`PhaseA (l ++ A)`: a
      write in `l` is an application call's, directly before that call's result);
    * then **exactly one** Close frame, the echo: it carries the received payload `c.payload` —
      the same code, and the reason decoded and re-encoded gives back the same bytes
      (`buildClosePayload code (encodeReplace reason) = c.payload`);
    * `post` (`PhaseB`): nothing is handed to `sendall` after the echo — no data frame, no second
      Close —, every later call fails; its only event is `Disconnected('closed', graceful=True)`;
    * the events of the connection are `Connecting, Connected, Ready, Poll`, the item events,
      `Closing(code, reason)`, `Disconnected('closed', graceful=True)`; the socket is closed. -/
theorem server_close_end_to_end (cfg : Cfg) (react : React) (proxy : Bool) (proto : Option Http.Str)
    (hconn : cfg.connect = .ok proxy) (hnf : ∀ k, cfg.writeFails k = false) (hpoll : 0 < cfg.poll)
    (happ : SendOnly react)
    (reply : Bytes) (hreply : GoodReply cfg reply proto)
    (items : List Item) (hok : ∀ it ∈ items, it.Ok) (c : CloseF) (hc : c.Ok)
    (chunks : List Bytes) (hne : ∀ x ∈ chunks, x ≠ [])
    (hflat : chunks.flatten = reply ++ (wireBytes (items.flatMap Item.wire) ++ c.wire.bytes))
    (rest : List EnvStep) :
    ∃ l0 A l key post,
      (runAll cfg react (reads chunks ++ (.wait 0 (some .eof) :: rest))).trace =
        post ++ .wr (closeFrame c.payload key) :: (l ++ (A ++ Tstart cfg l0)) ∧
      (∀ o ∈ l0, Obs.isRes o = true) ∧ PhaseA cfg.autoPong A ∧ PhaseA cfg.autoPong (l ++ A) ∧
      ((∀ h, h <:+ (allEvents proxy proto items (.closing c.code c.reason)).tail → react h = []) →
        PongsOnly cfg.autoPong A) ∧
      Monitor.histOf l = [.closing c.code c.reason] ∧
      buildClosePayload c.code (encodeReplace c.reason) = c.payload ∧
      PhaseB post ∧ Monitor.histOf post = [.disconnected "closed" true] ∧
      Monitor.events (runAll cfg react (reads chunks ++ (.wait 0 (some .eof) :: rest))).trace =
        [.connecting, .connected proxy, .ready proto false, .poll] ++ items.flatMap Item.events ++
          [.closing c.code c.reason, .disconnected "closed" true] ∧
      (runAll cfg react (reads chunks ++ (.wait 0 (some .eof) :: rest))).sockOpen = false := by
  have hD : reply ++ (wireBytes (items.flatMap Item.wire) ++ c.wire.bytes) ≠ [] := by
    intro e; exact goodReply_ne hreply (List.append_eq_nil_iff.mp e).1
  obtain ⟨ht, hs⟩ := runAll_one_read cfg react hpoll (fun h hm => by
      have := happ h _ hm; simp [isSendAct] at this)
    chunks _ (.wait 0 (some .eof) :: rest) hne hD hflat
  obtain ⟨l0, post, l, A, key, h1, h2, h3, h4, hn, h5, h6, h7, h8, h9⟩ :=
    server_close_run cfg react proxy proto hnf hpoll hconn happ hreply items hok c hc rest
  refine ⟨l0, A, l, key, post, ht.trans h1, h2, h3, h4, fun a => h3.pongsOnly (hn a), h5, close_echo_payload c hc,
    h7, h8, ?_, hs.trans h9⟩
  rw [events_eq_hist, ht, h1, hist_append, h8, hist_cons_nonEv _ _ rfl, hist_append, h5, h6]
  simp

/-! ## Reading the trace shapes -/

/-- **what `PhaseA` says about the wire**: a frame handed to `sendall` is either an application
    call's — then the call's result follows it directly — or, with automatic pongs on, the
    library's Pong `8A 80+len key masked(d)` for the Ping event `Ping(d)` that follows it directly;
    and every Ping event is answered so.  Hence, for an application that makes no call before it
    closes, the bytes written between the upgrade request and the Close frame are exactly the Pongs
    for the Pings seen, in order. -/
theorem phaseA_wire (auto : Bool) (A : List Obs) (h : PhaseA auto A) :
    (∀ pre o post, A = pre ++ o :: post → o.isWrite = true →
      (∃ pre' r, pre = pre' ++ [.res r]) ∨
      (auto = true ∧ ∃ pre' d key, pre = pre' ++ [.ev (.ping d)] ∧ o = .wr (Pong.pongBytes d key))) ∧
    (auto = true → ∀ pre d post, A = pre ++ .ev (.ping d) :: post →
      ∃ key post', post = .wr (Pong.pongBytes d key) :: post') :=
  ⟨h.write_kinds, fun ha => by subst ha; exact h.ping_answered⟩

/-- **what `PhaseB` says**: no frame reaches `sendall` — successfully or not — and no call of the
    application returns normally -/
theorem phaseB_silent (B : List Obs) (h : PhaseB B) :
    (∀ d, Obs.wr d ∉ B) ∧ (∀ op pl, Obs.wrz op pl ∉ B) ∧ (∀ d, Obs.wrFail d ∉ B) ∧ Obs.res .ok ∉ B := by
  refine ⟨fun d hm => ?_, fun op pl hm => ?_, fun d hm => ?_, fun hm => ?_⟩
  · have := (h _ hm).1; cases this
  · have := (h _ hm).1; cases this
  · have := (h _ hm).1; cases this
  · exact (h _ hm).2 rfl

/-! ## Non-vacuity -/

/-- sends a Ping at every event; at the fifth event (index 4: the Ping that arrives *between the
    fragments* of the server's Text message) it sends `hi`, calls `close(1000, b'bye')`, and tries
    to send a Binary -/
def exReact : React := fun h =>
  if h.length = 5 then
    [.sendText (.str [104, 105]) false, .close (some 1000) (.bytes [98, 121, 101]), .sendBinary (.bytes [1]) false]
  else [.sendPing (.bytes [9])]

/-- the example application is of the class of `client_close_end_to_end` with `K = 5` -/
theorem exApp : AppK (some 5) (some 1000) (.bytes [98, 121, 101]) exReact := by
  constructor
  · intro h hk a ha
    have : h.length ≠ 5 := fun e => hk (by rw [e])
    simp only [exReact, this, if_false, List.mem_singleton] at ha
    subst ha; rfl
  · intro h hk
    have : h.length = 5 := (Option.some.inj hk).symm
    refine ⟨[.sendText (.str [104, 105]) false], [.sendBinary (.bytes [1]) false], ?_, ?_, ?_⟩
    · simp [exReact, this]
    · intro a ha; simp only [List.mem_singleton] at ha; subst ha; rfl
    · intro a ha; simp only [List.mem_singleton] at ha; subst ha; rfl

/-- the server stream of the example: C01's items, then Close 1000 `ok` -/
def exStream : Bytes := wireBytes (C01.exItems.flatMap Item.wire) ++ C01.exClose.wire.bytes

/-- `client_close_end_to_end` applies: C01's example stream (a fragmented Text with a Ping and a Pong
    between its fragments, a Pong, a 126-byte Binary, then Close 1000 `ok`), one byte per read -/
example : ∃ l0 A key B,
    (runAll C01E2E.exCfg exReact (reads ((C01E2E.exReply ++ exStream).map (fun b => [b])) ++ [])).trace =
      B ++ .res .ok :: .wr (closeFrame (buildClosePayload (some 1000) [98, 121, 101]) key) ::
        (A ++ Tstart C01E2E.exCfg l0) ∧
    PhaseA true A ∧ PhaseB B :=
  by
    obtain ⟨l0, A, key, B, h1, _, h3, _, h5, _, _, _⟩ :=
      client_close_end_to_end C01E2E.exCfg exReact false none 5 (some 1000) (.bytes [98, 121, 101]) [98, 121, 101]
        rfl (fun _ => rfl) (by decide) (by decide) rfl ⟨(fun c h => by cases h; decide), (by decide)⟩ exApp
        C01E2E.exReply C01E2E.exGoodReply C01.exItems C01.ex_conforming.1 C01.exClose
        (C01.ex_conforming.2 _ rfl) (by decide +kernel) _ (bytewise_ne _) (bytewise_flatten _) []
    exact ⟨l0, A, key, B, h1, h3, h5⟩

/-- the same connection (three reads) evaluated directly: the Pong for the Ping, the Ping event,
    `hi`, **the Close frame `88 85 key 03 E8 'bye'`**; from then on every call is refused
    (`wsClosing`), the later Pong / Text / Pong / Binary are still delivered, no Pong goes out for
    anything; the server's Close gives `Closed(1000, 'ok')`, then the graceful end -/
example : (runAll C01E2E.exCfg exReact (reads [(C01E2E.exReply ++ exStream).take 127,
      ((C01E2E.exReply ++ exStream).drop 127).take 9, (C01E2E.exReply ++ exStream).drop 136])).trace.reverse =
    [.ev .connecting, .res .wsUnavailable, .wr (Http.lit "GET / HTTP/1.1\r\n\r\n"), .ev (.connected false),
     .wr [137, 129, 0, 0, 0, 0, 9], .res .ok, .ev (.ready none false), .wr [137, 129, 0, 0, 0, 0, 9], .res .ok,
     .ev .poll, .wr [137, 129, 0, 0, 0, 0, 9], .res .ok,
     .wr [138, 130, 0, 0, 0, 0, 1, 2], .ev (.ping [1, 2]),
     .wr [129, 130, 0, 0, 0, 0, 104, 105], .res .ok,
     .wr [136, 133, 0, 0, 0, 0, 3, 232, 98, 121, 101], .res .ok, .res .wsClosing,
     .ev (.pong []), .res .wsClosing, .ev (.text [0x20AC, 0x61]), .res .wsClosing,
     .ev (.pong [7]), .res .wsClosing, .ev (.binary (List.replicate 126 255)), .res .wsClosing,
     .ev (.closed (some 1000) [111, 107]), .res .wsClosing, .sockClose,
     .ev (.disconnected "closed" true), .res .wsUnavailable, .selClose] := by
  decide +kernel

/-- closes at `Connected` (`close()` with the defaults of the library: 1000, `b'goodbye'`) and
    never does anything else -/
def exReactEarly : React := fun h =>
  if h.length = 2 then [.close (some 1000) (.bytes [103, 111, 111, 100, 98, 121, 101])] else []

/-- the application closing at `Connected` is of the class of `close_at_connected_end_to_end` -/
theorem exAppEarly : AppK (some 2) (some 1000) (.bytes [103, 111, 111, 100, 98, 121, 101]) exReactEarly := by
  constructor
  · intro h hk a ha
    have : h.length ≠ 2 := fun e => hk (by rw [e])
    simp [exReactEarly, this] at ha
  · intro h hk
    have : h.length = 2 := (Option.some.inj hk).symm
    exact ⟨[], [], by simp [exReactEarly, this], sendActs_nil, sendActs_nil⟩

/-- this application makes no call before its `close()`: with `client_close_end_to_end` everything
    between the upgrade request and the Close frame is `PongsOnly` — here (the server has not
    spoken yet) just the `Connected` event -/
example : ∃ l0 A key B,
    (runAll C01E2E.exCfg exReactEarly (reads ((C01E2E.exReply ++ exStream).map (fun b => [b])) ++ [])).trace =
      B ++ .res .ok :: .wr (closeFrame (buildClosePayload (some 1000) [103, 111, 111, 100, 98, 121, 101]) key) ::
        (A ++ Tstart C01E2E.exCfg l0) ∧
    PongsOnly true A ∧ PhaseB B :=
  by
    obtain ⟨l0, A, key, B, h1, _, _, _, h5, h6, _, _⟩ :=
      client_close_end_to_end C01E2E.exCfg exReactEarly false none 2 (some 1000)
        (.bytes [103, 111, 111, 100, 98, 121, 101]) [103, 111, 111, 100, 98, 121, 101]
        rfl (fun _ => rfl) (by decide) (by decide) rfl ⟨(fun c h => by cases h; decide), (by decide)⟩ exAppEarly
        C01E2E.exReply C01E2E.exGoodReply C01.exItems C01.ex_conforming.1 C01.exClose
        (C01.ex_conforming.2 _ rfl) (by decide +kernel) _ (bytewise_ne _) (bytewise_flatten _) []
    refine ⟨l0, A, key, B, h1, h6 ?_ ?_, h5⟩
    · intro h _ hl
      have : h.length ≠ 2 := by omega
      simp [exReactEarly, this]
    · intro h _ hl
      exact ⟨.close (some 1000) (.bytes [103, 111, 111, 100, 98, 121, 101]), [], by simp [exReactEarly, hl], rfl⟩

/-- `close_at_connected_end_to_end` applies (any reads; here one read) -/
example : ∃ l0 A key B,
    (runAll C01E2E.exCfg exReactEarly (reads [C01E2E.exReply ++ exStream] ++ [])).trace =
      B ++ .res .ok :: .wr (closeFrame (buildClosePayload (some 1000) [103, 111, 111, 100, 98, 121, 101]) key) ::
        (A ++ Tstart C01E2E.exCfg l0) ∧
    Monitor.histOf A = [.connected false] ∧ PhaseB B :=
  by
    obtain ⟨l0, A, key, B, h1, _, _, h4, h5, _, _⟩ :=
      close_at_connected_end_to_end C01E2E.exCfg exReactEarly false none (some 1000)
        (.bytes [103, 111, 111, 100, 98, 121, 101]) [103, 111, 111, 100, 98, 121, 101]
        rfl (fun _ => rfl) (by decide) rfl ⟨(fun c h => by cases h; decide), (by decide)⟩ exAppEarly
        C01E2E.exReply C01E2E.exGoodReply C01.exItems C01.ex_conforming.1 C01.exClose
        (C01.ex_conforming.2 _ rfl) [C01E2E.exReply ++ exStream] (by decide +kernel) (by simp [exStream]) []
    exact ⟨l0, A, key, B, h1, h4, h5⟩

/-- … evaluated directly: the Close frame is the second thing on the wire, the handshake still
    completes, everything is delivered, nothing else is ever written -/
example : (runAll C01E2E.exCfg exReactEarly (reads [C01E2E.exReply ++ exStream])).trace.reverse =
    [.ev .connecting, .wr (Http.lit "GET / HTTP/1.1\r\n\r\n"), .ev (.connected false),
     .wr [136, 137, 0, 0, 0, 0, 3, 232, 103, 111, 111, 100, 98, 121, 101], .res .ok,
     .ev (.ready none false), .ev .poll, .ev (.ping [1, 2]), .ev (.pong []), .ev (.text [0x20AC, 0x61]),
     .ev (.pong [7]), .ev (.binary (List.replicate 126 255)), .ev (.closed (some 1000) [111, 107]),
     .sockClose, .ev (.disconnected "closed" true), .selClose] := by
  decide +kernel

/-- answers the `Closing` event with a Binary message and is silent otherwise -/
def exReactServer : React := fun h =>
  match h with
  | .closing _ _ :: _ => [.sendBinary (.bytes [7]) false]
  | _ => []

/-- the application answering `Closing` with a Binary message only sends -/
theorem exServerSendOnly : SendOnly exReactServer := by
  intro h a ha
  unfold exReactServer at ha
  split at ha
  · simp only [List.mem_singleton] at ha; subst ha; rfl
  · cases ha

/-- `server_close_end_to_end` applies, one byte per read; the application makes no call before
    `Closing`, so up to there the wire carries the request and the Pongs only (`PongsOnly`) -/
example : ∃ l0 A l key post,
    (runAll C01E2E.exCfg exReactServer
        (reads ((C01E2E.exReply ++ exStream).map (fun b => [b])) ++ (.wait 0 (some .eof) :: []))).trace =
      post ++ .wr (closeFrame C01.exClose.payload key) :: (l ++ (A ++ Tstart C01E2E.exCfg l0)) ∧
    PongsOnly true A ∧ Monitor.histOf l = [.closing C01.exClose.code C01.exClose.reason] ∧ PhaseB post :=
  by
    obtain ⟨l0, A, l, key, post, h1, _, _, _, h4, h5, _, h7, _, _, _⟩ :=
      server_close_end_to_end C01E2E.exCfg exReactServer false none rfl (fun _ => rfl) (by decide)
        exServerSendOnly C01E2E.exReply C01E2E.exGoodReply C01.exItems C01.ex_conforming.1 C01.exClose
        (C01.ex_conforming.2 _ rfl) _ (bytewise_ne _) (bytewise_flatten _) []
    refine ⟨l0, A, l, key, post, h1, h4 ?_, h5, h7⟩
    intro h hs
    have hall : ∀ e ∈ (allEvents false none C01.exItems (.closing C01.exClose.code C01.exClose.reason)).tail,
        (match e with | .closing _ _ => true | _ => false) = false := by decide +kernel
    unfold exReactServer
    split
    · rename_i a b t
      have := hall _ (hs.subset List.mem_cons_self)
      simp at this
    · rfl

/-- … evaluated directly (one read): one Pong for the one Ping, `Closing(1000, 'ok')`, the
    application's Binary (written), then the echo `88 84 key 03 E8 'ok'` and nothing after it -/
example : (runAll C01E2E.exCfg exReactServer
      (reads [C01E2E.exReply ++ exStream] ++ [.wait 0 (some .eof)])).trace.reverse =
    [.ev .connecting, .wr (Http.lit "GET / HTTP/1.1\r\n\r\n"), .ev (.connected false),
     .ev (.ready none false), .ev .poll, .wr [138, 130, 0, 0, 0, 0, 1, 2], .ev (.ping [1, 2]), .ev (.pong []),
     .ev (.text [0x20AC, 0x61]), .ev (.pong [7]), .ev (.binary (List.replicate 126 255)),
     .ev (.closing (some 1000) [111, 107]), .wr [130, 129, 0, 0, 0, 0, 7], .res .ok,
     .wr [136, 132, 0, 0, 0, 0, 3, 232, 111, 107], .sockClose, .ev (.disconnected "closed" true), .selClose] := by
  decide +kernel

end Lomond.C08E2E
