import Lomond.Model.Core
namespace Lomond.C14
end Lomond.C14
