/-
  C14 — every Ping is answered by exactly one matching Pong, in order.
  Property theorems only (helper lemmas: Proofs/Pong.lean, Proofs/Lift.lean, Proofs/Step.lean).

  What `WebSocket.feed` + `run()` do for a received Ping is `feedYield true (.ping d)`:
  `_on_event` (which sends the automatic Pong), then the event is handed to the application
  (`yieldEv`: the application reacts, possibly writing), then `_regular()`.  The trace (newest
  first) records every `sendall` (`.wr`), every failed `sendall` (`.wrFail`), every event handed
  to the application (`.ev`) and the result token of every application call (`.res`).

  Companions: `C14_Run.lean` — the same over a whole run `Core.runAll` (Ping ⇒ exactly one Pong,
  Pong ⇒ Ping, counting; `exactly_one_pong_per_ping`, `pong_iff_ping`); `C14_E2E.lean` — a valid
  stream with `k` Pings gets exactly `k` Pongs, payloads equal, in order; `C18_Core.lean` — Pong and
  event are produced at the tick of the `recv` that completed the Ping.
-/
import Lomond.Proofs.Pong

namespace Lomond.C14
open Lomond Lomond.Core Lomond.Core.Lift Lomond.Core.Pong

/-- **One Pong, identical payload, before the event.**  Automatic pongs enabled, the socket open,
    no Close sent (`closing`), not closed, payload ≤ 125 bytes, the write succeeding: the trace
    after the Ping has been processed is
    `… ++ [.ev (.ping d), .wr (Pong frame of d)] ++ (trace before)`:
    exactly one frame is written between the old trace and the event, it is the masked Pong frame
    `Frame.build pong d key` carrying the identical payload, and the event — hence everything the
    application sends in reaction to it or to any later event (`l`) — comes after it. -/
theorem pong_per_ping (s : Sys) (d : Bytes)
    (hap : s.cfg.autoPong = true) (hso : s.sockOpen = true) (hcg : s.closing = false)
    (hcd : s.closed = false) (hlen : d.length ≤ 125) (hw : s.cfg.writeFails s.writeCtr = false) :
    ∃ b l, Frame.build Gen.opPong d (s.cfg.maskKey s.keyCtr) = some b ∧
      (feedYield true (.ping d) s).state.trace = l ++ .ev (.ping d) :: .wr b :: s.trace := by
  have h := onEvent_ping_sent d s hap hlen hso hcg hcd hw
  obtain ⟨l, hl⟩ := feedYield_trace true (.ping d) s _ h
  exact ⟨_, l, build_pong d _ hlen, hl⟩

/-- **The Pong is on the wire before the application sees the Ping.**  Under the same hypotheses
    the rest of the processing — handing the event to the application, its reaction, `_regular()`
    and generator finalisation — is run from the state `pongSent s b` in which the Pong has already
    been written (one masking key drawn, one `sendall` done, `.wr b` on the trace); and the
    application's reaction is computed from the history with this Ping on top and executed on a
    trace that already ends in `[.ev (.ping d), .wr b]`. -/
theorem pong_before_app_writes (s : Sys) (d : Bytes)
    (hap : s.cfg.autoPong = true) (hso : s.sockOpen = true) (hcg : s.closing = false)
    (hcd : s.closed = false) (hlen : d.length ≤ 125) (hw : s.cfg.writeFails s.writeCtr = false) :
    let b := pongBytes d (s.cfg.maskKey s.keyCtr)
    feedYield true (.ping d) s =
        tryC (do yieldEv (.ping d); regular)
          (fun x => do onDisconnect; throwE (.outer x)) (pongSent s b) ∧
    yieldEv (.ping d) (pongSent s b) =
        doActs (s.react (.ping d :: s.hist))
          { pongSent s b with trace := .ev (.ping d) :: .wr b :: s.trace, hist := .ping d :: s.hist } := by
  intro b
  have h := onEvent_ping_sent d s hap hlen hso hcg hcd hw
  refine ⟨?_, rfl⟩
  show tryC _ _ s = tryC _ _ (pongSent s b)
  unfold tryC
  rw [bind_ok h]
  rfl

/-- **No Pong when disabled.**  With `auto_pong = False`, `_on_event` for a Ping does nothing at
    all: no write, no masking key drawn, state unchanged; the event is still handed over. -/
theorem no_pong_when_disabled (s : Sys) (d : Bytes) (hap : s.cfg.autoPong = false) :
    onEvent (.ping d) s = .ok () s ∧
    ∃ l, (feedYield true (.ping d) s).state.trace = l ++ .ev (.ping d) :: s.trace := by
  have h := onEvent_ping_disabled d s hap
  exact ⟨h, feedYield_trace true (.ping d) s s h⟩

/-- **A Pong that cannot be written is dropped silently (connection unusable).**  When the socket
    is gone, a Close has been sent, or the websocket is closed, `send_pong`'s `WebSocketError` is
    swallowed: `_on_event` returns normally, the trace is untouched (no `.wr`, no `.wrFail`, no
    extra event) and the Ping event is still handed to the application. -/
theorem pong_dropped_silently (s : Sys) (d : Bytes) (hap : s.cfg.autoPong = true)
    (hlen : d.length ≤ 125)
    (hun : s.sockOpen = false ∨ s.closing = true ∨ s.closed = true) :
    onEvent (.ping d) s = .ok () (pongSkipped s) ∧ (pongSkipped s).trace = s.trace ∧
    ∃ l, (feedYield true (.ping d) s).state.trace = l ++ .ev (.ping d) :: s.trace := by
  have h := onEvent_ping_skipped d s hap hlen hun
  exact ⟨h, rfl, feedYield_trace true (.ping d) s (pongSkipped s) h⟩

/-- **A Pong whose `sendall` raises is dropped silently (transport failed).**  `_on_event` returns
    normally, the only trace entry is the failed write `.wrFail` (no `.wr`), and the Ping event is
    still handed to the application right after it. -/
theorem pong_write_failure_silent (s : Sys) (d : Bytes) (hap : s.cfg.autoPong = true)
    (hlen : d.length ≤ 125) (hso : s.sockOpen = true) (hcg : s.closing = false)
    (hcd : s.closed = false) (hw : s.cfg.writeFails s.writeCtr = true) :
    let b := pongBytes d (s.cfg.maskKey s.keyCtr)
    onEvent (.ping d) s = .ok () (pongFailed s b) ∧
    ∃ l, (feedYield true (.ping d) s).state.trace = l ++ .ev (.ping d) :: .wrFail b :: s.trace := by
  intro b
  have h := onEvent_ping_failed d s hap hlen hso hcg hcd hw
  exact ⟨h, feedYield_trace true (.ping d) s _ h⟩

/-- **Pongs go out in the order of the Pings; none is written elsewhere.**  `PongInv s`: every
    Pong frame on the trace (`.wr b` with first byte `0x8A`) is immediately followed either by the
    result token of the application call that wrote it, or — only when automatic pongs are
    enabled — by the event `Ping d` it answers, `b` being the Pong frame built for that very `d`.
    The invariant is kept by the whole receive pipeline from any state: any byte stream with any
    number of Pings anywhere (between fragments, many per read), any application, any write
    failures.  Since each library Pong sits directly before its Ping event, the library's Pongs
    appear in the order of the Ping events, at most one per Ping, and no other library write
    (automatic Ping, Close echo, protocol-error Close) is ever a Pong; with `auto_pong = False` the
    library never writes a Pong at all. -/
theorem pongs_in_ping_order (data : Bytes) (s : Sys) (h : PongInv s) :
    PongInv (feedLoop data s).state :=
  lift_feedLoop rp_leaves data s h

/-- the same for a whole `WebSocket.feed(data)` call (response header phase and error handling
    included) -/
theorem pongs_in_ping_order_feed (data : Bytes) (s : Sys) (h : PongInv s) :
    PongInv (wsFeed data s).state :=
  lift_wsFeed rp_leaves data s h

/-- … and for the whole session loop, for every environment script -/
theorem pongs_in_ping_order_loop (env : List EnvStep) (s : Sys) (h : PongInv s) :
    PongInv (loop env s).state :=
  lift_loop rp_leaves (fun _ => True)
    (fun dt _ s _ => rp_po.trans (rp_tick s dt) (rp_regular (tick s dt))) env (fun _ _ => trivial) s h

/-- the invariant holds for a fresh trace -/
theorem pongInv_init (s : Sys) (h : s.trace = []) : PongInv s := by
  unfold PongInv; rw [h]; exact acc_nil _

/-- **An oversize Ping never reaches `_on_event` (repaired length rule, D1).**  With the length
    rule applied where the length is known (`ctrlLen`):
    (1) `gotMask` rejects a control frame announcing more than 125 bytes with a `ProtocolError`
        before a single payload byte is read;
    (2) every bite of `Parser.feed` keeps "a control payload being read is ≤ 125 bytes in total"
        and every control frame the parser outputs carries ≤ 125 bytes;
    (3) for such a payload `_on_event`'s `ValueError` branch (`'error'` Disconnected) is dead:
        it never raises. -/
theorem oversize_ping_unreachable (v : Variant) (hv : v.ctrlLen = true) :
    (∀ (p : PState) (b0 len : Nat) (key : Option Bytes), b0 % 16 ≥ 8 → len > 125 →
        ∃ msg, gotMask v p b0 len key = .error (.protocol msg)) ∧
    (∀ (p : PState) (chunk : Bytes) (r : PState × Option Out),
        biteBytes v p chunk = .ok r → CtrlBound p → chunk.length ≤ p.remPred + 1 →
        CtrlBound r.1 ∧ OutBound r.2) ∧
    (∀ (s : Sys) (d : Bytes), d.length ≤ 125 → ∃ s', onEvent (.ping d) s = .ok () s') := by
  refine ⟨fun p b0 len key => gotMask_rejects_oversize_control v hv p b0 len key,
          fun p chunk r h hp hc => biteBytes_ctrl v hv p chunk r h hp hc, ?_⟩
  intro s d hlen
  cases hE : onEvent (.ping d) s with
  | ok u s' => exact ⟨s', rfl⟩
  | err x s' =>
    exfalso
    simp only [onEvent] at hE
    split at hE
    · split at hE
      · omega
      · split at hE
        · cases hE
        · rename_i heq; exact sendFrame_no_err heq
    · cases hE

/-- The pinned commit (`ctrlLen = false`, finding D1) did accept a 126-byte Ping header, and the
    automatic Pong then fails with `ValueError`, which ends the loop with an `'error'`
    Disconnected instead of a protocol error. -/
theorem oversize_ping_present_variant :
    (∃ r, gotMask { ctrlLen := false } {} 0x89 126 none = .ok r) ∧
    ∀ (s : Sys) (d : Bytes), s.cfg.autoPong = true → d.length > 125 →
      onEvent (.ping d) s = .err (.other "error") s :=
  ⟨⟨_, rfl⟩, fun s d hap hlen => onEvent_ping_oversize d s hap hlen⟩

/-! ### non-vacuity: concrete states on which the hypotheses hold -/

/-- an open connection, the application answers every Ping event with a binary message -/
def exSys : Sys :=
  { cfg := {}, env := [], sockOpen := true, ready := false,
    react := fun h => match h with | .ping _ :: _ => [.sendBinary (.bytes [7]) false] | _ => [] }

-- one Pong with the same payload, then the event, then the application's write and its token
example : (feedYield true (.ping [1, 2, 3]) exSys).state.trace =
    [.res .ok, .wr [130, 129, 0, 0, 0, 0, 7],
     .ev (.ping [1, 2, 3]), .wr [138, 131, 0, 0, 0, 0, 1, 2, 3]] := by decide +kernel

example : Frame.build Gen.opPong [1, 2, 3] [0, 0, 0, 0] = some [138, 131, 0, 0, 0, 0, 1, 2, 3] := by decide +kernel

-- disabled: no Pong
example : (feedYield true (.ping [1]) { exSys with cfg := { autoPong := false } }).state.trace =
    [.res .ok, .wr [130, 129, 0, 0, 0, 0, 7], .ev (.ping [1])] := by decide +kernel

-- closing: Pong dropped, no exception, event still delivered (and the application's write refused)
example : (feedYield true (.ping [1]) { exSys with closing := true }).state.trace =
    [.res .wsClosing, .ev (.ping [1])] := by decide +kernel

-- failing transport: `.wrFail`, event still delivered
example : (feedYield true (.ping [1]) { exSys with cfg := { writeFails := fun k => k == 0 } }).state.trace =
    [.res .ok, .wr [130, 129, 0, 0, 0, 0, 7], .ev (.ping [1]), .wrFail [138, 129, 0, 0, 0, 0, 1]] := by decide +kernel

-- two Pings in one read (frames phase): Pongs in the order of the Pings
example : ((do let _ ← onOut (.frame { opcode := 9, payload := [65] })
               onOut (.frame { opcode := 9, payload := [66] }) : M Bool)
            { exSys with react := fun _ => [] }).state.trace =
    [.ev (.ping [66]), .wr [138, 129, 0, 0, 0, 0, 66], .ev (.ping [65]), .wr [138, 129, 0, 0, 0, 0, 65]] := by
  decide +kernel

example : PongInv exSys := pongInv_init exSys rfl

-- the parser rejects a Ping announcing 126 bytes as soon as the length is known
example : gotMask {} {} 0x89 126 none =
    .error (.protocol "control frames must be <= 125 bytes in length") := rfl

end Lomond.C14
