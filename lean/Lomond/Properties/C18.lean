/-
  C18 — available data is always drained without waiting for more traffic.

  Model: `Model/Transport.lean` (`SelectorBase.wait`, `_recv`, the receive part of the loop of
  `WebsocketSession.run`, on a modelled plain / TLS-like socket and a virtual clock).
  Property theorems only; helper lemmas live in `Proofs/Transport.lean` (safety) and
  `Proofs/TransportLive.lean` (liveness).

  Every statement is over ALL arrival patterns: any number of arrivals, any payload sizes
  (TLS-like records may be larger than the receive buffer), any time stamps, any poll interval,
  with or without an EOF, and any number `fuel` of loop iterations.  `BUFFER_SIZE` is the value
  regenerated from `session.py`.

  What is *modelled, not proved* (named in MANIFEST as partial): level-triggered `poll(2)`,
  `recv_into` returning `min count available`, one-record-per-read and `pending()` of OpenSSL.
-/
import Lomond.Proofs.Transport
import Lomond.Proofs.TransportLive

namespace Lomond.C18
open Lomond Lomond.Transport

/-- **No blocking wait with buffered data.**  For every arrival pattern, on plain and TLS-like
    transports, every `wait_readable` call of the run that consumed virtual time (`t0 < t1`) was
    made when nothing that had arrived was unread: the kernel buffer was empty (`k = 0`: no
    unread bytes, no undecrypted record) and the TLS layer held no decrypted byte (`p = 0`). -/
theorem C18_no_blocking_wait_with_buffered_data (cfg : Cfg) (hs : cfg.shortcut = true)
    (tls : Bool) (arrivals : List (Nat × Bytes)) (eofAt : Option Nat) (fuel : Nat)
    (t0 t1 k p : Nat) (r : Bool)
    (hmem : Tok.wait t0 t1 r k p ∈ (run cfg fuel (init tls arrivals eofAt)).trace)
    (hlt : t0 < t1) : k = 0 ∧ p = 0 :=
  run_traceOk cfg hs fuel (init tls arrivals eofAt) (by intro tok h; cases h) _ hmem hlt

/-- The same fact as a statement about one `selector.wait` call from **any** state whatsoever
    (reachable or not): if the call lets the clock advance, nothing was buffered. -/
theorem C18_wait_consumes_time_only_when_empty (cfg : Cfg) (hs : cfg.shortcut = true) (m : Nat) (s : St)
    (hlt : s.now < (selWait cfg m s).2.2.now) : s.sock.kernel = [] ∧ s.sock.pendingBytes = [] := by
  unfold selWait at hlt
  simp only [hs, Bool.not_true, Bool.false_eq_true, ↓reduceIte] at hlt
  split at hlt
  · rename_i hn
    exact ⟨Sock.kernel_nil_of_not_readable (block_now_lt hlt), pendingBytes_nil_of_pending? (Or.inl hn)⟩
  · rename_i n hn
    split at hlt
    · simp at hlt
    · rename_i hz
      have hz' : n = 0 := by simpa using hz
      subst hz'
      exact ⟨Sock.kernel_nil_of_not_readable (block_now_lt (s := { s with trace := s.trace ++ [Tok.pend 0] }) hlt),
        pendingBytes_nil_of_pending? (Or.inr hn)⟩

/-- The `pending()` short-cut is what makes this true: without it (variant `shortcut = false`)
    EVERY TLS-like record longer than the receive buffer makes the loop block for a whole poll
    interval while decrypted bytes sit in the TLS layer.  (The harness replays this witness on the
    real code with the short-cut removed.) -/
theorem C18_no_blocking_wait_fails_without_shortcut (r : Bytes) (hr : Gen.bufferSize < r.length)
    (poll : Nat) (hp : 0 < poll) :
    ∃ (fuel t0 t1 k p : Nat) (rd : Bool),
      Tok.wait t0 t1 rd k p ∈ (run { poll := poll, shortcut := false } fuel (init true [(0, r)] none)).trace ∧
      t0 < t1 ∧ p ≠ 0 :=
  ⟨2, 0, poll, 0, r.length - bufferSize, false, noShortcut_blocks r hr poll, hp,
    by have : bufferSize < r.length := hr; omega⟩

/-- … and, when the peer then stays silent, the tail of that record is NEVER handed to `feed`,
    however long the loop runs: it waits for more traffic.  (Liveness fails without the
    short-cut; compare `C18_all_delivered`.) -/
theorem C18_data_stuck_without_shortcut (r : Bytes) (hr : Gen.bufferSize < r.length) (poll fuel : Nat) :
    bytesOf (fed { poll := poll, shortcut := false } true [(0, r)] none fuel) ≠ bytesOf [(0, r)] := by
  have hr' : bufferSize < r.length := hr
  cases fuel with
  | zero =>
    intro h
    have := congrArg List.length h
    simp [fed, run, init] at this
    omega
  | succ n =>
    have h := (run_stuck poll n (first_cycle_stuck r hr poll)).log
    intro hc
    have hrun : run { poll := poll, shortcut := false } (n + 1) (init true [(0, r)] none) =
        run { poll := poll, shortcut := false } n (cycle { poll := poll, shortcut := false } (init true [(0, r)] none)) := by
      simp [run, init]
    unfold fed at hc
    rw [hrun, h] at hc
    have := congrArg List.length hc
    simp at this
    omega

/-- **Fed chunks are a prefix of the arrivals, in order** (all variants, all arrival patterns):
    the concatenation of the chunks handed to `feed` is a prefix of the concatenation of the
    arrived payloads — no loss, no duplication, no reordering — and every chunk is non-empty and
    fits `BUFFER_SIZE`. -/
theorem C18_fed_is_prefix_in_order (cfg : Cfg) (tls : Bool) (arrivals : List (Nat × Bytes))
    (eofAt : Option Nat) (fuel : Nat) :
    bytesOf (fed cfg tls arrivals eofAt fuel) <+: bytesOf arrivals ∧
    ∀ c ∈ fed cfg tls arrivals eofAt fuel, c.2 ≠ [] ∧ c.2.length ≤ Gen.bufferSize := by
  constructor
  · have h := run_content cfg fuel (init tls arrivals eofAt)
    have h0 : content (init tls arrivals eofAt) = bytesOf arrivals := by
      cases tls <;> simp [content, init, Sock.buffered]
    rw [h0] at h
    exact ⟨_, by simpa [fed, content, List.append_assoc] using h⟩
  · exact run_chunksOk cfg fuel (init tls arrivals eofAt) (by intro c h; cases h)

/-- **Delivery time.**  When arrival times are non-decreasing, the sequence of (time, byte) pairs
    handed to `feed` is a prefix of the sequence of (arrival time, byte) pairs: every byte is fed
    in a loop cycle that runs at the very tick at which that byte arrived. -/
theorem C18_delivery_time (cfg : Cfg) (hs : cfg.shortcut = true) (tls : Bool)
    (arrivals : List (Nat × Bytes)) (hsorted : Sorted arrivals) (eofAt : Option Nat) (fuel : Nat) :
    stamps (fed cfg tls arrivals eofAt fuel) <+: stamps arrivals := by
  have h := (run_SInv cfg hs fuel (init_SInv tls arrivals eofAt hsorted)).cons
  exact ⟨_, by simpa [fed, List.append_assoc] using h⟩

/-- … hence the `i`-th byte of the stream, if it has been fed by now at all, was fed at its
    arrival tick: a message (or a Ping) whose last byte arrives at time `t` is handed to the
    parser — and so yielded, and its automatic reply written — in a cycle running at time `t`. -/
theorem C18_byte_fed_at_arrival_tick (cfg : Cfg) (hs : cfg.shortcut = true) (tls : Bool)
    (arrivals : List (Nat × Bytes)) (hsorted : Sorted arrivals) (eofAt : Option Nat) (fuel : Nat)
    (i t b : Nat) (h : (stamps (fed cfg tls arrivals eofAt fuel))[i]? = some (t, b)) :
    (stamps arrivals)[i]? = some (t, b) := by
  obtain ⟨rest, hr⟩ := C18_delivery_time cfg hs tls arrivals hsorted eofAt fuel
  rw [← hr]
  have hi : i < (stamps (fed cfg tls arrivals eofAt fuel)).length := by
    rcases Nat.lt_or_ge i (stamps (fed cfg tls arrivals eofAt fuel)).length with h' | h'
    · exact h'
    · rw [List.getElem?_eq_none h'] at h; cases h
  rw [List.getElem?_append_left hi]; exact h

/-- **Everything is delivered** (liveness): with the short-cut and a positive poll interval,
    after finitely many loop iterations every arrived byte has been handed to `feed`, and it
    stays so — without any hypothesis on further traffic (the peer may fall silent forever:
    `eofAt = none`), on record sizes or on burst sizes. -/
theorem C18_all_delivered (cfg : Cfg) (hs : cfg.shortcut = true) (hp : 0 < cfg.poll) (tls : Bool)
    (arrivals : List (Nat × Bytes)) (eofAt : Option Nat) :
    ∃ n, ∀ fuel, n ≤ fuel → bytesOf (fed cfg tls arrivals eofAt fuel) = bytesOf arrivals := by
  have hinv : LInv (init tls arrivals eofAt) := by
    refine ⟨?_, by simp [init]⟩
    cases tls
    · trivial
    · intro r hr; cases hr
  obtain ⟨n, hn⟩ := exists_complete cfg hs hp _ (init tls arrivals eofAt) (Nat.le_refl _) hinv (by simp [init])
  refine ⟨n, fun fuel hle => ?_⟩
  obtain ⟨m, rfl⟩ : ∃ m, fuel = n + m := ⟨fuel - n, by omega⟩
  have hc := run_complete cfg m hn
  rw [← run_add] at hc
  unfold Complete at hc
  rw [run_content] at hc
  have h0 : content (init tls arrivals eofAt) = bytesOf arrivals := by
    cases tls <;> simp [content, init, Sock.buffered]
  rw [h0] at hc
  exact hc

/-- … and, when arrival times are non-decreasing, every byte at exactly its arrival tick. -/
theorem C18_all_delivered_on_time (cfg : Cfg) (hs : cfg.shortcut = true) (hp : 0 < cfg.poll) (tls : Bool)
    (arrivals : List (Nat × Bytes)) (hsorted : Sorted arrivals) (eofAt : Option Nat) :
    ∃ n, ∀ fuel, n ≤ fuel → stamps (fed cfg tls arrivals eofAt fuel) = stamps arrivals := by
  obtain ⟨n, hn⟩ := C18_all_delivered cfg hs hp tls arrivals eofAt
  refine ⟨n, fun fuel hle => ?_⟩
  obtain ⟨rest, hr⟩ := C18_delivery_time cfg hs tls arrivals hsorted eofAt fuel
  have hlen := congrArg List.length hr
  have h1 := congrArg List.length (hn fuel hle)
  rw [← stamps_map_snd, ← stamps_map_snd] at h1
  simp only [List.length_map, List.length_append] at h1 hlen
  have : rest = [] := List.eq_nil_of_length_eq_zero (by omega)
  rw [this, List.append_nil] at hr
  exact hr

/-! Non-vacuity: concrete runs (TLS-like and plain), including a burst of three records in one
    tick, a gap longer than the poll interval and an EOF. -/

example : fed { poll := 5 } true [(0, [1, 2, 3]), (0, [4]), (0, [5, 6]), (12, [7])] (some 13) 20 =
    [(0, [1, 2, 3]), (0, [4]), (0, [5, 6]), (12, [7])] := by decide +kernel

example : fed { poll := 5 } false [(0, [1, 2, 3]), (0, [4]), (0, [5, 6]), (12, [7])] (some 13) 20 =
    [(0, [1, 2, 3, 4, 5, 6]), (12, [7])] := by decide +kernel

example : Sorted [(0, [1, 2, 3]), (0, [4]), (0, [5, 6]), (12, [7])] := by
  simp [Sorted]

/-- a wait that does consume time exists in such a run (the hypothesis `t0 < t1` is satisfiable) -/
example : Tok.wait 0 5 false 0 0 ∈
    (run { poll := 5 } 20 (init true [(0, [1, 2, 3]), (12, [7])] (some 13))).trace := by decide +kernel

/-- the short-cut is exercised: every record larger than the buffer (up to twice its size) is
    drained by two reads in the tick of its arrival, with no traffic after it -/
example (r : Bytes) (hr : Gen.bufferSize < r.length) (hr2 : r.length ≤ 2 * Gen.bufferSize) (poll : Nat) :
    fed { poll := poll } true [(0, r)] none 2 = [(0, r.take Gen.bufferSize), (0, r.drop Gen.bufferSize)] :=
  shortcut_drains r hr hr2 poll

/-- hypotheses of the two `…without_shortcut` theorems are satisfiable -/
example : Gen.bufferSize < (List.replicate (Gen.bufferSize + 1) 0).length := by simp

end Lomond.C18
