/-
  C11 / C12 / C13 companion — the DEAD SOCKET window, part 2 (additions to `C11_Dead.lean`).

    * `shut_between_frames_any_socket_before_connect`: "no frame is torn by the shut" for the general socket from BOTH initial
      states (`init`: connected; `initPre`: before the connection exists).
    * `call_at_dead_write_result_any_socket`: a call (any call but the loop's `.connect`) that stands AT its first write step
      when the socket is shut returns with exactly `⟨wrote := false, err := some .transport, alt := false⟩`, under every
      schedule; `send_at_dead_write_fails_any_socket` / `send_at_dead_write_fails`: the application's send methods
      (`TransportFail` reaches the caller; nothing is written).
    * `close_at_dead_write_any_socket` / `close_at_dead_write`: `close()` (and the loop's echo of a server Close) in the
      same situation: the `TransportFail` is swallowed (recorded in the result, the call runs on to its normal end without
      taking an alternative continuation), nothing is written (the wire is frozen), and — repaired variant `closeAtomic`,
      for which `C12Fail.close_always_ends_closing` holds — the connection is closing or closed once it has returned.
-/
import Lomond.Proofs.ThreadsDead2

namespace Lomond.C11Dead2
open Lomond Lomond.Threads

/-! ### the socket is shut between frames, also when the run starts before the connection -/

/-- **No frame is torn by the shut**, general socket, from the connected state or from the state without a socket: in every
    reachable state in which the socket is shut the wire is a concatenation of groups, each a WHOLE frame or the torn head
    of a frame whose `sendall` the ENVIRONMENT made fail. -/
theorem shut_between_frames_any_socket_before_connect (env : Env) (v : Variant) (cfg : Cfg) (progs : Tid → List Call)
    (sched : List Tid) (s₁ : State) (h₁ : s₁ = init progs ∨ s₁ = initPre progs) :
    let s := runN env v cfg s₁ sched
    s.sh.sockShut = true →
      ∃ gs : List Group, (∀ g ∈ gs, g.whole env ∨ g.torn env) ∧ s.sh.wire = flat gs := by
  intro s hs
  have h : ∃ gs, Shape env v cfg s gs := by
    rcases h₁ with h | h <;> subst h
    · exact shape_run env v cfg _ sched [] (baseN_init v cfg progs) (shape_init env v cfg progs)
    · exact shape_run env v cfg _ sched [] (baseN_initPre v cfg progs) (shape_initPre env v cfg progs)
  obtain ⟨gs, S⟩ := h
  exact ⟨gs, S.ok, shape_shut_flat S hs⟩

/-! ### a call that is AT its first write step when the socket is shut -/

/-- **The exact result of a call caught at its write by the shut.**  General socket `env`, start state `init` or
    `initPre`.  After `pre` the socket is shut and thread `t`'s call in progress `c` (call number `c.idx`, any call but the
    loop's `.connect`) has `write1` as its next step (it holds the lock and has passed `_check_writable`).  Whatever `post`
    is: when that call has returned, its recorded result is exactly `wrote = false`, `err = some .transport`,
    `alt = false`. -/
theorem call_at_dead_write_result_any_socket (env : Env) (v : Variant) (cfg : Cfg) (progs : Tid → List Call)
    (pre post : List Tid) (s₁ : State) (h₁ : s₁ = init progs ∨ s₁ = initPre progs) (t : Tid) (c : Cur) (f : FrameSrc)
    (r : List Step) (call : Call) (res : Result) :
    let s₀ := runN env v cfg s₁ pre
    let s := runN env v cfg s₀ post
    s₀.sh.sockShut = true → (s₀.th t).current v cfg = some c → c.rest = .write1 f :: r →
    (progs t)[c.idx]? = some call → call ≠ .connect → (s.th t).results[c.idx]? = some res →
      res = ⟨false, some .transport, false⟩ := by
  intro s₀ s hs hc hr hcall hne hres
  have BT₁ : BaseN v cfg s₁ ∧ TInv v cfg s₁ ∧ (s₁.th t).prog = progs t := by
    rcases h₁ with h | h <;> subst h
    · exact ⟨baseN_init v cfg progs, tInv_init v cfg progs, rfl⟩
    · exact ⟨baseN_initPre v cfg progs, tInv_initPre v cfg progs, rfl⟩
  obtain ⟨B₁, T₁, hp₁⟩ := BT₁
  have B₀ : BaseN v cfg s₀ := baseN_run env v cfg _ pre B₁
  have T₀ : TInv v cfg s₀ := tInv_runN env v cfg _ pre B₁ T₁
  have hcall₀ : (s₀.th t).prog[c.idx]? = some call := by rw [runN_prog, hp₁]; exact hcall
  have D := doomed_runN env v cfg s₀ post t c.idx call B₀ T₀ hs hcall₀ hne (.atWrite c f r hc rfl hr)
  exact doomed_result (baseN_run env v cfg _ post B₀).M D res hres

/-- **A send caught at its write by the shut raises `TransportFail` and writes nothing** (general socket): thread `t`'s
    current call is `send_text / send_binary / send_ping / send_pong`, its next step is `write1`, the socket is shut; for
    every continuation `post` of the schedule, the result recorded when the call returns is
    `⟨wrote := false, err := some .transport, alt := false⟩`. -/
theorem send_at_dead_write_fails_any_socket (env : Env) (v : Variant) (cfg : Cfg) (progs : Tid → List Call)
    (pre post : List Tid) (s₁ : State) (h₁ : s₁ = init progs ∨ s₁ = initPre progs) (t : Tid) (c : Cur) (f : FrameSrc)
    (r : List Step) (call : Call) (res : Result) :
    let s₀ := runN env v cfg s₁ pre
    let s := runN env v cfg s₀ post
    s₀.sh.sockShut = true → (s₀.th t).current v cfg = some c → c.rest = .write1 f :: r →
    (progs t)[c.idx]? = some call → call.isSend = true → (s.th t).results[c.idx]? = some res →
      res = ⟨false, some .transport, false⟩ := by
  intro s₀ s hs hc hr hcall hsend hres
  exact call_at_dead_write_result_any_socket env v cfg progs pre post s₁ h₁ t c f r call res hs hc hr hcall
    (by intro e; subst e; cases hsend) hres

/-- the two-chunk socket of `C11.lean` / `C12.lean` / `C13_Threads.lean` (`run`) -/
theorem send_at_dead_write_fails (v : Variant) (cfg : Cfg) (progs : Tid → List Call)
    (pre post : List Tid) (s₁ : State) (h₁ : s₁ = init progs ∨ s₁ = initPre progs) (t : Tid) (c : Cur) (f : FrameSrc)
    (r : List Step) (call : Call) (res : Result) :
    let s₀ := run v cfg s₁ pre
    let s := run v cfg s₀ post
    s₀.sh.sockShut = true → (s₀.th t).current v cfg = some c → c.rest = .write1 f :: r →
    (progs t)[c.idx]? = some call → call.isSend = true → (s.th t).results[c.idx]? = some res →
      res = ⟨false, some .transport, false⟩ := by
  intro s₀ s
  have e0 : s₀ = runN Env.two v cfg s₁ pre := (runN_default v cfg _ pre).symm
  have e1 : s = runN Env.two v cfg (runN Env.two v cfg s₁ pre) post := by
    rw [← e0]; exact (runN_default v cfg _ post).symm
  rw [e0, e1]
  exact send_at_dead_write_fails_any_socket Env.two v cfg progs pre post s₁ h₁ t c f r call res

/-! ### `close()` caught at its write by the shut -/

/-- **`close()` at its write step when the socket is shut** (general socket; `call` = the application's `close()` or the
    loop's echo of a server Close): for every continuation `post`, once the call has returned
      * its `TransportFail` was SWALLOWED: it is recorded (`err = some .transport`, `wrote = false`) and the call ran on to
        its normal end (`alt = false`; the thread goes on with its next call);
      * NOTHING was written: the wire is what it was when the socket was shut, and the socket is still shut;
      * repaired variant `closeAtomic`: the connection is closing or closed.
    (Pinned variant: `closing = True` is stored by the call as well, but the loop's `on_disconnect` stores
    `closing = False` BEFORE `closed = True`, so "closing or closed" is not a state invariant there — finding D8.) -/
theorem close_at_dead_write_any_socket (env : Env) (v : Variant) (cfg : Cfg) (progs : Tid → List Call)
    (pre post : List Tid) (s₁ : State) (h₁ : s₁ = init progs ∨ s₁ = initPre progs) (t : Tid) (c : Cur) (f : FrameSrc)
    (r : List Step) (call : Call) (res : Result) :
    let s₀ := runN env v cfg s₁ pre
    let s := runN env v cfg s₀ post
    s₀.sh.sockShut = true → (s₀.th t).current v cfg = some c → c.rest = .write1 f :: r →
    (progs t)[c.idx]? = some call → call.isClose = true → (s.th t).results[c.idx]? = some res →
      res = ⟨false, some .transport, false⟩ ∧ s.sh.wire = s₀.sh.wire ∧ s.sh.sockShut = true ∧
      (v.closeAtomic = true → s.sh.closing = true ∨ s.sh.closed = true) := by
  intro s₀ s hs hc hr hcall hcl hres
  refine ⟨call_at_dead_write_result_any_socket env v cfg progs pre post s₁ h₁ t c f r call res hs hc hr hcall
    (by intro e; subst e; cases hcl) hres, (runN_shut env v cfg s₀ post hs).1, (runN_shut env v cfg s₀ post hs).2, ?_⟩
  intro hv
  have e : s = runN env v cfg s₁ (pre ++ post) := by simp [s, s₀, runN, List.foldl_append]
  have hp₁ : (s₁.th t).prog = progs t := by rcases h₁ with h | h <;> subst h <;> rfl
  have K : KInv v cfg s := by
    rw [e]
    rcases h₁ with h | h <;> subst h
    · exact kInv_run env v cfg _ _ hv (baseN_init v cfg progs) (cInvN_init v cfg progs hv) (kInv_init v cfg progs)
    · exact kInv_run env v cfg _ _ hv (baseN_initPre v cfg progs) (cInvN_initPre v cfg progs hv)
        (kInv_initPre v cfg progs)
  exact K.kres t c.idx res call hres (by rw [runN_prog, runN_prog, hp₁]; exact hcall) hcl

/-- the two-chunk socket (`run`) -/
theorem close_at_dead_write (v : Variant) (cfg : Cfg) (progs : Tid → List Call)
    (pre post : List Tid) (s₁ : State) (h₁ : s₁ = init progs ∨ s₁ = initPre progs) (t : Tid) (c : Cur) (f : FrameSrc)
    (r : List Step) (call : Call) (res : Result) :
    let s₀ := run v cfg s₁ pre
    let s := run v cfg s₀ post
    s₀.sh.sockShut = true → (s₀.th t).current v cfg = some c → c.rest = .write1 f :: r →
    (progs t)[c.idx]? = some call → call.isClose = true → (s.th t).results[c.idx]? = some res →
      res = ⟨false, some .transport, false⟩ ∧ s.sh.wire = s₀.sh.wire ∧ s.sh.sockShut = true ∧
      (v.closeAtomic = true → s.sh.closing = true ∨ s.sh.closed = true) := by
  intro s₀ s
  have e0 : s₀ = runN Env.two v cfg s₁ pre := (runN_default v cfg _ pre).symm
  have e1 : s = runN Env.two v cfg (runN Env.two v cfg s₁ pre) post := by
    rw [← e0]; exact (runN_default v cfg _ post).symm
  rw [e0, e1]
  exact close_at_dead_write_any_socket Env.two v cfg progs pre post s₁ h₁ t c f r call res

/-! ### non-vacuity -/

def ca : Variant := { closeAtomic := true, compressUnderLock := true }
def txt : Bytes := [104, 105]
def sendAb : Tid → List Call := progsOf [[.sendText txt false], [.abandon]]
def closeAb : Tid → List Call := progsOf [[.close (some 1000) []], [.abandon]]
/-- the loop: `rd:sock`, `acq`, `sockclose`, `rel` — the socket is shut, `_sock` still set, flags off, lock free -/
def loopShuts : List Tid := [1, 1, 1, 1]

/-- `shut_between_frames_any_socket_before_connect` from `initPre`, with something on the wire: the loop connects (14
    entries: the request stands on the wire), the sender's `sendall` is made to fail after one chunk (7 entries: a torn
    frame), the loop abandons (9 entries): socket shut, three chunks = one whole frame and one torn head -/
def envTorn : Env := { failAt := fun t i => if t = 0 ∧ i = 0 then some 1 else none }
def sendCnAb : Tid → List Call := progsOf [[.sendText txt false], [.connect, .abandon]]

example : let s := runN envTorn ca {} (initPre sendCnAb) (List.replicate 14 1 ++ List.replicate 7 0 ++ List.replicate 9 1)
    s.sh.sockShut = true ∧ s.sh.wire.map (fun x => (x.tid, x.second)) = [(1, false), (1, true), (0, false)] ∧
    (s.th 0).results = [⟨false, some .transport, false⟩] := by
  decide +kernel

/-- hypotheses of `send_at_dead_write_fails` (`pre = loopShuts ++ [0, 0, 0, 0]`, `t = 0`): the sender stands at `write1`
    on the shut socket, holding the lock; and its conclusion after `post` -/
example : let s₀ := run ca {} (init sendAb) (loopShuts ++ [0, 0, 0, 0])
    let s := run ca {} s₀ ([0, 0] ++ List.replicate 8 1)
    s₀.sh.sockShut = true ∧
    ((s₀.th 0).current ca {}).map (fun c => (c.idx, c.rest)) =
      some (0, [.write1 ⟨1, .lit txt⟩, .write2 ⟨1, .lit txt⟩, .release]) ∧
    (sendAb 0)[0]? = some (.sendText txt false) ∧
    (s.th 0).results[0]? = some ⟨false, some .transport, false⟩ := by
  decide +kernel

/-- the pinned variant and a 3-chunk socket -/
example : let s₀ := runN { more := fun _ _ => 2 } {} {} (init sendAb) (loopShuts ++ [0, 0, 0, 0])
    let s := runN { more := fun _ _ => 2 } {} {} s₀ ([0, 0] ++ List.replicate 8 1)
    s₀.sh.sockShut = true ∧
    ((s₀.th 0).current {} {}).map (fun c => (c.idx, c.rest)) =
      some (0, [.write1 ⟨1, .lit txt⟩, .write2 ⟨1, .lit txt⟩, .release]) ∧
    (s.th 0).results[0]? = some ⟨false, some .transport, false⟩ := by
  decide +kernel

/-- hypotheses and conclusion of `close_at_dead_write`: `close()` has taken the lock and passed the state checks when it finds
    the socket shut; it returns normally, nothing on the wire, `closed = True` at the end -/
example : let s₀ := run ca {} (init closeAb) (loopShuts ++ List.replicate 6 0)
    let s := run ca {} s₀ (List.replicate 4 0 ++ List.replicate 8 1)
    s₀.sh.sockShut = true ∧
    ((s₀.th 0).current ca {}).map (fun c => (c.idx, c.rest.take 1)) =
      some (0, [.write1 ⟨8, .lit (buildClosePayload (some 1000) [])⟩]) ∧
    (closeAb 0)[0]? = some (.close (some 1000) []) ∧
    (s.th 0).results[0]? = some ⟨false, some .transport, false⟩ ∧ s.sh.wire = [] ∧
    (s.sh.closing = true ∨ s.sh.closed = true) ∧ (s.th 0).current ca {} = none := by
  decide +kernel

/-- right after `close()` has returned (the loop has not yet stored its flags): `closing = True` -/
example : let s := run ca {} (init closeAb) (loopShuts ++ List.replicate 6 0 ++ List.replicate 4 0)
    (s.th 0).results[0]? = some ⟨false, some .transport, false⟩ ∧ s.sh.closing = true ∧ s.sh.closed = false := by
  decide +kernel

end Lomond.C11Dead2
