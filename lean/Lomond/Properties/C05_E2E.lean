/-
  C05, end to end — a text message in any fragmentation is delivered iff it is strictly valid
  UTF-8, and an invalid one is refused at the first byte that makes it unsalvageable.
  Composition of C10 (handshake), C02 (any segmentation of the reads), C01 (`connection_delivers`;
  parser / consumer halves `ParsesTo` / `Eats` for the fragments that precede the offending one),
  C05 (`validate_verdict`, `text_message_iff_wf`, incremental validation continuing across
  fragments and across interleaved control frames) and C04 (the `except` clauses, `run()`'s
  handlers).  Helper lemmas: Proofs/EndToEnd.lean, Proofs/EndToEndText.lean.

  Setting: as in `C01E2E.connection_delivers` (connection comes up, request written, `poll > 0`,
  send-only application, `wait 0` reads in **any segmentation**, no extension negotiated, so every
  frame has RSV1 = 0), with the repaired `_is_text` bookkeeping (`keepIsText = true`, finding D2 —
  with the pinned behaviour a Ping between two fragments switches the validation off, see
  `C05.present_variant_ping_clears_text_state`).  The message may follow any conforming prefix
  `items` of complete messages and control frames (C01).  The message `m` is any text `DataMsg`: a first
  fragment, then any number of continuation fragments (FIN on the last), each preceded by any number
  of Ping/Pong frames; fragments may be empty; any legal length form per frame (`Framed`).  Nothing
  is assumed about its bytes.
-/
import Lomond.Proofs.EndToEndText
import Lomond.Properties.C01_E2E
import Lomond.Properties.C05

namespace Lomond.C05E2E
open Lomond Lomond.Core Lomond.Core.E2E

/-- the message is a text message and its frames are legal (length forms fit, control payloads
    ≤ 125); its payload bytes are arbitrary -/
def Framed (m : DataMsg) : Prop := m.text = true ∧ m.first.Ok ∧ contOk m.rest

/-- the Ping/Pong events of the control frames sent between the fragments, in wire order -/
def ctrlEvents (m : DataMsg) : List Event := (contCtrls m.rest).map CtrlF.event

/-- what every connection starts with -/
def handshakeEvents (proxy : Bool) (proto : Option Http.Str) : List Event :=
  [.connecting, .connected proxy, .ready proto false, .poll]

def isPE : Event → Bool
  | .protocolError _ _ => true
  | _ => false

def isText : Event → Bool
  | .text _ => true
  | _ => false

/-- the violation tail shared by the two invalid cases -/
theorem invalid_tail {cfg : Cfg} {react : React} {proxy : Bool} {proto : Option Http.Str}
    (hs : Setup cfg react proxy) {reply : Bytes} (hreply : GoodReply cfg reply proto)
    (chunks : List Bytes) (stream : Bytes) (restEnv : List EnvStep) (hne : ∀ c ∈ chunks, c ≠ [])
    (hflat : chunks.flatten = reply ++ stream) (X : List Event) (P : String → Prop)
    (hv : ∀ s4, AtReady cfg react proxy proto s4 → ∃ x s1 msg,
        feedLoop stream s4 = .err x s1 ∧ violationOf x = some (msg, true) ∧ I s1 ∧
        Monitor.histOf s1.trace = X.reverse ++ Monitor.histOf s4.trace ∧ P msg) :
    ∃ msg, P msg ∧ Monitor.events (runAll cfg react (reads chunks ++ restEnv)).trace =
      handshakeEvents proxy proto ++ X ++ [.protocolError msg true, .disconnected "forced" false] := by
  obtain ⟨msg, crit, k, _, _, _, _, ⟨hP, hc⟩, _, _, _, _, _, _, hk, hev⟩ :=
    run_violation hs hreply chunks stream restEnv hne hflat X (fun msg crit => P msg ∧ crit = true) (by
      intro s4 h4
      obtain ⟨x, s1, msg, h1, h2, h3, h4', h5⟩ := hv s4 h4
      exact ⟨x, s1, msg, true, h1, h2, h3, h4', h5, rfl⟩)
  subst hc
  have : k = "forced" := by
    rcases hk with h | ⟨h, _⟩
    · exact h
    · cases h
  subst this
  exact ⟨msg, hP, hev⟩

/-- **Verdict.**  After any conforming prefix `items` (C01), a text message sent in any
    fragmentation, with Ping/Pong frames between the fragments, in any segmentation of the reads:
    * if the joined payload is well-formed UTF-8 (RFC 3629), the application sees the interleaved
      control events and then exactly one `Text` event carrying the exact decoding of the payload
      (the connection then goes on; here it ends with the end of stream);
    * otherwise it sees a prefix `ces` of the control events — those completed before the
      offending fragment —, then exactly one critical `ProtocolError`, then
      `Disconnected('forced', graceful=False)`: no `Text` event for this message, and the rest of
      the environment script is not consulted. -/
theorem text_verdict (cfg : Cfg) (react : React) (proxy : Bool) (proto : Option Http.Str)
    (hs : Setup cfg react proxy) (hk : cfg.v.keepIsText = true)
    (reply : Bytes) (hreply : GoodReply cfg reply proto)
    (items : List Item) (hok : ∀ it ∈ items, it.Ok) (m : DataMsg) (hm : Framed m)
    (chunks : List Bytes) (hne : ∀ c ∈ chunks, c ≠ [])
    (hflat : chunks.flatten = reply ++ (wireBytes (items.flatMap Item.wire) ++ wireBytes m.wire))
    (dt : Nat) (hpt : cfg.pingTimeout = 0 ∨ dt ≤ cfg.pingTimeout) (hct : cfg.closeTimeout = 0 ∨ dt < cfg.closeTimeout) :
    (Utf8.wf m.payload = true → ∃ cps, Utf8.decode m.payload = some cps ∧
      Monitor.events (runAll cfg react (reads chunks ++ [.wait dt (some .eof)])).trace =
        handshakeEvents proxy proto ++ items.flatMap Item.events ++ ctrlEvents m ++ [.text cps] ++
          (if cfg.poll ≤ dt then [.poll] else []) ++ [.disconnected "connection-lost" false]) ∧
    (Utf8.wf m.payload = false → ∃ ces msg, ces <+: ctrlEvents m ∧
      Monitor.events (runAll cfg react (reads chunks ++ [.wait dt (some .eof)])).trace =
        handshakeEvents proxy proto ++ (items.flatMap Item.events ++ ces) ++
          [.protocolError msg true, .disconnected "forced" false]) := by
  obtain ⟨ht, hfirst, hrest⟩ := hm
  constructor
  · intro hwf
    have hs' : (Utf8.decode m.payload).isSome = true := by rw [Utf8.decode_isSome]; exact hwf
    obtain ⟨cps, hcps⟩ := Option.isSome_iff_exists.mp hs'
    have hmok : m.Ok := ⟨hfirst, hrest, fun _ => ⟨wf_WF _ hwf, hwf⟩⟩
    have hconf : C01.Conforming (items ++ [.data m]) none := by
      refine ⟨?_, fun c h => by cases h⟩
      intro it hit
      rcases List.mem_append.mp hit with h | h
      · exact hok it h
      · simp at h; subst h; exact hmok
    have hflat' : chunks.flatten = reply ++ C01.streamBytes (items ++ [.data m]) none := by
      rw [hflat]; simp [C01.streamBytes, Item.wire, wireBytes_append]
    refine ⟨cps, hcps, ?_⟩
    rw [C01E2E.connection_delivers cfg react proxy proto hs reply hreply _ none hconf chunks hne hflat' dt hpt hct]
    simp [C01E2E.allEvents, C01.expected, Item.events, DataMsg.events, DataMsg.event, ht, hcps, C01E2E.terminal,
      handshakeEvents, ctrlEvents]
  · intro hwf
    cases hv : Utf8.validate 0 m.payload with
    | none =>
      -- (a) some fragment makes the text unsalvageable: `ParseError('invalid utf8')`
      obtain ⟨before, w, after, done, evs, hcut, ⟨d, hd⟩, hbad⟩ := find_cut_bad m hv
      have hwok : w.Ok := hcut.wOk ht hfirst hrest
      have hstream : wireBytes (items.flatMap Item.wire) ++ wireBytes m.wire =
          (wireBytes (items.flatMap Item.wire) ++ wireBytes before) ++ (w.bytes ++ wireBytes after) := by
        rw [hcut.wire, wireBytes_append, wireBytes_cons, List.append_assoc]
      obtain ⟨msg, _, hev⟩ := invalid_tail hs hreply chunks _ [.wait dt (some .eof)] hne hflat
        (items.flatMap Item.events ++ evs) (fun _ => True) (by
          intro s4 h4
          obtain ⟨sp, hfl, a⟩ := feed_items_cut h4.idle hk items hok m ht hfirst hrest hcut d hd
          obtain ⟨q, e⟩ := cut_bad a hwok hbad (wireBytes after)
          refine ⟨.parse "invalid utf8", { sp with p := q }, "invalid utf8", ?_, rfl,
            ⟨a.i.app, a.i.poll, a.i.sock, a.i.nr, a.i.rd⟩, a.hist, trivial⟩
          rw [hstream, feedLoop_append, hfl]
          exact e)
      exact ⟨evs, msg, hcut.evs_prefix, hev⟩
    | some d =>
      -- (b) every byte passed the incremental check but the text is truncated: `Text.from_payload` fails
      obtain ⟨before, w, done, hcut, hfin, hpl⟩ := find_cut_last m
      have hwok : w.Ok := hcut.wOk ht hfirst hrest
      have hstream : wireBytes (items.flatMap Item.wire) ++ wireBytes m.wire =
          (wireBytes (items.flatMap Item.wire) ++ wireBytes before) ++ (w.bytes ++ wireBytes []) := by
        rw [hcut.wire, wireBytes_append, wireBytes_cons, List.append_assoc]
      rw [hpl] at hv hwf
      obtain ⟨d0, hd0⟩ := validate_prefix 0 _ _ _ hv
      obtain ⟨msg, _, hev⟩ := invalid_tail hs hreply chunks _ [.wait dt (some .eof)] hne hflat
        (items.flatMap Item.events ++ ctrlEvents m) (fun _ => True) (by
          intro s4 h4
          obtain ⟨sp, hfl, a⟩ := feed_items_cut h4.idle hk items hok m ht hfirst hrest hcut d0 hd0
          obtain ⟨q, e⟩ := cut_build_bad a hwok hfin d hv hwf (wireBytes [])
          refine ⟨.critical "payload contains invalid utf-8", { sp with p := q, frames := sp.frames ++ [w.frame] },
            "payload contains invalid utf-8", ?_, rfl,
            ⟨a.i.app, a.i.poll, a.i.sock, a.i.nr, a.i.rd⟩, a.hist, trivial⟩
          rw [hstream, feedLoop_append, hfl]
          exact e)
      exact ⟨ctrlEvents m, msg, List.prefix_refl _, hev⟩

/-- a Ping/Pong event is neither a Text nor a ProtocolError event -/
theorem ctrl_event_cases (c : CtrlF) : isText c.event = false ∧ isPE c.event = false := by
  unfold CtrlF.event; cases c.pong <;> simp [isText, isPE]

/-- … hence so is every event of a prefix of the message's control events -/
theorem prefix_ctrl {ces : List Event} {m : DataMsg} (h : ces <+: ctrlEvents m) :
    ∀ e ∈ ces, isText e = false ∧ isPE e = false := by
  intro e he
  obtain ⟨t, ht⟩ := h
  have : e ∈ ctrlEvents m := by rw [← ht]; exact List.mem_append_left _ he
  obtain ⟨c, _, rfl⟩ := List.mem_map.mp this
  exact ctrl_event_cases c

/-- **Exactly one Text iff well-formed; otherwise exactly one critical ProtocolError and no Text.** -/
theorem text_iff_wf (cfg : Cfg) (react : React) (proxy : Bool) (proto : Option Http.Str)
    (hs : Setup cfg react proxy) (hk : cfg.v.keepIsText = true)
    (reply : Bytes) (hreply : GoodReply cfg reply proto)
    (m : DataMsg) (hm : Framed m)
    (chunks : List Bytes) (hne : ∀ c ∈ chunks, c ≠ []) (hflat : chunks.flatten = reply ++ wireBytes m.wire)
    (dt : Nat) (hpt : cfg.pingTimeout = 0 ∨ dt ≤ cfg.pingTimeout) (hct : cfg.closeTimeout = 0 ∨ dt < cfg.closeTimeout) :
    (Utf8.wf m.payload = true → ∃ cps, Utf8.decode m.payload = some cps ∧
      (Monitor.events (runAll cfg react (reads chunks ++ [.wait dt (some .eof)])).trace).filter isText = [.text cps] ∧
      (Monitor.events (runAll cfg react (reads chunks ++ [.wait dt (some .eof)])).trace).filter isPE = []) ∧
    (Utf8.wf m.payload = false →
      (Monitor.events (runAll cfg react (reads chunks ++ [.wait dt (some .eof)])).trace).filter isText = [] ∧
      ∃ msg, (Monitor.events (runAll cfg react (reads chunks ++ [.wait dt (some .eof)])).trace).filter isPE
        = [.protocolError msg true]) := by
  obtain ⟨hgood, hbad⟩ := text_verdict cfg react proxy proto hs hk reply hreply [] (by simp) m hm chunks hne
    (by rw [hflat]; simp [wireBytes]) dt hpt hct
  simp only [List.flatMap_nil, List.append_nil, List.nil_append] at hgood hbad
  have hfilt : ∀ (l : List Event) (p : Event → Bool), (∀ e ∈ l, p e = false) → l.filter p = [] := by
    intro l p h
    exact List.filter_eq_nil_iff.mpr (fun e he => by rw [h e he]; simp)
  have hctl : ∀ e ∈ ctrlEvents m, isText e = false ∧ isPE e = false := prefix_ctrl (List.prefix_refl _)
  have hpoll : ∀ p : Event → Bool, p .poll = false → (if cfg.poll ≤ dt then [Event.poll] else []).filter p = [] := by
    intro p hp
    split
    · simp [hp]
    · rfl
  constructor
  · intro hwf
    obtain ⟨cps, hcps, hev⟩ := hgood hwf
    refine ⟨cps, hcps, ?_, ?_⟩
    · rw [hev]
      simp only [List.filter_append, hfilt (ctrlEvents m) isText (fun e he => (hctl e he).1), hpoll isText rfl]
      rfl
    · rw [hev]
      simp only [List.filter_append, hfilt (ctrlEvents m) isPE (fun e he => (hctl e he).2), hpoll isPE rfl]
      rfl
  · intro hwf
    obtain ⟨ces, msg, hpre, hev⟩ := hbad hwf
    have hces := prefix_ctrl hpre
    refine ⟨?_, msg, ?_⟩
    · rw [hev]
      simp only [List.filter_append, hfilt ces isText (fun e he => (hces e he).1)]
      rfl
    · rw [hev]
      simp only [List.filter_append, hfilt ces isPE (fun e he => (hces e he).2)]
      rfl

/-- **Fail-fast, at byte granularity.**  The fragment `w` of the message (`CutAt`: `before` are the
    complete frames in front of it, `done` the text bytes they carry, `evs` the control events they
    complete) has the payload `a ++ b :: c`, where `done ++ a` still admits a well-formed
    continuation and `done ++ a ++ [b]` admits none — `b` is the first offending byte of the message
    (C05 `validate_verdict`: the shortest prefix of the joined payload without well-formed
    extension).  Then the server's bytes **up to and including `b`** — `before`, the header of `w`
    and `a ++ [b]`, in any segmentation — already make the client raise: the events are the
    handshake, `evs`, one critical `ProtocolError('invalid utf8')` and
    `Disconnected('forced', graceful=False)`; neither `c`, nor the later fragments, nor anything
    else (`restEnv` is arbitrary and never consulted) needs to arrive. -/
theorem failfast_message (cfg : Cfg) (react : React) (proxy : Bool) (proto : Option Http.Str)
    (hs : Setup cfg react proxy) (hk : cfg.v.keepIsText = true)
    (reply : Bytes) (hreply : GoodReply cfg reply proto)
    (items : List Item) (hok : ∀ it ∈ items, it.Ok) (m : DataMsg) (hm : Framed m)
    (before after : List WFrame) (w : WFrame) (done : Bytes) (evs : List Event)
    (hcut : CutAt m before w after done evs)
    (a : Bytes) (b : Nat) (c : Bytes) (hpl : w.payload = a ++ b :: c)
    (hbytes : Bytes.WF (done ++ a ++ [b]))
    (hgood : ∃ ext, Utf8.wf (done ++ a ++ ext) = true)
    (hbad : ∀ ext, Utf8.wf (done ++ a ++ [b] ++ ext) = false)
    (chunks : List Bytes) (hne : ∀ c ∈ chunks, c ≠ [])
    (hflat : chunks.flatten =
      reply ++ ((wireBytes (items.flatMap Item.wire) ++ wireBytes before) ++ partialBytes w (a.length + 1)))
    (restEnv : List EnvStep) :
    Monitor.events (runAll cfg react (reads chunks ++ restEnv)).trace =
      handshakeEvents proxy proto ++ (items.flatMap Item.events ++ evs) ++
        [.protocolError "invalid utf8" true, .disconnected "forced" false] := by
  obtain ⟨ht, hfirst, hrest⟩ := hm
  have hwok : w.Ok := hcut.wOk ht hfirst hrest
  have hw1 : Bytes.WF (done ++ a) := fun x hx => hbytes x (List.mem_append_left _ hx)
  -- C05: the verdicts of the incremental validator
  have hv1 : ∃ d1, Utf8.validate 0 (done ++ a) = some d1 := by
    cases hv : Utf8.validate 0 (done ++ a) with
    | some d1 => exact ⟨d1, rfl⟩
    | none =>
      obtain ⟨ext, he⟩ := hgood
      have := (C05.validate_verdict _ hw1).mp hv ext
      rw [he] at this; cases this
  obtain ⟨d1, hd1⟩ := hv1
  obtain ⟨d, hd⟩ := validate_prefix 0 _ _ _ hd1
  have hv2 : Utf8.validate 0 (done ++ (a ++ [b])) = none := by
    rw [← List.append_assoc]
    exact (C05.validate_verdict _ hbytes).mpr hbad
  have htake : w.payload.take (a.length + 1) = a ++ [b] := by
    rw [hpl]
    have : a ++ b :: c = (a ++ [b]) ++ c := by simp
    rw [this]
    exact List.take_left' (by simp)
  obtain ⟨msg, hmsg, hev⟩ := invalid_tail hs hreply chunks _ restEnv hne hflat (items.flatMap Item.events ++ evs)
      (fun msg => msg = "invalid utf8") (by
    intro s4 h4
    obtain ⟨sp, hfl, at'⟩ := feed_items_cut h4.idle hk items hok m ht hfirst hrest hcut d hd
    obtain ⟨q, e⟩ := cut_partial_bad at' hwok (a.length + 1) (by rw [hpl]; simp) (by omega) (by rw [htake]; exact hv2)
    refine ⟨.parse "invalid utf8", { sp with p := q }, "invalid utf8", ?_, rfl,
      ⟨at'.i.app, at'.i.poll, at'.i.sock, at'.i.nr, at'.i.rd⟩, at'.hist, rfl⟩
    rw [feedLoop_append, hfl]
    exact e)
  subst hmsg
  exact hev


/-! ### Non-vacuity -/

/-- "€a" (E2 82 AC 61) in three fragments — the first cut inside the 3-byte character, the second
    empty, a Ping and a Pong before the third; three different length forms -/
def exMsg : DataMsg :=
  { text := true, first := { payload := [0xE2], form := .ext16 },
    rest := [ ([], { payload := [], form := .short }),
              ([{ pong := false, payload := [1, 2], form := .short }, { pong := true, payload := [], form := .ext16 }],
               { payload := [0x82, 0xAC, 0x61], form := .ext64 }) ] }

/-- "a", then E2 in the first fragment; after a Ping the second fragment starts with 0x28, which
    cannot continue E2: the offending byte is the first byte of fragment 2; a third fragment follows -/
def exBad : DataMsg :=
  { text := true, first := { payload := [0x61, 0xE2], form := .short },
    rest := [ ([{ pong := false, payload := [1], form := .short }], { payload := [0x28, 0x62], form := .short }),
              ([{ pong := true, payload := [], form := .short }], { payload := [0x63], form := .short }) ] }

/-- E2 82 in one final frame: every prefix can still be completed, the whole cannot be decoded -/
def exTrunc : DataMsg := { text := true, first := { payload := [0xE2, 0x82], form := .short }, rest := [] }

/-- the three example messages are legally framed -/
theorem exMsg_framed : Framed exMsg := ⟨rfl, by decide, by decide⟩
theorem exBad_framed : Framed exBad := ⟨rfl, by decide, by decide⟩
theorem exTrunc_framed : Framed exTrunc := ⟨rfl, by decide, by decide⟩

example : Utf8.wf exMsg.payload = true ∧ Utf8.wf exBad.payload = false ∧ Utf8.wf exTrunc.payload = false ∧
    Utf8.validate 0 exBad.payload = none ∧ Utf8.validate 0 exTrunc.payload = some 2 := by decide

/-- `text_verdict`, valid case, one byte per read: the concrete events -/
example : Monitor.events (runAll C01E2E.exCfg C01E2E.exReact
      (reads ((C01E2E.exReply ++ wireBytes exMsg.wire).map (fun b => [b])) ++ [.wait 0 (some .eof)])).trace =
    [.connecting, .connected false, .ready none false, .poll, .ping [1, 2], .pong [], .text [0x20AC, 0x61],
     .disconnected "connection-lost" false] := by
  obtain ⟨cps, hc, h⟩ := (text_verdict C01E2E.exCfg C01E2E.exReact false none C01E2E.exSetup rfl C01E2E.exReply
    C01E2E.exGoodReply [] (by simp) exMsg exMsg_framed _ (bytewise_ne _) (bytewise_flatten _) 0 (Or.inl rfl)
    (Or.inr (by decide))).1
    (by decide)
  have : cps = [0x20AC, 0x61] := by
    have h2 : Utf8.decode exMsg.payload = some [0x20AC, 0x61] := by decide
    rw [h2] at hc; cases hc; rfl
  subst this
  exact h.trans rfl

/-- `text_verdict`, invalid cases: the theorem applies; the runs evaluated directly show the texts -/
example : ∃ ces msg, ces <+: ctrlEvents exBad ∧
    Monitor.events (runAll C01E2E.exCfg C01E2E.exReact
      (reads [C01E2E.exReply ++ wireBytes exBad.wire] ++ [.wait 0 (some .eof)])).trace =
    handshakeEvents false none ++ ([] ++ ces) ++ [.protocolError msg true, .disconnected "forced" false] :=
  (text_verdict C01E2E.exCfg C01E2E.exReact false none C01E2E.exSetup rfl C01E2E.exReply
    C01E2E.exGoodReply [] (by simp) exBad exBad_framed [C01E2E.exReply ++ wireBytes exBad.wire] (by decide +kernel)
    (by simp [wireBytes]) 0 (Or.inl rfl) (Or.inr (by decide))).2 (by decide)

example : Monitor.events (runAll C01E2E.exCfg C01E2E.exReact
      (reads [C01E2E.exReply ++ wireBytes exBad.wire] ++ [.wait 0 (some .eof)])).trace =
    [.connecting, .connected false, .ready none false, .poll, .ping [1],
     .protocolError "invalid utf8" true, .disconnected "forced" false] := by decide +kernel

example : Monitor.events (runAll C01E2E.exCfg C01E2E.exReact
      (reads [C01E2E.exReply ++ wireBytes exTrunc.wire] ++ [.wait 0 (some .eof)])).trace =
    [.connecting, .connected false, .ready none false, .poll,
     .protocolError "payload contains invalid utf-8" true, .disconnected "forced" false] := by decide +kernel

/-- `failfast_message` on `exBad`: the offending byte 0x28 is the first byte of the second fragment.
    The server's bytes up to and including it — first frame, the Ping, the header of the second
    fragment, one payload byte — are the *whole* script; the connection already fails. -/
example : Monitor.events (runAll C01E2E.exCfg C01E2E.exReact
      (reads ((C01E2E.exReply ++ ([0x01, 2, 0x61, 0xE2] ++ [0x89, 1, 1] ++ [0x00, 2, 0x28])).map (fun b => [b])))).trace =
    [.connecting, .connected false, .ready none false, .poll, .ping [1],
     .protocolError "invalid utf8" true, .disconnected "forced" false] := by
  have h := failfast_message C01E2E.exCfg C01E2E.exReact false none C01E2E.exSetup rfl C01E2E.exReply
    C01E2E.exGoodReply [] (by simp) exBad exBad_framed _ _ _ _ _
    (CutAt.later [] [{ pong := false, payload := [1], form := .short }] { payload := [0x28, 0x62], form := .short }
      [([{ pong := true, payload := [], form := .short }], { payload := [0x63], form := .short })] rfl)
    [] 0x28 [0x62] rfl (by decide) ⟨[0x82, 0xAC], by decide⟩
    (fun ext => by
      show Utf8.wf ([0x61, 0xE2, 0x28] ++ ext) = false
      cases hw : Utf8.wf ([0x61, 0xE2, 0x28] ++ ext) with
      | false => rfl
      | true =>
        have h0 := (Utf8.srun_zero_iff_wf _).mpr hw
        have e : Utf8.srun 0 [0x61, 0xE2, 0x28] = 1 := by decide
        rw [Utf8.srun_append, e, Utf8.srun_reject] at h0
        cases h0)
    ((C01E2E.exReply ++ ([0x01, 2, 0x61, 0xE2] ++ [0x89, 1, 1] ++ [0x00, 2, 0x28])).map (fun b => [b]))
    (bytewise_ne _) (by rw [bytewise_flatten]; decide +kernel) []
  rw [List.append_nil] at h
  exact h.trans rfl

/-- … and the same script evaluated directly -/
example : Monitor.events (runAll C01E2E.exCfg C01E2E.exReact
      (reads ((C01E2E.exReply ++ ([0x01, 2, 0x61, 0xE2] ++ [0x89, 1, 1] ++ [0x00, 2, 0x28])).map (fun b => [b])))).trace =
    [.connecting, .connected false, .ready none false, .poll, .ping [1],
     .protocolError "invalid utf8" true, .disconnected "forced" false] := by decide +kernel

/-- one byte less and the connection is still alive (the script runs out: trace marked INCOMPLETE) -/
example : Monitor.events (runAll C01E2E.exCfg C01E2E.exReact
      (reads ((C01E2E.exReply ++ ([0x01, 2, 0x61, 0xE2] ++ [0x89, 1, 1] ++ [0x00, 2])).map (fun b => [b])))).trace =
    [.connecting, .connected false, .ready none false, .poll, .ping [1]] := by decide +kernel

end Lomond.C05E2E
