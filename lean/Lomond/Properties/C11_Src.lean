/-
  C11, source structure: the thread model (`Model/Threads.lean`) lets the event-loop thread receive and decompress
  messages WITHOUT taking the write lock, and treats the compressor (`Deflate._compressobj`) as touched only by senders
  holding that lock.  That is a statement about `lomond/compression.py`; it is established over a fact the translator
  re-extracts on every run (`Gen.deflateTouches`: for each method of `Deflate`, the attributes of `self` it assigns,
  directly or through `self.<method>()` calls).
-/
import Lomond.Generated.Facts

namespace Lomond.C11Src
open Lomond

def touches (m : String) : List String :=
  ((Gen.deflateTouches.find? (fun t => t.1 == m)).map (·.2)).getD ["<method not found>"]

/-- the receive path (`decompress`, `_inflate`, `reset_decompressor`) never assigns the compressor or its parameters -/
theorem receive_path_leaves_compressor_alone :
    ∀ m ∈ ["decompress", "_inflate", "reset_decompressor"], ∀ a ∈ touches m,
      a ∈ ["_decompressobj", "_window"] := by
  decide

/-- the send path (`compress`, `reset_compressor`) never assigns the decompressor's state -/
theorem send_path_leaves_decompressor_alone :
    ∀ m ∈ ["compress", "reset_compressor"], ∀ a ∈ touches m, a = "_compressobj" := by
  decide

/-- the methods exist and do assign what they are meant to (the lists above are not empty by accident) -/
theorem paths_present :
    "_compressobj" ∈ touches "compress" ∧ "_decompressobj" ∈ touches "decompress" ∧
    "_compressobj" ∈ touches "reset_compressor" ∧ "_decompressobj" ∈ touches "reset_decompressor" := by
  decide

end Lomond.C11Src
