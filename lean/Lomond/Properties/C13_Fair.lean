/-
  C13 companion — EVERY fair schedule of the thread model completes (not only: some schedule does, `C13_Term.lean`).

  Thread model of C11 / C12 / C13 (`Model/Threads.lean`, two-chunk socket): a schedule is a list of thread ids; an entry of
  a thread that is done, or that waits at an `acquire` for the held lock, is a no-op (`Threads.step_not_enabled`).  The
  lock acquisitions of lomond (`with self._lock:`) have no time-out, so there is no "time-out" scheduling choice: a waiting
  thread moves exactly when it is scheduled while the lock is free.

    * `entry_moves_iff`, `moving_entries_bounded` — NO LIVELOCK: in a reachable state an entry changes the state iff its
      thread can move (`enabled`); along ANY schedule the number of such entries, plus the measure `remaining` of the
      state reached, is at most `remaining` of the start state.  So no schedule keeps the system busy for more than
      `remaining` moving entries.
    * `stuck_iff_all_done`, `all_done_or_some_can_move`, `holder_not_done`, `all_done_lock_free` — NO DEADLOCK, exactly:
      in a reachable state no thread `u < n` can move iff all threads are done.  There is NO exception for a lock held by
      a thread that is done / abandoned: in this model the holder of the lock always has a call in progress (every path out
      of a `with self._lock:` block — normal, WebSocketError, TransportFail, the alternative continuations that end the
      loop — passes its `release`), and when all threads are done the lock is free.
    * `fair_schedule_completes` — every infinite schedule `σ : Nat → Tid` in which every thread `u < n` occurs again and
      again reaches, after some prefix length `N`, a state in which all threads are done, and every longer prefix ends in
      that very state.  `window_fair_completes` / `round_robin_completes`: with an explicit bound — if every window of `w`
      consecutive entries names every thread (round-robin `σ j = j % n`: `w = n`), `N = w * remaining` entries suffice.
    * `abandon_fair_socket_shut` — the abandon family of `C13_Threads.lean` (loop program `[.abandon]`, arbitrary application
      programs), from every reachable state, under every fair continuation: eventually all threads are done and the socket
      is shut, for good.  `abandon_round_robin_socket_shut`: with the bound.
    * `fair_whole_frames` — arbitrary programs (N senders, the loop's writers, `close()`): under every fair schedule
      eventually all threads are done and the wire is a sequence of whole frames (`C11.whole_frames_quiescent`; in the
      vocabulary of `C11_N.lean`: whole groups of the two-chunk socket, `fair_whole_frames_groups`), for good.

  All for every variant, configuration, programs of finitely many threads (`progs t = []` for `t ≥ n`), start state `init`
  (connected) or `initPre` (before the connection), after any prefix schedule `pre`.

  Two-chunk socket (`run`) only, as `C13_Term.lean`: with the general socket of `Model/ThreadsN.lean` the measure would
  also have to count the chunks left of the `sendall` in progress.  The generic part (`Threads.FairSys` in
  `Proofs/ThreadsFair.lean`) needs only: a measure that moving entries decrease, no deadlock, no-op entries.
-/
import Lomond.Proofs.ThreadsFair
import Lomond.Properties.C13_Term
import Lomond.Properties.C11_N

namespace Lomond.C13Fair
open Lomond Lomond.Threads Lomond.C13Threads Lomond.C13Term

/-- the first `k` entries of an infinite schedule -/
abbrev prefixOf (σ : Nat → Tid) (k : Nat) : List Tid := (List.range k).map σ

/-- every thread `u < n` is scheduled again and again -/
abbrev FairSchedule (n : Nat) (σ : Nat → Tid) : Prop := ∀ u, u < n → ∀ k, ∃ j, k ≤ j ∧ σ j = u

/-- every window of `w` consecutive entries names every thread `u < n` -/
abbrev WindowFairSchedule (n w : Nat) (σ : Nat → Tid) : Prop := ∀ k u, u < n → ∃ j, k ≤ j ∧ j < k + w ∧ σ j = u

/-- the entries of a schedule whose thread can move when the entry is executed -/
abbrev movingEntries (v : Variant) (cfg : Cfg) (s : State) (sched : List Tid) : Nat := Threads.movingEntries v cfg s sched

theorem reachable_inv (v : Variant) (cfg : Cfg) (progs : Tid → List Call) (n : Nat)
    (hn : ∀ t, n ≤ t → progs t = []) (pre : List Tid) (s₁ : State) (h₁ : s₁ = init progs ∨ s₁ = initPre progs) :
    TermInv v cfg n (run v cfg s₁ pre) :=
  (termSys v cfg n).inv_exec s₁ pre (termInv_start v cfg progs n hn s₁ h₁)

/-! ### 1. no livelock -/

/-- **An entry changes the state iff its thread can move** (in every reachable state; any thread id). -/
theorem entry_moves_iff (v : Variant) (cfg : Cfg) (progs : Tid → List Call) (pre : List Tid)
    (s₁ : State) (h₁ : s₁ = init progs ∨ s₁ = initPre progs) (u : Tid) :
    let s := run v cfg s₁ pre
    step v cfg s u ≠ s ↔ enabled v cfg s u = true := by
  intro s
  have N : NE s := ne_run v cfg _ pre (ne_fresh _ (by rcases h₁ with h | h <;> subst h <;> intro t <;> rfl))
  constructor
  · intro h
    cases he : enabled v cfg s u with
    | true => rfl
    | false => exact absurd (step_not_enabled v cfg s u he) h
  · exact step_enabled_ne v cfg s u N

/-- **No livelock**: along ANY schedule `sched` from a reachable state `s`, the number of entries that move a thread, plus
    the steps remaining at the end, is at most the steps remaining in `s`. -/
theorem moving_entries_bounded (v : Variant) (cfg : Cfg) (progs : Tid → List Call) (n : Nat)
    (hn : ∀ t, n ≤ t → progs t = []) (pre : List Tid) (s₁ : State) (h₁ : s₁ = init progs ∨ s₁ = initPre progs)
    (sched : List Tid) :
    let s := run v cfg s₁ pre
    movingEntries v cfg s sched + remaining v cfg n (run v cfg s sched) ≤ remaining v cfg n s := by
  intro s
  have h := (termSys v cfg n).moving_le s sched (reachable_inv v cfg progs n hn pre s₁ h₁)
  rw [termSys_moving] at h
  exact h

/-- in particular: at most `remaining` entries of any schedule move a thread -/
theorem moving_entries_le_remaining (v : Variant) (cfg : Cfg) (progs : Tid → List Call) (n : Nat)
    (hn : ∀ t, n ≤ t → progs t = []) (pre : List Tid) (s₁ : State) (h₁ : s₁ = init progs ∨ s₁ = initPre progs)
    (sched : List Tid) :
    let s := run v cfg s₁ pre
    movingEntries v cfg s sched ≤ remaining v cfg n s := by
  intro s
  have := moving_entries_bounded v cfg progs n hn pre s₁ h₁ sched
  exact Nat.le_trans (Nat.le_add_right _ _) this

/-! ### 2. no deadlock, exactly -/

/-- **In every reachable state either all threads are done or some thread `u < n` can move.** -/
theorem all_done_or_some_can_move (v : Variant) (cfg : Cfg) (progs : Tid → List Call) (n : Nat)
    (hn : ∀ t, n ≤ t → progs t = []) (pre : List Tid) (s₁ : State) (h₁ : s₁ = init progs ∨ s₁ = initPre progs) :
    let s := run v cfg s₁ pre
    AllDone v cfg s ∨ ∃ u, u < n ∧ enabled v cfg s u = true := by
  intro s
  have I := reachable_inv v cfg progs n hn pre s₁ h₁
  by_cases hd : AllDone v cfg s
  · exact Or.inl hd
  · obtain ⟨u, hu⟩ := (termSys v cfg n).live s I hd
    exact Or.inr ⟨u, ((termSys v cfg n).dec s u I hu).1, hu⟩

/-- **The stuck states are exactly the completed ones**: no thread `u < n` can move iff all threads are done. -/
theorem stuck_iff_all_done (v : Variant) (cfg : Cfg) (progs : Tid → List Call) (n : Nat)
    (hn : ∀ t, n ≤ t → progs t = []) (pre : List Tid) (s₁ : State) (h₁ : s₁ = init progs ∨ s₁ = initPre progs) :
    let s := run v cfg s₁ pre
    (∀ u, u < n → enabled v cfg s u = false) ↔ AllDone v cfg s := by
  intro s
  constructor
  · intro h
    rcases all_done_or_some_can_move v cfg progs n hn pre s₁ h₁ with hd | ⟨u, hun, hu⟩
    · exact hd
    · rw [h u hun] at hu; cases hu
  · intro h u _
    exact (termSys v cfg n).quiet s u h

/-- the holder of the lock is never a thread that is done: it has a call in progress and can move -/
theorem holder_not_done (v : Variant) (cfg : Cfg) (progs : Tid → List Call) (pre : List Tid)
    (s₁ : State) (h₁ : s₁ = init progs ∨ s₁ = initPre progs) (h : Tid) :
    let s := run v cfg s₁ pre
    s.sh.lock = some h → (s.th h).current v cfg ≠ none ∧ enabled v cfg s h = true := by
  intro s hl
  have L₁ : LockInv v cfg s₁ := by
    rcases h₁ with h | h <;> subst h
    · exact lockInv_init v cfg progs
    · exact lockInv_initPre v cfg progs
  have he := holder_enabled (lockInv_run v cfg _ pre L₁) hl
  exact ⟨enabled_current he, he⟩

/-- when all threads are done the lock is free -/
theorem all_done_lock_free (v : Variant) (cfg : Cfg) (progs : Tid → List Call) (pre : List Tid)
    (s₁ : State) (h₁ : s₁ = init progs ∨ s₁ = initPre progs) :
    let s := run v cfg s₁ pre
    AllDone v cfg s → s.sh.lock = none := by
  intro s hd
  cases hl : s.sh.lock with
  | none => rfl
  | some h => exact absurd (hd h) (holder_not_done v cfg progs pre s₁ h₁ h hl).1

/-! ### 3. every fair schedule completes -/

/-- **Every fair schedule completes.**  From every reachable state `s`, for every infinite schedule `σ` in which every
    thread `u < n` occurs again and again: there is a prefix length `N` such that after every prefix of length `N' ≥ N`
    all threads are done — and the state no longer changes. -/
theorem fair_schedule_completes (v : Variant) (cfg : Cfg) (progs : Tid → List Call) (n : Nat)
    (hn : ∀ t, n ≤ t → progs t = []) (pre : List Tid) (s₁ : State) (h₁ : s₁ = init progs ∨ s₁ = initPre progs)
    (σ : Nat → Tid) (hσ : FairSchedule n σ) :
    let s := run v cfg s₁ pre
    ∃ N, ∀ N', N ≤ N' →
      AllDone v cfg (run v cfg s (prefixOf σ N')) ∧ run v cfg s (prefixOf σ N') = run v cfg s (prefixOf σ N) := by
  intro s
  exact (termSys v cfg n).fair_completes s σ (reachable_inv v cfg progs n hn pre s₁ h₁) hσ

/-- **With a bound**: if every window of `w` consecutive entries names every thread `u < n`, the first `w * remaining`
    entries complete all threads (and nothing changes afterwards). -/
theorem window_fair_completes (v : Variant) (cfg : Cfg) (progs : Tid → List Call) (n : Nat)
    (hn : ∀ t, n ≤ t → progs t = []) (pre : List Tid) (s₁ : State) (h₁ : s₁ = init progs ∨ s₁ = initPre progs)
    (σ : Nat → Tid) (w : Nat) (hσ : WindowFairSchedule n w σ) :
    let s := run v cfg s₁ pre
    let N := w * remaining v cfg n s
    ∀ N', N ≤ N' →
      AllDone v cfg (run v cfg s (prefixOf σ N')) ∧ run v cfg s (prefixOf σ N') = run v cfg s (prefixOf σ N) := by
  intro s N N' hN
  have hd := (termSys v cfg n).window_completes s σ (reachable_inv v cfg progs n hn pre s₁ h₁) w hσ
  exact (termSys v cfg n).done_from s σ N hd N' hN

/-- **Round-robin completes within `n * remaining` entries** (`σ j = j % n`), from every reachable state. -/
theorem round_robin_completes (v : Variant) (cfg : Cfg) (progs : Tid → List Call) (n : Nat)
    (hn : ∀ t, n ≤ t → progs t = []) (pre : List Tid) (s₁ : State) (h₁ : s₁ = init progs ∨ s₁ = initPre progs) :
    let s := run v cfg s₁ pre
    let N := n * remaining v cfg n s
    ∀ N', N ≤ N' →
      AllDone v cfg (run v cfg s (prefixOf (· % n) N')) ∧
      run v cfg s (prefixOf (· % n) N') = run v cfg s (prefixOf (· % n) N) :=
  window_fair_completes v cfg progs n hn pre s₁ h₁ (· % n) n (roundRobin_windowFair n)

/-- round-robin is fair -/
theorem round_robin_fair (n : Nat) : FairSchedule n (· % n) :=
  windowFair_fair n n _ (roundRobin_windowFair n)

/-! ### 4. the properties, for fair schedules -/

/-- **C13 with threads, every fair schedule**: loop program `[.abandon]`, arbitrary application programs, ANY reachable
    state (a sender may hold the lock), any fair continuation `σ`: from some prefix length on, all threads are done and
    the socket is shut. -/
theorem abandon_fair_socket_shut (v : Variant) (cfg : Cfg) (progs : Tid → List Call) (n : Nat) (l : Tid)
    (hn : ∀ t, n ≤ t → progs t = []) (hl : progs l = [.abandon]) (pre : List Tid)
    (σ : Nat → Tid) (hσ : FairSchedule n σ) :
    let s := final v cfg progs pre
    ∃ N, ∀ N', N ≤ N' →
      AllDone v cfg (run v cfg s (prefixOf σ N')) ∧ (run v cfg s (prefixOf σ N')).sh.sockShut = true := by
  intro s
  obtain ⟨N, h⟩ := fair_schedule_completes v cfg progs n hn pre (init progs) (Or.inl rfl) σ hσ
  refine ⟨N, fun N' hN => ⟨(h N' hN).1, ?_⟩⟩
  exact lock_held_at_abandonment v cfg progs l hl pre (prefixOf σ N') ((h N' hN).1 l)

/-- the same with the bound, for the round-robin schedule -/
theorem abandon_round_robin_socket_shut (v : Variant) (cfg : Cfg) (progs : Tid → List Call) (n : Nat) (l : Tid)
    (hn : ∀ t, n ≤ t → progs t = []) (hl : progs l = [.abandon]) (pre : List Tid) :
    let s := final v cfg progs pre
    ∀ N', n * remaining v cfg n s ≤ N' →
      AllDone v cfg (run v cfg s (prefixOf (· % n) N')) ∧ (run v cfg s (prefixOf (· % n) N')).sh.sockShut = true := by
  intro s N' hN
  have h := round_robin_completes v cfg progs n hn pre (init progs) (Or.inl rfl) N' hN
  exact ⟨h.1, lock_held_at_abandonment v cfg progs l hl pre (prefixOf (· % n) N') (h.1 l)⟩

/-- **C11, every fair schedule**: arbitrary programs of finitely many threads (N senders, `close()`, the loop's writers),
    any fair schedule: from some prefix length on all threads are done and the wire is a sequence of WHOLE frames (each
    frame's two chunks adjacent and in order, nothing else). -/
theorem fair_whole_frames (v : Variant) (cfg : Cfg) (progs : Tid → List Call) (n : Nat)
    (hn : ∀ t, n ≤ t → progs t = []) (σ : Nat → Tid) (hσ : FairSchedule n σ) :
    ∃ N, ∀ N', N ≤ N' →
      let s := C11.final v cfg progs (prefixOf σ N')
      AllDone v cfg s ∧ s.sh.wire = pairs (frames s.sh.wire) := by
  obtain ⟨N, h⟩ := fair_schedule_completes v cfg progs n hn [] (init progs) (Or.inl rfl) σ hσ
  refine ⟨N, fun N' hN => ?_⟩
  have hd : AllDone v cfg (C11.final v cfg progs (prefixOf σ N')) := (h N' hN).1
  refine ⟨hd, C11.whole_frames_quiescent v cfg progs _ (fun t => ?_)⟩
  simp only [view, hd t]
  rfl

/-- the same in the vocabulary of `C11_N.lean` (the two-chunk socket `Env.two`): the wire is the concatenation of whole
    groups, the groups of each thread in call order -/
theorem fair_whole_frames_groups (v : Variant) (cfg : Cfg) (progs : Tid → List Call) (n : Nat)
    (hn : ∀ t, n ≤ t → progs t = []) (σ : Nat → Tid) (hσ : FairSchedule n σ) :
    ∃ N, ∀ N', N ≤ N' →
      let s := C11N.final Env.two v cfg progs (prefixOf σ N')
      AllDone v cfg s ∧
      ∃ gs : List Group, (∀ g ∈ gs, g.whole Env.two) ∧ (∀ t, (gidx gs t).Pairwise (· < ·)) ∧ s.sh.wire = flat gs := by
  obtain ⟨N, h⟩ := fair_schedule_completes v cfg progs n hn [] (init progs) (Or.inl rfl) σ hσ
  refine ⟨N, fun N' hN => ?_⟩
  have e : C11N.final Env.two v cfg progs (prefixOf σ N') = run v cfg (init progs) (prefixOf σ N') :=
    runN_default v cfg _ _
  have hd : AllDone v cfg (C11N.final Env.two v cfg progs (prefixOf σ N')) := by rw [e]; exact (h N' hN).1
  refine ⟨hd, C11N.whole_frames_no_failure Env.two (fun _ _ => rfl) v cfg progs _ (fun t => ?_)⟩
  simp only [view, hd t]
  rfl

/-! ### non-vacuity -/

/-- two senders and the loop thread closing the generator -/
def twoAb : Tid → List Call := progsOf [[.sendText txt false], [.sendPing [1, 2]], [.abandon]]

example : ∀ t, 3 ≤ t → twoAb t = [] := by
  intro t ht
  match t with
  | t + 3 => rfl

example : twoAb 2 = [.abandon] := rfl

/-- 7 + 7 + 9 steps to do; round-robin needs at most 3 * 23 = 69 entries -/
example : remaining ca {} 3 (init twoAb) = 23 := by decide +kernel

/-- round-robin from the start: all 23 steps are done after 60 entries, within the bound 69 — the other 37 entries were
    no-ops (thread 1 and the loop waiting for the lock while thread 0, then thread 1, hold it; entries of finished
    threads); the socket is shut, the lock is free, both frames are whole -/
example : let s := run ca {} (init twoAb) (prefixOf (· % 3) 60)
    (∀ t, t < 3 → (s.th t).current ca {} = none) ∧ movingEntries ca {} (init twoAb) (prefixOf (· % 3) 60) = 23 ∧
    remaining ca {} 3 s = 0 ∧ s.sh.sockShut = true ∧ s.sh.lock = none ∧
    s.sh.wire = pairs (frames s.sh.wire) ∧ (frames s.sh.wire).map (fun c => c.desc.op) = [1, 9] := by
  decide +kernel

/-- one entry earlier the loop thread is not done yet -/
example : let s := run ca {} (init twoAb) (prefixOf (· % 3) 59)
    (s.th 2).current ca {} ≠ none := by
  decide +kernel

/-- a no-op entry: after `0` (thread 0 has taken the lock) thread 1 stands at its `acquire`: it cannot move, its entry
    leaves the measure alone; thread 0 can, and the stuck condition of `stuck_iff_all_done` fails -/
example : let s := run ca {} (init twoAb) [0]
    s.sh.lock = some 0 ∧ enabled ca {} s 1 = false ∧ enabled ca {} s 0 = true ∧ enabled ca {} s 2 = true ∧
    remaining ca {} 3 (step ca {} s 1) = remaining ca {} 3 s ∧ movingEntries ca {} s [1, 1, 1, 0, 1] = 1 := by
  decide +kernel

/-- a fair schedule that is not round-robin: thread 0 only at every fourth entry (`1 2 1 0 1 2 1 0 …`) -/
def lazy0 : Nat → Tid := fun j => if j % 4 = 3 then 0 else if j % 2 = 0 then 1 else 2

/-- under it thread 0 comes too late: its `send_text` finds no socket (`WebSocketUnavailable`) and skips its writes —
    19 moving entries instead of 23, done after 42 entries; the ping is on the wire as a whole frame -/
example : let s := run ca {} (init twoAb) (prefixOf lazy0 42)
    (∀ t, t < 3 → (s.th t).current ca {} = none) ∧ s.sh.sockShut = true ∧
    movingEntries ca {} (init twoAb) (prefixOf lazy0 42) = 19 ∧
    (s.th 0).results = [⟨false, some .unavailable, false⟩] ∧ (frames s.sh.wire).map (fun c => c.desc.op) = [9] := by
  decide +kernel

/-- from a state in which a sender holds the lock and the loop waits (`C13_Threads.lean`): round-robin completes within
    `2 * 11` entries -/
example : let s := final ca {} sendAb [0, 0, 0, 0, 1]
    let s' := run ca {} s (prefixOf (· % 2) 22)
    remaining ca {} 2 s = 11 ∧ (∀ t, t < 2 → (s'.th t).current ca {} = none) ∧ s'.sh.sockShut = true := by
  decide +kernel

end Lomond.C13Fair
