/-
  C04, end to end, second part — closes the gaps an audit found in `C04E2E`:

  1. `Violating'`: the violation classes of `C04E2E.Violating` **plus** a frame length of 2^63 or
     more, for a connection on which permessage-deflate was negotiated **or not** (`dz`): with the
     extension the header class is `Spec.headerVerdict true …` — RSV2 / RSV3 set are violations, RSV1
     is not.  `violation_end_to_end_ext`, `violation_end_to_end_mid_ext`: the whole-connection statement
     for every class.
     NOTE (reported, not hidden): RFC 7692 §6.1 additionally requires a receiver to fail the
     connection when RSV1 is set on a control frame or on a continuation frame.  lomond's
     `CompressedFrame.validate_reserved_bits` tests RSV2 / RSV3 only, so lomond does **not** treat
     those frames as violations: `rsv1_control_frame_is_accepted` below is the model's behaviour
     (an RSV1 Ping's payload is inflated and delivered), which the real code shares.  These two
     classes are therefore *not* part of `Violating'`; property C04's own list ("a reserved bit
     without a negotiated extension") does not contain them either.
  2. `header_only_promptness`: a header the parser can refuse on its own is refused as soon as the
     header is complete — before the first payload byte — in every state at a frame boundary (idle or
     inside a fragmented message); stated against the independent `Spec.headerVerdict`.  The classes
     that are *not* refused there (MASK = 1; the two fragmentation rules) wait for the end of the
     frame's payload, and the theorem says so (`header_waits`).
  3. `violation_any_application`: for EVERY application (sends, pings, `close()`,
     `session.close()`, leaving the loop — at any event, before and after the error), every
     configuration and every environment script: after the ProtocolError event the trace is
     the application's own reaction (`ReactSeg`: each frame in it is the outcome of an application
     call whose result token follows it), then at most one Close frame written by the library
     (`CloseWrite`), then a tail in which nothing at all is written (`TailV`): after the library
     has reacted no application send succeeds any more.

  Helper lemmas: Proofs/ViolationGen.lean.
-/
import Lomond.Proofs.ViolationGen
import Lomond.Properties.C04_E2E
import Lomond.Model.Inflate

namespace Lomond.C04E2E2
open Lomond Lomond.Core Lomond.Core.E2E

/-! ## 1. All violation classes, extension negotiated or not -/

/-- one violating frame, as bytes.  `deflate`: permessage-deflate was negotiated; `mid`: a
    fragmented data message is open when it arrives.
    * `header`: any two header bytes that RFC 6455 / RFC 7692's classification `Spec.headerVerdict
      deflate mid` calls a violation — RSV2 / RSV3 set; RSV1 set without the extension; reserved
      opcode; control frame with FIN = 0 or a length above 125; MASK = 1; continuation with nothing
      to continue (`mid = false`); new Text / Binary frame inside a fragmented message
      (`mid = true`) — followed by a complete body (`WireBody`);
    * `close`: an unfragmented, unmasked Close frame of legal length whose payload is one byte long,
      or carries a reserved status code, or a reason that is not well-formed UTF-8;
    * `tooLarge`: any header announcing the 64-bit length form with a value of 2^63 or more (no
      payload needs to follow). -/
inductive Violating' (deflate mid : Bool) : Bytes → Prop
  | header (b0 b1 : Nat) (ext key payload : Bytes) (hb0 : b0 < 256) (hb1 : b1 < 256)
      (hw : WireBody b1 ext key payload) (hv : Spec.headerVerdict deflate mid b0 b1 = .violation) :
      Violating' deflate mid ([b0, b1] ++ (ext ++ (key ++ payload)))
  | close (payload : Bytes) (hlen : payload.length ≤ 125)
      (hbad : payload.length = 1 ∨
        ∃ c0 c1 rb, payload = c0 :: c1 :: rb ∧ (Spec.reservedCloseCode (c0 * 256 + c1) ∨ Utf8.wf rb = false)) :
      Violating' deflate mid ([0x88, payload.length] ++ payload)
  | tooLarge (b0 b1 : Nat) (ext : Bytes) (h127 : b1 % 128 = 127) (he : ext.length = 8)
      (hbig : beVal ext ≥ 2 ^ 63) :
      Violating' deflate mid ([b0, b1] ++ ext)

/-- the earlier class is the `deflate = false` instance without `tooLarge` -/
theorem violating_of_old {mid : Bool} {bad : Bytes} (h : C04E2E.Violating mid bad) : Violating' false mid bad := by
  cases h with
  | header b0 b1 ext key payload hb0 hb1 hw hv => exact .header b0 b1 ext key payload hb0 hb1 hw hv
  | close payload hlen hbad => exact .close payload hlen hbad

/-- a violating frame stops `Parser.feed`'s loop with an exception that `WebSocket.feed` reports;
    nothing of it is delivered, `rest` is not read -/
theorem violatingG_stops (deflate mid : Bool) (bad : Bytes) (hb : Violating' deflate mid bad) (sp : Sys)
    (hv : sp.cfg.v.ctrlLen = true) (hs : AwaitHeader sp.p) (hc : sp.p.compression = deflate)
    (hf : decide (sp.frames ≠ []) = mid) (rest : Bytes) :
    ∃ x p'' msg crit, feedLoop (bad ++ rest) sp = .err x { sp with p := p'' } ∧ violationOf x = some (msg, crit) := by
  cases hb with
  | header b0 b1 ext key payload hb0 hb1 hw hvd =>
    have hvd' : Spec.headerVerdict sp.p.compression (decide (sp.frames ≠ [])) b0 b1 = .violation := by
      rw [hc, hf]; exact hvd
    obtain ⟨x, p'', e, hx⟩ := C04.header_violation_stops sp hv hs b0 b1 hb0 hb1 ext key payload rest hw hvd'
    have ea : [b0, b1] ++ (ext ++ (key ++ payload)) ++ rest = [b0, b1] ++ (ext ++ (key ++ (payload ++ rest))) := by
      simp
    rw [ea]
    rcases hx with ⟨rfl, _⟩ | ⟨msg, _, rfl⟩
    · exact ⟨_, p'', _, _, e, rfl⟩
    · exact ⟨_, p'', _, _, e, rfl⟩
  | close payload hlen hbad =>
    obtain ⟨x, p'', e, hx⟩ := C04.close_frame_violation sp hv hs payload rest hlen hbad
    have ea : [0x88, payload.length] ++ payload ++ rest = [0x88, payload.length] ++ (payload ++ rest) := by
      simp
    rw [ea]
    cases hvx : violationOf x with
    | none => rw [hvx] at hx; cases hx
    | some mc => exact ⟨x, p'', mc.1, mc.2, e, hvx⟩
  | tooLarge b0 b1 ext h127 he hbig =>
    obtain ⟨p'', e⟩ := C04.length_2_63 sp hs b0 b1 h127 ext rest he hbig
    have ea : [b0, b1] ++ ext ++ rest = [b0, b1] ++ (ext ++ rest) := by simp
    rw [ea]
    exact ⟨_, p'', _, _, e, rfl⟩

/-- **Violation, end to end — every class, extension negotiated or not** (all prefixes, every
    segmentation).  Setting as `C04E2E.violation_end_to_end`; the upgrade reply negotiates
    permessage-deflate with the configuration `dz` (`none`: no extension); the conforming prefix
    `items` is sent uncompressed (RSV1 = 0, which the extension allows per message); `bad` is any
    `Violating' dz.isSome false` frame.  The complete trace of the connection is

        post ++ cw ++ l ++ ProtocolError(msg, crit) :: pre        (newest first)

    * `pre` carries exactly the events Connecting, Connected, Ready, Poll and then
      `C01.expected items none`: every message of the prefix delivered once, in order, byte-exact;
    * exactly one ProtocolError event;
    * `l`, the application's reaction to it, contains no event and is the application's own
      (`AnyApp.ReactSeg`: every frame in it is the outcome of an application call, whose result token
      follows it — sends made while handling the ProtocolError event still go out); `cw`, what the
      library writes itself, is nothing or — for a non-critical error only — one Close frame carrying
      1002 and the error text (`CloseWrite`);
    * `post`: the socket is closed, `Disconnected(k, graceful=False)` is yielded, the application's
      calls in reaction to it only report results (`AnyApp.TailV`: nothing is written any more — no
      application send succeeds), the selector is closed;
    * the application's own sends made BEFORE the error (the example application sends at every
      event) change neither the delivery of the prefix nor the detection: `pre` carries exactly the
      expected events whatever `react` sends;
    hence the events of the whole connection are exactly
    `Connecting, Connected, Ready, Poll, expected items, ProtocolError, Disconnected(graceful=False)`. -/
theorem violation_end_to_end_ext (cfg : Cfg) (react : React) (proxy : Bool) (proto : Option Http.Str)
    (dz : Option Http.DeflateCfg)
    (hs : Setup cfg react proxy) (hv : cfg.v.ctrlLen = true)
    (reply : Bytes) (hreply : GoodReplyG cfg reply proto dz)
    (items : List Item) (hok : ∀ it ∈ items, it.Ok) (bad : Bytes) (hbad : Violating' dz.isSome false bad)
    (rest : Bytes)
    (chunks : List Bytes) (hne : ∀ c ∈ chunks, c ≠ [])
    (hflat : chunks.flatten = reply ++ (wireBytes (items.flatMap Item.wire) ++ (bad ++ rest)))
    (restEnv : List EnvStep) :
    ∃ msg crit k cw l post pre,
      (runAll cfg react (reads chunks ++ restEnv)).trace = post ++ cw ++ l ++ .ev (.protocolError msg crit) :: pre ∧
      Monitor.histOf pre = (C01.expected items none).reverse ++
        [.poll, .ready proto dz.isSome, .connected proxy, .connecting] ∧
      ((∀ o ∈ l, Obs.isEv o = false) ∧ AnyApp.ReactSeg l) ∧ CloseWrite msg crit cw ∧
      Monitor.histOf post = [.disconnected k false] ∧
      ((∀ o ∈ post, TailObs (.disconnected k false) o) ∧ ∀ o ∈ post, AnyApp.TailV o) ∧
      (k = "forced" ∨ (crit = false ∧ k = "error")) ∧
      Monitor.events (runAll cfg react (reads chunks ++ restEnv)).trace =
        [.connecting, .connected proxy, .ready proto dz.isSome, .poll] ++ C01.expected items none ++
          [.protocolError msg crit, .disconnected k false] := by
  have hex : C01.expected items none = items.flatMap Item.events := by simp [C01.expected]
  rw [hex]
  obtain ⟨msg, crit, k, cw, l, post, pre, _, h1, h2, h3, h4, h5, h6, h7, h8⟩ :=
    run_violation_g hs hreply chunks _ restEnv hne hflat (items.flatMap Item.events) (fun _ _ => True) (by
      intro s4 h4
      obtain ⟨sp, hfl, a⟩ := feed_items_G h4.idle items hok
      have b := a.idle
      obtain ⟨x, p'', msg, crit, e, hx⟩ := violatingG_stops dz.isSome false bad hbad sp (by rw [b.hcfg]; exact hv)
        ⟨b.between.b.cont, b.between.b.rem, b.between.b.utf8, b.between.b.buf⟩ b.comp (by rw [b.frames]; rfl) rest
      refine ⟨x, { sp with p := p'' }, msg, crit, ?_, hx, ⟨b.i.app, b.i.poll, b.i.sock, b.i.nr, b.i.rd⟩, a.hist, trivial⟩
      rw [feedLoop_append, hfl]
      exact e)
  exact ⟨msg, crit, k, cw, l, post, pre, h1, h2, h3, h4, h5, h6, h7, h8⟩

/-- **Violation inside a fragmented message — every class, extension negotiated or not.**  As
    `C04E2E.violation_end_to_end_mid`: after the conforming `items` the server has sent the first
    fragment (FIN = 0, RSV1 = 0) of a Text (`text = true`) or Binary message, non-final continuation
    fragments `r1` with interleaved Ping/Pong, further Ping/Pong frames `cs`.  For a Text message the
    bytes received so far must still be salvageable, the repaired `_is_text` bookkeeping is assumed
    and — with the extension negotiated — the repaired per-message validation choice (D9). -/
theorem violation_end_to_end_mid_ext (cfg : Cfg) (react : React) (proxy : Bool) (proto : Option Http.Str)
    (dz : Option Http.DeflateCfg)
    (hs : Setup cfg react proxy) (hv : cfg.v.ctrlLen = true)
    (reply : Bytes) (hreply : GoodReplyG cfg reply proto dz)
    (items : List Item) (hok : ∀ it ∈ items, it.Ok)
    (text : Bool) (first : Frag) (r1 : List (List CtrlF × Frag)) (cs : List CtrlF)
    (hfirst : first.Ok) (hr1 : contOk r1) (hcs : ∀ c ∈ cs, c.Ok)
    (htext : text = true → cfg.v.keepIsText = true ∧ (cfg.v.perMsgValidate = true ∨ dz.isSome = false) ∧
      ∃ d, Utf8.validate 0 (first.payload ++ contPayload r1) = some d)
    (bad : Bytes) (hbad : Violating' dz.isSome true bad) (rest : Bytes)
    (chunks : List Bytes) (hne : ∀ c ∈ chunks, c ≠ [])
    (hflat : chunks.flatten =
      reply ++ (wireBytes (items.flatMap Item.wire) ++ (wireBytes (openWire text first r1 cs) ++ (bad ++ rest))))
    (restEnv : List EnvStep) :
    ∃ msg crit k cw l post pre,
      (runAll cfg react (reads chunks ++ restEnv)).trace = post ++ cw ++ l ++ .ev (.protocolError msg crit) :: pre ∧
      ((∀ o ∈ l, Obs.isEv o = false) ∧ AnyApp.ReactSeg l) ∧ CloseWrite msg crit cw ∧
      Monitor.histOf post = [.disconnected k false] ∧
      ((∀ o ∈ post, TailObs (.disconnected k false) o) ∧ ∀ o ∈ post, AnyApp.TailV o) ∧
      (k = "forced" ∨ (crit = false ∧ k = "error")) ∧
      Monitor.events (runAll cfg react (reads chunks ++ restEnv)).trace =
        [.connecting, .connected proxy, .ready proto dz.isSome, .poll] ++
          (C01.expected items none ++ (contCtrls r1 ++ cs).map CtrlF.event) ++
          [.protocolError msg crit, .disconnected k false] := by
  have hex : C01.expected items none = items.flatMap Item.events := by simp [C01.expected]
  rw [hex]
  obtain ⟨msg, crit, k, cw, l, post, pre, _, h1, _, h3, h4, h5, h6, h7, h8⟩ :=
    run_violation_g hs hreply chunks _ restEnv hne hflat
      (items.flatMap Item.events ++ (contCtrls r1 ++ cs).map CtrlF.event) (fun _ _ => True) (by
      intro s4 h4
      obtain ⟨sp0, hfl0, a0⟩ := feed_items_G h4.idle items hok
      obtain ⟨sp, hfl, a⟩ := feed_open_g a0.idle text first r1 cs hfirst hr1 hcs htext
      obtain ⟨x, p'', msg, crit, e, hx⟩ := violatingG_stops dz.isSome true bad hbad sp (by rw [a.hcfg]; exact hv)
        a.await a.comp (by simp [a.frames]) rest
      refine ⟨x, { sp with p := p'' }, msg, crit, ?_, hx, ⟨a.i.app, a.i.poll, a.i.sock, a.i.nr, a.i.rd⟩, ?_, trivial⟩
      · rw [feedLoop_append, hfl0]
        show feedLoop (wireBytes (openWire text first r1 cs) ++ (bad ++ rest)) sp0 = _
        rw [feedLoop_append, hfl]
        exact e
      · have := a.hist
        rw [a0.hist] at this
        exact this.trans (by simp))
  exact ⟨msg, crit, k, cw, l, post, pre, h1, h3, h4, h5, h6, h7, h8⟩

/-! ### Non-vacuity -/

/-- an upgrade reply that negotiates permessage-deflate (default parameters) -/
def exReplyZ : Bytes :=
  Http.lit "HTTP/1.1 101 Switching Protocols\r\nUpgrade: websocket\r\nConnection: Upgrade\r\nSec-WebSocket-Accept: s3pPLMBiTxaQ9kYGzzhZRbK+xOo=\r\nSec-WebSocket-Extensions: permessage-deflate\r\n\r\n"

def exDz : Http.DeflateCfg := { decompressWbits := 15, compressWbits := 15, resetDecompress := false, resetCompress := false }

/-- the reply is accepted and switches the extension on -/
theorem exGoodReplyZ : GoodReplyG C01E2E.exCfg exReplyZ none (some exDz) :=
  ⟨⟨171, by decide +kernel, by decide +kernel⟩, by decide +kernel, by decide +kernel⟩

/-- a frame announcing 2^63 bytes; RSV2 on a Text frame and RSV3 on a Ping with the extension; RSV1
    is a violation only without it -/
theorem ex_tooLarge : Violating' true false ([0x82, 127] ++ [128, 0, 0, 0, 0, 0, 0, 0]) :=
  .tooLarge 0x82 127 _ (by decide) (by decide) (by decide)
example : Violating' true false ([0xA1, 1] ++ ([] ++ ([] ++ [65]))) :=
  .header 0xA1 1 [] [] [65] (by decide) (by decide)
    ⟨by decide, by decide, by decide, by decide, by decide, by decide⟩ (by decide)
example : Violating' true false ([0x99, 0] ++ ([] ++ ([] ++ []))) :=
  .header 0x99 0 [] [] [] (by decide) (by decide)
    ⟨by decide, by decide, by decide, by decide, by decide, by decide⟩ (by decide)
example : Spec.headerVerdict true false 0xC1 1 = .ok ∧ Spec.headerVerdict false false 0xC1 1 = .violation := by decide

/-- `violation_end_to_end_ext` applies with the extension negotiated: C01's example items, then a
    frame announcing 2^63 bytes, then a Binary frame; one byte per read -/
example : ∃ msg crit k, Monitor.events (runAll C01E2E.exCfg C01E2E.exReact
      (reads ((exReplyZ ++ (wireBytes (C01.exItems.flatMap Item.wire) ++
        (([0x82, 127] ++ [128, 0, 0, 0, 0, 0, 0, 0]) ++ [0x82, 1, 65]))).map (fun b => [b])) ++
        [.wait 3 (some (.data [0x81, 1, 66]))])).trace =
    [.connecting, .connected false, .ready none true, .poll] ++ C01.expected C01.exItems none ++
      [.protocolError msg crit, .disconnected k false] := by
  obtain ⟨msg, crit, k, _, _, _, _, _, _, _, _, _, _, _, h⟩ :=
    violation_end_to_end_ext C01E2E.exCfg C01E2E.exReact false none (some exDz) C01E2E.exSetup rfl exReplyZ exGoodReplyZ
      C01.exItems C01.ex_conforming.1 _ ex_tooLarge [0x82, 1, 65] _ (bytewise_ne _) (bytewise_flatten _)
      [.wait 3 (some (.data [0x81, 1, 66]))]
  exact ⟨msg, crit, k, h⟩

/-- … and the same stream in one read, evaluated directly -/
example : Monitor.events (runAll C01E2E.exCfg C01E2E.exReact
      (reads [exReplyZ ++ (wireBytes (C01.exItems.flatMap Item.wire) ++
        (([0x82, 127] ++ [128, 0, 0, 0, 0, 0, 0, 0]) ++ [0x82, 1, 65]))] ++
        [.wait 3 (some (.data [0x81, 1, 66]))])).trace =
    [.connecting, .connected false, .ready none true, .poll,
     .ping [1, 2], .pong [], .text [0x20AC, 0x61], .pong [7], .binary (List.replicate 126 255),
     .protocolError "payload is too large" false, .disconnected "forced" false] := by
  decide +kernel

/-- `violation_end_to_end_mid_ext` applies with the extension negotiated: a Text message is begun
    (FIN = 0, then a Ping), then a frame with RSV2 set arrives -/
example : ∃ msg crit k, Monitor.events (runAll C01E2E.exCfg C01E2E.exReact
      (reads [exReplyZ ++ ([] ++ (wireBytes (openWire true { payload := [65], form := .short } []
        [{ pong := false, payload := [9], form := .short }]) ++ (([0xA0, 1] ++ ([] ++ ([] ++ [66]))) ++ [0x8A, 0])))] ++ [])).trace =
    [.connecting, .connected false, .ready none true, .poll] ++ ([] ++ [.ping [9]]) ++
      [.protocolError msg crit, .disconnected k false] := by
  obtain ⟨msg, crit, k, _, _, _, _, _, _, _, _, _, _, h⟩ :=
    violation_end_to_end_mid_ext C01E2E.exCfg C01E2E.exReact false none (some exDz) C01E2E.exSetup rfl exReplyZ exGoodReplyZ
      [] (by simp) true { payload := [65], form := .short } [] [{ pong := false, payload := [9], form := .short }]
      (by decide) (by intro x hx; cases hx) (by decide) (fun _ => ⟨rfl, Or.inl rfl, 0, by decide⟩)
      ([0xA0, 1] ++ ([] ++ ([] ++ [66])))
      (.header 0xA0 1 [] [] [66] (by decide) (by decide)
        ⟨by decide, by decide, by decide, by decide, by decide, by decide⟩ (by decide)) [0x8A, 0]
      [exReplyZ ++ ([] ++ (wireBytes (openWire true { payload := [65], form := .short } []
        [{ pong := false, payload := [9], form := .short }]) ++ (([0xA0, 1] ++ ([] ++ ([] ++ [66]))) ++ [0x8A, 0])))]
      (by decide +kernel) (by simp [wireBytes]) []
  exact ⟨msg, crit, k, h⟩

/-- RSV2 with the extension, inside a fragmented text message, evaluated directly -/
example : Monitor.events (runAll C01E2E.exCfg C01E2E.exReact
      (reads [exReplyZ ++ ([0x01, 1, 65] ++ [0x89, 1, 9] ++ [0xA0, 1, 66] ++ [0x8A, 0])])).trace =
    [.connecting, .connected false, .ready none true, .poll, .ping [9],
     .protocolError "reserved bits set" false, .disconnected "forced" false] := by
  decide +kernel

/-- **What lomond does NOT refuse** (RFC 7692 §6.1 says it must): with permessage-deflate negotiated,
    a Ping with RSV1 = 1 passes `frame.validate()` — `parserMsg` has no objection and
    `Spec.headerVerdict`, which follows RFC 6455 §5.2 for RSV1 ("defined by the negotiated
    extension"), does not either —, so the frame reaches `Message.build`, which *inflates* the control
    payload: here `C9 07 f2 48 cd c9 c9 07 00` is delivered as `Ping(b'Hello')`, answered by a Pong, and
    the connection goes on.  The real code behaves the same (probe through `harness/world.py`:
    real trace = model trace, `E:ping:48656c6c6f`; likewise `01 01 41 C0 01 42` is delivered as Text "AB"). -/
theorem rsv1_control_frame_is_accepted :
    parserMsg true 0xC9 7 = none ∧ Spec.headerVerdict true false 0xC9 7 = .ok ∧
    Monitor.events (runAll { C01E2E.exCfg with inflate := Inflate.inflateAllSafe } (fun _ => [])
      (reads [exReplyZ ++ [0xC9, 7, 0xf2, 0x48, 0xcd, 0xc9, 0xc9, 0x07, 0x00]] ++ [.wait 0 (some .eof)])).trace =
    [.connecting, .connected false, .ready none true, .poll, .ping [72, 101, 108, 108, 111],
     .disconnected "connection-lost" false] := by
  refine ⟨by decide, by decide, ?_⟩
  decide +kernel

/-- … and RSV1 on a continuation frame is ignored as well: `01 01 41  C0 01 42` is Text "AB" -/
example : Monitor.events (runAll C01E2E.exCfg (fun _ => [])
      (reads [exReplyZ ++ [0x01, 1, 65, 0xC0, 1, 66]] ++ [.wait 0 (some .eof)])).trace =
    [.connecting, .connected false, .ready none true, .poll, .text [65, 66],
     .disconnected "connection-lost" false] := by
  decide +kernel

/-! ## 2. Header-only promptness -/

/-- **A header the parser can refuse alone is refused when the header is complete.**  The parser
    is at a frame boundary in any system state — idle or inside a fragmented message, extension
    negotiated or not, any configuration with the repaired length rule, any application.  `b0 b1`
    are the two header bytes, `ext` / `key` the extended length and the masking key they announce
    (`HdrTail`; both empty for an unmasked frame with a 7-bit length, and then the statement is about
    `feedLoop [b0, b1]`), `len` the announced payload length.  Then

    * if RFC 6455's classification calls the header a violation *in every fragmentation state and
      even with the MASK bit cleared* — RSV2 / RSV3 set, RSV1 without permessage-deflate, reserved
      opcode, control frame with FIN = 0 or a length above 125 — then feeding the header alone,
      followed by anything (`rest`: nothing, a part of the payload, the whole stream), raises a
      header-level ProtocolError at once: no payload byte is awaited, nothing of `rest` is looked
      at, the state is untouched except for the parser;
    * otherwise, if a payload is announced, feeding the complete header returns normally, nothing
      raised and nothing yielded, with the parser waiting for the payload.  In particular the
      remaining violation classes — MASK = 1, a continuation with nothing to continue, a new data
      frame inside a fragmented message — are *not* raised at the header: `C04.header_classes` shows
      they are raised when the frame's last payload byte is in. -/
theorem header_only_promptness (s : Sys) (hv : s.cfg.v.ctrlLen = true) (hs : AwaitHeader s.p)
    (b0 b1 : Nat) (hb0 : b0 < 256) (ext key : Bytes) (len : Nat) (ht : HdrTail b1 ext key len) :
    ((∀ mid, Spec.headerVerdict s.p.compression mid b0 (b1 % 128) = .violation) →
      ∃ msg ∈ headerMsgs, ∀ rest, ∃ p'', feedLoop ([b0, b1] ++ (ext ++ (key ++ rest))) s
        = .err (.protocol msg) { s with p := p'' }) ∧
    (¬ (∀ mid, Spec.headerVerdict s.p.compression mid b0 (b1 % 128) = .violation) → len ≠ 0 →
      ∃ pP, feedLoop ([b0, b1] ++ (ext ++ key)) s = .ok true { s with p := pP } ∧
        AwaitPayload pP (hdrFrameV b0 (if decide (b1 ≥ 128) then some key else none)) len) := by
  have h := header_prompt s hv hs b0 b1 ext key len ht
  have hiff := parserMsg_iff_spec s.p.compression b0 b1 hb0
  constructor
  · intro hviol
    have hne := hiff.mpr hviol
    cases hpm : parserMsg s.p.compression b0 b1 with
    | none => exact absurd hpm hne
    | some msg =>
      rw [hpm] at h
      exact ⟨msg, parserMsg_mem _ _ _ _ hpm, h⟩
  · intro hno hlen
    cases hpm : parserMsg s.p.compression b0 b1 with
    | some msg => exact absurd (hiff.mp (by rw [hpm]; simp)) hno
    | none =>
      rw [hpm] at h
      exact h hlen

/-- the two-byte case spelled out: an unmasked header with a 7-bit length -/
theorem two_header_bytes_suffice (s : Sys) (hv : s.cfg.v.ctrlLen = true) (hs : AwaitHeader s.p)
    (b0 b1 : Nat) (hb0 : b0 < 256) (hb1 : b1 < 126)
    (hviol : ∀ mid, Spec.headerVerdict s.p.compression mid b0 b1 = .violation) :
    ∃ msg ∈ headerMsgs, ∃ p'', feedLoop [b0, b1] s = .err (.protocol msg) { s with p := p'' } := by
  have hm : b1 % 128 = b1 := Nat.mod_eq_of_lt (by omega)
  have ht : HdrTail b1 [] [] b1 :=
    ⟨fun _ => ⟨rfl, hm.symm⟩, fun h => by omega, fun h => by omega, by
      have : ¬ b1 ≥ 128 := by omega
      simp [this], fun h => by omega, by omega⟩
  obtain ⟨msg, hmem, h⟩ := (header_only_promptness s hv hs b0 b1 hb0 [] [] b1 ht).1 (by rw [hm]; exact hviol)
  obtain ⟨p'', e⟩ := h []
  exact ⟨msg, hmem, p'', by simpa using e⟩

-- idle, and inside a fragmented text message: reserved opcode 0xB, RSV1 without extension, a Ping
-- with FIN = 0, a Ping announcing 126 bytes (the error comes with the two length bytes, none of the
-- 126 payload bytes has arrived)
example : ∃ msg ∈ headerMsgs, ∃ p'', feedLoop [0x8B, 5] C04.idle = .err (.protocol msg) { C04.idle with p := p'' } :=
  two_header_bytes_suffice C04.idle rfl ⟨rfl, rfl, rfl, rfl⟩ 0x8B 5 (by decide) (by decide) (by decide)
example : ∃ msg ∈ headerMsgs, ∃ p'', feedLoop [0xC1, 5] C04.midText = .err (.protocol msg) { C04.midText with p := p'' } :=
  two_header_bytes_suffice C04.midText rfl ⟨rfl, rfl, rfl, rfl⟩ 0xC1 5 (by decide) (by decide) (by decide)
example : ∃ msg ∈ headerMsgs, ∃ p'', feedLoop [0x09, 0] C04.midText = .err (.protocol msg) { C04.midText with p := p'' } :=
  two_header_bytes_suffice C04.midText rfl ⟨rfl, rfl, rfl, rfl⟩ 0x09 0 (by decide) (by decide) (by decide)
example : ∃ msg ∈ headerMsgs, ∀ rest, ∃ p'', feedLoop ([0x89, 126] ++ ([0, 126] ++ ([] ++ rest))) C04.idle
    = .err (.protocol msg) { C04.idle with p := p'' } :=
  (header_only_promptness C04.idle rfl ⟨rfl, rfl, rfl, rfl⟩ 0x89 126 (by decide) [0, 126] [] 126
    ⟨fun h => by omega, fun _ => ⟨rfl, by decide⟩, fun h => by omega, by decide, fun _ => by omega, by omega⟩).1
    (by decide)

-- a masked Text frame and a new Text frame inside a fragmented message are *not* refused at the
-- header: the loop returns normally and waits for the payload …
example : ∃ pP, feedLoop ([0x81, 0x82] ++ ([] ++ [1, 2, 3, 4])) C04.idle = .ok true { C04.idle with p := pP } ∧
    AwaitPayload pP (hdrFrameV 0x81 (some [1, 2, 3, 4])) 2 :=
  (header_only_promptness C04.idle rfl ⟨rfl, rfl, rfl, rfl⟩ 0x81 0x82 (by decide) [] [1, 2, 3, 4] 2
    ⟨fun _ => ⟨rfl, by decide⟩, fun h => by omega, fun h => by omega, by decide, fun h => by omega, by omega⟩).2
    (by decide) (by decide)
example : ∃ pP, feedLoop ([0x81, 2] ++ ([] ++ [])) C04.midText = .ok true { C04.midText with p := pP } ∧
    AwaitPayload pP (hdrFrameV 0x81 none) 2 :=
  (header_only_promptness C04.midText rfl ⟨rfl, rfl, rfl, rfl⟩ 0x81 2 (by decide) [] [] 2
    ⟨fun _ => ⟨rfl, by decide⟩, fun h => by omega, fun h => by omega, by decide, fun h => by omega, by omega⟩).2
    (by decide) (by decide)
-- … and the error comes with the frame's last payload byte (`C04.header_classes`)
example : ∃ msg ∈ headerMsgs, ∃ s', feedLoop ([0x81, 2] ++ ([] ++ ([] ++ [104, 105]))) C04.midText
    = .err (.protocol msg) s' :=
  (C04.header_classes C04.midText rfl ⟨rfl, rfl, rfl, rfl⟩ 0x81 2 (by decide) (by decide) [] [] [104, 105]
    ⟨by decide, by decide, by decide, by decide, by decide, by decide⟩ (by decide)).mpr (by decide)


/-! ## 3. Any application -/

open AnyApp in
/-- **After a violation, any application.**  For EVERY configuration (every variant), EVERY
    application — it may send, ping, call `close()` or `session.close()`, or leave the loop, at any
    event, before and after the error — and EVERY environment script (server bytes in any
    segmentation, EOF, socket errors, time-outs, the clock): the complete trace of `run()` contains no
    ProtocolError event, or it is

        post ++ cw ++ l ++ ProtocolError(m, c) :: pre            (newest first)

    * `pre`: no ProtocolError event (exactly one in the whole trace);
    * `l` is a `ReactSeg`: application calls — each recorded as its result token, preceded by at most
      one wire effect *of that call* (a frame handed to `sendall`, or `session.close()` giving up the
      socket) — and the timer events Poll / Unresponsive.  Every frame in `l` is the outcome of an
      application call made while the application handles the ProtocolError event (or the Poll /
      Unresponsive that `_regular()` yields right after it): at that moment the websocket is still
      open, so such a call can succeed, and the frame is the application's, not the library's.
      The library itself writes nothing here: no automatic Ping (none is ever due inside
      `WebSocket.feed`: `AnyApp.pingOK_feedBody`), no Pong, no Close echo;
    * `cw` (`CloseWrite`): nothing, or — non-critical errors only — the one Close frame built from
      code 1002 and the error text: the only frame the library writes after the error;
    * `post` (`TailV`): socket / selector release, a non-graceful `Disconnected`, clock ticks and
      result tokens of application calls — **no write at all**: once the library has reacted, no
      application send succeeds any more (the socket is closed before `Disconnected` is yielded).

    What the application did BEFORE the error (`pre` is arbitrary apart from containing no
    ProtocolError: any sends, pings, even a `close()` of its own) changes none of this. -/
theorem violation_any_application (cfg : Cfg) (react : React) (env : List EnvStep) :
    (∀ o ∈ (runAll cfg react env).trace, NotPE o) ∨
    ∃ post cw l m c pre, (runAll cfg react env).trace = post ++ cw ++ l ++ .ev (.protocolError m c) :: pre ∧
      (∀ o ∈ post, TailV o) ∧ CloseWrite m c cw ∧ ReactSeg l ∧ (∀ o ∈ pre, NotPE o) :=
  runAll_trace2 cfg react env

open AnyApp in
/-- the same for one call of `WebSocket.feed` (cf. `C04.violation_reported_once`): from any state
    in which no automatic Ping is due (`PingOK`; every state `run()` calls `feed` in:
    `AnyApp.regular_ok_pingOK`), a violation raised below the `except` clauses is answered by exactly
    one ProtocolError event, the application's own reaction, and at most one Close of the library's -/
theorem violation_any_application_feed (data : Bytes) (s s1 : Sys) (x : Exn) (msg : String) (crit : Bool)
    (hc : s.closed = false) (hb : feedBody data s = .err x s1) (hx : violationOf x = some (msg, crit))
    (hp : PingOK s) :
    ∃ y s2 l cw,
      wsFeed data s = .err y s2 ∧
      s2.trace = cw ++ l ++ .ev (.protocolError msg crit) :: s1.trace ∧
      ReactSeg l ∧ CloseWrite msg crit cw := by
  have hp1 : PingOK s1 := by
    have := pingOK_feedBody data s hp
    rw [hb] at this; exact this
  obtain ⟨y, s2, l, cw, e, htr, hseg, hcw⟩ := feedHandler_any_app x msg crit hx s1 hp1
  rw [wsFeed_of_feedBody_err data s s1 x hc hb, tryC_err e]
  have : ∃ y', unwrapOuter y s2 = .err y' s2 := by
    unfold unwrapOuter; cases y <;> exact ⟨_, rfl⟩
  obtain ⟨y', hy'⟩ := this
  exact ⟨y', s2, l, cw, hy', htr, hseg, hcw⟩

/-- the hypotheses of `violation_any_application_feed` hold on the idle connection of C04 (not yet
    ready: no automatic Ping can be due) with a reserved-opcode frame, for any application -/
example : ∃ y s2 l cw, wsFeed ([0x8B, 0] ++ [0x82, 1, 65]) C04.idle = .err y s2 ∧
    s2.trace = cw ++ l ++ [.ev (.protocolError "opcode is reserved" false)] ∧
    AnyApp.ReactSeg l ∧ CloseWrite "opcode is reserved" false cw := by
  obtain ⟨p'', e⟩ := C04.parser_verdict C04.idle rfl ⟨rfl, rfl, rfl, rfl⟩ 0x8B 0 [] [] [] [0x82, 1, 65]
    ⟨by decide, by decide, by decide, by decide, by decide, by decide⟩
  have e' : feedLoop ([0x8B, 0] ++ [0x82, 1, 65]) C04.idle
      = .err (.protocol "opcode is reserved") { C04.idle with p := p'' } := e
  have hb : feedBody ([0x8B, 0] ++ [0x82, 1, 65]) C04.idle
      = .err (.protocol "opcode is reserved") { C04.idle with p := p'' } := by
    unfold feedBody
    rw [if_neg (by decide), e']
  exact violation_any_application_feed _ C04.idle _ _ "opcode is reserved" false rfl hb rfl
    (fun h => by cases h)

/-- the reading of `ReactSeg` and `TailV`: a result token, a frame followed by its result token, a
    timer event are allowed; a bare frame (one the library wrote by itself) is not, and the tail
    allows no frame whatsoever -/
example : AnyApp.ReactSeg [.res .ok, .wr [1, 2], .res .typeError, .ev .poll, .res .wsClosing] ∧
    ¬ AnyApp.ReactSeg [.wr [0x8A, 0x80, 0, 0, 0, 0]] ∧ ¬ AnyApp.ReactSeg [.res .ok, .wr [1], .wr [2]] ∧
    AnyApp.TailV (.res .wsUnavailable) ∧ AnyApp.TailV (.ev (.disconnected "forced" false)) ∧
    ¬ AnyApp.TailV (.wr [1]) ∧ ¬ AnyApp.TailV (.ev (.text [65])) := by
  refine ⟨.callW _ _ rfl (.call _ (.timer _ (Or.inl rfl) (.call _ .nil))), ?_, ?_, ⟨trivial, rfl⟩, ⟨trivial, rfl⟩, ?_, ?_⟩
  · intro h; cases h
  · intro h
    cases h with
    | call _ h => cases h
    | callW _ _ _ h => cases h
  · intro h; cases h.2
  · intro h; exact h.1

/-- an application that answers *every* event — the ProtocolError and the Disconnected included —
    by sending a text, and calls `close()` on top when it sees the ProtocolError -/
def exBusy : React := fun h =>
  match h with
  | .protocolError _ _ :: _ => [.sendText (.str [104, 105]) false, .close (some 1000) (.str [])]
  | _ => [.sendText (.str [104, 105]) false]

/-- the trace of such a run (a reserved-opcode frame after the handshake) from the Ready event on,
    newest first: the sends made *before* the error (at Ready / Poll) went out; at the ProtocolError
    event the application's send and its own Close went out (`res ok` after each: they are the
    application's frames, a `ReactSeg`); the library's `close(1002)` then finds the websocket already
    closing and writes nothing (`cw = []`); after `_close_socket()` the application's send at
    Disconnected fails (`res wsUnavailable`) and nothing is written -/
example : (runAll C01E2E.exCfg exBusy (reads [C01E2E.exReply ++ [0x8B, 0]])).trace.take 15 =
    [.selClose, .res .wsUnavailable, .ev (.disconnected "forced" false), .sockClose,
     .res .ok, .wr [0x88, 0x82, 0, 0, 0, 0, 3, 232], .res .ok, .wr [0x81, 0x82, 0, 0, 0, 0, 104, 105],
     .ev (.protocolError "opcode is reserved" false),
     .res .ok, .wr [0x81, 0x82, 0, 0, 0, 0, 104, 105], .ev .poll,
     .res .ok, .wr [0x81, 0x82, 0, 0, 0, 0, 104, 105], .ev (.ready none false)] := by
  decide +kernel

/-- with a silent application the library's own Close (1002 + the error text) is the one frame
    written after the error -/
example : (runAll C01E2E.exCfg (fun _ => []) (reads [C01E2E.exReply ++ [0x8B, 0]])).trace.take 6 =
    [.selClose, .ev (.disconnected "forced" false), .sockClose,
     .wr ([0x88, 0x94, 0, 0, 0, 0, 3, 234] ++ Http.lit "opcode is reserved"),
     .ev (.protocolError "opcode is reserved" false), .ev .poll] := by
  decide +kernel

end Lomond.C04E2E2
