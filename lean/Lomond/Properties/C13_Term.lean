/-
  C13 companion — TERMINATION of the thread model: from every reachable state some schedule completes all threads.

  `C13_Threads.lean` proves that every schedule in which all threads run to completion ends with the socket shut, and that
  no reachable state is deadlocked.  Here: such complete schedules EXIST from every reachable state (so the hypothesis
  `AllDone` of `all_done_socket_shut` can always be met by extending the schedule), with an explicit bound on their length.

    * `remaining v cfg n s`: the measure — summed over threads `0 .. n-1`: the sync steps left in the call in progress
      (an early return / branch step counted with 10 more: no alternative continuation is longer) plus, unless the call has
      taken the continuation that ends the event loop, the steps of the calls not yet started.
    * `enabled_step_decreases`: an entry of a thread that can move (`enabled`) strictly decreases `remaining`.
    * `exists_completing_schedule`: ALL programs (finitely many threads: `progs t = []` for `t ≥ n`), every variant, start
      state `init` or `initPre`, every prefix schedule `pre`: there is a continuation `post` of length ≤ `remaining` after
      which every thread is done.
    * `abandon_exists_completing_schedule`: the abandon family of `C13_Threads.lean` (loop program `[.abandon]`, arbitrary
      application programs): from every reachable state the run can be completed, and every completed run has the socket shut.

  NOT proved: that the ROUND-ROBIN schedule (or every fair schedule) of a given length completes all threads — the schedule
  of `exists_completing_schedule` is built by choosing, in every state, a thread that can move (the lock holder if the lock
  is held).  Two-chunk socket (`run`) only: with the general socket `write1` may stay at the head of the program
  (`Model/ThreadsN.lean`), the measure would also have to count the chunks left.
-/
import Lomond.Proofs.ThreadsTerm
import Lomond.Properties.C13_Threads

namespace Lomond.C13Term
open Lomond Lomond.Threads Lomond.C13Threads

/-- sync steps left to threads `0 .. n-1` (see the header) -/
abbrev remaining (v : Variant) (cfg : Cfg) (n : Nat) (s : State) : Nat := smeasure v cfg n s

/-- **Progress**: in every state reachable from `init` / `initPre`, an entry of a thread `u < n` that can move strictly
    decreases the number of remaining steps (threads `≥ n` have empty programs). -/
theorem enabled_step_decreases (v : Variant) (cfg : Cfg) (progs : Tid → List Call) (n : Nat) (pre : List Tid)
    (s₁ : State) (h₁ : s₁ = init progs ∨ s₁ = initPre progs) (u : Tid) :
    let s := run v cfg s₁ pre
    u < n → enabled v cfg s u = true → remaining v cfg n (step v cfg s u) < remaining v cfg n s := by
  intro s hun hu
  have N : NE s := ne_run v cfg _ pre (ne_fresh _ (by rcases h₁ with h | h <;> subst h <;> intro t <;> rfl))
  obtain ⟨h1, h2⟩ := tmeasure_step v cfg s u N hu
  exact sumTo_lt (fun t => tmeasure v cfg ((step v cfg s u).th t)) (fun t => tmeasure v cfg (s.th t)) n u hun
    (fun w hw => by simp only [h2 w hw]) h1

/-- **A completing schedule exists from every reachable state.**  Every variant and configuration, arbitrary programs of
    finitely many threads, start state `init` (connected) or `initPre` (before the connection), any prefix `pre` (threads
    anywhere inside their calls, the lock held or not): some continuation `post`, of at most `remaining` entries, brings
    every thread to completion. -/
theorem exists_completing_schedule (v : Variant) (cfg : Cfg) (progs : Tid → List Call) (n : Nat)
    (hn : ∀ t, n ≤ t → progs t = []) (pre : List Tid) (s₁ : State) (h₁ : s₁ = init progs ∨ s₁ = initPre progs) :
    let s := run v cfg s₁ pre
    ∃ post : List Tid, AllDone v cfg (run v cfg s post) ∧ post.length ≤ remaining v cfg n s := by
  intro s
  have L₁ : LockInv v cfg s₁ := by
    rcases h₁ with h | h <;> subst h
    · exact lockInv_init v cfg progs
    · exact lockInv_initPre v cfg progs
  have N₁ : NE s₁ := ne_fresh _ (by rcases h₁ with h | h <;> subst h <;> intro t <;> rfl)
  have I₁ : IdleFrom n s₁ := by
    rcases h₁ with h | h <;> subst h <;> intro u hu <;> exact ⟨hn u hu, rfl⟩
  exact exists_completing v cfg n _ s (lockInv_run v cfg _ pre L₁) (ne_run v cfg _ pre N₁) (idle_run n v cfg _ pre I₁)
    (Nat.le_refl _)

/-- **The abandon family terminates with the socket shut**: loop program `[.abandon]`, arbitrary application programs (of
    finitely many threads), any reachable state: the schedule can be continued so that all threads complete, and then the
    socket is shut (`C13Threads.all_done_socket_shut`). -/
theorem abandon_exists_completing_schedule (v : Variant) (cfg : Cfg) (progs : Tid → List Call) (n : Nat) (l : Tid)
    (hn : ∀ t, n ≤ t → progs t = []) (hl : progs l = [.abandon]) (pre : List Tid) :
    let s := final v cfg progs pre
    ∃ post : List Tid, AllDone v cfg (run v cfg s post) ∧ (run v cfg s post).sh.sockShut = true ∧
      post.length ≤ remaining v cfg n s := by
  intro s
  obtain ⟨post, h1, h2⟩ := exists_completing_schedule v cfg progs n hn pre (init progs) (Or.inl rfl)
  refine ⟨post, h1, ?_, h2⟩
  have e : run v cfg s post = final v cfg progs (pre ++ post) := by
    simp [s, final, run, List.foldl_append]
  rw [e] at h1 ⊢
  exact all_done_socket_shut v cfg progs l hl (pre ++ post) h1

/-! ### non-vacuity -/

/-- the programs of `C13_Threads.lean` have two threads -/
example : ∀ t, 2 ≤ t → sendAb t = [] := by
  intro t ht
  match t with
  | t + 2 => rfl

/-- the measure at the start (7 steps of the send, 9 of `.abandon`), and in the state of `C13_Threads.lean` in which the
    sender holds the lock and the loop is about to wait (`0 0 0 0 1`: 3 + 8 steps left) -/
example : remaining ca {} 2 (init sendAb) = 16 ∧ remaining ca {} 2 (final ca {} sendAb [0, 0, 0, 0, 1]) = 11 := by
  decide +kernel

/-- there, the loop cannot move and the sender can: its entry decreases the measure (`enabled_step_decreases`) -/
example : let s := final ca {} sendAb [0, 0, 0, 0, 1]
    enabled ca {} s 1 = false ∧ enabled ca {} s 0 = true ∧ remaining ca {} 2 (step ca {} s 0) = 10 := by
  decide +kernel

/-- a completing continuation within the bound: 3 entries of the sender, 8 of the loop -/
example : let s := final ca {} sendAb [0, 0, 0, 0, 1]
    let s' := run ca {} s (List.replicate 3 0 ++ List.replicate 8 1)
    (∀ t, t < 2 → (s'.th t).current ca {} = none) ∧ s'.sh.sockShut = true ∧ remaining ca {} 2 s' = 0 := by
  decide +kernel

/-- `close()` has early-return steps (counted with 10 more each): 12 + 2 * 10 steps, plus 9 -/
example : remaining ca {} 2 (init closeAb) = 41 := by
  decide +kernel

end Lomond.C13Term
