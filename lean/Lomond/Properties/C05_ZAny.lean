/-
  C05 for text messages at ANY position of a connection on which permessage-deflate is negotiated
  (companion of C05; `C05E2E2.compressed_text_verdict` covers the FIRST message after the
  handshake, where the inflater's history is empty).

  The server's upgrade reply grants the extension configuration `d`.  It then sends any conforming
  prefix `pre` — control frames, plain data messages, compressed data messages in any fragmentation
  with control frames between the fragments: the `GItem`s of
  `C01E2E2.connection_delivers_compressed`, under the same hypotheses (`GItem.Static`, and the
  inflater hypothesis `zOuts`: the configuration's inflater, run over the joined compressed payloads
  of `pre` in order through the negotiated context, yields their `plain`s and ends with the context
  `icP` = history `icP.hist`, `icP.out` bytes already delivered) — THEN a text message, THEN any
  bytes `tail` at all.  Every segmentation of the byte stream into reads.

  * `compressed_text_verdict_any_position`: the text message is compressed (`ZMsg`: RSV1 on its first
    frame, any fragmentation).  Its verdict is the verdict on what the inflater returns for **the
    history left by `pre` followed by this message** (`icP.hist ++ z.joined ++ 00 00 ff ff`), minus the
    `icP.out` bytes that belong to earlier messages:
      - well-formed UTF-8 ⇒ events of `pre`, exactly one `Text` with the exact decoding, and the
        connection goes on (if `tail` is a list of conforming items they are delivered);
      - not well-formed ⇒ events of `pre`, ONE critical `ProtocolError('payload contains invalid
        utf-8')`, `Disconnected('forced')`, nothing after — whatever `tail` and the rest of the
        environment script are;
      - the inflater fails ⇒ events of `pre`, one critical `ProtocolError('unable to decompress
        payload')`, `Disconnected('forced')`, nothing after.
  * `ctx_after_pre_reset`, `ctx_after_pre_keep`: `icP` in closed form from the payloads of the
    compressed messages of `pre`: with `server_no_context_takeover` it is empty (the verdict is that
    of a first message); with context takeover the history is the concatenation of all compressed
    payloads of `pre`, each followed by `00 00 ff ff`, and `icP.out` is the length of what the
    inflater returns for that history.
  * `compressed_text_verdict_takeover`: the verdict stated directly over those payloads (context
    takeover, at least one compressed message in `pre`).
  * `text_verdict_any_position`, `failfast_any_position`: the same position-independence for an
    UNcompressed text message (RSV1 = 0) on the compressed connection — verdict with continuation,
    and fail-fast at byte granularity (`C05E2E2.text_verdict_ext`, `failfast_message_ext` after
    compressed traffic); per-message choice of the payload reader repaired (`perMsgValidate`, D9).

  Helper lemmas: Proofs/ZAny.lean.  Hypothesis `cfg.pingTimeout = 0` as in
  `connection_delivers_compressed` (the invariant `DG.TG` under which `pre` is consumed).
-/
import Lomond.Proofs.ZAny
import Lomond.Properties.C05_E2E2
import Lomond.Properties.C01_E2E2

set_option linter.unusedSimpArgs false
namespace Lomond.C05ZAny
open Lomond Lomond.Core Lomond.Core.E2E Lomond.Core.DG Lomond.C05E2E Lomond.C05E2E2

/-! ## 1. A compressed text message after any prefix -/

/-- **Verdict on a compressed text message at any position.** -/
theorem compressed_text_verdict_any_position (cfg : Cfg) (react : React) (proxy : Bool) (proto : Option Http.Str)
    (d : Http.DeflateCfg) (hs : Setup cfg react proxy) (hpt : cfg.pingTimeout = 0)
    (reply : Bytes) (hreply : GoodReplyD cfg reply proto (some d))
    (pre : List GItem) (hst : ∀ it ∈ pre, it.Static) (icP : ICtx)
    (hinfl : zOuts ⟨cfg.inflate, some d⟩ ⟨[], 0⟩ (pre.filterMap GItem.zpay) = some (pre.filterMap GItem.zplain, icP))
    (z : ZMsg) (hz : z.Ok) (tail : Bytes)
    (chunks : List Bytes) (hne : ∀ c ∈ chunks, c ≠ [])
    (hflat : chunks.flatten = reply ++ (pre.flatMap GItem.bytes ++ (z.bytes ++ tail))) :
    (∀ out, cfg.inflate d.decompressWbits (icP.hist ++ z.joined ++ [0, 0, 0xff, 0xff]) = some out →
      Utf8.wf (out.drop icP.out) = true →
      ∃ cps, Utf8.decode (out.drop icP.out) = some cps ∧
      ∀ more : List Item, (∀ it ∈ more, it.Ok) → tail = wireBytes (more.flatMap Item.wire) →
      ∀ dt, (cfg.closeTimeout = 0 ∨ dt < cfg.closeTimeout) →
      Monitor.events (runAll cfg react (reads chunks ++ [.wait dt (some .eof)])).trace =
        handshakeEventsG proxy proto true ++
          (pre.flatMap GItem.events ++ [.text cps] ++ more.flatMap Item.events) ++
          (if cfg.poll ≤ dt then [.poll] else []) ++ [.disconnected "connection-lost" false]) ∧
    (∀ out, cfg.inflate d.decompressWbits (icP.hist ++ z.joined ++ [0, 0, 0xff, 0xff]) = some out →
      Utf8.wf (out.drop icP.out) = false →
      ∀ restEnv, Monitor.events (runAll cfg react (reads chunks ++ restEnv)).trace =
        handshakeEventsG proxy proto true ++ pre.flatMap GItem.events ++
          [.protocolError "payload contains invalid utf-8" true, .disconnected "forced" false]) ∧
    (cfg.inflate d.decompressWbits (icP.hist ++ z.joined ++ [0, 0, 0xff, 0xff]) = none →
      ∀ restEnv, Monitor.events (runAll cfg react (reads chunks ++ restEnv)).trace =
        handshakeEventsG proxy proto true ++ pre.flatMap GItem.events ++
          [.protocolError "unable to decompress payload" true, .disconnected "forced" false]) := by
  -- from every post-handshake state: `pre` is consumed, then the outcome of the message
  have hout : ∀ s4, AtReadyD cfg react proxy proto (some d) s4 →
      ∃ sp, feedLoop (pre.flatMap GItem.bytes) s4 = .ok true sp ∧
        AfterPre cfg react d s4 sp (pre.flatMap GItem.events) icP ∧
        ZOutcome sp z.joined (feedLoop z.bytes sp) := fun s4 h4 => by
    obtain ⟨sp, hfl, a⟩ := feed_pre h4 hpt pre hst icP hinfl
    exact ⟨sp, hfl, a, feed_zmsg z hz sp a.idle.i.good a.idle.closed a.idle.frames a.idle.between a.idle.comp a.zdec⟩
  refine ⟨fun out hinf hwf => ?_, fun out hinf hwf restEnv => ?_, fun hinf restEnv => ?_⟩
  · have hs' : (Utf8.decode (out.drop icP.out)).isSome = true := by rw [Utf8.decode_isSome]; exact hwf
    obtain ⟨cps, hcps⟩ := Option.isSome_iff_exists.mp hs'
    refine ⟨cps, hcps, fun more hmore htail dt hct => ?_⟩
    subst htail
    exact run_ok_eof_D hs hreply chunks _ hne hflat dt (Or.inl hpt) hct _ (by
      intro s4 h4
      obtain ⟨sp, hfl, a, h⟩ := hout s4 h4
      unfold ZOutcome at h
      rw [(a.scr z.joined).1, hinf, (a.scr z.joined).2] at h
      simp only [hcps] at h
      obtain ⟨s', hfl', rl, hfr, hbet, hcomp⟩ := h
      obtain ⟨ip, hzz⟩ := z_feedLoop _ sp true s' hfl' a.idle.i
      obtain ⟨rp, l, el, nl⟩ := hzz a.idle.ready
      have hidle : IdleG cfg react true s' :=
        ⟨ip, rp, rl.cfg.trans a.idle.hcfg, rl.react.trans a.idle.hreact, rl.closed.trans a.idle.closed,
          rl.closing.trans a.idle.closing, hfr, hbet, hcomp⟩
      have hh' : hist s'.trace = [Event.text cps].reverse ++ hist sp.trace := hist_of_delivered el nl rl.evs
      obtain ⟨sq, hfl2, b⟩ := feed_items_G hidle more hmore
      refine ⟨sq, ?_, b.idle.closed, b.idle.closing, ?_⟩
      · rw [feedLoop_append, hfl]
        show feedLoop _ sp = _
        rw [feedLoop_append, hfl']
        exact hfl2
      · rw [b.hist, hh', a.hist]
        simp)
  · have hd : Utf8.decode (out.drop icP.out) = none := by
      cases hdd : Utf8.decode (out.drop icP.out) with
      | none => rfl
      | some cps =>
        have h := Utf8.decode_isSome (out.drop icP.out)
        rw [hdd, hwf] at h
        cases h
    exact run_violation_D hs hreply chunks _ restEnv hne hflat _ _ (by
      intro s4 h4
      obtain ⟨sp, hfl, a, h⟩ := hout s4 h4
      unfold ZOutcome at h
      rw [(a.scr z.joined).1, hinf, (a.scr z.joined).2] at h
      simp only [hd] at h
      obtain ⟨s', hfl', hb⟩ := h
      refine ⟨.critical "payload contains invalid utf-8", s', ?_, rfl, I.of_book hb a.idle.i, ?_⟩
      · rw [feedLoop_append, hfl]
        exact feedLoop_err_append _ _ _ _ _ hfl'
      · rw [hb.inert.trace]; exact a.hist)
  · exact run_violation_D hs hreply chunks _ restEnv hne hflat _ _ (by
      intro s4 h4
      obtain ⟨sp, hfl, a, h⟩ := hout s4 h4
      unfold ZOutcome at h
      rw [(a.scr z.joined).1, hinf] at h
      simp only [] at h
      obtain ⟨s', hfl', hb⟩ := h
      refine ⟨.critical "unable to decompress payload", s', ?_, rfl, I.of_book hb a.idle.i, ?_⟩
      · rw [feedLoop_append, hfl]
        exact feedLoop_err_append _ _ _ _ _ hfl'
      · rw [hb.inert.trace]; exact a.hist)

/-! ### the history left by `pre`, in closed form -/

/-- `server_no_context_takeover`: the context in front of the message is empty, whatever `pre` was —
    the verdict is that of a first message (`inflate (z.joined ++ 00 00 ff ff)`, nothing dropped) -/
theorem ctx_after_pre_reset (cfg : Cfg) (d : Http.DeflateCfg) (hr : d.resetDecompress = true)
    (pre : List GItem) (icP : ICtx)
    (hinfl : zOuts ⟨cfg.inflate, some d⟩ ⟨[], 0⟩ (pre.filterMap GItem.zpay) = some (pre.filterMap GItem.zplain, icP)) :
    icP = ⟨[], 0⟩ := by
  have := zOuts_ctx_reset ⟨cfg.inflate, some d⟩ hr _ _ _ _ hinfl
  rw [this]
  split <;> rfl

/-- context takeover: the history is the compressed payloads of `pre` (joined over their fragments),
    in order, each followed by `00 00 ff ff`; with no compressed message in `pre` nothing is dropped,
    otherwise the length of what the inflater returns for that history -/
theorem ctx_after_pre_keep (cfg : Cfg) (d : Http.DeflateCfg) (hr : d.resetDecompress = false)
    (pre : List GItem) (icP : ICtx)
    (hinfl : zOuts ⟨cfg.inflate, some d⟩ ⟨[], 0⟩ (pre.filterMap GItem.zpay) = some (pre.filterMap GItem.zplain, icP)) :
    icP.hist = (pre.filterMap GItem.zpay).flatMap (· ++ [0, 0, 0xff, 0xff]) ∧
    (pre.filterMap GItem.zpay = [] → icP.out = 0) ∧
    (pre.filterMap GItem.zpay ≠ [] → ∃ prev, cfg.inflate d.decompressWbits icP.hist = some prev ∧ icP.out = prev.length) := by
  obtain ⟨h1, h2, h3⟩ := zOuts_ctx_keep ⟨cfg.inflate, some d⟩ hr _ _ _ _ hinfl
  exact ⟨by simpa using h1, h2, h3⟩

/-- **… with context takeover, over the payloads themselves**: `d` keeps the context
    (`server_no_context_takeover` not negotiated), `pre` contains at least one compressed message;
    `H` is the concatenation of the compressed payloads of `pre`, each followed by `00 00 ff ff`, and
    `prev` what the inflater returns for `H` (the plaintexts so far).  If for `H` followed by this
    message it returns `out`, and `out` minus its first `prev.length` bytes is not well-formed
    UTF-8 — **even if the message's own bytes, without `H`, would inflate to something else or not
    at all** — the connection fails with the critical ProtocolError after the events of `pre`. -/
theorem compressed_text_verdict_takeover (cfg : Cfg) (react : React) (proxy : Bool) (proto : Option Http.Str)
    (d : Http.DeflateCfg) (hr : d.resetDecompress = false) (hs : Setup cfg react proxy) (hpt : cfg.pingTimeout = 0)
    (reply : Bytes) (hreply : GoodReplyD cfg reply proto (some d))
    (pre : List GItem) (hst : ∀ it ∈ pre, it.Static) (icP : ICtx)
    (hinfl : zOuts ⟨cfg.inflate, some d⟩ ⟨[], 0⟩ (pre.filterMap GItem.zpay) = some (pre.filterMap GItem.zplain, icP))
    (hsome : pre.filterMap GItem.zpay ≠ [])
    (z : ZMsg) (hz : z.Ok) (tail : Bytes)
    (chunks : List Bytes) (hne : ∀ c ∈ chunks, c ≠ [])
    (hflat : chunks.flatten = reply ++ (pre.flatMap GItem.bytes ++ (z.bytes ++ tail)))
    (prev out : Bytes)
    (hprev : cfg.inflate d.decompressWbits ((pre.filterMap GItem.zpay).flatMap (· ++ [0, 0, 0xff, 0xff])) = some prev)
    (hout : cfg.inflate d.decompressWbits
      ((pre.filterMap GItem.zpay).flatMap (· ++ [0, 0, 0xff, 0xff]) ++ z.joined ++ [0, 0, 0xff, 0xff]) = some out)
    (hbad : Utf8.wf (out.drop prev.length) = false) (restEnv : List EnvStep) :
    Monitor.events (runAll cfg react (reads chunks ++ restEnv)).trace =
      handshakeEventsG proxy proto true ++ pre.flatMap GItem.events ++
        [.protocolError "payload contains invalid utf-8" true, .disconnected "forced" false] := by
  obtain ⟨h1, _, h3⟩ := ctx_after_pre_keep cfg d hr pre icP hinfl
  obtain ⟨prev', hp', ho'⟩ := h3 hsome
  rw [h1, hprev] at hp'
  cases hp'
  refine (compressed_text_verdict_any_position cfg react proxy proto d hs hpt reply hreply pre hst icP hinfl z hz tail
    chunks hne hflat).2.1 out ?_ ?_ restEnv
  · rw [h1]; exact hout
  · rw [ho']; exact hbad

/-! ## 2. An uncompressed text message (RSV1 = 0) after any prefix, extension negotiated -/

/-- **Verdict, any position, with a continuation** (`C05E2E2.text_verdict_ext` after compressed
    traffic): after `pre` a text message `m` with RSV1 = 0, any fragmentation, Ping/Pong between the
    fragments; then any bytes `tail`.  Valid ⇒ events of `pre`, the interleaved control events, one
    `Text` with the exact decoding, and — if `tail` is a list of conforming items — their events;
    invalid ⇒ events of `pre`, a prefix of the control events, ONE critical ProtocolError,
    `Disconnected('forced')`, nothing after, whatever follows. -/
theorem text_verdict_any_position (cfg : Cfg) (react : React) (proxy : Bool) (proto : Option Http.Str)
    (d : Http.DeflateCfg) (hs : Setup cfg react proxy) (hpt : cfg.pingTimeout = 0)
    (hk : cfg.v.keepIsText = true) (hmode : cfg.v.perMsgValidate = true)
    (reply : Bytes) (hreply : GoodReplyD cfg reply proto (some d))
    (pre : List GItem) (hst : ∀ it ∈ pre, it.Static) (icP : ICtx)
    (hinfl : zOuts ⟨cfg.inflate, some d⟩ ⟨[], 0⟩ (pre.filterMap GItem.zpay) = some (pre.filterMap GItem.zplain, icP))
    (m : DataMsg) (hm : Framed m) (tail : Bytes)
    (chunks : List Bytes) (hne : ∀ c ∈ chunks, c ≠ [])
    (hflat : chunks.flatten = reply ++ (pre.flatMap GItem.bytes ++ (wireBytes m.wire ++ tail))) :
    (Utf8.wf m.payload = true → ∃ cps, Utf8.decode m.payload = some cps ∧
      ∀ more : List Item, (∀ it ∈ more, it.Ok) → tail = wireBytes (more.flatMap Item.wire) →
      ∀ dt, (cfg.closeTimeout = 0 ∨ dt < cfg.closeTimeout) →
      Monitor.events (runAll cfg react (reads chunks ++ [.wait dt (some .eof)])).trace =
        handshakeEventsG proxy proto true ++
          (pre.flatMap GItem.events ++ (ctrlEvents m ++ [.text cps]) ++ more.flatMap Item.events) ++
          (if cfg.poll ≤ dt then [.poll] else []) ++ [.disconnected "connection-lost" false]) ∧
    (Utf8.wf m.payload = false → ∃ ces msg, ces <+: ctrlEvents m ∧ ∀ restEnv,
      Monitor.events (runAll cfg react (reads chunks ++ restEnv)).trace =
        handshakeEventsG proxy proto true ++ (pre.flatMap GItem.events ++ ces) ++
          [.protocolError msg true, .disconnected "forced" false]) := by
  obtain ⟨ht, hfirst, hrest⟩ := hm
  constructor
  · intro hwf
    have hs' : (Utf8.decode m.payload).isSome = true := by rw [Utf8.decode_isSome]; exact hwf
    obtain ⟨cps, hcps⟩ := Option.isSome_iff_exists.mp hs'
    have hmok : m.Ok := ⟨hfirst, hrest, fun _ => ⟨wf_WF _ hwf, hwf⟩⟩
    refine ⟨cps, hcps, fun more hmore htail dt hct => ?_⟩
    subst htail
    have hall : ∀ it ∈ [Item.data m] ++ more, it.Ok := by
      intro it hit
      rcases List.mem_append.mp hit with h | h
      · simp at h; subst h; exact hmok
      · exact hmore it h
    have hstream : wireBytes m.wire ++ wireBytes (more.flatMap Item.wire)
        = wireBytes (([Item.data m] ++ more).flatMap Item.wire) := by
      simp [List.flatMap_append, wireBytes_append, Item.wire]
    have hevs : ([Item.data m] ++ more).flatMap Item.events
        = (ctrlEvents m ++ [.text cps]) ++ more.flatMap Item.events := by
      simp [List.flatMap_append, Item.events, DataMsg.events, DataMsg.event, ht, hcps, ctrlEvents]
    exact run_ok_eof_D hs hreply chunks _ hne hflat dt (Or.inl hpt) hct _ (by
      intro s4 h4
      obtain ⟨sp, hfl, a⟩ := feed_pre h4 hpt pre hst icP hinfl
      obtain ⟨sq, hfl2, b⟩ := feed_items_G a.idle _ hall
      refine ⟨sq, ?_, b.idle.closed, b.idle.closing, ?_⟩
      · rw [feedLoop_append, hfl, hstream]
        exact hfl2
      · rw [b.hist, a.hist, hevs]
        simp)
  · intro hwf
    cases hv : Utf8.validate 0 m.payload with
    | none =>
      obtain ⟨before, w, after, done, evs, hcut, ⟨d0, hd⟩, hbad⟩ := find_cut_bad m hv
      have hwok : w.Ok := hcut.wOk ht hfirst hrest
      have hstream : wireBytes m.wire ++ tail = wireBytes before ++ (w.bytes ++ (wireBytes after ++ tail)) := by
        rw [hcut.wire, wireBytes_append, wireBytes_cons]
        simp [List.append_assoc]
      refine ⟨evs, "invalid utf8", hcut.evs_prefix, fun restEnv => ?_⟩
      exact run_violation_D hs hreply chunks _ restEnv hne hflat _ _ (by
        intro s4 h4
        obtain ⟨sp0, hfl0, a0⟩ := feed_pre h4 hpt pre hst icP hinfl
        obtain ⟨sp, hfl, a⟩ := feed_cut_g a0.idle hk (Or.inl hmode) m ht hfirst hrest hcut d0 hd
        obtain ⟨q, e⟩ := cut_bad_g a hwok hbad (wireBytes after ++ tail)
        refine ⟨.parse "invalid utf8", { sp with p := q }, ?_, rfl,
          ⟨a.i.app, a.i.poll, a.i.sock, a.i.nr, a.i.rd⟩, ?_⟩
        · rw [feedLoop_append, hfl0, hstream]
          show feedLoop _ sp0 = _
          rw [feedLoop_append, hfl]
          exact e
        · show hist sp.trace = _
          rw [a.hist, a0.hist]
          simp)
    | some dv =>
      obtain ⟨before, w, done, hcut, hfin, hpl⟩ := find_cut_last m
      have hwok : w.Ok := hcut.wOk ht hfirst hrest
      have hstream : wireBytes m.wire ++ tail = wireBytes before ++ (w.bytes ++ tail) := by
        rw [hcut.wire, wireBytes_append, wireBytes_cons]
        simp [List.append_assoc, wireBytes]
      rw [hpl] at hv hwf
      obtain ⟨d0, hd0⟩ := validate_prefix 0 _ _ _ hv
      refine ⟨ctrlEvents m, "payload contains invalid utf-8", List.prefix_refl _, fun restEnv => ?_⟩
      exact run_violation_D hs hreply chunks _ restEnv hne hflat _ _ (by
        intro s4 h4
        obtain ⟨sp0, hfl0, a0⟩ := feed_pre h4 hpt pre hst icP hinfl
        obtain ⟨sp, hfl, a⟩ := feed_cut_g a0.idle hk (Or.inl hmode) m ht hfirst hrest hcut d0 hd0
        obtain ⟨q, e⟩ := cut_build_bad_g a hwok hfin dv hv hwf tail
        refine ⟨.critical "payload contains invalid utf-8", { sp with p := q, frames := sp.frames ++ [w.frame] }, ?_, rfl,
          ⟨a.i.app, a.i.poll, a.i.sock, a.i.nr, a.i.rd⟩, ?_⟩
        · rw [feedLoop_append, hfl0, hstream]
          show feedLoop _ sp0 = _
          rw [feedLoop_append, hfl]
          exact e
        · show hist sp.trace = _
          rw [a.hist, a0.hist]
          simp [ctrlEvents])

/-- **Fail-fast at byte granularity, any position** (`C05E2E2.failfast_message_ext` after compressed
    traffic): the server's bytes up to and including the first offending byte `b` of the text message
    already make the client raise; nothing else needs to arrive, `restEnv` is arbitrary. -/
theorem failfast_any_position (cfg : Cfg) (react : React) (proxy : Bool) (proto : Option Http.Str)
    (d : Http.DeflateCfg) (hs : Setup cfg react proxy) (hpt : cfg.pingTimeout = 0)
    (hk : cfg.v.keepIsText = true) (hmode : cfg.v.perMsgValidate = true)
    (reply : Bytes) (hreply : GoodReplyD cfg reply proto (some d))
    (pre : List GItem) (hst : ∀ it ∈ pre, it.Static) (icP : ICtx)
    (hinfl : zOuts ⟨cfg.inflate, some d⟩ ⟨[], 0⟩ (pre.filterMap GItem.zpay) = some (pre.filterMap GItem.zplain, icP))
    (m : DataMsg) (hm : Framed m)
    (before after : List WFrame) (w : WFrame) (done : Bytes) (evs : List Event)
    (hcut : CutAt m before w after done evs)
    (a : Bytes) (b : Nat) (c : Bytes) (hpl : w.payload = a ++ b :: c)
    (hbytes : Bytes.WF (done ++ a ++ [b]))
    (hgood : ∃ ext, Utf8.wf (done ++ a ++ ext) = true)
    (hbad : ∀ ext, Utf8.wf (done ++ a ++ [b] ++ ext) = false)
    (chunks : List Bytes) (hne : ∀ c ∈ chunks, c ≠ [])
    (hflat : chunks.flatten =
      reply ++ (pre.flatMap GItem.bytes ++ (wireBytes before ++ partialBytes w (a.length + 1))))
    (restEnv : List EnvStep) :
    Monitor.events (runAll cfg react (reads chunks ++ restEnv)).trace =
      handshakeEventsG proxy proto true ++ (pre.flatMap GItem.events ++ evs) ++
        [.protocolError "invalid utf8" true, .disconnected "forced" false] := by
  obtain ⟨ht, hfirst, hrest⟩ := hm
  have hwok : w.Ok := hcut.wOk ht hfirst hrest
  have hw1 : Bytes.WF (done ++ a) := fun x hx => hbytes x (List.mem_append_left _ hx)
  have hv1 : ∃ d1, Utf8.validate 0 (done ++ a) = some d1 := by
    cases hv : Utf8.validate 0 (done ++ a) with
    | some d1 => exact ⟨d1, rfl⟩
    | none =>
      obtain ⟨ext, he⟩ := hgood
      have := (C05.validate_verdict _ hw1).mp hv ext
      rw [he] at this; cases this
  obtain ⟨d1, hd1⟩ := hv1
  obtain ⟨d0, hd⟩ := validate_prefix 0 _ _ _ hd1
  have hv2 : Utf8.validate 0 (done ++ (a ++ [b])) = none := by
    rw [← List.append_assoc]
    exact (C05.validate_verdict _ hbytes).mpr hbad
  have htake : w.payload.take (a.length + 1) = a ++ [b] := by
    rw [hpl]
    have : a ++ b :: c = (a ++ [b]) ++ c := by simp
    rw [this]
    exact List.take_left' (by simp)
  exact run_violation_D hs hreply chunks _ restEnv hne hflat _ _ (by
    intro s4 h4
    obtain ⟨sp0, hfl0, a0⟩ := feed_pre h4 hpt pre hst icP hinfl
    obtain ⟨sp, hfl, at'⟩ := feed_cut_g a0.idle hk (Or.inl hmode) m ht hfirst hrest hcut d0 hd
    obtain ⟨q, e⟩ := cut_partial_bad_g at' hwok (a.length + 1) (by rw [hpl]; simp) (by omega) (by rw [htake]; exact hv2)
    refine ⟨.parse "invalid utf8", { sp with p := q }, ?_, rfl,
      ⟨at'.i.app, at'.i.poll, at'.i.sock, at'.i.nr, at'.i.rd⟩, ?_⟩
    · rw [feedLoop_append, hfl0]
      show feedLoop _ sp0 = _
      rw [feedLoop_append, hfl]
      exact e
    · show hist sp.trace = _
      rw [at'.hist, a0.hist]
      simp)

/-! ## Non-vacuity: the history matters -/

/-- the accepted reply of `C04E2E2.exReplyZ` grants `exDz` (context takeover) to the configuration
    with the bit-level inflater of Model/Inflate.lean -/
theorem exGoodReplyD : GoodReplyD exCfgZ C04E2E2.exReplyZ none (some C04E2E2.exDz) :=
  ⟨exGoodReplyZc.sep, exGoodReplyZc.len, exGoodReplyZc.ok⟩

/-- a prefix: "€a" (`E2 82 AC 61`) compressed by zlib (`7a d4 b4 26 11 00`), sent in two fragments
    cut inside the compressed data with a Ping in between; a Pong; an uncompressed Binary -/
def exPre : List GItem :=
  [ .msg { zf := true, plain := [0xE2, 0x82, 0xAC, 0x61],
           m := { text := true, first := { payload := [0x7a, 0xd4, 0xb4], form := .short },
                  rest := [([{ pong := false, payload := [1], form := .short }],
                            { payload := [0x26, 0x11, 0x00], form := .ext16 })] } },
    .ctrl { pong := true, payload := [7], form := .short },
    .msg { zf := false, plain := [1, 2, 3],
           m := { text := false, first := { payload := [1, 2, 3], form := .short }, rest := [] } } ]

theorem exPre_static : ∀ it ∈ exPre, it.Static := by decide +kernel

/-- the inflater hypothesis for the prefix; the context it leaves: ten bytes of history, four bytes
    delivered -/
def exIc : ICtx := ⟨[0x7a, 0xd4, 0xb4, 0x26, 0x11, 0x00, 0, 0, 0xff, 0xff], 4⟩

theorem exPre_inflate :
    zOuts ⟨exCfgZ.inflate, some C04E2E2.exDz⟩ ⟨[], 0⟩ (exPre.filterMap GItem.zpay) =
      some (exPre.filterMap GItem.zplain, exIc) := by
  decide +kernel

/-- the second compressed message, two fragments: one fixed-Huffman block holding ONE token, a
    match of length 3 at distance 3 (`02 22 00`, then the `00` of zlib's empty stored block).  What
    it means depends only on the window: after "€a" it is `82 AC 61` — not UTF-8 (it starts inside
    the Euro sign).  On its own it is not even a valid DEFLATE stream. -/
def exZback : ZMsg := ⟨{ payload := [0x02, 0x22], form := .short }, [{ payload := [0x00, 0x00], form := .ext16 }]⟩

/-- … the same with distance 4 (`02 62 00 00`): after "€a" it is `E2 82 AC`, the Euro sign -/
def exZback4 : ZMsg := ⟨{ payload := [0x02, 0x62], form := .short }, [{ payload := [0x00, 0x00], form := .short }]⟩

example : exZback.Ok ∧ exZback4.Ok := by decide

/-- the bit-level inflater on these: with the history of `exPre`, and without -/
example :
    Inflate.inflateAllSafe 15 (exIc.hist ++ exZback.joined ++ [0, 0, 0xff, 0xff])
      = some [0xE2, 0x82, 0xAC, 0x61, 0x82, 0xAC, 0x61] ∧
    Inflate.inflateAllSafe 15 (exIc.hist ++ exZback4.joined ++ [0, 0, 0xff, 0xff])
      = some [0xE2, 0x82, 0xAC, 0x61, 0xE2, 0x82, 0xAC] ∧
    Inflate.inflateAllSafe 15 (exZback.joined ++ [0, 0, 0xff, 0xff]) = none ∧
    Utf8.wf [0x82, 0xAC, 0x61] = false ∧ Utf8.wf [0xE2, 0x82, 0xAC] = true := by decide +kernel

/-- `compressed_text_verdict_any_position`, invalid case, on `exPre` then `exZback`, one byte per
    read, then a further (never delivered) text message and further reads: the events of the prefix,
    one critical ProtocolError, Disconnected — **only because of the back-reference into the first
    message** -/
example : Monitor.events (runAll exCfgZ C01E2E.exReact
      (reads ((C04E2E2.exReplyZ ++ (exPre.flatMap GItem.bytes ++ (exZback.bytes ++ [0x81, 1, 65]))).map (fun b => [b]))
        ++ [.wait 3 (some (.data [0x81, 1, 66]))])).trace =
    [.connecting, .connected false, .ready none true, .poll,
     .ping [1], .text [0x20AC, 0x61], .pong [7], .binary [1, 2, 3],
     .protocolError "payload contains invalid utf-8" true, .disconnected "forced" false] :=
  ((compressed_text_verdict_any_position exCfgZ C01E2E.exReact false none C04E2E2.exDz exSetupZ rfl
    C04E2E2.exReplyZ exGoodReplyD exPre exPre_static exIc exPre_inflate exZback (by decide) [0x81, 1, 65] _
    (bytewise_ne _) (bytewise_flatten _)).2.1
    [0xE2, 0x82, 0xAC, 0x61, 0x82, 0xAC, 0x61] (by decide +kernel) (by decide +kernel) _).trans (by decide +kernel)

/-- … `compressed_text_verdict_takeover` on the same connection (one read) -/
example : Monitor.events (runAll exCfgZ C01E2E.exReact
      (reads [C04E2E2.exReplyZ ++ (exPre.flatMap GItem.bytes ++ (exZback.bytes ++ [0x81, 1, 65]))])).trace =
    handshakeEventsG false none true ++ exPre.flatMap GItem.events ++
      [.protocolError "payload contains invalid utf-8" true, .disconnected "forced" false] := by
  have h := compressed_text_verdict_takeover exCfgZ C01E2E.exReact false none C04E2E2.exDz rfl exSetupZ rfl
    C04E2E2.exReplyZ exGoodReplyD exPre exPre_static exIc exPre_inflate (by decide) exZback (by decide) [0x81, 1, 65]
    [C04E2E2.exReplyZ ++ (exPre.flatMap GItem.bytes ++ (exZback.bytes ++ [0x81, 1, 65]))] (by decide +kernel) (by simp)
    [0xE2, 0x82, 0xAC, 0x61] [0xE2, 0x82, 0xAC, 0x61, 0x82, 0xAC, 0x61] (by decide +kernel) (by decide +kernel)
    (by decide +kernel) []
  rw [List.append_nil] at h
  exact h

/-- valid case: distance 4 instead of 3 — the Euro sign is delivered, and so are the items after it -/
example : Monitor.events (runAll exCfgZ C01E2E.exReact
      (reads ((C04E2E2.exReplyZ ++ (exPre.flatMap GItem.bytes ++
          (exZback4.bytes ++ wireBytes (exMore.flatMap Item.wire)))).map (fun b => [b]))
        ++ [.wait 0 (some .eof)])).trace =
    [.connecting, .connected false, .ready none true, .poll,
     .ping [1], .text [0x20AC, 0x61], .pong [7], .binary [1, 2, 3],
     .text [0x20AC], .binary [1, 2, 3], .ping [9], .disconnected "connection-lost" false] := by
  obtain ⟨cps, hc, h⟩ := (compressed_text_verdict_any_position exCfgZ C01E2E.exReact false none C04E2E2.exDz exSetupZ rfl
    C04E2E2.exReplyZ exGoodReplyD exPre exPre_static exIc exPre_inflate exZback4 (by decide) _ _
    (bytewise_ne _) (bytewise_flatten _)).1
    [0xE2, 0x82, 0xAC, 0x61, 0xE2, 0x82, 0xAC] (by decide +kernel) (by decide +kernel)
  have : cps = [0x20AC] := by
    have h2 : Utf8.decode (List.drop exIc.out [0xE2, 0x82, 0xAC, 0x61, 0xE2, 0x82, 0xAC]) = some [0x20AC] := by decide
    rw [h2] at hc; cases hc; rfl
  subst this
  exact (h exMore exMore_ok rfl 0 (Or.inr (by decide))).trans (by decide +kernel)

/-- the two runs evaluated directly; and the same message `exZback` as the FIRST message of a
    connection: there it cannot be inflated at all -/
example :
    Monitor.events (runAll exCfgZ C01E2E.exReact
      (reads [C04E2E2.exReplyZ ++ (exPre.flatMap GItem.bytes ++ (exZback.bytes ++ [0x81, 1, 65]))])).trace =
    [.connecting, .connected false, .ready none true, .poll,
     .ping [1], .text [0x20AC, 0x61], .pong [7], .binary [1, 2, 3],
     .protocolError "payload contains invalid utf-8" true, .disconnected "forced" false] ∧
    Monitor.events (runAll exCfgZ C01E2E.exReact
      (reads [C04E2E2.exReplyZ ++ (exPre.flatMap GItem.bytes ++ (exZback4.bytes ++ [0x81, 1, 65]))]
        ++ [.wait 0 (some .eof)])).trace =
    [.connecting, .connected false, .ready none true, .poll,
     .ping [1], .text [0x20AC, 0x61], .pong [7], .binary [1, 2, 3],
     .text [0x20AC], .text [65], .disconnected "connection-lost" false] ∧
    Monitor.events (runAll exCfgZ C01E2E.exReact
      (reads [C04E2E2.exReplyZ ++ (exZback.bytes ++ [0x81, 1, 65])])).trace =
    [.connecting, .connected false, .ready none true, .poll,
     .protocolError "unable to decompress payload" true, .disconnected "forced" false] := by
  refine ⟨?_, ?_, ?_⟩ <;> decide +kernel

/-- `ctx_after_pre_keep` on the example: the history is the first message's payload and tail -/
example : exIc.hist = (exPre.filterMap GItem.zpay).flatMap (· ++ [0, 0, 0xff, 0xff]) :=
  (ctx_after_pre_keep exCfgZ C04E2E2.exDz rfl exPre exIc exPre_inflate).1

/-- `ctx_after_pre_reset` is not vacuous: with `server_no_context_takeover` the same prefix leaves
    an empty context -/
example : zOuts ⟨exCfgZ.inflate, some { C04E2E2.exDz with resetDecompress := true }⟩ ⟨[], 0⟩
    (exPre.filterMap GItem.zpay) = some (exPre.filterMap GItem.zplain, ⟨[], 0⟩) := by decide +kernel

/-- `text_verdict_any_position`, invalid case: after the compressed prefix the truncated text
    `E2 82` with RSV1 = 0, then `exMore`, then further reads: nothing after the ProtocolError -/
example : ∃ ces msg, ces <+: ctrlEvents exTrunc ∧
    Monitor.events (runAll exCfgZ C01E2E.exReact
      (reads [C04E2E2.exReplyZ ++ (exPre.flatMap GItem.bytes ++
        (wireBytes exTrunc.wire ++ wireBytes (exMore.flatMap Item.wire)))] ++
        [.wait 3 (some (.data [0x81, 1, 66]))])).trace =
    handshakeEventsG false none true ++ (exPre.flatMap GItem.events ++ ces) ++
      [.protocolError msg true, .disconnected "forced" false] := by
  obtain ⟨ces, msg, hp, h⟩ := (text_verdict_any_position exCfgZ C01E2E.exReact false none C04E2E2.exDz exSetupZ rfl rfl rfl
    C04E2E2.exReplyZ exGoodReplyD exPre exPre_static exIc exPre_inflate exTrunc exTrunc_framed
    (wireBytes (exMore.flatMap Item.wire))
    [C04E2E2.exReplyZ ++ (exPre.flatMap GItem.bytes ++ (wireBytes exTrunc.wire ++ wireBytes (exMore.flatMap Item.wire)))]
    (by decide +kernel) (by simp)).2 (by decide)
  exact ⟨ces, msg, hp, h _⟩

/-- … valid case ("€a" in three fragments with Ping/Pong in between, then `exMore`) -/
example : Monitor.events (runAll exCfgZ C01E2E.exReact
      (reads ((C04E2E2.exReplyZ ++ (exPre.flatMap GItem.bytes ++
          (wireBytes exMsg.wire ++ wireBytes (exMore.flatMap Item.wire)))).map (fun b => [b]))
        ++ [.wait 0 (some .eof)])).trace =
    [.connecting, .connected false, .ready none true, .poll,
     .ping [1], .text [0x20AC, 0x61], .pong [7], .binary [1, 2, 3],
     .ping [1, 2], .pong [], .text [0x20AC, 0x61],
     .binary [1, 2, 3], .ping [9], .disconnected "connection-lost" false] := by
  obtain ⟨cps, hc, h⟩ := (text_verdict_any_position exCfgZ C01E2E.exReact false none C04E2E2.exDz exSetupZ rfl rfl rfl
    C04E2E2.exReplyZ exGoodReplyD exPre exPre_static exIc exPre_inflate exMsg exMsg_framed _ _
    (bytewise_ne _) (bytewise_flatten _)).1 (by decide)
  have : cps = [0x20AC, 0x61] := by
    have h2 : Utf8.decode exMsg.payload = some [0x20AC, 0x61] := by decide
    rw [h2] at hc; cases hc; rfl
  subst this
  exact (h exMore exMore_ok rfl 0 (Or.inr (by decide))).trans (by decide +kernel)

/-- `failfast_any_position` on `C05E2E.exBad` after the compressed prefix: the script ends with the
    offending byte 0x28, the first byte of the second fragment -/
example : Monitor.events (runAll exCfgZ C01E2E.exReact
      (reads ((C04E2E2.exReplyZ ++ (exPre.flatMap GItem.bytes ++
        ([0x01, 2, 0x61, 0xE2] ++ [0x89, 1, 1] ++ [0x00, 2, 0x28]))).map (fun b => [b])))).trace =
    [.connecting, .connected false, .ready none true, .poll,
     .ping [1], .text [0x20AC, 0x61], .pong [7], .binary [1, 2, 3], .ping [1],
     .protocolError "invalid utf8" true, .disconnected "forced" false] := by
  have h := failfast_any_position exCfgZ C01E2E.exReact false none C04E2E2.exDz exSetupZ rfl rfl rfl
    C04E2E2.exReplyZ exGoodReplyD exPre exPre_static exIc exPre_inflate exBad exBad_framed _ _ _ _ _
    (CutAt.later [] [{ pong := false, payload := [1], form := .short }] { payload := [0x28, 0x62], form := .short }
      [([{ pong := true, payload := [], form := .short }], { payload := [0x63], form := .short })] rfl)
    [] 0x28 [0x62] rfl (by decide) ⟨[0x82, 0xAC], by decide⟩
    (fun ext => by
      show Utf8.wf ([0x61, 0xE2, 0x28] ++ ext) = false
      cases hw : Utf8.wf ([0x61, 0xE2, 0x28] ++ ext) with
      | false => rfl
      | true =>
        have h0 := (Utf8.srun_zero_iff_wf _).mpr hw
        have e : Utf8.srun 0 [0x61, 0xE2, 0x28] = 1 := by decide
        rw [Utf8.srun_append, e, Utf8.srun_reject] at h0
        cases h0)
    ((C04E2E2.exReplyZ ++ (exPre.flatMap GItem.bytes ++
        ([0x01, 2, 0x61, 0xE2] ++ [0x89, 1, 1] ++ [0x00, 2, 0x28]))).map (fun b => [b]))
    (bytewise_ne _) (by rw [bytewise_flatten]; decide +kernel) []
  rw [List.append_nil] at h
  exact h.trans (by decide +kernel)

end Lomond.C05ZAny
