/-
  C02 — the event stream does not depend on how TCP segments the byte stream.
  Property theorems only (helper lemmas: Proofs/Core.lean, Proofs/Segmentation.lean for
  `WebSocket.feed`; Proofs/SegmentationLoop.lean, Proofs/EnvInd.lean, Proofs/SegmentationRun.lean
  for the session loop and whole connections).

  The model's `feedLoop` is written exactly like `Parser.feed`'s loop: it takes a *bite*
  `data[pos:pos+remaining]` of the current read, validates the slice, extends the buffer and
  resumes the grammar when the awaited count is complete; after every parser output the whole
  lazy pipeline (stream, message, websocket, session bookkeeping, the application's reaction,
  `_regular`) runs before the next byte is looked at.  The theorems say that this chunk-oriented
  algorithm computes a function of the concatenated bytes only.
-/
import Lomond.Proofs.Core
import Lomond.Proofs.Segmentation
import Lomond.Proofs.SegmentationRun
import Lomond.Proofs.Closing

namespace Lomond.C02
open Lomond Lomond.Core

/-- Frames phase, any system state `s` (any configuration, application, parser position —
    mid-header, mid-extended-length, mid-payload, mid-UTF-8-character —, any negotiated
    extension): feeding `a ++ b` in one read is the same as feeding `a`, then `b` — same final
    state, hence same events, same application reactions and same bytes written (they are all
    part of the state's trace), same error at the same point, and the same decision to stop. -/
theorem feedLoop_two_reads (a b : Bytes) (s : Sys) :
    feedLoop (a ++ b) s = contLoop (feedLoop a s) b :=
  feedLoop_append a b s

/-- feeding chunks one after the other, stopping at the first error / `break` -/
def feedChunks : List Bytes → Sys → Res Bool
  | [], s => .ok true s
  | c :: cs, s => contLoopK (feedLoop c s) cs
where
  contLoopK (r : Res Bool) (cs : List Bytes) : Res Bool :=
    match r with
    | .ok true s' => feedChunks cs s'
    | .ok false s' => .ok false s'
    | .err x s' => .err x s'

theorem feedChunks_eq_flatten (cs : List Bytes) (s : Sys) :
    feedChunks cs s = feedLoop cs.flatten s := by
  induction cs generalizing s with
  | nil => simp [feedChunks, feedLoop_nil]
  | cons c cs ih =>
    simp only [feedChunks, List.flatten_cons, feedLoop_append]
    cases h : feedLoop c s with
    | ok go s' => cases go <;> simp [feedChunks.contLoopK, contLoop, ih]
    | err x s' => simp [feedChunks.contLoopK, contLoop]

/-- **Segmentation independence (frames phase).**  Any two ways of cutting the same byte stream
    into reads — 2^(n-1) cut sets for n bytes, one byte at a time included — drive the system
    from any state to the same result. -/
theorem segmentation_independent (cs₁ cs₂ : List Bytes) (s : Sys)
    (h : cs₁.flatten = cs₂.flatten) : feedChunks cs₁ s = feedChunks cs₂ s := by
  rw [feedChunks_eq_flatten, feedChunks_eq_flatten, h]

/-- one byte per read is one of those segmentations -/
theorem bytewise (data : Bytes) (s : Sys) :
    feedChunks (data.map (fun b => [b])) s = feedLoop data s := by
  rw [feedChunks_eq_flatten]; congr 1; induction data <;> simp_all


/-! ### `WebSocket.feed`: handshake response included

`wsFeed` is the model of `WebSocket.feed(data)`: the `if self.is_closed: return` guard, the
header reader (`read_until(b'\\r\\n\\r\\n', max_bytes=16 KiB)` with its two `check_length`
sites), the frames loop, `break` when the websocket gets closed, and the three `except` clauses
(ProtocolError event, 1002 Close, forced disconnect).  `HdrInv` says that while the header block
is awaited the parser's buffer holds no complete terminator and is within the limit; it holds
initially and is preserved. -/

/-- Feeding `a ++ b` in one read equals feeding `a`, then `b`, from every state: cuts inside the
    HTTP response, between the response and the first frames (response and frames in one read),
    inside a frame header, an extended length, a UTF-8 character, a compressed message. -/
theorem wsFeed_two_reads (a b : Bytes) (s : Sys) (hi : HdrInv s) :
    wsFeed (a ++ b) s =
      match wsFeed a s with
      | .ok _ s' => wsFeed b s'
      | .err x s' => .err x s' :=
  wsFeed_append a b s hi

/-- **Segmentation independence of `WebSocket.feed`.**  From the state in which a connection
    starts (or any later state), any two segmentations of the same server byte stream — valid or
    invalid, any length — produce the same result: the same events with the same payloads, the
    same application reactions, the same bytes written by the client, the same error. -/
theorem ws_segmentation_independent (cs₁ cs₂ : List Bytes) (s : Sys) (hi : HdrInv s)
    (h : cs₁.flatten = cs₂.flatten) : wsFeedChunks cs₁ s = wsFeedChunks cs₂ s := by
  rw [wsFeedChunks_eq_flatten _ _ hi, wsFeedChunks_eq_flatten _ _ hi, h]

/-- the invariant holds when a connection starts and after every read -/
theorem hdr_invariant_initial (cfg : Cfg) (react : React) (env : List EnvStep) :
    HdrInv { cfg := cfg, react := react, env := env } := hdrInv_init cfg react env

theorem hdr_invariant_preserved (d : Bytes) (s s' : Sys) (hi : HdrInv s) (hr : wsFeed d s = .ok () s') :
    HdrInv s' := wsFeed_hdrInv d s s' hi hr

/-- non-vacuity: a handshake reply cut in the middle of the terminator, and cut after the
    first frame byte, are two segmentations of one stream -/
example : ([[72, 13, 10, 13], [10, 129, 1, 97]] : List Bytes).flatten = ([[72, 13, 10, 13, 10, 129], [1, 97]] : List Bytes).flatten := by
  decide

/-! ### the session: `run()`'s loop between two reads

`WebSocket.feed` is only part of what `run()` does with a read.  Between the `feed` of one read
and the `feed` of the next, `Core.loop` (the `while not websocket.is_closed` loop of
`session.run()`) goes through: `selector.wait` returning (`tick`, the clock may advance),
`_regular()` at the top of the cycle (`regularTop`: Poll event, automatic Ping, ping timeout,
close timeout — each may yield an event to the application or raise), the loop condition
`websocket.is_closed`, and `_recv`, which returns `b''` when the socket is gone (`sockOpen`).
The theorems below show that when no time passes between the reads none of this is observable.

What the hypotheses exclude, precisely:
* **time passing between the reads** (`wait 0`): with the clock moving, `_regular()` legitimately
  does different things (a Poll falls due between the reads but not inside one read) — the
  subject of C15.  The wait *before the first* read of a burst may take any time `dt`.
* **`poll = 0`**: `_check_poll` then fires at every evaluation of `_regular()`, so every extra
  loop cycle yields an extra Poll event (`poll_zero_observable` below is a concrete witness).
* **the application calling `session.close()` while it handles an event of the first read**:
  the socket is closed under the loop's feet, `_recv` returns `b''` and the rest of the stream
  *cannot be received at all*, whereas one big read had already delivered those bytes to the
  parser (`session_close_observable` below).  `ws.close()` (the closing handshake), sends and
  abandoning the loop are all allowed.
* reads of zero bytes (`recv` returning `b''` means end of stream, not an empty segment). -/

open Lomond.Core.SegLoop Lomond.Core.Timers

/-- **`_regular()` is idempotent at a frozen clock** (`poll > 0`): whenever it returns normally —
    at the end of every event hand-over inside `feed` (`feedYield`) or at the top of a loop cycle —
    evaluating it again changes nothing and yields nothing: it has just yielded the Poll that was
    due (so `_poll_start` is now), moved `_next_ping` to a multiple of the rate not before now,
    and found neither timeout expired. -/
theorem regular_idempotent (s s1 : Sys) (hp : 0 < s.cfg.poll) (h : regular s = .ok () s1) :
    regular s1 = .ok () s1 :=
  regular_settled s1 (regular_establishes hp h)

/-- the state property behind it, spelled out: `poll > 0` and, once ready, the Poll timer has
    less than `poll` on it, no Ping is due, no timeout has expired -/
theorem settled_iff (s : Sys) :
    Settled s ↔ (0 < s.cfg.poll ∧ (s.ready = true →
      (∃ p, s.pollStart = some p ∧ sessionTime s - p < s.cfg.poll) ∧
      ¬ (s.cfg.pingRate ≠ 0 ∧ sessionTime s > s.nextPing) ∧
      ¬ (s.cfg.pingTimeout ≠ 0 ∧ sessionTime s - s.lastPong > s.cfg.pingTimeout) ∧
      ¬ (s.cfg.closeTimeout ≠ 0 ∧ ∃ ct, s.sentCloseTime = some ct ∧ sessionTime s ≥ ct + s.cfg.closeTimeout))) :=
  ⟨fun h => ⟨h.poll, h.quiet⟩, fun h => ⟨h.1, h.2⟩⟩

/-- `_regular()` from a settled state is the identity -/
theorem regular_settled_identity (s : Sys) (h : Settled s) : regular s = .ok () s := regular_settled s h

/-- before Ready (`_regular()` is not run at all) every state with `poll > 0` is settled -/
theorem settled_before_ready (s : Sys) (hp : 0 < s.cfg.poll) (hr : s.ready = false) : Settled s :=
  ⟨hp, fun h => by rw [hr] at h; cases h⟩

/-- **`WebSocket.feed` returns settled**: from a settled state (in particular: after the
    `_regular()` at the top of the cycle), any read, valid or not, handshake reply included — if
    `feed` returns at all, `_regular()` has nothing to do at the same clock value.  Everything `feed`
    does after its last `yield` (parser and stream bookkeeping, answering a Close: `close()` stamps
    `_sent_close_time` with *now* and `close_timeout` is disabled or ≥ 1 tick, state flags) is
    invisible to the four timer checks. -/
theorem feed_returns_settled (d : Bytes) (s s' : Sys) (hs : Settled s) (h : wsFeed d s = .ok () s') :
    Settled s' := wsFeed_settled hs h

/-- **Two reads with no time between them are one read** — general form, any application.
    `hsock` is the only thing asked of the application: if the first read's `feed` returns with the
    websocket still open, the session's socket still exists.  The first wait may take any `dt`. -/
theorem session_two_reads (dt : Nat) (a b : Bytes) (rest : List EnvStep) (s : Sys)
    (hi : HdrInv s) (hp : 0 < s.cfg.poll) (ha : a ≠ []) (hb : b ≠ [])
    (hsock : ∀ s2 s3, regular (tick s dt) = .ok () s2 → wsFeed a s2 = .ok () s3 →
      s3.closed = false → s3.sockOpen = true) :
    loop (.wait dt (some (.data a)) :: .wait 0 (some (.data b)) :: rest) s =
      loop (.wait dt (some (.data (a ++ b))) :: rest) s :=
  loop_two_reads dt a b rest s hi hp ha hb hsock

/-- the same for an application that never calls `session.close()`: then the library gives the
    socket up only together with marking the websocket closed (`on_disconnect()`), which `hg`
    says has not happened yet or has happened consistently (`sockOpen ∨ closed`) -/
theorem session_two_reads_no_session_close (dt : Nat) (a b : Bytes) (rest : List EnvStep) (s : Sys)
    (hi : HdrInv s) (hp : 0 < s.cfg.poll) (hn : NoSessionClose s.react)
    (hg : s.sockOpen = true ∨ s.closed = true) (ha : a ≠ []) (hb : b ≠ []) :
    loop (.wait dt (some (.data a)) :: .wait 0 (some (.data b)) :: rest) s =
      loop (.wait dt (some (.data (a ++ b))) :: rest) s :=
  loop_two_reads_inv dt a b rest s ⟨hi, hp, hn, hg⟩ ha hb

/-- **Segmentation independence of the session loop.**  `readsAt dt cs` is a burst of reads: the
    first after a wait of `dt` ticks, the others with no time passing.  Two bursts of non-empty
    reads with the same concatenation, followed by any further script `rest`, drive the loop to
    the same result (same final state — trace of events, application calls and bytes written
    included —, same exception) from every state `s` with the header invariant, `poll > 0`, an
    application that never calls `session.close()`, and the socket present unless closed. -/
theorem session_segmentation_independent (dt : Nat) (cs₁ cs₂ : List Bytes) (rest : List EnvStep) (s : Sys)
    (hi : HdrInv s) (hp : 0 < s.cfg.poll) (hn : NoSessionClose s.react)
    (hg : s.sockOpen = true ∨ s.closed = true)
    (hne₁ : ∀ x ∈ cs₁, x ≠ []) (hne₂ : ∀ x ∈ cs₂, x ≠ []) (h : cs₁.flatten = cs₂.flatten) :
    loop (readsAt dt cs₁ ++ rest) s = loop (readsAt dt cs₂ ++ rest) s :=
  loop_segmentation dt cs₁ cs₂ rest s ⟨hi, hp, hn, hg⟩ hne₁ hne₂ h

/-- … with an arbitrary script `pre` in front (earlier reads, waits, time passing), and through
    `run()`'s `except` / `else` clauses (`runBody`: the Disconnected event, closing the socket) -/
theorem runBody_segmentation_independent (pre : List EnvStep) (dt : Nat) (cs₁ cs₂ : List Bytes)
    (rest : List EnvStep) (s : Sys)
    (hi : HdrInv s) (hp : 0 < s.cfg.poll) (hn : NoSessionClose s.react)
    (hg : s.sockOpen = true ∨ s.closed = true)
    (hne₁ : ∀ x ∈ cs₁, x ≠ []) (hne₂ : ∀ x ∈ cs₂, x ≠ []) (h : cs₁.flatten = cs₂.flatten) :
    runBody (pre ++ (readsAt dt cs₁ ++ rest)) s = runBody (pre ++ (readsAt dt cs₂ ++ rest)) s :=
  runBody_congr (loop_prefix_congr pre _ _ s ⟨hi, hp, hn, hg⟩
    (fun s' hI => loop_segmentation dt cs₁ cs₂ rest s' hI hne₁ hne₂ h))

/-- **Segmentation independence of a whole connection** (`runAll`: `Connecting`, connect, the
    upgrade request, `Connected`, the loop, `Disconnected`, cleanup).  The handshake reply is part
    of the stream: it may be cut anywhere, or arrive in one read together with the first frames
    (the reads before Ready happen with `ready = false`, where `_regular()` is not run).  For every
    configuration with `poll > 0`, every application that never calls `session.close()`, every
    script prefix and suffix: the two connections end in the same state — every field except the
    stored script itself, which is the input that differs. -/
theorem connection_segmentation_independent (cfg : Cfg) (react : React) (pre rest : List EnvStep)
    (dt : Nat) (cs₁ cs₂ : List Bytes) (hp : 0 < cfg.poll) (hn : NoSessionClose react)
    (hne₁ : ∀ x ∈ cs₁, x ≠ []) (hne₂ : ∀ x ∈ cs₂, x ≠ []) (h : cs₁.flatten = cs₂.flatten) :
    { runAll cfg react (pre ++ (readsAt dt cs₁ ++ rest)) with env := [] } =
      { runAll cfg react (pre ++ (readsAt dt cs₂ ++ rest)) with env := [] } := by
  obtain ⟨X, h1, h2⟩ := runAll_segmentation cfg react pre rest dt cs₁ cs₂ hp hn hne₁ hne₂ h
  rw [h1, h2]; rfl

/-- in particular **what the application observes is the same**: the sequence of events with their
    payloads, the results of its calls and the bytes the client writes (all on the trace, in
    order), and the event history handed to the application -/
theorem connection_same_observations (cfg : Cfg) (react : React) (pre rest : List EnvStep)
    (dt : Nat) (cs₁ cs₂ : List Bytes) (hp : 0 < cfg.poll) (hn : NoSessionClose react)
    (hne₁ : ∀ x ∈ cs₁, x ≠ []) (hne₂ : ∀ x ∈ cs₂, x ≠ []) (h : cs₁.flatten = cs₂.flatten) :
    (runAll cfg react (pre ++ (readsAt dt cs₁ ++ rest))).trace =
        (runAll cfg react (pre ++ (readsAt dt cs₂ ++ rest))).trace ∧
      (runAll cfg react (pre ++ (readsAt dt cs₁ ++ rest))).hist =
        (runAll cfg react (pre ++ (readsAt dt cs₂ ++ rest))).hist := by
  have e := connection_segmentation_independent cfg react pre rest dt cs₁ cs₂ hp hn hne₁ hne₂ h
  have ht := congrArg Sys.trace e
  have hh := congrArg Sys.hist e
  exact ⟨ht, hh⟩

/-! ### non-vacuity and necessity of the hypotheses -/

/-- echoes every Text, answers Poll with a Ping, closes on Binary: never `session.close()` -/
def ExS.react : React := fun hist =>
  match hist with
  | .text t :: _ => [.sendText (.str t) false]
  | .poll :: _ => [.sendPing (.bytes [1])]
  | .binary _ :: _ => [.close (some 1000) (.bytes [])]
  | _ => []

/-- the example application never calls `session.close()` -/
theorem ExS.react_noSessionClose : NoSessionClose ExS.react := by
  intro h hm
  unfold ExS.react at hm
  split at hm <;> simp at hm

/-- the handshake reply cut inside the header block, the first frame header glued to its end, the
    payload of Text `hi` in a read of its own, then a Ping and a Binary frame together -/
def ExS.cut₁ : List Bytes :=
  [Core.Ex.resp.take 50, Core.Ex.resp.drop 50 ++ [0x81], [2, 104, 105], [0x89, 0, 0x82, 1, 7]]

/-- the same bytes in one read -/
def ExS.cut₂ : List Bytes := [Core.Ex.resp ++ [0x81, 2, 104, 105, 0x89, 0, 0x82, 1, 7]]

/-- non-vacuity of `connection_same_observations`: a reply cut in four reads vs one read -/
example :
    (runAll Core.Ex.cfg ExS.react (readsAt 0 ExS.cut₁ ++ [.wait 1 (some .eof)])).trace =
      (runAll Core.Ex.cfg ExS.react (readsAt 0 ExS.cut₂ ++ [.wait 1 (some .eof)])).trace :=
  (connection_same_observations Core.Ex.cfg ExS.react [] [.wait 1 (some .eof)] 0 ExS.cut₁ ExS.cut₂
    (by decide) ExS.react_noSessionClose (by decide) (by decide) (by decide)).1

/-- … and the run is not trivial: Ready, the first Poll (answered with a Ping by the application),
    the Text echoed, the automatic Pong before the Ping event, Binary answered with `close()`,
    EOF while closing ends gracefully -/
example :
    (runAll Core.Ex.cfg ExS.react (readsAt 0 ExS.cut₁ ++ [.wait 1 (some .eof)])).trace.reverse =
      [.ev .connecting, .wr [71, 69, 84], .ev (.connected false), .ev (.ready none false), .ev .poll,
       .wr [137, 129, 0, 0, 0, 0, 1], .res .ok,
       .ev (.text [104, 105]), .wr [129, 130, 0, 0, 0, 0, 104, 105], .res .ok,
       .wr [138, 128, 0, 0, 0, 0], .ev (.ping []),
       .ev (.binary [7]), .wr [136, 130, 0, 0, 0, 0, 3, 232], .res .ok,
       .tick 1, .sockClose, .ev (.disconnected "closed" true), .selClose] := by
  decide +kernel

/-- a ready websocket in the frames phase, `poll` as given -/
def ExS.readyState (poll : Nat) (react : React) : Sys :=
  { cfg := { Core.Ex.cfg with poll := poll }, react := react, env := [], sockOpen := true, ready := true,
    startTime := some 0, p := { cont := .hdr2, remPred := 1 }, parsedResponse := true }

/-- **`poll = 0` is observable**: the second loop cycle yields a second Poll event -/
theorem poll_zero_observable :
    (loop [.wait 0 (some (.data [0x81, 1])), .wait 0 (some (.data [97]))] (ExS.readyState 0 (fun _ => []))).state.trace ≠
      (loop [.wait 0 (some (.data [0x81, 1, 97]))] (ExS.readyState 0 (fun _ => []))).state.trace := by
  decide +kernel

/-- with `poll = 5` the same two scripts agree (instance of `session_two_reads_no_session_close`) -/
example :
    loop [.wait 0 (some (.data [0x81, 1])), .wait 0 (some (.data [97]))] (ExS.readyState 5 (fun _ => [])) =
      loop [.wait 0 (some (.data [0x81, 1, 97]))] (ExS.readyState 5 (fun _ => [])) :=
  session_two_reads_no_session_close 0 [0x81, 1] [97] [] _ (fun h => by cases h) (by decide)
    (fun _ hm => by cases hm) (Or.inl rfl) (by decide) (by decide)

/-- closes the session's socket when it sees a Text -/
def ExS.reactSessionClose : React := fun hist =>
  match hist with
  | .text _ :: _ => [.sessionClose]
  | _ => []

/-- **`session.close()` inside the burst is observable**: cut after the first message, the second
    message cannot be received (connection lost); in one read both messages are delivered -/
theorem session_close_observable :
    (loop [.wait 0 (some (.data [0x81, 1, 97])), .wait 0 (some (.data [0x81, 1, 98]))]
        (ExS.readyState 5 ExS.reactSessionClose)).state.trace ≠
      (loop [.wait 0 (some (.data [0x81, 1, 97, 0x81, 1, 98]))]
        (ExS.readyState 5 ExS.reactSessionClose)).state.trace := by
  decide +kernel

end Lomond.C02
