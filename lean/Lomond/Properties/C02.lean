/-
  C02 — the event stream does not depend on how TCP segments the byte stream.
  Property theorems only (helper lemmas: Proofs/Core.lean).

  The model's `feedLoop` is written exactly like `Parser.feed`'s loop: it takes a *bite*
  `data[pos:pos+remaining]` of the current read, validates the slice, extends the buffer and
  resumes the grammar when the awaited count is complete; after every parser output the whole
  lazy pipeline (stream, message, websocket, session bookkeeping, the application's reaction,
  `_regular`) runs before the next byte is looked at.  The theorems say that this chunk-oriented
  algorithm computes a function of the concatenated bytes only.
-/
import Lomond.Proofs.Core

namespace Lomond.C02
open Lomond Lomond.Core

/-- Frames phase, any system state `s` (any configuration, application, parser position —
    mid-header, mid-extended-length, mid-payload, mid-UTF-8-character —, any negotiated
    extension): feeding `a ++ b` in one read is the same as feeding `a`, then `b` — same final
    state, hence same events, same application reactions and same bytes written (they are all
    part of the state's trace), same error at the same point, and the same decision to stop. -/
theorem feedLoop_two_reads (a b : Bytes) (s : Sys) :
    feedLoop (a ++ b) s = contLoop (feedLoop a s) b :=
  feedLoop_append a b s

/-- feeding chunks one after the other, stopping at the first error / `break` -/
def feedChunks : List Bytes → Sys → Res Bool
  | [], s => .ok true s
  | c :: cs, s => contLoopK (feedLoop c s) cs
where
  contLoopK (r : Res Bool) (cs : List Bytes) : Res Bool :=
    match r with
    | .ok true s' => feedChunks cs s'
    | .ok false s' => .ok false s'
    | .err x s' => .err x s'

theorem feedChunks_eq_flatten (cs : List Bytes) (s : Sys) :
    feedChunks cs s = feedLoop cs.flatten s := by
  induction cs generalizing s with
  | nil => simp [feedChunks, feedLoop_nil]
  | cons c cs ih =>
    simp only [feedChunks, List.flatten_cons, feedLoop_append]
    cases h : feedLoop c s with
    | ok go s' => cases go <;> simp [feedChunks.contLoopK, contLoop, ih]
    | err x s' => simp [feedChunks.contLoopK, contLoop]

/-- **Segmentation independence (frames phase).**  Any two ways of cutting the same byte stream
    into reads — 2^(n-1) cut sets for n bytes, one byte at a time included — drive the system
    from any state to the same result. -/
theorem segmentation_independent (cs₁ cs₂ : List Bytes) (s : Sys)
    (h : cs₁.flatten = cs₂.flatten) : feedChunks cs₁ s = feedChunks cs₂ s := by
  rw [feedChunks_eq_flatten, feedChunks_eq_flatten, h]

/-- one byte per read is one of those segmentations -/
theorem bytewise (data : Bytes) (s : Sys) :
    feedChunks (data.map (fun b => [b])) s = feedLoop data s := by
  rw [feedChunks_eq_flatten]; congr 1; induction data <;> simp_all

end Lomond.C02
