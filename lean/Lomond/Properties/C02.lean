/-
  C02 — the event stream does not depend on how TCP segments the byte stream.
  Property theorems only (helper lemmas: Proofs/Core.lean).

  The model's `feedLoop` is written exactly like `Parser.feed`'s loop: it takes a *bite*
  `data[pos:pos+remaining]` of the current read, validates the slice, extends the buffer and
  resumes the grammar when the awaited count is complete; after every parser output the whole
  lazy pipeline (stream, message, websocket, session bookkeeping, the application's reaction,
  `_regular`) runs before the next byte is looked at.  The theorems say that this chunk-oriented
  algorithm computes a function of the concatenated bytes only.
-/
import Lomond.Proofs.Core
import Lomond.Proofs.Segmentation

namespace Lomond.C02
open Lomond Lomond.Core

/-- Frames phase, any system state `s` (any configuration, application, parser position —
    mid-header, mid-extended-length, mid-payload, mid-UTF-8-character —, any negotiated
    extension): feeding `a ++ b` in one read is the same as feeding `a`, then `b` — same final
    state, hence same events, same application reactions and same bytes written (they are all
    part of the state's trace), same error at the same point, and the same decision to stop. -/
theorem feedLoop_two_reads (a b : Bytes) (s : Sys) :
    feedLoop (a ++ b) s = contLoop (feedLoop a s) b :=
  feedLoop_append a b s

/-- feeding chunks one after the other, stopping at the first error / `break` -/
def feedChunks : List Bytes → Sys → Res Bool
  | [], s => .ok true s
  | c :: cs, s => contLoopK (feedLoop c s) cs
where
  contLoopK (r : Res Bool) (cs : List Bytes) : Res Bool :=
    match r with
    | .ok true s' => feedChunks cs s'
    | .ok false s' => .ok false s'
    | .err x s' => .err x s'

theorem feedChunks_eq_flatten (cs : List Bytes) (s : Sys) :
    feedChunks cs s = feedLoop cs.flatten s := by
  induction cs generalizing s with
  | nil => simp [feedChunks, feedLoop_nil]
  | cons c cs ih =>
    simp only [feedChunks, List.flatten_cons, feedLoop_append]
    cases h : feedLoop c s with
    | ok go s' => cases go <;> simp [feedChunks.contLoopK, contLoop, ih]
    | err x s' => simp [feedChunks.contLoopK, contLoop]

/-- **Segmentation independence (frames phase).**  Any two ways of cutting the same byte stream
    into reads — 2^(n-1) cut sets for n bytes, one byte at a time included — drive the system
    from any state to the same result. -/
theorem segmentation_independent (cs₁ cs₂ : List Bytes) (s : Sys)
    (h : cs₁.flatten = cs₂.flatten) : feedChunks cs₁ s = feedChunks cs₂ s := by
  rw [feedChunks_eq_flatten, feedChunks_eq_flatten, h]

/-- one byte per read is one of those segmentations -/
theorem bytewise (data : Bytes) (s : Sys) :
    feedChunks (data.map (fun b => [b])) s = feedLoop data s := by
  rw [feedChunks_eq_flatten]; congr 1; induction data <;> simp_all


/-! ### `WebSocket.feed`: handshake response included

`wsFeed` is the model of `WebSocket.feed(data)`: the `if self.is_closed: return` guard, the
header reader (`read_until(b'\\r\\n\\r\\n', max_bytes=16 KiB)` with its two `check_length`
sites), the frames loop, `break` when the websocket gets closed, and the three `except` clauses
(ProtocolError event, 1002 Close, forced disconnect).  `HdrInv` says that while the header block
is awaited the parser's buffer holds no complete terminator and is within the limit; it holds
initially and is preserved. -/

/-- Feeding `a ++ b` in one read equals feeding `a`, then `b`, from every state: cuts inside the
    HTTP response, between the response and the first frames (response and frames in one read),
    inside a frame header, an extended length, a UTF-8 character, a compressed message. -/
theorem wsFeed_two_reads (a b : Bytes) (s : Sys) (hi : HdrInv s) :
    wsFeed (a ++ b) s =
      match wsFeed a s with
      | .ok _ s' => wsFeed b s'
      | .err x s' => .err x s' :=
  wsFeed_append a b s hi

/-- **Segmentation independence of `WebSocket.feed`.**  From the state in which a connection
    starts (or any later state), any two segmentations of the same server byte stream — valid or
    invalid, any length — produce the same result: the same events with the same payloads, the
    same application reactions, the same bytes written by the client, the same error. -/
theorem ws_segmentation_independent (cs₁ cs₂ : List Bytes) (s : Sys) (hi : HdrInv s)
    (h : cs₁.flatten = cs₂.flatten) : wsFeedChunks cs₁ s = wsFeedChunks cs₂ s := by
  rw [wsFeedChunks_eq_flatten _ _ hi, wsFeedChunks_eq_flatten _ _ hi, h]

/-- the invariant holds when a connection starts and after every read -/
theorem hdr_invariant_initial (cfg : Cfg) (react : React) (env : List EnvStep) :
    HdrInv { cfg := cfg, react := react, env := env } := hdrInv_init cfg react env

theorem hdr_invariant_preserved (d : Bytes) (s s' : Sys) (hi : HdrInv s) (hr : wsFeed d s = .ok () s') :
    HdrInv s' := wsFeed_hdrInv d s s' hi hr

/-- non-vacuity: a handshake reply cut in the middle of the terminator, and cut after the
    first frame byte, are two segmentations of one stream -/
example : ([[72, 13, 10, 13], [10, 129, 1, 97]] : List Bytes).flatten = ([[72, 13, 10, 13, 10, 129], [1, 97]] : List Bytes).flatten := by
  decide

end Lomond.C02
