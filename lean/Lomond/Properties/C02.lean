import Lomond.Model.Core
namespace Lomond.C02
end Lomond.C02
