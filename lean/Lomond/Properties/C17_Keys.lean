/-
  C17 — "every connect() on a WebSocket object begins with a new handshake key".

  Model: `Model/KeyChain.lean` (the key schedule of one object over all its `connect()` calls, driven by a
  nonce source `src : Nat → Bytes`, `src k` = the k-th `os.urandom(16)` made for this object; draw 0 belongs
  to the constructor's `State`, draw k ≥ 1 to `connect()` number k).

  1. `b64_injective_16` / `b64_injective`: base64 (the `Handshake.b64encode` C10 uses) loses nothing, so two
     different nonces never give the same key text.
  2. `keys_pairwise_distinct` (+ `keys_nodup`, `requests_pairwise_distinct`): a source that does not repeat
     within the first `n` draws gives `n` pairwise different keys, each key is what an independent RFC 7230
     reader finds as `Sec-WebSocket-Key` in the request of that `connect()`, hence no key is sent twice.
     `keys_distinct_iff`: for byte-valued nonces "no key repeats" is EXACTLY "no nonce repeats".
  3. `repeating_source_resends_key`, `pooled_resends_key`: the converse witness — a source of period 16 (a pool
     of 16 nonces that wraps: seeded change C17-r4m1) makes `connect()` number `k+16` put the key of `connect()`
     number `k` on the wire again.
  4. `key_is_one_fresh_draw_per_state`, `connect_draws_new_key`, `chain_eq_afterConnects`: the source tie, by
     `decide` over facts re-extracted from /repo on every run — the initialiser of `State.key` is the text
     `b64encode(os.urandom(16))` (exactly one, the only random initialiser of `State`), `connect()` starts
     with `reset()`, which builds a new `State`, and nothing assigns `state.key` later; therefore the
     fact-driven step `KeyChain.connectStep` IS `Handshake.connect` (a new draw).  Changing that expression
     (a cached nonce, a pool, a constant, `urandom(8)`) breaks the build of this file.

  What stays outside: that `os.urandom` does not repeat is a property of the operating system (a hypothesis on
  `src` here; probability < 2^-100 for chains of any realistic length), and that `b64encode` / `os` in
  `websocket.py` are the standard library's (`harness/gencheck.py` differential test of base64, C10).
-/
import Lomond.Model.KeyChain
import Lomond.Model.Attempt
import Lomond.Proofs.Http
import Lomond.Proofs.Sha1

namespace Lomond.C17K
open Lomond Lomond.Http Lomond.Handshake Lomond.KeyChain Lomond.Spec

/-! ## 1. base64 is injective -/

/-- **b64_injective**: `b64encode` is injective on byte strings (of any lengths — also across lengths). -/
theorem b64_injective (a b : Bytes) (ha : Bytes.WF a) (hb : Bytes.WF b) (h : b64encode a = b64encode b) : a = b :=
  b64encode_injective a b ha hb h

/-- **b64_injective_16**: two 16-byte nonces with the same key text are the same nonce.
    (Proof: `b64decode (b64encode bs) = some bs`, `Proofs/Http.lean`: 3-byte groups ↦ 4 sextets and back, the two
    padded tails — 16 = 5 groups + 1 byte uses the `==` tail.) -/
theorem b64_injective_16 (a b : Bytes) (ha : Bytes.WF a) (hb : Bytes.WF b)
    (_la : a.length = 16) (_lb : b.length = 16) (h : b64encode a = b64encode b) : a = b :=
  b64encode_injective a b ha hb h

/-- the byte-range hypothesis is needed (and `os.urandom` returns bytes): on "bytes" ≥ 256 the alphabet lookup
    falls off the table — and it is satisfiable by two different 16-byte nonces that differ in the LAST byte only
    (the padded tail), whose keys differ -/
example : b64encode [1024] = b64encode [1028] ∧
    (let a := List.replicate 15 0 ++ [1]; let b := List.replicate 15 0 ++ [2]
     Bytes.WF a ∧ Bytes.WF b ∧ a.length = 16 ∧ b.length = 16 ∧ a ≠ b ∧ b64encode a ≠ b64encode b) := by
  decide

/-- a key is 24 characters when the nonce has 16 bytes -/
theorem key_length (src : Nat → Bytes) (k : Nat) (h : (src k).length = 16) : (keyOf src k).length = 24 := by
  unfold keyOf; rw [b64encode_length, h]

/-! ## 2. a source that does not repeat gives keys that do not repeat -/

/-- **keys_pairwise_distinct**: if the nonce source is injective on `[0, n)` and serves 16 bytes each time, the
    keys of the constructor and of `connect()` number `1 .. n-1` are pairwise different. -/
theorem keys_pairwise_distinct (src : Nat → Bytes) (n : Nat)
    (hinj : ∀ i j, i < n → j < n → src i = src j → i = j)
    (hlen : ∀ i, i < n → (src i).length = 16) (hwf : ∀ i, i < n → Bytes.WF (src i)) :
    ∀ i j, i < n → j < n → i ≠ j → keyOf src i ≠ keyOf src j := by
  intro i j hi hj hne e
  exact hne (hinj i j hi hj (b64_injective_16 _ _ (hwf i hi) (hwf j hj) (hlen i hi) (hlen j hj) e))

/-- the same as a statement about the list of keys in the order they are made -/
theorem keys_nodup (src : Nat → Bytes) (n : Nat)
    (hinj : ∀ i j, i < n → j < n → src i = src j → i = j)
    (hlen : ∀ i, i < n → (src i).length = 16) (hwf : ∀ i, i < n → Bytes.WF (src i)) :
    (keys src n).Nodup ∧ (keys src n).length = n ∧ ∀ k ∈ keys src n, k.length = 24 := by
  refine ⟨?_, by simp [keys], ?_⟩
  · unfold keys
    rw [List.nodup_iff_pairwise_ne, List.pairwise_map]
    refine List.Pairwise.imp_of_mem ?_ (List.pairwise_lt_range (n := n))
    intro i j hi hj hlt
    rw [List.mem_range] at hi hj
    exact keys_pairwise_distinct src n hinj hlen hwf i j hi hj (by omega)
  · intro k hk
    simp only [keys, List.mem_map, List.mem_range] at hk
    obtain ⟨i, hi, rfl⟩ := hk
    exact key_length src i (hlen i hi)

/-- **keys_distinct_iff**: for byte-valued nonces, two draws give the same key exactly when they gave the same
    nonce — the property holds for a source iff the source never repeats. -/
theorem keys_distinct_iff (src : Nat → Bytes) (hwf : ∀ i, Bytes.WF (src i)) (i j : Nat) :
    keyOf src i = keyOf src j ↔ src i = src j :=
  ⟨fun e => b64_injective _ _ (hwf i) (hwf j) e, fun e => by unfold keyOf; rw [e]⟩

/-- the key state of the object model of C10 (`Handshake.afterConnects`: constructor, then `k` calls of
    `connect()`) holds exactly `keyOf src k`, and `k + 1` draws have been used: one per `State` -/
theorem object_key (src : Nat → Bytes) (k : Nat) :
    (afterConnects src k).key = keyOf src k ∧ (afterConnects src k).draws = k + 1 :=
  ⟨(afterConnects_spec src k).2, (afterConnects_spec src k).1⟩

/-- the request of `connect()` number `k` is the request built from `keyOf src k` -/
theorem request_eq (cl : Client) (src : Nat → Bytes) (k : Nat) : nthRequest cl src k = requestOf cl src k := by
  unfold nthRequest requestOf; rw [(object_key src k).1]

/-- **request_carries_key**: an independent RFC 7230 request reader (`Spec.parseRequest`, no code shared with
    `build_request`) finds `keyOf src k` as the `Sec-WebSocket-Key` lomond wrote into the request of `connect()`
    number `k`, for every client built from URL components. -/
theorem request_carries_key (cl : Client) (src : Nat → Bytes) (k : Nat)
    (hhost : Solid cl.url.host) (hpath : Solid cl.url.path) (hquery : Solid cl.url.query)
    (hagent : ValueOk cl.agent) (hprotos : ∀ p ∈ cl.protocols, p ≠ [] ∧ Solid p)
    (hcustom : ∀ p ∈ cl.customHeaders, NameOk p.1 ∧ ValueOk p.2) :
    keyOfRequest (requestOf cl src k) = keyOf src k := by
  rw [← request_eq]
  exact keyOfRequest_nth cl src k hhost hpath hquery hagent hprotos hcustom

/-- **requests_pairwise_distinct**: with a source that does not repeat within the first `n` draws, no two of the
    `connect()` calls `1 .. n-1` on one object send the same `Sec-WebSocket-Key` (nor the constructor's unsent
    key, index 0): the keys read back out of the request bytes differ — so the requests differ. -/
theorem requests_pairwise_distinct (cl : Client) (src : Nat → Bytes) (n : Nat)
    (hinj : ∀ i j, i < n → j < n → src i = src j → i = j)
    (hlen : ∀ i, i < n → (src i).length = 16) (hwf : ∀ i, i < n → Bytes.WF (src i))
    (hhost : Solid cl.url.host) (hpath : Solid cl.url.path) (hquery : Solid cl.url.query)
    (hagent : ValueOk cl.agent) (hprotos : ∀ p ∈ cl.protocols, p ≠ [] ∧ Solid p)
    (hcustom : ∀ p ∈ cl.customHeaders, NameOk p.1 ∧ ValueOk p.2) :
    ∀ i j, i < n → j < n → i ≠ j →
      keyOfRequest (nthRequest cl src i) ≠ keyOfRequest (nthRequest cl src j) ∧
      nthRequest cl src i ≠ nthRequest cl src j := by
  intro i j hi hj hne
  have hk : keyOfRequest (nthRequest cl src i) ≠ keyOfRequest (nthRequest cl src j) := by
    rw [request_eq, request_eq, request_carries_key cl src i hhost hpath hquery hagent hprotos hcustom,
      request_carries_key cl src j hhost hpath hquery hagent hprotos hcustom]
    exact keys_pairwise_distinct src n hinj hlen hwf i j hi hj hne
  exact ⟨hk, fun e => hk (by rw [e])⟩

/-- a concrete source the hypotheses hold for: nonce `k` = fifteen zero bytes and the byte `k` (so all nonces
    share their five full 3-byte groups and differ in the padded tail only), the first 200 draws -/
def tailSrc (k : Nat) : Bytes := List.replicate 15 0 ++ [k % 256]

theorem tailSrc_ok :
    (∀ i j, i < 200 → j < 200 → tailSrc i = tailSrc j → i = j) ∧
    (∀ i, i < 200 → (tailSrc i).length = 16) ∧ (∀ i, i < 200 → Bytes.WF (tailSrc i)) := by
  refine ⟨?_, ?_, ?_⟩
  · intro i j hi hj e
    have := List.append_cancel_left e
    simp only [List.cons.injEq, and_true] at this
    omega
  · intro i _; simp [tailSrc]
  · intro i _ b hb
    simp only [tailSrc, List.mem_append, List.mem_replicate, List.mem_singleton] at hb
    rcases hb with ⟨_, rfl⟩ | rfl <;> omega

/-- the client of the harness' key chains: `WebSocket('ws://example.com/chat')` -/
def chatClient : Client :=
  { url := { secure := false, host := lit "example.com", port := none, path := lit "/chat", query := [] },
    agent := lit "lomond", protocols := [], customHeaders := [], compress := false }

/-- non-vacuity of `keys_pairwise_distinct` / `keys_nodup` / `requests_pairwise_distinct`: the hypotheses hold for
    `tailSrc` with `n = 200` and the client of the harness (`ws://example.com/chat`), and the keys of
    connects #1 and #2 really are different texts of 24 characters -/
example :
    (keys tailSrc 200).Nodup ∧
    keyOf tailSrc 1 = lit "AAAAAAAAAAAAAAAAAAAAAQ==" ∧ keyOf tailSrc 2 = lit "AAAAAAAAAAAAAAAAAAAAAg==" ∧
    keyOfRequest (nthRequest chatClient tailSrc 1) ≠ keyOfRequest (nthRequest chatClient tailSrc 2) := by
  obtain ⟨h1, h2, h3⟩ := tailSrc_ok
  refine ⟨(keys_nodup tailSrc 200 h1 h2 h3).1, by decide, by decide, ?_⟩
  exact (requests_pairwise_distinct chatClient tailSrc 200 h1 h2 h3 (by unfold Solid; decide) (by unfold Solid; decide)
    (by unfold Solid; decide) (valueOk_of_B _ (by decide))
    (by intro p hp; cases hp) (by intro p hp; cases hp) 1 2 (by omega) (by omega) (by omega)).1

/-! ## 3. the converse witness: a source that repeats -/

/-- **repeating_source_resends_key**: if the nonce source has period 16 (`src (k+16) = src k`: a pool of 16 nonces
    handed out cyclically — seeded change C17-r4m1), `connect()` number `k+16` holds, and sends, the key of
    `connect()` number `k` again: same key state, byte-identical request, same key read back by the independent
    reader.  (With `k = 0`: connect #16 uses the constructor's never-sent key; from `k = 1` on the key has been on
    the wire before.) -/
theorem repeating_source_resends_key (cl : Client) (src : Nat → Bytes) (hper : ∀ k, src (k + 16) = src k) (k : Nat) :
    keyOf src (k + 16) = keyOf src k ∧
    (afterConnects src (k + 16)).key = (afterConnects src k).key ∧
    nthRequest cl src (k + 16) = nthRequest cl src k ∧
    keyOfRequest (nthRequest cl src (k + 16)) = keyOfRequest (nthRequest cl src k) := by
  have h0 : keyOf src (k + 16) = keyOf src k := by unfold keyOf; rw [hper]
  have h1 : (afterConnects src (k + 16)).key = (afterConnects src k).key := by
    rw [(object_key src (k + 16)).1, (object_key src k).1, h0]
  have h2 : nthRequest cl src (k + 16) = nthRequest cl src k := by unfold nthRequest; rw [h1]
  exact ⟨h0, h1, h2, by rw [h2]⟩

/-- the pool of the seeded change: a block of 256 random bytes, never re-read, has period 16 … -/
theorem pooled_period (block : Bytes) (h : block.length = 256) (k : Nat) : pooled block (k + 16) = pooled block k := by
  unfold pooled
  rw [h]
  have : (k + 16) % (256 / 16) = k % (256 / 16) := by omega
  rw [this]

/-- **pooled_resends_key**: … so with that pool every `connect()` from number 17 on re-sends the key of the
    `connect()` 16 earlier, WHATEVER the 256 random bytes are — while (`pooled_first_16_distinct`) chains of up
    to 16 draws look perfect when the block's 16 slices differ. -/
theorem pooled_resends_key (cl : Client) (block : Bytes) (h : block.length = 256) (k : Nat) :
    nthRequest cl (pooled block) (k + 16) = nthRequest cl (pooled block) k :=
  (repeating_source_resends_key cl (pooled block) (pooled_period block h) k).2.2.1

/-- the block `0, 1, …, 255` -/
def countBlock : Bytes := List.range 256

/-- non-vacuity of §3: a concrete pool whose first 16 keys are pairwise different (so the defect is invisible for
    15 connects) and whose 17th connect re-sends the key of the 1st -/
example :
    countBlock.length = 256 ∧ (keys (pooled countBlock) 16).Nodup ∧
    keyOf (pooled countBlock) 17 = keyOf (pooled countBlock) 1 ∧
    keyOf (pooled countBlock) 1 = lit "EBESExQVFhcYGRobHB0eHw==" := by
  refine ⟨by decide +kernel, by decide +kernel, ?_, by decide +kernel⟩
  exact (repeating_source_resends_key chatClient _ (pooled_period countBlock (by decide +kernel)) 1).1

/-! ## 4. the source tie -/

/-- **key_is_one_fresh_draw_per_state**: in the source as it is now, `WebSocket.State.__init__` assigns `self.key`
    exactly once, with `b64encode(os.urandom(16))`; no other attribute of `State` is initialised from random
    bytes (one draw per `State`); `connect()` begins with `reset()` and `reset()` assigns a new `State`; and no
    method of `WebSocket` assigns `state.key` (or an attribute `key` shadowing the property) afterwards. -/
theorem key_is_one_fresh_draw_per_state :
    keyInitTexts = ["b64encode(os.urandom(16))"] ∧
    ("State", "key", "b64encode(os.urandom(16))") ∈ Gen.initValues ∧
    randomStateAttrs = ["key"] ∧
    Gen.connectResetsFirst = true ∧ Gen.resetAssignsState = true ∧
    keyNeverReassigned = true ∧ "key" ∈ Gen.stateAttrs := by
  decide

/-- all of the above in one Boolean (what `KeyChain.connectStep` branches on) -/
theorem draws_fresh : drawsFresh = true := by decide

/-- **connect_draws_new_key**: the fact-driven step is a new draw — `connect()` on ANY key state `w` (whatever
    the object has been through) leaves the key `b64encode` of the next unused nonce and uses up exactly one. -/
theorem connect_draws_new_key (src : Nat → Bytes) (w : KeyState) :
    connectStep src w = Handshake.connect src w ∧
    (connectStep src w).key = keyOf src w.draws ∧ (connectStep src w).draws = w.draws + 1 := by
  unfold connectStep
  rw [draws_fresh]
  exact ⟨rfl, rfl, rfl⟩

/-- the fact-driven chain is the object model C10 reasons about -/
theorem chain_eq_afterConnects (src : Nat → Bytes) (n : Nat) : chain src n = afterConnects src n := by
  induction n with
  | zero => rfl
  | succ n ih => simp only [chain, afterConnects, ih, (connect_draws_new_key src _).1]

/-- **every_connect_begins_with_new_key** (the property, for the source as it is): after any number of earlier
    `connect()` calls, with a nonce source that has not repeated so far, the key `connect()` number `n` installs
    differs from the key of every earlier `State` of the object. -/
theorem every_connect_begins_with_new_key (src : Nat → Bytes) (n : Nat)
    (hinj : ∀ i j, i ≤ n → j ≤ n → src i = src j → i = j)
    (hlen : ∀ i, i ≤ n → (src i).length = 16) (hwf : ∀ i, i ≤ n → Bytes.WF (src i)) :
    ∀ m, m < n → (chain src n).key ≠ (chain src m).key := by
  intro m hm
  rw [chain_eq_afterConnects, chain_eq_afterConnects, (object_key src n).1, (object_key src m).1]
  exact keys_pairwise_distinct src (n + 1) (fun i j hi hj => hinj i j (by omega) (by omega))
    (fun i hi => hlen i (by omega)) (fun i hi => hwf i (by omega)) n m (by omega) (by omega) (by omega)

/-- non-vacuity: the 199 keys before connect #199 of the `tailSrc` object are all different from its key -/
example : ∀ m, m < 199 → (chain tailSrc 199).key ≠ (chain tailSrc m).key := by
  obtain ⟨h1, h2, h3⟩ := tailSrc_ok
  exact every_connect_begins_with_new_key tailSrc 199 (fun i j hi hj => h1 i j (by omega) (by omega))
    (fun i hi => h2 i (by omega)) (fun i hi => h3 i (by omega))

/-- the driver operation `http keychain` evaluates `chain` on the recorded nonces: for a recording of `n` whole
    nonces its `k`-th answer is the key of nonce `k` -/
theorem chainKeys_spec (nonces : Bytes) :
    chainKeys nonces =
      (List.range (chunks16 nonces.length nonces).length).map (keyOf (replay (chunks16 nonces.length nonces))) := by
  unfold chainKeys
  simp only [chain_eq_afterConnects, (object_key _ _).1]

end Lomond.C17K
