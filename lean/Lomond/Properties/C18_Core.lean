/-
  C18 on the core model — "every message is delivered, and every automatic reply written, in the
  same loop cycle in which its last byte becomes available".

  `Properties/C18.lean` proves on the transport model that every byte is handed to `feed` in the
  cycle running at its arrival tick.  This file proves the other half on the core model
  (`Model/Core.lean`): what `feed` does with the bytes of one `recv` — every event handed to the
  application, the application's reactions, every automatic Pong — happens while the clock stands
  still.  The virtual clock only advances in `selector.wait` (`Core.tick`, which logs `.tick`);
  `NT s s'` (Proofs/SameTick.lean) says `now` is unchanged and no `.tick` entry was added.
-/
import Lomond.Proofs.SameTick
import Lomond.Proofs.Delivery
import Lomond.Proofs.PongRun
import Lomond.Proofs.TimerInv

namespace Lomond.C18Core
open Lomond Lomond.Core Lomond.Core.SameTick

/-- **Everything a `recv` triggers happens at the tick of that `recv`.**  From any state, for any
    outcome of `recv_into` (data of any size containing any number of frames, EOF, errors): the
    clock does not move while the read is processed and no `.tick` lies among the trace entries
    it adds — the Ping/Pong/message events, the automatic Pongs and Close echo, the application's
    writes, a ProtocolError and what follows it. -/
theorem recv_processed_at_one_tick (o : RecvOutcome) (s : Sys) :
    (recvStep o s).state.now = s.now ∧
    ∃ l, (recvStep o s).state.trace = l ++ s.trace ∧ ∀ x ∈ l, ∀ t, x ≠ .tick t := by
  have h := nt_recvStep o s
  obtain ⟨l, e, n⟩ := h.ext
  refine ⟨h.now, l, e, ?_⟩
  intro x hx t ht
  have := n x hx
  rw [ht] at this; cases this

/-- **One loop cycle.**  `selector.wait` returns after `dt` ticks with data `bs`: the clock is
    advanced once (`tick`), `_regular()` runs at the new time, then the read is processed at that
    same time `s.now + dt` — no `.tick` entry between the read, the events it completes and the
    automatic replies — and only then does the loop go round again. -/
theorem cycle_at_arrival_tick (dt : Nat) (bs : Bytes) (rest : List EnvStep) (s s2 : Sys)
    (hc : s.closed = false) (hreg : regular (tick s dt) = .ok () s2) :
    s2.now = s.now + dt ∧
    (recvStep (.data bs) s2).state.now = s.now + dt ∧
    (∃ l, (recvStep (.data bs) s2).state.trace = l ++ s2.trace ∧ ∀ x ∈ l, ∀ t, x ≠ .tick t) ∧
    loop (.wait dt (some (.data bs)) :: rest) s =
      (match recvStep (.data bs) s2 with
       | .err x s3 => .err x s3
       | .ok true s3 => loop rest s3
       | .ok false s3 => .ok () s3) := by
  have h2 : s2.now = s.now + dt := by
    have := (nt_regular (tick s dt)).now
    rw [hreg] at this; exact this
  obtain ⟨hn, hl⟩ := recv_processed_at_one_tick (.data bs) s2
  refine ⟨h2, by rw [hn, h2], hl, ?_⟩
  have hcf : ¬ s.closed = true := by rw [hc]; simp
  conv => lhs; unfold loop
  simp only [hcf, if_false]
  unfold regularTop
  rw [hreg]
  simp only [hc, Bool.false_eq_true, if_false]
  generalize recvStep (RecvOutcome.data bs) s2 = r
  cases r with
  | err x s3 => rfl
  | ok go s3 => cases go <;> rfl

/-- **A Ping is delivered, and answered, by the end of the cycle whose read supplies its last
    byte.**  A Ping frame (any payload ≤ 125 bytes, any legal length form) arrives split at an
    arbitrary point into `a` (earlier read) and `b` (this read).  From a state between two
    messages, with an application that does not close and no timeout due: after this read has
    been processed the event `Ping payload` is on the trace, the clock did not move from the start
    of the earlier read's processing nor from the start of this one (`NT`: no `.tick` was added),
    and the Pong invariant of Proofs/PongRun.lean is kept — so (`PongRun.Good.ping`) the Pong for
    this payload sits directly before the event whenever the connection was usable. -/
theorem ping_delivered_by_completing_read (c : CtrlF) (hc : c.Ok) (hp : c.pong = false) (a b : Bytes)
    (hab : a ++ b = wireBytes [c.wire]) (s : Sys) (g : Core.Good s) (hcl : s.closed = false)
    (hfr : s.frames = []) (hbt : Between s.p) :
    ∃ s', contLoop (feedLoop a s) b = .ok true s' ∧ Obs.ev (.ping c.payload) ∈ s'.trace ∧ NT s s' ∧
      (∀ s1, feedLoop a s = .ok true s1 → NT s1 s') ∧
      (∀ auto, PongRun.J auto s → PongRun.J auto s' ∧ PongRun.Good auto s'.trace) := by
  obtain ⟨s', e, r, _, _⟩ := feed_items [.ctrl c] (by intro it hit; simp at hit; subst hit; exact hc) s g hcl hfr hbt
  have e' : feedLoop (a ++ b) s = .ok true s' := by
    rw [hab]; simpa [Item.wire] using e
  have e2 : contLoop (feedLoop a s) b = .ok true s' := by rw [← feedLoop_append]; exact e'
  refine ⟨s', e2, ?_, ?_, ?_, ?_⟩
  · apply mem_of_delivered
    rw [r.evs]
    simp [Item.events, CtrlF.event, hp]
  · have := Lift.lift_feedLoop nt_leaves (a ++ b) s
    rw [e'] at this; exact this
  · intro s1 h1
    rw [h1] at e2
    have := Lift.lift_feedLoop nt_leaves b s1
    simp only [contLoop] at e2
    rw [e2] at this; exact this
  · intro auto hJ
    have := PongRun.rj_feedLoop auto (a ++ b) s hJ
    rw [e'] at this
    exact ⟨this, this.good⟩

/-- **Pong and Ping event carry the same clock value** in the trace of every run: the automatic
    Pong is the entry directly before its Ping event (C14Run), so the clock read off the trace
    (`Timers.clockOf`: the value of the newest `.tick`) is the same at the Pong, at the event and
    right before the Pong. -/
theorem pong_same_tick_as_ping (d : Bytes) (o : Obs) (post : List Obs) (h : PongRun.IsPongFor d o) :
    Timers.clockOf (.ev (.ping d) :: o :: post) = Timers.clockOf post ∧
    Timers.clockOf (o :: post) = Timers.clockOf post := by
  obtain ⟨k, rfl | rfl⟩ := h <;> exact ⟨rfl, rfl⟩

/-! ### non-vacuity -/

/-- an open, ready connection between two messages -/
def exSys : Sys :=
  { cfg := {}, env := [], react := fun _ => [], sockOpen := true, p := { cont := .hdr2, remPred := 1 } }

/-- Ping with payload `[65, 66]` -/
def exPing : CtrlF := { pong := false, payload := [65, 66], form := .short }

example : exPing.Ok ∧ wireBytes [exPing.wire] = [0x89, 2, 65, 66] := by decide +kernel

-- the frame split after its third byte: the earlier read delivers nothing, the completing read
-- delivers Pong and event
example : (feedLoop [0x89, 2, 65] exSys).state.trace = [] ∧
    (contLoop (feedLoop [0x89, 2, 65] exSys) [66]).state.trace =
      [.ev (.ping [65, 66]), .wr [138, 130, 0, 0, 0, 0, 65, 66]] := by decide +kernel

-- one cycle: tick, then the read processed at that tick
example : (loop [.wait 3 (some (.data [0x89, 0]))] exSys).state.trace =
    [.ev (.ping []), .wr [138, 128, 0, 0, 0, 0], .tick 3] := by decide +kernel

end Lomond.C18Core
