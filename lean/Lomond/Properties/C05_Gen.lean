/-
  C05 companion — which payloads the hand-written parser model validates as UTF-8 while it reads
  them, and when it forgets / resets that state, are what frame_parser.py says.

  `Lomond.Gen.Code.parseReader` is produced by harness/py2lean.py, on every check run, from the
  two statements of `FrameParser.parse` that follow validation (`if frame.is_text: self._is_text =
  True; self._is_compressed = bool(frame.rsv1)` and `if payload_length: … read_text / read`),
  `parseReadText` from `FrameParser.read_text` (raw read iff compression was negotiated and the
  message is compressed), `parserOnFrame` from `FrameParser.on_frame` (validator reset, `_is_text`
  cleared) and `frameIsText` / `frameIsContinuation` from the `Frame` properties.
  The theorems state that `Core.gotMask` chooses the payload reader, and `Core.frameDone` updates
  the text state, exactly as these definitions do (for the repaired variant flags).
  Theorems only; helpers are in `Proofs/GenTie`.
-/
import Lomond.Proofs.GenTie
import Lomond.Generated.Code

namespace Lomond.C05Gen
open Lomond Lomond.Core Lomond.GenTie
open Lomond.Gen.Code

/-- `Frame.is_text` / `Frame.is_continuation` -/
theorem gen_isText (f : Frame) : f.isText = frameIsText f.opcode := rfl

theorem gen_isContinuation (f : Frame) : f.isContinuation = frameIsContinuation f.opcode := rfl

/-- `read_text`: the raw reader (1) exactly when compression is on and the current message is
    compressed, else the validating reader (2) -/
theorem gen_readText (compression isCompressed : Bool) :
    parseReadText compression isCompressed = if compression ∧ isCompressed then 1 else 2 := by
  cases compression <;> cases isCompressed <;> rfl

/-- What the translated statements compute: a text frame sets `_is_text` and records its RSV1;
    an empty payload is not read at all; a text frame's payload, and a continuation frame's while
    `_is_text` holds, goes through `read_text`; every other payload is read raw. -/
theorem gen_reader_spec (op rsv1 len : Nat) (isText isCompressed compression : Bool) :
    parseReader op rsv1 len isText isCompressed compression =
      (let isText' := if op = Gen.opText then true else isText
       let isCompressed' := if op = Gen.opText then decide (rsv1 ≠ 0) else isCompressed
       let textual : Bool := decide (op = Gen.opText) || (decide (op = Gen.opContinuation) && isText')
       ((if len = 0 then 0 else if textual then (if compression ∧ isCompressed' then 1 else 2) else 1),
        isText', isCompressed')) := by
  unfold parseReader frameIsText frameIsContinuation
  simp only [gen_readText, Gen.opText, Gen.opContinuation]
  by_cases h1 : op = 1 <;> by_cases h0 : op = 0 <;> by_cases hl : len = 0 <;> by_cases hr : rsv1 = 0 <;>
    first
    | omega
    | (cases isText <;> cases isCompressed <;> cases compression <;> simp [h1, h0, hl, hr])

/-- `Core.gotMask` after validation is the translated code: it updates `_is_text` /
    `_is_compressed`, and either finishes the frame at once (no payload) or asks for the payload
    with incremental UTF-8 validation switched on exactly when the source picks `read_utf8`. -/
theorem gen_gotMask (v : Variant) (hv : v.perMsgValidate = true) (p : PState) (b0 len : Nat) (key : Option Bytes) :
    gotMask v p b0 len key =
      (let f : Frame := { opcode := b0 % 16, payload := [], fin := b0 / 128, rsv1 := b0 / 64 % 2,
                          rsv2 := b0 / 32 % 2, rsv3 := b0 / 16 % 2, mask := key.isSome, maskingKey := key }
       match validateFrame v p.compression f len with
       | .error x => .error x
       | .ok () =>
         let r := parseReader f.opcode f.rsv1 len p.isText p.isCompressed p.compression
         let p' : PState := { p with isText := r.2.1, isCompressed := r.2.2 }
         if r.1 = 0 then frameDone v p' f
         else .ok ({ p' with cont := .payload f, remPred := len - 1, utf8 := decide (r.1 = 2), buf := [] }, none)) := by
  unfold gotMask
  simp only [gen_reader_spec, hv, if_true]
  cases validateFrame v p.compression _ len with
  | error x => rfl
  | ok u =>
    cases u
    simp only [gen_isText, gen_isContinuation, frameIsText, frameIsContinuation, decide_eq_true_eq,
      Gen.opText, Gen.opContinuation]
    by_cases h1 : b0 % 16 = 1 <;> by_cases h0 : b0 % 16 = 0 <;> by_cases hl : len = 0 <;>
      by_cases hr : b0 / 64 % 2 = 0 <;>
      first
      | omega
      | (cases hc : p.compression <;> cases hz : p.isCompressed <;> cases ht : p.isText <;>
          simp [h1, h0, hl, hr, hc, hz, ht] <;> (first | rfl | (cases p; simp_all)))

example : parseReader 1 0 5 false false true = (2, true, false) := by decide
example : parseReader 1 1 5 false false true = (1, true, true) := by decide
example : parseReader 1 1 5 false false false = (2, true, true) := by decide
example : parseReader 0 0 5 true false true = (2, true, false) := by decide
example : parseReader 0 0 5 false false true = (1, false, false) := by decide
example : parseReader 2 0 5 true false true = (1, true, false) := by decide
example : parseReader 1 0 0 false false true = (0, true, false) := by decide

/-- What the translated `on_frame` computes: the validator is reset after the final frame of a
    text message (or a final continuation frame) unless the message is a compressed one;
    `_is_text` is cleared by a final *data* frame only (control frames leave it alone: D2). -/
theorem gen_onFrame_spec (compression isCompressed isText : Bool) (fin op : Nat) :
    parserOnFrame compression isCompressed isText fin op =
      (decide (¬ (compression ∧ isCompressed) ∧ fin ≠ 0 ∧ (op = Gen.opText ∨ op = Gen.opContinuation)),
       if fin ≠ 0 ∧ ¬ op ≥ 8 then false else isText) := by
  unfold parserOnFrame frameIsText frameIsContinuation frameIsControl
  simp only [Gen.opText, Gen.opContinuation]
  by_cases h1 : op = 1 <;> by_cases h0 : op = 0 <;> by_cases hf : fin = 0 <;> by_cases h8 : op ≥ 8 <;>
    first
    | omega
    | (cases compression <;> cases isCompressed <;> cases isText <;> simp [h1, h0, hf, h8])

/-- `Core.frameDone` (the `ClientFrameParser.on_frame` call and the `yield frame`) is the
    translated mask guard followed by the translated `FrameParser.on_frame`: same error, same
    validator reset, same `_is_text`. -/
theorem gen_frameDone (v : Variant) (hv : v.perMsgValidate = true) (hk : v.keepIsText = true)
    (p : PState) (f : Frame) :
    frameDone v p f =
      match clientOnFrameGuard f.mask with
      | .error e => .error (exnOf e)
      | .ok _ =>
        let r := parserOnFrame p.compression p.isCompressed p.isText f.fin f.opcode
        .ok ({ p with cont := .hdr2, remPred := 1, utf8 := false, buf := [],
                      dfa := if r.1 then 0 else p.dfa, isText := r.2 }, some (.frame f)) := by
  unfold frameDone clientOnFrameGuard
  simp only [gen_onFrame_spec, hv, hk, gen_isText, gen_isContinuation, frameIsText, frameIsContinuation,
    Frame.isControl, decide_eq_true_eq]
  cases hm : f.mask
  · simp only [Bool.false_eq_true, if_false, Gen.opText, Gen.opContinuation]
    by_cases h1 : f.opcode = 1 <;> by_cases h0 : f.opcode = 0 <;> by_cases hf : f.fin = 0 <;>
      by_cases h8 : f.opcode ≥ 8 <;>
      first
      | omega
      | (cases hc : p.compression <;> cases hz : p.isCompressed <;> simp [h1, h0, hf, h8])
  · simp [exnOf]

example : parserOnFrame true false true 1 0 = (true, false) := by decide
example : parserOnFrame true true true 1 0 = (false, false) := by decide
example : parserOnFrame false false true 1 9 = (false, true) := by decide
example : parserOnFrame false false true 0 1 = (false, true) := by decide
example : clientOnFrameGuard true = .error ⟨"ProtocolError", "server sent masked frame"⟩ := by decide

end Lomond.C05Gen
