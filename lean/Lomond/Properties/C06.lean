/-
  C06 — permessage-deflate is lossless both ways for every negotiated configuration.
  Property theorems only (helper lemmas: Proofs/Deflate.lean, Proofs/DeflateCore.lean,
  Proofs/Quiet.lean, Proofs/NoRsv1.lean, Proofs/DeflateTie.lean).

  zlib is not verified; it is modelled at the level where the property's logic lives
  (Model/Deflate.lean): a *compressor* is any function that turns (history, message) into LZ77
  tokens whose distances stay within its history and within a bound `D`; the *inflater* keeps the
  last `2^w` bytes.  What is assumed of zlib — `deflate` with a `2^w` window never emits a distance
  above `2^w − 262`, inflate is a deterministic streaming function, a sync flush ends in
  `00 00 ff ff` — is measured on every compressed message of every run of the check.
  The statements about the client's own logic (which frames are compressed, what is inflated,
  what the contexts see, how parameters are parsed) are about the core model (Model/Core.lean,
  Model/Http.lean), and the bit-level inflater of Model/Inflate.lean serves as the executable
  `inflate` for the closed evaluation of the BFINAL defect.
-/
import Lomond.Proofs.Deflate
import Lomond.Proofs.DeflateCore
import Lomond.Proofs.NoRsv1
import Lomond.Proofs.DeflateTie
import Lomond.Model.Inflate

set_option linter.unusedSimpArgs false
set_option linter.unusedVariables false

namespace Lomond.C06
open Lomond Lomond.Deflate Lomond.Core

/-! ## 1. Losslessness over the whole message history (token level) -/

/-- **Lossless over every history, both directions.**  Any compressor whose matches reach back at
    most `D` bytes (and never beyond the history it has seen), followed over any list of messages
    by an inflater with a `wsize ≥ D` byte window, with context takeover or per-message reset on
    either side — provided the inflater keeps its context whenever the compressor does — gives
    back exactly the messages, each one in full, none failing. -/
theorem lossless_history {D : Nat} (c : Compressor D) (wsize : Nat) (hw : D ≤ wsize)
    (senderResets receiverResets : Bool) (hk : senderResets = false → receiverResets = false)
    (msgs : List Bytes) :
    receiverOutputs wsize receiverResets [] (senderTokens c senderResets [] msgs) = some msgs := by
  have := lossless_from c wsize hw senderResets receiverResets hk msgs [] []
  simpa using this

/-- **The windows the code picks are large enough, for every negotiable value.**
    client → peer: lomond compresses with `2^max(9, cw)`; zlib's matches then reach back at most
    `2^max(9,cw) − 262 ≤ 2^cw`, which the peer's `2^cw` window holds — including `cw = 8`, where
    the compressor's window (512) is *larger* than the peer's (256). -/
theorem window_ok_client (cw : Nat) (h8 : 8 ≤ cw) (h15 : cw ≤ 15) :
    maxDist (clientWbits cw) ≤ 2 ^ cw := by
  have : cw = 8 ∨ cw = 9 ∨ cw = 10 ∨ cw = 11 ∨ cw = 12 ∨ cw = 13 ∨ cw = 14 ∨ cw = 15 := by omega
  rcases this with h | h | h | h | h | h | h | h <;> subst h <;> decide

/-- peer → client: whatever `server_max_window_bits = sw` was accepted, lomond inflates with exactly
    that window (`decompressobj(-sw)`), so a peer that keeps its promise (`D = 2^sw`) fits; and a
    zlib peer with `2^max(9,sw)` fits as well. -/
theorem window_ok_server (opts : List (Http.Str × Http.Str)) (d : Http.DeflateCfg)
    (h : Http.deflateFromOptions opts = .ok d) :
    Http.getWbits opts "server_max_window_bits" = .ok d.decompressWbits ∧
    8 ≤ d.decompressWbits ∧ d.decompressWbits ≤ 15 ∧
    maxDist (clientWbits d.decompressWbits) ≤ 2 ^ d.decompressWbits := by
  obtain ⟨h1, _, _, _⟩ := deflateFromOptions_ok opts d h
  have hr := getWbits_range opts _ _ h1
  exact ⟨h1, hr.1, hr.2, window_ok_client _ hr.1 hr.2⟩

/-- client → peer, instantiated: for every `cw ∈ 8..15` and both takeover modes (the flag
    `client_no_context_takeover` resets the client's compressor, and the peer may then reset its
    inflater or not), any compressor obeying zlib's bound for the window lomond chooses is
    restored exactly by the peer's `2^cw`-byte inflater over the whole history. -/
theorem lossless_client_to_peer (cw : Nat) (h8 : 8 ≤ cw) (h15 : cw ≤ 15)
    (c : Compressor (maxDist (clientWbits cw))) (clientNoTakeover peerResets : Bool)
    (hk : clientNoTakeover = false → peerResets = false) (msgs : List Bytes) :
    receiverOutputs (2 ^ cw) peerResets [] (senderTokens c clientNoTakeover [] msgs) = some msgs :=
  lossless_history c _ (window_ok_client cw h8 h15) _ _ hk msgs

/-- peer → client, instantiated at lomond's actual receiver: the peer is **any** compressor that
    honours `server_max_window_bits = sw` (distances `≤ 2^sw`) and sends each message as
    non-final blocks; lomond appends the tail and inflates the *whole compressed history* with one
    `decompressobj(-sw)` (renewed per message iff `server_no_context_takeover` was negotiated,
    which also allows the peer to reset) — every message comes out with its original content. -/
theorem lossless_peer_to_client (sw : Nat) (c : Compressor (2 ^ sw)) (serverNoTakeover peerResets : Bool)
    (hk : peerResets = false → serverNoTakeover = false) (msgs : List Bytes) :
    wholeOutputs (2 ^ sw) serverNoTakeover [] 0 ((senderTokens c peerResets [] msgs).map oneBlock) = some msgs := by
  have h0 : inflBlocks (2 ^ sw) [] [] = some (({} : ZObj).win, [], ({} : ZObj).finished) := rfl
  have := whole_eq_object (2 ^ sw) serverNoTakeover ((senderTokens c peerResets [] msgs).map oneBlock) [] {} [] h0
  simp only [List.length_nil] at this
  rw [this, show ({} : ZObj) = { win := [], finished := false } from rfl, object_eq_rfc, rfc_oneBlock]
  · exact lossless_history c _ (Nat.le_refl _) _ _ hk msgs
  · intro m hm b hb
    simp only [List.mem_map] at hm
    obtain ⟨ts, _, rfl⟩ := hm
    simp only [oneBlock, List.mem_singleton] at hb
    subst hb; rfl

/-- per-message framing: the sender strips the sync-flush tail (`00 00 ff ff`, an empty non-final
    stored block), the receiver appends it again — the receiver inflates exactly what the sender's
    compressor emitted -/
theorem framing (blocks : List Blk) : unstrip (strip (blocks ++ [tailBlk])) = blocks ++ [tailBlk] := by
  simp [strip, unstrip]

/-- **The window hypothesis is not idle.**  A compressor that is allowed a distance of 300 (all
    of it inside its own history) defeats an inflater with a 256-byte window: the message is
    perfectly well-formed for a 512-byte window and cannot be inflated with 256. -/
theorem window_needed :
    ∃ (hist msg : Bytes) (toks : List Token),
      expand 300 hist.reverse toks = some msg.reverse ∧
      (inflTokens 512 (hist.reverse.take 512) toks).map (·.2) = some msg.reverse ∧
      inflTokens 256 (hist.reverse.take 256) toks = none :=
  ⟨List.replicate 300 7, [7, 7, 7], [.copy 300 3], by decide +kernel, by decide +kernel, by decide +kernel⟩

/-! ## 2. A compressed message is never delivered with wrong content -/

/- Two shapes of `Deflate.decompress` are modelled (the check detects which one is under test by
   feeding the RFC 7692 §7.2.3.4 pair to the real class):

   * the pinned one: one `zlib.decompressobj` for the connection — `objectOutputs`, bit level
     `Inflate.inflateAll`.  For it the full statement

         objectOutputs wsize reset {} msgs = rfcOutputs wsize reset [] msgs      (∀ msgs)

     is FALSE (finding D6): `bfinal_differs` / `bfinal_fails` refute it, `never_wrong_partial`
     proves it for all histories without a BFINAL=1 block;
   * the repaired one (`fix:` D6): whenever the object reaches its end of stream, the rest of the
     data goes to a new object primed with the most recent output — `repairedOutputs`, bit level
     `Inflate.inflateAllSafe`.  For it the full statement holds: `never_wrong`. -/

/-- **Never wrong — the repaired code, every history.**  For every window, both takeover modes
    and every message history — BFINAL=1 blocks anywhere (several per message, followed by further
    blocks, at the very end of a message), valid or invalid data — the repaired
    `Deflate.decompress` delivers for each message exactly what RFC 7692 says the message's DEFLATE
    data means (all of its blocks, the LZ77 window carried over, nothing else), and fails
    (→ ProtocolError) exactly when that data is invalid for the negotiated window. -/
theorem never_wrong (wsize : Nat) (reset : Bool) (msgs : List (List Blk)) :
    repairedOutputs wsize reset [] msgs = rfcOutputs wsize reset [] msgs :=
  repaired_eq_rfc wsize reset msgs []

/-- the mechanism of the repair: feeding a zlib object and, each time it stops at its end of
    stream leaving `unused_data`, a new object primed with the window (as many times as needed),
    decodes every block of the data in turn with one continuous window -/
theorem repaired_restart_reads_all_blocks (wsize : Nat) (win : Bytes) (blocks : List Blk) :
    repairedFeed wsize (blocks.length + 1) win blocks = inflBlocksAll wsize win blocks :=
  repairedFeed_eq wsize _ win blocks (by omega)

/-- the same in the core model's formulation (inflate the whole compressed history with the
    repaired code's inflater, deliver what is new): it is the RFC 7692 meaning, message by message -/
theorem never_wrong_whole_history (wsize : Nat) (reset : Bool) (msgs : List (List Blk)) :
    wholeOutputsSafe wsize reset [] 0 msgs = rfcOutputs wsize reset [] msgs := by
  simpa using wholeSafe_eq_rfc wsize reset msgs [] [] [] rfl

/-- … and in the core model itself: with an `inflate` that reads the byte histories that occur as
    their blocks, going on after BFINAL=1 blocks (`AgreesSafe`; the correspondence run checks this
    of `Inflate.inflateAllSafe` against zlib), `Core.inflateMessage` returns for every compressed
    message — BFINAL or not — what RFC 7692 says it means, or fails where that is undefined. -/
theorem never_wrong_core (enc : List Blk → Bytes) (d : Http.DeflateCfg) (msgs : List (List Blk)) (s : Sys)
    (hd : s.compression = some d) (hh : s.inflHist = []) (ho : s.inflOut = 0)
    (hA : if d.resetDecompress then ∀ m ∈ msgs, AgreesSafe s.cfg.inflate d.decompressWbits enc [m]
          else ∀ k, k ≤ msgs.length → AgreesSafe s.cfg.inflate d.decompressWbits enc (msgs.take k)) :
    feedMsgs (msgs.map enc) s = rfcOutputs (2 ^ d.decompressWbits) d.resetDecompress [] msgs := by
  rw [← never_wrong_whole_history]
  cases hr : d.resetDecompress with
  | true =>
    rw [hr] at hA; simp only [if_true] at hA
    exact feedMsgs_reset_safe enc d hr msgs s hd hh ho hA
  | false =>
    rw [hr] at hA; simp only [Bool.false_eq_true, if_false] at hA
    have := feedMsgs_takeover_safe enc d hr msgs s [] hd (by rw [hh]; rfl) (by simpa using hA)
    rw [ho] at this
    simpa using this

/-- lossless peer → client for the repaired code: unchanged by the repair (a peer that never sets
    BFINAL is read exactly as before) -/
theorem lossless_peer_to_client_repaired (sw : Nat) (c : Compressor (2 ^ sw)) (serverNoTakeover peerResets : Bool)
    (hk : peerResets = false → serverNoTakeover = false) (msgs : List Bytes) :
    wholeOutputsSafe (2 ^ sw) serverNoTakeover [] 0 ((senderTokens c peerResets [] msgs).map oneBlock) = some msgs := by
  rw [never_wrong_whole_history, rfc_oneBlock]
  exact lossless_history c _ (Nat.le_refl _) _ _ hk msgs

/-- **Never wrong, pinned code, for all histories without BFINAL=1 blocks** (every configuration, every
    history, any blocks / tokens, valid or not): lomond's object delivers for each message exactly
    what the message's DEFLATE data means per RFC 7692 given the window, and fails (ProtocolError)
    exactly when that data is invalid for the negotiated window. -/
theorem never_wrong_partial (wsize : Nat) (reset : Bool) (msgs : List (List Blk))
    (hn : ∀ m ∈ msgs, ∀ b ∈ m, b.final = false) :
    objectOutputs wsize reset {} msgs = rfcOutputs wsize reset [] msgs :=
  object_eq_rfc wsize reset msgs hn []

/-- the core model's way of doing it (`Core.inflateMessage`: inflate the whole compressed history,
    deliver what is new) *is* that streaming object — for all blocks, BFINAL included -/
theorem whole_history_is_streaming (wsize : Nat) (reset : Bool) (msgs : List (List Blk)) :
    wholeOutputs wsize reset [] 0 msgs = objectOutputs wsize reset {} msgs := by
  have h0 : inflBlocks wsize [] [] = some (({} : ZObj).win, [], ({} : ZObj).finished) := rfl
  simpa using whole_eq_object wsize reset msgs [] {} [] h0

/-- **D6 at the token level**: under context takeover, after a message whose block has BFINAL=1
    the object is at end-of-stream; every later message is delivered as `b''` although its data
    means something else. -/
theorem bfinal_differs :
    objectOutputs 32768 false {} [[⟨true, [.lit 72, .lit 105]⟩], [⟨false, [.lit 72, .lit 105]⟩]]
      = some [[72, 105], []] ∧
    rfcOutputs 32768 false [] [[⟨true, [.lit 72, .lit 105]⟩], [⟨false, [.lit 72, .lit 105]⟩]]
      = some [[72, 105], [72, 105]] := by
  constructor <;> decide

/-- … and every message after it, whatever it contains -/
theorem bfinal_silences_the_rest (wsize : Nat) (win : Bytes) (later : List (List Blk)) :
    objectOutputs wsize false { win := win, finished := true } later = some (later.map fun _ => []) :=
  objectOutputs_finished wsize win later

/-- with `server_no_context_takeover` the object is renewed per message and BFINAL is harmless -/
theorem bfinal_harmless_with_reset :
    objectOutputs 32768 true {} [[⟨true, [.lit 72, .lit 105]⟩], [⟨false, [.lit 72, .lit 105]⟩]]
      = some [[72, 105], [72, 105]] := by decide

/-- the handshake reply of the closed run below: `101`, `Upgrade: websocket`,
    `Sec-WebSocket-Accept: abc`, `Sec-WebSocket-Extensions: permessage-deflate` -/
def bfinalReply : Bytes :=
  [72, 84, 84, 80, 47, 49, 46, 49, 32, 49, 48, 49, 32, 83, 13, 10, 85, 112, 103, 114, 97, 100, 101, 58, 32, 119, 101, 98,
   115, 111, 99, 107, 101, 116, 13, 10, 83, 101, 99, 45, 87, 101, 98, 83, 111, 99, 107, 101, 116, 45, 65, 99, 99, 101,
   112, 116, 58, 32, 97, 98, 99, 13, 10, 83, 101, 99, 45, 87, 101, 98, 83, 111, 99, 107, 101, 116, 45, 69, 120, 116, 101,
   110, 115, 105, 111, 110, 115, 58, 32, 112, 101, 114, 109, 101, 115, 115, 97, 103, 101, 45, 100, 101, 102, 108, 97,
   116, 101, 13, 10, 13, 10]

/-- two compressed Text frames: `f3 48 cd c9 c9 07 00 00` (RFC 7692 §7.2.3.4: "Hello" in a
    BFINAL=1 block) and `f2 48 cd c9 c9 07 00` ("Hello", BFINAL=0) -/
def bfinalFrames : Bytes :=
  [0xC1, 8, 0xf3, 0x48, 0xcd, 0xc9, 0xc9, 0x07, 0, 0, 0xC1, 7, 0xf2, 0x48, 0xcd, 0xc9, 0xc9, 0x07, 0]

/-- **D6 on the whole client** (closed evaluation of the core model with the bit-level inflater of
    Model/Inflate.lean): handshake negotiating permessage-deflate with context takeover, then the
    two frames above.  The application receives `Text "Hello"` and then `Text ""` — the second
    message is delivered with wrong content and no ProtocolError. -/
theorem bfinal_fails :
    (runAll { challenge := [97, 98, 99], inflate := Inflate.inflateAll } (fun _ => [])
        [.wait 0 (some (.data (bfinalReply ++ bfinalFrames)))]).trace =
      [.incomplete, .selClose, .sockClose, .ev (.text []), .ev (.text [72, 101, 108, 108, 111]), .ev .poll,
       .ev (.ready none true), .ev (.connected false), .wr [], .ev .connecting] := by
  decide +kernel

/-- what each of the two messages means on its own (the bit-level inflater on message + tail) -/
example :
    Inflate.inflateAll 15 [0xf3, 0x48, 0xcd, 0xc9, 0xc9, 0x07, 0, 0, 0, 0, 0xff, 0xff] = some [72, 101, 108, 108, 111] ∧
    Inflate.inflateAll 15 [0xf2, 0x48, 0xcd, 0xc9, 0xc9, 0x07, 0, 0, 0, 0xff, 0xff] = some [72, 101, 108, 108, 111] := by
  decide +kernel

/-- **the same run on the repaired code** (the model driven with `Inflate.inflateAllSafe`, as the
    check does when the probe finds the repaired shape): `Text "Hello"` twice -/
theorem bfinal_repaired :
    (runAll { challenge := [97, 98, 99], inflate := Inflate.inflateAllSafe } (fun _ => [])
        [.wait 0 (some (.data (bfinalReply ++ bfinalFrames)))]).trace =
      [.incomplete, .selClose, .sockClose, .ev (.text [72, 101, 108, 108, 111]), .ev (.text [72, 101, 108, 108, 111]), .ev .poll,
       .ev (.ready none true), .ev (.connected false), .wr [], .ev .connecting] := by
  decide +kernel

/-- **What is delivered for a compressed message is `inflate`'s output or a ProtocolError** (core
    model, every state, every `inflate` function): the fragments are joined, the tail appended,
    the whole compressed history inflated with the negotiated window; on failure the critical
    ProtocolError "unable to decompress payload" is raised and nothing is delivered; otherwise
    the message is built from exactly the bytes `inflate` produced beyond those already
    delivered, and the context advances (or is renewed under `server_no_context_takeover`). -/
theorem delivered_is_inflate_output (f : Frame) (fs : List Frame) (s : Sys)
    (h1 : f.rsv1 ≠ 0) (h2 : s.decompress = true) :
    let hist := s.inflHist ++ ((f :: fs).map (·.payload)).flatten ++ [0, 0, 0xff, 0xff]
    match s.cfg.inflate ((s.compression.map (·.decompressWbits)).getD 15) hist with
    | none => buildMessage (f :: fs) s = .err (.critical "unable to decompress payload") s
    | some out =>
      buildMessage (f :: fs) s =
        liftE (msgOfPayload f.opcode (out.drop s.inflOut))
          (if (s.compression.map (·.resetDecompress)).getD false then { s with inflHist := [], inflOut := 0 }
           else { s with inflHist := hist, inflOut := out.length }) :=
  buildMessage_compressed f fs s h1 h2

/-! ## 2b. The two levels meet -/

/-- **The core model computes the token-level receiver.**  `feedMsgs js s` hands the joined
    payloads `js` of successive compressed messages to `Core.inflateMessage`.  Let `enc` be any
    encoding of block lists into bytes and suppose the `inflate` function of the configuration
    reads the byte histories that occur — every prefix of this message history under context
    takeover, every single message under `server_no_context_takeover` — as those blocks
    (`Agrees`: this is what the correspondence run checks of Model/Inflate.lean against zlib).
    Then what the core model delivers, message by message, failure included, is exactly
    `wholeOutputs` of the token model with the negotiated window. -/
theorem core_refines_tokens (enc : List Blk → Bytes) (d : Http.DeflateCfg) (msgs : List (List Blk)) (s : Sys)
    (hd : s.compression = some d) (hh : s.inflHist = []) (ho : s.inflOut = 0)
    (hA : if d.resetDecompress then ∀ m ∈ msgs, Agrees s.cfg.inflate d.decompressWbits enc [m]
          else ∀ k, k ≤ msgs.length → Agrees s.cfg.inflate d.decompressWbits enc (msgs.take k)) :
    feedMsgs (msgs.map enc) s = wholeOutputs (2 ^ d.decompressWbits) d.resetDecompress [] 0 msgs := by
  cases hr : d.resetDecompress with
  | true =>
    rw [hr] at hA; simp only [if_true] at hA
    exact feedMsgs_reset enc d hr msgs s hd hh ho hA
  | false =>
    rw [hr] at hA; simp only [Bool.false_eq_true, if_false] at hA
    have := feedMsgs_takeover enc d hr msgs s [] hd (by rw [hh]; rfl) (by simpa using hA)
    rw [ho] at this
    simpa using this

/-- **Lossless peer → client, in the core model**: any peer compressor that honours the negotiated
    `server_max_window_bits` (distances ≤ 2^sw), any message history, context takeover or reset
    on the peer's side as negotiated, each message sent as a non-final block under any byte
    encoding that `inflate` reads correctly: `Core.inflateMessage` returns every message's
    original content. -/
theorem core_lossless_peer_to_client (enc : List Blk → Bytes) (d : Http.DeflateCfg)
    (c : Compressor (2 ^ d.decompressWbits)) (peerResets : Bool) (hk : peerResets = false → d.resetDecompress = false)
    (msgs : List Bytes) (s : Sys) (hd : s.compression = some d) (hh : s.inflHist = []) (ho : s.inflOut = 0)
    (hA : let blocks := (senderTokens c peerResets [] msgs).map oneBlock
          if d.resetDecompress then ∀ m ∈ blocks, Agrees s.cfg.inflate d.decompressWbits enc [m]
          else ∀ k, k ≤ blocks.length → Agrees s.cfg.inflate d.decompressWbits enc (blocks.take k)) :
    feedMsgs (((senderTokens c peerResets [] msgs).map oneBlock).map enc) s = some msgs := by
  rw [core_refines_tokens enc d _ s hd hh ho hA]
  exact lossless_peer_to_client d.decompressWbits c d.resetDecompress peerResets hk msgs

/-! ## 3. Fragments, mixed traffic, RSV1 -/

/-- **Fragmentation is invisible**: the message built from a list of frames depends only on the
    first frame's opcode and RSV1 bit and on the *join* of the payloads — in particular the
    fragments of a compressed message are joined before anything is inflated, so every way of
    cutting the compressed bytes into frames (empty fragments included) gives the same result
    and leaves the same context. -/
theorem fragments (f g : Frame) (fs gs : List Frame) (s : Sys)
    (hop : f.opcode = g.opcode) (hr : f.rsv1 = g.rsv1)
    (hj : ((f :: fs).map (·.payload)).flatten = ((g :: gs).map (·.payload)).flatten) :
    buildMessage (f :: fs) s = buildMessage (g :: gs) s :=
  buildMessage_fragments f g fs gs s hop hr hj

/-- **Uncompressed messages and control frames leave the inflate context alone**: a message whose
    first frame has RSV1=0 (every control frame and every uncompressed message of a conforming
    peer), or any message when nothing was negotiated, is built from its joined payload as it
    is, and the system state — compressed history, delivered count, everything — is untouched. -/
theorem mixed (f : Frame) (fs : List Frame) (s : Sys) (h : f.rsv1 = 0 ∨ s.decompress = false) :
    buildMessage (f :: fs) s = liftE (msgOfPayload f.opcode ((f :: fs).map (·.payload)).flatten) s ∧
    (buildMessage (f :: fs) s).state = s :=
  buildMessage_plain_z f fs s h

/-- token level: the contexts only ever see the compressed messages, so inserting uncompressed
    messages or control frames anywhere in the history changes nothing for the compressed ones.
    (`items`: `some m` = a message sent compressed, `none` = anything else on the wire.) -/
theorem mixed_history {D : Nat} (c : Compressor D) (wsize : Nat) (hw : D ≤ wsize)
    (sr rr : Bool) (hk : sr = false → rr = false) (items : List (Option Bytes)) :
    receiverOutputs wsize rr [] (senderTokens c sr [] (items.filterMap id)) = some (items.filterMap id) :=
  lossless_history c wsize hw sr rr hk _

/-- **RSV1 iff compression was requested and negotiated.**  For every state: `send_text` /
    `send_binary` (`sendData`) puts a compressed frame (`Obs.wrz`, written with RSV1=1 by
    `send_compressed`) on the wire iff `compress=True` was passed *and* permessage-deflate is
    negotiated *and* the write goes through; the frame carries this opcode and this payload.
    In every other case nothing compressed is written. -/
theorem rsv1_iff (op : Nat) (payload : Bytes) (compress : Bool) (s : Sys) :
    ((∃ o p, (sendData op payload compress s).state.trace = .wrz o p :: s.trace) ↔
      (compress = true ∧ s.compression.isSome = true ∧ Writable s)) ∧
    (∀ o p, (sendData op payload compress s).state.trace = .wrz o p :: s.trace → o = op ∧ p = payload) :=
  sendData_wrz_iff op payload compress s

/-- **Without negotiation the client never sets RSV1 — whole connections.**  For every
    configuration, every application (any sends with any `compress` argument at any event, pings,
    closes, abandonment) and every environment script (any server bytes in any segmentation,
    errors, timers): if no `Ready` event announcing permessage-deflate occurs in the run, no
    compressed (RSV1) frame is ever written. -/
theorem no_rsv1_without_negotiation (cfg : Cfg) (react : React) (env : List EnvStep)
    (h : ∀ p, Obs.ev (.ready p true) ∉ (runAll cfg react env).trace) :
    ∀ op pl, Obs.wrz op pl ∉ (runAll cfg react env).trace := by
  rcases runAll_wrz_ready cfg react env with hz | ⟨p, hp⟩
  · exact hz.2
  · exact absurd hp (h p)

/-- **Control frames leave both contexts unchanged — including whatever the application does in
    reaction.**  A control frame with RSV1=0 (all of a conforming peer's; or any control frame when
    nothing is negotiated), from any state: the Ping/Pong/Close is built, handed to the
    application, the application's calls are executed (sends — compressed or not —, pings,
    `close()`), a Ping is answered, the timers run; afterwards the negotiated configuration, the
    decompress switch, the compressed history and the delivered count are what they were. -/
theorem mixed_control (f : Frame) (s : Sys) (hc : f.isControl = true) (h : f.rsv1 = 0 ∨ s.decompress = false) :
    (onFrame f s).state.compression = s.compression ∧ (onFrame f s).state.decompress = s.decompress ∧
    (onFrame f s).state.inflHist = s.inflHist ∧ (onFrame f s).state.inflOut = s.inflOut :=
  let q := quiet_onFrame_control f s hc h
  ⟨q.comp, q.dec, q.hist, q.out⟩

/-- **Uncompressed messages leave both contexts unchanged**, fragmented or not: every fragment of
    a message whose first frame has RSV1=0 (`s.frames` = the fragments so far) — stored, or, for
    the final one, delivered to the application with all its reactions — leaves the four context
    fields as they were. -/
theorem mixed_uncompressed (f : Frame) (s : Sys)
    (h : (∀ g ∈ (s.frames ++ [f]).head?, g.rsv1 = 0) ∨ s.decompress = false) :
    (onDataFrame f s).state.compression = s.compression ∧ (onDataFrame f s).state.decompress = s.decompress ∧
    (onDataFrame f s).state.inflHist = s.inflHist ∧ (onDataFrame f s).state.inflOut = s.inflOut :=
  let q := quiet_onDataFrame_plain f s h
  ⟨q.comp, q.dec, q.hist, q.out⟩

/-- with `compress=False`, or without negotiation, what is written is the plain frame built by
    `Frame.build` with RSV1=0 (first byte `0x80 | opcode`) -/
theorem uncompressed_send (op : Nat) (payload : Bytes) (compress : Bool) (s : Sys)
    (h : compress = false ∨ s.compression = none) (hw : Writable s) (hop : op < 16)
    (bytes : Bytes) (hb : Frame.build op payload (s.cfg.maskKey s.keyCtr) = some bytes) :
    (sendData op payload compress s).state.trace = .wr bytes :: s.trace ∧
    bytes.head? = some (128 + op) ∧ (128 + op) / 64 % 2 = 0 :=
  sendData_plain_z op payload compress s h hw hop bytes hb

/-! ## 4. Parameter parsing -/

/-- a missing window parameter means 15 -/
theorem wbits_default (opts : List (Http.Str × Http.Str)) (key : String)
    (h : Http.optGet opts (Http.ofString key) = none) : Http.getWbits opts key = .ok 15 :=
  getWbits_default opts key h

/-- whatever is accepted lies in 8..15 and is the integer written in the header -/
theorem wbits_accepted (opts : List (Http.Str × Http.Str)) (key : String) (n : Nat)
    (h : Http.getWbits opts key = .ok n) :
    8 ≤ n ∧ n ≤ 15 ∧
    Http.pyInt Http.isStrSpace ((Http.optGet opts (Http.ofString key)).getD (Http.ofString "15")) = some (false, n) :=
  ⟨(getWbits_range opts key n h).1, (getWbits_range opts key n h).2, getWbits_value opts key n h⟩

/-- everything else — not an integer, negative, below 8, above 15, the bare parameter name — is a
    `CompressionParameterError` -/
theorem wbits_refused (opts : List (Http.Str × Http.Str)) (key : String) :
    (Http.pyInt Http.isStrSpace ((Http.optGet opts (Http.ofString key)).getD (Http.ofString "15")) = none ∨
     ∃ neg n, Http.pyInt Http.isStrSpace ((Http.optGet opts (Http.ofString key)).getD (Http.ofString "15")) = some (neg, n) ∧
        (neg = true ∨ n < 8 ∨ 15 < n)) →
    ∃ msg, Http.getWbits opts key = .error msg :=
  getWbits_refused opts key

/-- every one of the 8×8×2×2 configurations, in its plain spelling, is accepted as itself -/
theorem all_configurations_parse :
    ∀ sw ∈ [8, 9, 10, 11, 12, 13, 14, 15], ∀ cw ∈ [8, 9, 10, 11, 12, 13, 14, 15], ∀ snt ∈ [false, true], ∀ cnt ∈ [false, true],
      Http.deflateFromOptions
        ([(Http.ofString "server_max_window_bits", Http.ofString (toString sw)),
          (Http.ofString "client_max_window_bits", Http.ofString (toString cw))] ++
         (if snt then [(Http.ofString "server_no_context_takeover", [])] else []) ++
         (if cnt then [(Http.ofString "client_no_context_takeover", [])] else []))
        = .ok { decompressWbits := sw, compressWbits := cw, resetDecompress := snt, resetCompress := cnt } := by
  decide +kernel

/-- a `CompressionParameterError` in any permessage-deflate element of the response makes
    `on_response` fail with it (it is a `HandshakeError`) … -/
theorem bad_parameter_fails_handshake (strict : Bool) (chal : Http.Str) (r : Http.Response) (m : Http.Str)
    (hs : r.statusCode = some (false, 101))
    (hu : Http.lower ((r.get (Http.ofString "upgrade")).getD (Http.ofString "<header missing>")) = Http.ofString "websocket")
    (acc : Http.Str) (ha : r.get (Http.ofString "sec-websocket-accept") = some acc)
    (hc : if strict then acc = chal else Http.lower acc = Http.lower chal)
    (he : Http.processExtensions (r.getList (Http.ofString "sec-websocket-extensions")) none = .error m) :
    Http.onResponse strict chal r = .error m :=
  onResponse_ext_error strict chal r m hs hu acc ha hc he

/-- … and a failed handshake is reported as `Rejected` and closes the connection: the websocket
    is `closed`, the `Rejected(reason)` event is in the trace -/
theorem handshake_error_rejected (data : Bytes) (s : Sys) (reason : Http.Str)
    (h : Http.onResponse s.cfg.v.strictAccept s.cfg.challenge (Http.parseResponse data) = .error reason) :
    (onOut (.header data) s).state.closed = true ∧
    Obs.ev (.rejected reason) ∈ (onOut (.header data) s).state.trace :=
  onOut_rejected_z data s reason h

/-! ## Non-vacuity -/

/-- a compressor within the bound exists for every bound, and it really reaches back across
    messages: `echoCompressor D` (Proofs/Deflate.lean) sends a message that repeats the end of the
    history as a single back-reference into the previous messages -/
example : senderTokens (echoCompressor 250) false [] [[1, 2, 3], [1, 2, 3], [3, 1, 2, 3], [9]]
    = [[.lit 1, .lit 2, .lit 3], [.copy 3 3], [.copy 4 4], [.lit 9]] := by decide
/-- with `client_no_context_takeover` the same compressor has no history to refer to -/
example : senderTokens (echoCompressor 250) true [] [[1, 2, 3], [1, 2, 3]]
    = [[.lit 1, .lit 2, .lit 3], [.lit 1, .lit 2, .lit 3]] := by decide
/-- the hypotheses of `lossless_client_to_peer` hold for it with `cw = 8` (compressor window 512,
    `maxDist = 250`, peer window 256) -/
example : receiverOutputs (2 ^ 8) false [] (senderTokens (echoCompressor (maxDist (clientWbits 8))) false []
      [[1, 2, 3], [1, 2, 3], [3, 1, 2, 3], [9]]) = some [[1, 2, 3], [1, 2, 3], [3, 1, 2, 3], [9]] :=
  lossless_client_to_peer 8 (by decide) (by decide) _ false false (fun _ => rfl) _

example : expand 250 ([1, 2, 3, 4, 5] : Bytes).reverse [.copy 5 5, .lit 9, .copy 3 4] = some ([1, 2, 3, 4, 5, 9, 4, 5, 9, 4] : Bytes).reverse := by
  decide
example : receiverOutputs 256 false [] [[.lit 1, .lit 2, .lit 3], [.copy 3 3, .copy 6 2], [.copy 1 4]]
    = some [[1, 2, 3], [1, 2, 3, 1, 2], [2, 2, 2, 2]] := by decide
example : maxDist (clientWbits 8) = 250 ∧ maxDist (clientWbits 15) = 32506 := by decide
example : Http.getWbits [(Http.ofString "client_max_window_bits", Http.ofString "10")] "client_max_window_bits" = .ok 10 := by
  decide +kernel
example : Http.getWbits [(Http.ofString "client_max_window_bits", [])] "client_max_window_bits"
    = .error (Http.ofString "client_max_window_bits is not an integer") := by decide +kernel
example : Http.getWbits [(Http.ofString "server_max_window_bits", Http.ofString "16")] "server_max_window_bits"
    = .error (Http.ofString "server_max_window_bits=16 is invalid") := by decide +kernel

/-- handshake reply without extensions: `101`, `Upgrade: websocket`, `Sec-WebSocket-Accept: abc` -/
def plainReply : Bytes :=
  [72, 84, 84, 80, 47, 49, 46, 49, 32, 49, 48, 49, 32, 83, 13, 10, 85, 112, 103, 114, 97, 100, 101, 58, 32, 119, 101, 98,
   115, 111, 99, 107, 101, 116, 13, 10, 83, 101, 99, 45, 87, 101, 98, 83, 111, 99, 107, 101, 116, 45, 65, 99, 99, 101,
   112, 116, 58, 32, 97, 98, 99, 13, 10, 13, 10]

/-- not negotiated: `send_text("hi", compress=True)` at Ready goes out as a plain masked frame (0x81 …) -/
example :
    (runAll { challenge := [97, 98, 99] } (fun hist => if hist.length = 3 then [.sendText (.str [104, 105]) true] else [])
        [.wait 0 (some (.data plainReply))]).trace =
      [.incomplete, .selClose, .sockClose, .ev .poll, .res .ok, .wr [129, 130, 0, 0, 0, 0, 104, 105],
       .ev (.ready none false), .ev (.connected false), .wr [], .ev .connecting] := by
  decide +kernel

/-- negotiated: `compress=True` gives a compressed frame, `compress=False` the plain one -/
example :
    (runAll { challenge := [97, 98, 99] }
        (fun hist => if hist.length = 3 then [.sendText (.str [104, 105]) true, .sendText (.str [104, 105]) false] else [])
        [.wait 0 (some (.data bfinalReply))]).trace =
      [.incomplete, .selClose, .sockClose, .ev .poll, .res .ok, .wr [129, 130, 0, 0, 0, 0, 104, 105], .res .ok,
       .wrz 1 [104, 105], .ev (.ready none true), .ev (.connected false), .wr [], .ev .connecting] := by
  decide +kernel

/-- non-vacuity of `Agrees` with the real bit-level inflater: the two "Hello" messages of RFC 7692
    §7.2.3.2 (`f2 48 cd c9 c9 07 00`, then — with context takeover — `f2 00 11 00 00`, i.e. a
    literal and a copy of distance 5 reaching into the previous message) -/
def rfcHello1 : List Blk := [⟨false, [.lit 72, .lit 101, .lit 108, .lit 108, .lit 111]⟩]
def rfcHello2 : List Blk := [⟨false, [.lit 72, .copy 5 4]⟩]
def rfcEnc (m : List Blk) : Bytes :=
  if m = rfcHello1 then [0xf2, 0x48, 0xcd, 0xc9, 0xc9, 0x07, 0x00]
  else if m = rfcHello2 then [0xf2, 0x00, 0x11, 0x00, 0x00] else []

example : ∀ k, k ≤ [rfcHello1, rfcHello2].length → Agrees Inflate.inflateAll 15 rfcEnc ([rfcHello1, rfcHello2].take k) := by
  intro k hk
  have : k = 0 ∨ k = 1 ∨ k = 2 := by simp at hk; omega
  rcases this with h | h | h <;> subst h <;> (show _ = _) <;> decide +kernel

example : tokenOut (2 ^ 15) [rfcHello1, rfcHello2] = some [72, 101, 108, 108, 111, 72, 101, 108, 108, 111] := by
  decide +kernel

/-- non-vacuity of `AgreesSafe` with the bit-level inflater of the repaired code, on a history with a
    BFINAL=1 block: the RFC 7692 §7.2.3.4 message (`f3 48 cd c9 c9 07 00` = "Hello" in a final
    block, then the `00` byte), followed by the ordinary `f2 48 cd c9 c9 07 00` -/
def rfcHelloFinal : List Blk := [⟨true, [.lit 72, .lit 101, .lit 108, .lit 108, .lit 111]⟩]
def rfcEncFinal (m : List Blk) : Bytes :=
  if m = rfcHelloFinal then [0xf3, 0x48, 0xcd, 0xc9, 0xc9, 0x07, 0x00, 0x00]
  else if m = rfcHello1 then [0xf2, 0x48, 0xcd, 0xc9, 0xc9, 0x07, 0x00] else []

example : ∀ k, k ≤ [rfcHelloFinal, rfcHello1].length →
    AgreesSafe Inflate.inflateAllSafe 15 rfcEncFinal ([rfcHelloFinal, rfcHello1].take k) := by
  intro k hk
  have : k = 0 ∨ k = 1 ∨ k = 2 := by simp at hk; omega
  rcases this with h | h | h <;> subst h <;> (show _ = _) <;> decide +kernel

/-- on that history the two shapes differ: the pinned code delivers "Hello", "" — the repaired one
    (= the RFC meaning) "Hello", "Hello" -/
example :
    objectOutputs (2 ^ 15) false {} [rfcHelloFinal, rfcHello1] = some [[72, 101, 108, 108, 111], []] ∧
    repairedOutputs (2 ^ 15) false [] [rfcHelloFinal, rfcHello1] = some [[72, 101, 108, 108, 111], [72, 101, 108, 108, 111]] ∧
    rfcOutputs (2 ^ 15) false [] [rfcHelloFinal, rfcHello1] = some [[72, 101, 108, 108, 111], [72, 101, 108, 108, 111]] := by
  refine ⟨?_, ?_, ?_⟩ <;> decide +kernel

/-- a message in which further blocks follow the BFINAL=1 block and refer back across it -/
example : repairedOutputs 256 false [] [[⟨true, [.lit 1, .lit 2]⟩, ⟨false, [.copy 2 3]⟩], [⟨false, [.copy 5 2]⟩]]
    = some [[1, 2, 1, 2, 1], [1, 2]] := by decide

/-- the written-out fixed Huffman tables of Model/Inflate.lean are the canonical ones
    (compared as lists: counts per length, symbols in canonical order, shape) -/
theorem fixedTables_ok :
    (Inflate.mkHuff Inflate.fixedLitLens false).map (fun h => (h.count.toList, h.symbol.toList, h.shape))
      = some (Inflate.fixedLit.count.toList, Inflate.fixedLit.symbol.toList, Inflate.fixedLit.shape) ∧
    (Inflate.mkHuff (Array.replicate 32 5) false).map (fun h => (h.count.toList, h.symbol.toList, h.shape))
      = some (Inflate.fixedDist.count.toList, Inflate.fixedDist.symbol.toList, Inflate.fixedDist.shape) := by
  constructor <;> decide +kernel

end Lomond.C06
