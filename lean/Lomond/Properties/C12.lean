/-
  C12 — close() is atomic with respect to other threads' sends and closes.
  Property theorems only (helper lemmas: Proofs/Threads.lean, Proofs/ThreadsC.lean).

  Same model as C11: any number of threads, any programs of calls — application `close()`,
  `send_text/binary/ping/pong`, and the event loop (echo of a server Close, completion of our own
  close when the server answers it, auto-pong, auto-ping) —, any schedule.

  On the wire (`List Chunk`, each `sendall` split in two chunks):
    `closeCount w`        = number of complete Close frames,
    `nothingAfterClose w` = after the first chunk of a Close frame nothing follows but that
                            frame's own second half (so no data frame, no second Close, not even
                            the first half of another frame).
-/
import Lomond.Proofs.ThreadsC
import Lomond.Proofs.ThreadsP

namespace Lomond.C12
open Lomond Lomond.Threads

abbrev final (v : Variant) (cfg : Cfg) (progs : Tid → List Call) (sched : List Tid) : State :=
  run v cfg (init progs) sched

/-- **With the repaired `close()` (`closeAtomic` = the step order of `notes/fix-D8.patch`:
    `session.write` sets `closing` under the write lock right after it has written a Close frame;
    the state checks read `closing` before `closed`; the reply path and `on_disconnect` set `closed`
    before they clear `closing`) — for all programs and all schedules:** at most one Close frame is written,
    nothing is written after it, and a finished send has written its frame iff it did not raise a
    WebSocketError (a send that loses the race fails instead of being written; one that returns
    normally is on the wire, before the Close). -/
theorem one_close_no_data_after (v : Variant) (hv : v.closeAtomic = true) (cfg : Cfg)
    (progs : Tid → List Call) (sched : List Tid) :
    let s := final v cfg progs sched
    closeCount s.sh.wire ≤ 1 ∧ nothingAfterClose s.sh.wire = true ∧
    (∀ (t : Tid) (i : Nat) (r : Result), (s.th t).results[i]? = some r →
      ∃ call, (progs t)[i]? = some call ∧ (r.err ≠ none → r.wrote = false) ∧
        (call.isSend = true → (r.wrote = true ↔ r.err = none))) := by
  intro s
  have B := base_run v cfg _ sched (base_init v cfg progs)
  have I := cInv_run v cfg _ sched hv (base_init v cfg progs) (cInv_init v cfg progs hv)
  refine ⟨nac_count _ I.i5, I.i5, ?_⟩
  intro t i r hr
  obtain ⟨call, h1, h2, h3⟩ := B.C.res t i r hr
  rw [run_prog] at h1
  refine ⟨call, h1, h2, fun hs => ⟨fun hw => ?_, h3 hs⟩⟩
  cases he : r.err with
  | none => rfl
  | some e =>
    have := h2 (by rw [he]; simp)
    rw [hw] at this; cases this

/-- the flags at the end: once a Close frame is (even partly) on the wire, the connection is
    closing or closed, except while the closer still holds the lock with its `closing = True` ahead -/
theorem close_sets_flag (v : Variant) (hv : v.closeAtomic = true) (cfg : Cfg)
    (progs : Tid → List Call) (sched : List Tid) :
    let s := final v cfg progs sched
    hasClose s.sh.wire = true → s.sh.lock = none → s.sh.closing = true ∨ s.sh.closed = true := by
  intro s hc hl
  have B := base_run v cfg _ sched (base_init v cfg progs)
  have I := cInv_run v cfg _ sched hv (base_init v cfg progs) (cInv_init v cfg progs hv)
  rcases I.i2 hc with h | h | ⟨u, hu⟩
  · exact Or.inl h
  · exact Or.inr h
  · have := (B.L.holder u).mp (closerMid_holds _ (B.L.disc u) hu)
    rw [hl] at this; cases this

/-- **The unrepaired `close()` on calm schedules.**  For every variant without `closeAtomic` (in
    particular the pinned code `{}`; the full statement, without the restriction to calm schedules,
    is `one_close_no_data_after` and needs `closeAtomic`),
    all programs and every schedule in which (`Calm`)
      * no other thread takes a step while a thread is inside `close()` between its
        `is_closing` test and its `closing = True` (`closeWin`), and
      * the event loop does not execute the reply path's `closing = False` / `closed = True`
        (the server does not answer our Close during the run; `fails_reply_window` shows why this
        window has to be excluded as well),
    at most one Close frame is written and nothing is written after it.
    Entries of threads that cannot move (blocked on the lock, finished) are unconstrained. -/
theorem one_close_no_data_after_partial (v : Variant) (hv : v.closeAtomic = false) (cfg : Cfg)
    (progs : Tid → List Call) (sched : List Tid) (calm : Calm v cfg (init progs) sched) :
    closeCount (final v cfg progs sched).sh.wire ≤ 1 ∧
      nothingAfterClose (final v cfg progs sched).sh.wire = true := by
  have I := pInv_run v cfg _ sched hv calm (base_init v cfg progs) (pInv_init v cfg progs hv)
  exact ⟨nac_count _ I.p5, I.p5⟩

/-! ### the present code does not have the property (finding D8) -/

def txt : Bytes := [104, 105]
def closeSend : Tid → List Call := progsOf [[.close (some 1000) []], [.sendText txt true]]
def closeClose : Tid → List Call := progsOf [[.close (some 1000) []], [.close (some 1001) []]]
def closeSendReply : Tid → List Call :=
  progsOf [[.close (some 1000) []], [.sendText txt true], [.onClose (some 1000) []]]

/-- T0 `close()` through its write and the release (9 steps); T1 `send_text` completely (7);
    T0 sets `closing` -/
def schedDataAfter : List Tid := List.replicate 9 0 ++ List.replicate 7 1 ++ [0, 0]
/-- both pass `if not self.is_closing` before either writes -/
def schedTwoCloses : List Tid := [0, 0, 1, 1] ++ List.replicate 7 0 ++ List.replicate 9 1 ++ [0, 0]
/-- T0's `close()` is complete; the loop reads the server's Close and clears `closing` (5 steps);
    T1 `send_text` completely; the loop sets `closed` -/
def schedReply : List Tid := List.replicate 11 0 ++ List.replicate 5 2 ++ List.replicate 7 1 ++ List.replicate 12 2

/-- a Text frame is written after the Close frame, and the sender is told `ok` -/
theorem fails_data_after_close :
    let s := final {} {} closeSend schedDataAfter
    (frames s.sh.wire).map (fun c => c.desc.op) = [8, 1] ∧ nothingAfterClose s.sh.wire = false ∧
      (s.th 1).results = [⟨true, none, false⟩] := by
  decide

/-- two Close frames are written -/
theorem fails_two_closes :
    let s := final {} {} closeClose schedTwoCloses
    (frames s.sh.wire).map (fun c => c.desc.op) = [8, 8] ∧ closeCount s.sh.wire = 2 := by
  decide

/-- a third window: between `closing = False` and `closed = True` of the reply path a send passes
    both tests of `session.write`: data after a completed closing handshake -/
theorem fails_reply_window :
    let s := final {} {} closeSendReply schedReply
    (frames s.sh.wire).map (fun c => c.desc.op) = [8, 1] ∧ nothingAfterClose s.sh.wire = false ∧
      s.sh.closed = true := by
  decide +kernel

/-- hence the property is false for the present code -/
theorem fails :
    ¬ ∀ (cfg : Cfg) (progs : Tid → List Call) (sched : List Tid),
      closeCount (final {} cfg progs sched).sh.wire ≤ 1 ∧
        nothingAfterClose (final {} cfg progs sched).sh.wire = true := by
  intro h
  have h1 := (h {} closeClose schedTwoCloses).1
  have h2 := fails_two_closes.2
  simp only [final] at h1 h2
  omega

/-! ### non-vacuity -/

/-- under the repaired variant the same three schedules keep the property: the late send is refused -/
example : let s := final { closeAtomic := true } {} closeSend (schedDataAfter ++ List.replicate 7 1)
    (frames s.sh.wire).map (fun c => c.desc.op) = [8] ∧ (s.th 1).results = [⟨false, some .closing, false⟩] := by
  decide

example : closeCount (final { closeAtomic := true } {} closeClose schedTwoCloses).sh.wire = 1 := by
  decide

/-- a calm schedule of the present code that is a real interleaving: T1 starts its `send_text`
    (takes the lock, passes two checks), T0 enters `close()` (its `is_closed` test), T1 finishes,
    T0 completes `close()` undisturbed, a second `send_text` of T1 is refused: one Close, nothing
    after it -/
def calmSched : List Tid := [1, 1, 1, 0] ++ List.replicate 4 1 ++ List.replicate 10 0 ++ List.replicate 7 1
def calmProgs : List (List Call) := [[.close (some 1000) []], [.sendText txt true, .sendText txt true]]

example : Calm {} {} (init (progsOf calmProgs)) calmSched :=
  calm_of_calmB 2 {} {} _ _ (idle_init calmProgs) (by decide +kernel)

example : let s := final {} {} (progsOf calmProgs) calmSched
    (frames s.sh.wire).map (fun c => c.desc.op) = [1, 8] ∧
      (s.th 1).results = [⟨true, none, false⟩, ⟨false, some .closing, false⟩] := by
  decide +kernel

example : let s := final { closeAtomic := true } {} closeSendReply (List.replicate 11 0 ++ List.replicate 4 2 ++ List.replicate 7 1 ++ List.replicate 12 2)
    (frames s.sh.wire).map (fun c => c.desc.op) = [8] ∧ s.sh.closed = true ∧
      (s.th 1).results = [⟨false, some .closing, false⟩] := by
  decide +kernel

end Lomond.C12
