/-
  C14 — source-structure facts the model of the automatic Pong / Ping relies on.
-/
import Lomond.Generated.Facts
namespace Lomond.C14Src

/-- `_send_pong` and `_check_auto_ping` swallow every `WebSocketError` (closed, closing,
    unavailable, transport failure) and nothing else: a Pong/Ping that cannot be written is
    dropped silently, as in `Core.onEvent` / `Core.checkAutoPing`. -/
theorem pong_and_ping_errors_swallowed :
    Gen.sendPongHandlers = ["errors.WebSocketError"] ∧ Gen.autoPingHandlers = ["errors.WebSocketError"] := by
  decide

end Lomond.C14Src
