/-
  C12 for the general socket (`Model/ThreadsN.lean`): `close()` when socket writes FAIL
  (`TransportFail`) or take any number of chunks.

  The repaired code (`session.write(data, closing=True)`): inside `with self._lock:` come
  `_check_writable()`, `_sendall(data)` and, for a Close frame, `closing = True`.  When `_sendall`
  raises, the exception leaves the `with` block (the lock is released) WITHOUT that store;
  `_send_close` swallows `TransportFail`, and `WebSocket.close` then stores `closing = True` outside the
  lock.  In the model: a failing write step continues at the release (`toRelease`), and the program of
  `close()` ends with `release; setClosing true; setCloseTime`.

  What holds, for every socket `env`, all programs and all schedules (variant `closeAtomic`):
    * at most one COMPLETE Close frame; after its last chunk nothing is written — no chunk of any frame;
      a second `close()`, an echo of a server Close, any send: refused or not attempted;
    * a send has its complete frame on the wire iff it returned normally;
    * every `close()` that has returned — its write succeeded, failed at any chunk, or was not attempted —
      leaves the connection closing or closed.
  What does NOT hold when the Close frame's own write fails (`torn_close_*` below): between the release
  of the lock and the `closing = True` of `close()` other threads pass the state checks — a data frame,
  or a second (complete) Close frame, can follow the TORN Close frame.  (The frames after a torn frame
  cannot be read by the peer anyway, and the socket has just failed; but the flag is not yet set.)
-/
import Lomond.Proofs.ThreadsNC
import Lomond.Proofs.ThreadsNK
import Lomond.Properties.C12

namespace Lomond.C12Fail
open Lomond Lomond.Threads

abbrev final (env : Env) (v : Variant) (cfg : Cfg) (progs : Tid → List Call) (sched : List Tid) : State :=
  runN env v cfg (init progs) sched

/-- **At most one complete Close frame, nothing after it — for every socket.**  With the repaired
    `close()` (`closeAtomic`), for every number of chunks per `sendall`, every pattern of failing
    writes (also of the Close frame itself), all programs and all schedules:
    (1) at most one COMPLETE Close frame is on the wire;
    (2) after the last chunk of a Close frame nothing follows — no chunk of a data frame, of a control
        frame or of another Close frame, whole or torn;
    (3) a finished send wrote its complete frame iff it raised no error (WebSocketError or
        TransportFail): the loser of a race with `close()` is refused, not written. -/
theorem one_whole_close_nothing_after (env : Env) (v : Variant) (hv : v.closeAtomic = true) (cfg : Cfg)
    (progs : Tid → List Call) (sched : List Tid) :
    let s := final env v cfg progs sched
    closeCount s.sh.wire ≤ 1 ∧
    (∀ pre post x, s.sh.wire = pre ++ x :: post → x.second = true → isClose x = true → post = []) ∧
    (∀ (t : Tid) (i : Nat) (r : Result), (s.th t).results[i]? = some r →
      ∃ call, (progs t)[i]? = some call ∧ (r.err ≠ none → r.wrote = false) ∧
        (call.isSend = true → (r.wrote = true ↔ r.err = none))) := by
  intro s
  have B := baseN_run env v cfg _ sched (baseN_init v cfg progs)
  have I := cInvN_run env v cfg _ sched hv (baseN_init v cfg progs) (cInvN_init v cfg progs hv)
  refine ⟨nawc_count _ I.i5, fun pre post x hw hx hc => nawc_spec _ I.i5 pre post x hw hx hc, ?_⟩
  intro t i r hr
  obtain ⟨call, h1, h2, h3⟩ := B.C.res t i r hr
  rw [runN_prog] at h1
  refine ⟨call, h1, h2, fun hs => ⟨fun hw => ?_, h3 hs⟩⟩
  cases he : r.err with
  | none => rfl
  | some e =>
    have := h2 (by rw [he]; simp)
    rw [hw] at this; cases this

/-- **The loser of two racing `close()` calls writes no second Close**: once a complete Close frame
    is on the wire, no thread stands in front of a write any more (`armed`: state checks passed, write
    ahead) — every other `close()`, echo or send still to come is refused by the state checks or
    returns early. -/
theorem no_writer_after_whole_close (env : Env) (v : Variant) (hv : v.closeAtomic = true) (cfg : Cfg)
    (progs : Tid → List Call) (sched : List Tid) :
    let s := final env v cfg progs sched
    hasWholeClose s.sh.wire = true → ∀ t, armed (view v cfg (s.th t)) = false ∧ headW2 (view v cfg (s.th t)) = false := by
  intro s hc t
  have I := cInvN_run env v cfg _ sched hv (baseN_init v cfg progs) (cInvN_init v cfg progs hv)
  constructor
  · cases h : armed (view v cfg (s.th t)) with
    | false => rfl
    | true => have := I.i3 t h; rw [hc] at this; cases this
  · cases h : headW2 (view v cfg (s.th t)) with
    | false => rfl
    | true => have := I.i6 t h; rw [hc] at this; cases this

/-- once a complete Close frame is on the wire the connection is closing or closed, except while the
    closer still holds the lock with its `closing = True` ahead -/
theorem close_sets_flag (env : Env) (v : Variant) (hv : v.closeAtomic = true) (cfg : Cfg)
    (progs : Tid → List Call) (sched : List Tid) :
    let s := final env v cfg progs sched
    hasWholeClose s.sh.wire = true → s.sh.lock = none → s.sh.closing = true ∨ s.sh.closed = true := by
  intro s hc hl
  have B := baseN_run env v cfg _ sched (baseN_init v cfg progs)
  have I := cInvN_run env v cfg _ sched hv (baseN_init v cfg progs) (cInvN_init v cfg progs hv)
  rcases I.i2 hc with h | h | ⟨u, hu⟩
  · exact Or.inl h
  · exact Or.inr h
  · have := (B.L.holder u).mp (closerEnd_holds _ hu)
    rw [hl] at this; cases this

/-- **`close()` always ends closing — also when its write fails.**  For every socket, all programs and
    all schedules: once a `close()` call (the application's, or the event loop's echo of a server Close)
    has RETURNED — its Close frame written whole, torn by a failing `sendall` at any chunk
    (`TransportFail`, swallowed), refused by the state checks, or not attempted because the connection
    was closing already — the connection is closing or closed, and stays so.  (While the call is still
    running, either that holds already or its `closing = True` outside the lock is still ahead:
    `KInv.kcur`.) -/
theorem close_always_ends_closing (env : Env) (v : Variant) (hv : v.closeAtomic = true) (cfg : Cfg)
    (progs : Tid → List Call) (sched : List Tid) (t : Tid) (i : Nat) (r : Result) (call : Call) :
    let s := final env v cfg progs sched
    (s.th t).results[i]? = some r → (progs t)[i]? = some call → call.isClose = true →
      s.sh.closing = true ∨ s.sh.closed = true := by
  intro s hr hcall hcl
  have K := kInv_run env v cfg _ sched hv (baseN_init v cfg progs) (cInvN_init v cfg progs hv) (kInv_init v cfg progs)
  exact K.kres t i r call hr (by rw [runN_prog]; exact hcall) hcl

/-- the statement of `C12.one_close_no_data_after` is the instance "two chunks, no failure" -/
theorem two_chunk_instance (v : Variant) (cfg : Cfg) (progs : Tid → List Call) (sched : List Tid) :
    final Env.two v cfg progs sched = C12.final v cfg progs sched :=
  runN_default v cfg _ sched

/-! ### when the Close frame's own write fails -/

def txt : Bytes := [104, 105]
/-- the `sendall` of thread 0's first call (its Close frame) fails after one of two chunks -/
def envTorn : Env := { failAt := fun t i => if t = 0 ∧ i = 0 then some 1 else none }
def ca : Variant := { closeAtomic := true, compressUnderLock := true }
def closeSend : Tid → List Call := progsOf [[.close (some 1000) []], [.sendText txt false]]
def closeClose : Tid → List Call := progsOf [[.close (some 1000) []], [.close (some 1001) []]]

/-- T0 `close()`: tests, lock, checks, first chunk, FAILURE, release (9 entries); T1 `send_text`
    completely (7); T0 `closing = True`, `sent_close_time` -/
def schedTornData : List Tid := List.replicate 9 0 ++ List.replicate 7 1 ++ [0, 0]
/-- the same with a second `close()` on T1 (12 entries) -/
def schedTornClose : List Tid := List.replicate 9 0 ++ List.replicate 12 1 ++ [0, 0]

/-- **A data frame follows a TORN Close frame** (the window between the failed write's release and
    `closing = True`): the sender is told `ok`, `close()` returned normally (`TransportFail` swallowed),
    no complete Close frame is on the wire. -/
theorem torn_close_then_data :
    let s := final envTorn ca {} closeSend schedTornData
    s.sh.wire.map (fun c => (c.tid, c.desc.op, c.second)) = [(0, 8, false), (1, 1, false), (1, 1, true)] ∧
    (s.th 1).results = [⟨true, none, false⟩] ∧ (s.th 0).results = [⟨false, some .transport, false⟩] ∧
    s.sh.closing = true ∧ closeCount s.sh.wire = 0 := by
  decide +kernel

/-- **A second, complete Close frame follows a torn one**: the other `close()` passed the
    `is_closing` test before the failing one set the flag. -/
theorem torn_close_then_close :
    let s := final envTorn ca {} closeClose schedTornClose
    s.sh.wire.map (fun c => (c.tid, c.desc.op, c.second)) = [(0, 8, false), (1, 8, false), (1, 8, true)] ∧
    closeCount s.sh.wire = 1 ∧ s.sh.closing = true := by
  decide +kernel

/-- hence "nothing after the FIRST CHUNK of a Close frame" (`nothingAfterClose`, the form
    `C12.one_close_no_data_after` has for the failure-free socket) is false when writes can fail -/
theorem nothing_after_first_chunk_fails :
    ¬ ∀ (env : Env) (cfg : Cfg) (progs : Tid → List Call) (sched : List Tid),
      nothingAfterClose (final env ca cfg progs sched).sh.wire = true := by
  intro h
  have h1 := h envTorn {} closeSend schedTornData
  have h2 : nothingAfterClose (final envTorn ca {} closeSend schedTornData).sh.wire = false := by decide +kernel
  rw [h2] at h1; cases h1

/-! ### non-vacuity -/

/-- three chunks per frame, no failure: T0's `close()` against T1's send started in the middle of it:
    the send is blocked, then refused -/
def env3 : Env := { more := fun _ _ => 2 }
example :
    let s := final env3 ca {} closeSend (List.replicate 8 0 ++ [1, 1, 1] ++ List.replicate 6 0 ++ List.replicate 7 1)
    s.sh.wire.map (fun c => (c.tid, c.desc.op, c.second)) = [(0, 8, false), (0, 8, false), (0, 8, true)] ∧
    (s.th 1).results = [⟨false, some .closing, false⟩] ∧ hasWholeClose s.sh.wire = true := by
  decide +kernel

example : Call.isClose (.close (some 1000) []) = true ∧ ((final envTorn ca {} closeSend schedTornData).th 0).results.length = 1 := by
  decide +kernel

/-- a Close write that fails before anything is written (`k = 0`) -/
example :
    let s := final { failAt := fun _ _ => some 0 } ca {} closeSend (List.replicate 11 0)
    s.sh.wire = [] ∧ (s.th 0).results = [⟨false, some .transport, false⟩] ∧ s.sh.closing = true := by
  decide +kernel

end Lomond.C12Fail
