/-
  C07 companion — termination by time-out at the level of a whole connection (`Core.runAll`), and the
  stricter monitor `Mon'`.  Property theorems only; helper lemmas: Proofs/MonitorGen.lean (which uses
  the run-level timer invariants of Proofs/TimerRun.lean / LiftX.lean, theorems `C15Run.*`).

  "The application does not abandon the iterator" is `¬ Abandons react`: no `Act.abandon` in any
  reaction.  A position of the trace is a split `trace = l ++ o :: t` (newest first).  The hypothesis
  "a time-out is overdue at a loop cycle" is the one of `C15Run.close_timeout_fires` /
  `C15Run.unresponsive_fires`: the trace has a clock mark `.tick n` (the loop came out of a
  `selector.wait`) at which the armed timer is past its deadline (`PastC` / `PastU`).  It cannot be
  phrased on the environment script alone: whether a timer is armed depends on what the application and
  the server did before (no Ready ⇒ no timer at all: lomond has no handshake time-out).
-/
import Lomond.Properties.C07
import Lomond.Properties.C15_Run
import Lomond.Proofs.MonitorGen

namespace Lomond.C07Run
open Lomond Lomond.Core Lomond.Core.Monitor Lomond.Core.MonitorGen Lomond.Core.Timers Lomond.Core.TimerRun
open Lomond.C07

/-! ### how a connection that exhausts its script was left -/

/-- when `run()` ends by exhausting the script: the loop was left right after a `selector.wait`
    round with the newest event not Unresponsive, no `Disconnected` yielded, and the ping timeout not
    overdue at any clock mark; `finally` only released socket / selector afterwards -/
theorem scriptEnd_ping (cfg : Cfg) (react : React) (env : List EnvStep) {s : Sys}
    (hr : run (initSys cfg react env) = .err .scriptEnd s) :
    ∃ s2, Released s2 s ∧ NU s2 ∧ discAny s2.trace = false ∧
      (cfg.pingTimeout ≠ 0 → ¬ PastU cfg.pingTimeout s2.trace) := by
  obtain ⟨s2, hx, rel⟩ := topx_run_scriptEnd (iu_leaves (hi := false)) iu_top
    (iu_loop env (fun h => by cases h)) _ (iu_init cfg react env) rfl hr
  obtain ⟨_, w, p⟩ := hx
  obtain ⟨f, nu⟩ := p.2.2.1 (fun e => by cases e) (fun e => by cases e)
  exact ⟨s2, rel, nu, w.nd, fun hp => not_pastU w.tok f hp⟩

/-- the same for the close timer: not overdue at any clock mark -/
theorem scriptEnd_close (cfg : Cfg) (react : React) (env : List EnvStep) {s : Sys}
    (hr : run (initSys cfg react env) = .err .scriptEnd s) :
    ∃ s2, Released s2 s ∧ discAny s2.trace = false ∧
      (ReqOk0 cfg → cfg.closeTimeout ≠ 0 → ¬ PastC cfg.closeTimeout s2.trace) := by
  obtain ⟨s2, hx, rel⟩ := topx_run_scriptEnd (ic_leaves (hi := false)) ic_top
    (ic_loop env (fun h => by cases h)) _ (ic_init cfg react env) rfl hr
  obtain ⟨_, w, p⟩ := hx
  obtain ⟨n, _⟩ := p.2.2.1 (Or.inr (Or.inl rfl))
  exact ⟨s2, rel, p.1, fun hq hc => not_pastC w n hq hc⟩

/-- the events of a connection that exhausted its script are those the loop had yielded -/
private theorem events_scriptEnd {cfg : Cfg} {react : React} {env : List EnvStep} {s s2 : Sys}
    (e : runAll cfg react env = { s with trace := .incomplete :: s.trace }) (rel : Released s2 s) :
    eventsOf cfg react env = events s2.trace := by
  unfold eventsOf
  rw [e]
  show events (.incomplete :: s.trace) = _
  rw [events_cons_nonEv _ _ rfl, rel.1.events]

/-! ### (a) Unresponsive is followed by the forced disconnect, and the sequence is complete -/

/-- **After `Unresponsive`, exactly `Disconnected('ping-timeout', graceful=False)` — and it comes.**
    For every configuration, every application that never abandons the iterator and every environment
    script: if `Unresponsive` occurs in the event sequence of the connection, what follows it is exactly
    that one forced disconnect, `run()` has returned (the trace is not INCOMPLETE: the script cannot
    run out between the two), and the whole sequence is complete. -/
theorem unresponsive_then_disconnected (cfg : Cfg) (react : React) (env : List EnvStep) (hna : ¬ Abandons react)
    (a b : List Event) (he : eventsOf cfg react env = a ++ .unresponsive :: b) :
    b = [.disconnected "ping-timeout" false] ∧ Mon.complete (eventsOf cfg react env) ∧
    Obs.incomplete ∉ (runAll cfg react env).trace := by
  have hb := timeout_terminates cfg react env a b he
  rcases runAll_cases cfg react env with ⟨s, hr, e⟩ | ⟨s, _, ha, _⟩ | ⟨s, hr, e⟩
  · have hc := monitor_complete cfg react env s hr
    have hinc : Obs.incomplete ∉ (runAll cfg react env).trace := by
      rw [incomplete_iff]; rintro ⟨s', hs'⟩; rw [hr] at hs'; cases hs'
    refine ⟨?_, hc, hinc⟩
    rcases hb with rfl | ⟨k, g, rfl⟩
    · obtain ⟨a', e', h1, ht, _⟩ := Mon.complete_ends_terminal hc
      rw [he] at h1
      obtain ⟨_, h2⟩ := List.append_inj' h1 rfl
      have : Event.unresponsive = e' := by simpa using h2
      subst this; cases ht
    · have un := (C15Run.unresponsive_invariant false cfg react env (fun h => by cases h)).1.unext
      have := unext_events un (a := a) (b := []) (e := .disconnected k g) he
      rw [this]
  · exact absurd ha hna
  · exfalso
    obtain ⟨s2, rel, nu, nd, _⟩ := scriptEnd_ping cfg react env hr
    rw [events_scriptEnd e rel] at he
    rcases hb with rfl | ⟨k, g, rfl⟩
    · apply nu
      show newestEv s2.trace = _
      rw [← events_getLast, he]; simp
    · exact discAny_false_events nd k g (by rw [he]; simp)

/-! ### (b) once a time-out is overdue at a loop cycle, the run ends at that cycle -/

/-- **Once a close timeout is overdue at a loop cycle the run ends with a terminal event at that
    cycle.**  Hypotheses as in `C15Run.close_timeout_fires` (a clock mark `n` at or after the deadline
    `ct + close_timeout` of a Close frame handed to `sendall` before it, no Ready in between), for an
    application that never abandons the iterator.  Then: no further `selector.wait` round follows that
    clock mark, the forced `Disconnected('close-timeout')` — or, when the ping timeout struck at that
    same `_regular()`, `Disconnected('ping-timeout')` — was yielded, `run()` returned (the trace is not
    INCOMPLETE) and the event sequence is complete. -/
theorem close_timeout_terminates (cfg : Cfg) (react : React) (env : List EnvStep) (hna : ¬ Abandons react)
    (hreq : ReqOk0 cfg) (hc : cfg.closeTimeout ≠ 0) (l t : List Obs) (n ct : Nat)
    (htr : (runAll cfg react env).trace = l ++ .tick n :: t) (hw : CloseWr ct t)
    (hnr : ∀ o ∈ l, o.tmIsReady = false) (hpast : ct + cfg.closeTimeout ≤ sessOf (.tick n :: t)) :
    (∀ o ∈ l, o.tmTickVal = none) ∧
    (ctoD ∈ (runAll cfg react env).trace ∨ ptoD ∈ (runAll cfg react env).trace) ∧
    Mon.complete (eventsOf cfg react env) ∧ Obs.incomplete ∉ (runAll cfg react env).trace := by
  obtain ⟨h1, _, h3⟩ := C15Run.close_timeout_fires cfg react env hreq hc l t n ct htr hw hnr hpast
  have hpc : PastC cfg.closeTimeout (runAll cfg react env).trace := ⟨l, n, t, ct, htr, hw, hnr, hpast⟩
  rcases runAll_cases cfg react env with ⟨s, hr, e⟩ | ⟨s, _, ha, _⟩ | ⟨s, hr, e⟩
  · have hcmp := monitor_complete cfg react env s hr
    have hinc : Obs.incomplete ∉ (runAll cfg react env).trace := by
      rw [incomplete_iff]; rintro ⟨s', hs'⟩; rw [hr] at hs'; cases hs'
    refine ⟨h1, ?_, hcmp, hinc⟩
    rcases h3 with h | h | h
    · exact Or.inl h
    · exact Or.inr h
    · exfalso
      -- a Ready event was yielded (the session clock is running), so the terminal event is Disconnected
      have hs : sessOf (.tick n :: t) ≠ 0 := by
        have : 0 < cfg.closeTimeout := Nat.pos_of_ne_zero hc
        omega
      have hra : readyAt (.tick n :: t) ≠ none := by
        intro h0; apply hs; unfold sessOf; rw [h0]
      obtain ⟨x, d, hm⟩ := readyAt_some_mem hra
      have hm2 : Obs.ev (.ready x d) ∈ (runAll cfg react env).trace := by
        rw [htr]; exact List.mem_append_right _ hm
      obtain ⟨k, g, hd⟩ := disconnected_of_complete_ready hcmp (mem_events.mpr hm2)
      exact discAny_false_events h k g hd
  · exact absurd ha hna
  · exfalso
    obtain ⟨s2, rel, _, np⟩ := scriptEnd_close cfg react env hr
    obtain ⟨lq, eq, nq⟩ := released_noTick rel
    rw [e] at hpc
    have h2 : PastC cfg.closeTimeout s.trace := pastC_of_cons (o := .incomplete) rfl hpc
    rw [eq] at h2
    have h4 : PastC cfg.closeTimeout s2.trace := by
      clear eq
      induction lq with
      | nil => exact h2
      | cons o r ih =>
        exact ih (fun o ho => nq o (List.mem_cons_of_mem _ ho)) (pastC_of_cons (nq o List.mem_cons_self) h2)
    exact np hreq hc h4

/-- **Once the ping timeout is overdue at a loop cycle the run ends with a terminal event at that
    cycle.**  Hypotheses as in `C15Run.unresponsive_fires` (a clock mark `n` more than `ping_timeout`
    after the newest sign of life, no Pong or Ready after it), for an application that never abandons the
    iterator: `Unresponsive` and the forced `Disconnected('ping-timeout')` were yielded, `run()`
    returned and the event sequence is complete. -/
theorem ping_timeout_terminates (cfg : Cfg) (react : React) (env : List EnvStep) (hna : ¬ Abandons react)
    (hp : cfg.pingTimeout ≠ 0) (l t : List Obs) (n : Nat)
    (htr : (runAll cfg react env).trace = l ++ .tick n :: t) (hrd : readyAt t ≠ none)
    (hquiet : ∀ o ∈ l, o.tmIsReady = false ∧ o.tmIsPong = false)
    (hpast : lastAlive t + cfg.pingTimeout < sessOf (.tick n :: t)) :
    (Obs.ev .unresponsive ∈ (runAll cfg react env).trace ∧ ptoD ∈ (runAll cfg react env).trace) ∧
    Mon.complete (eventsOf cfg react env) ∧ Obs.incomplete ∉ (runAll cfg react env).trace := by
  have h3 := C15Run.unresponsive_fires cfg react env hp l t n htr hrd hquiet hpast
  have hpu : PastU cfg.pingTimeout (runAll cfg react env).trace := ⟨l, n, t, htr, hrd, hquiet, hpast⟩
  rcases runAll_cases cfg react env with ⟨s, hr, e⟩ | ⟨s, _, ha, _⟩ | ⟨s, hr, e⟩
  · have hcmp := monitor_complete cfg react env s hr
    have hinc : Obs.incomplete ∉ (runAll cfg react env).trace := by
      rw [incomplete_iff]; rintro ⟨s', hs'⟩; rw [hr] at hs'; cases hs'
    refine ⟨?_, hcmp, hinc⟩
    rcases h3 with h | h
    · exact h
    · exfalso
      obtain ⟨x, d, hm⟩ := readyAt_some_mem hrd
      have hm2 : Obs.ev (.ready x d) ∈ (runAll cfg react env).trace := by
        rw [htr]; exact List.mem_append_right _ (List.mem_cons_of_mem _ hm)
      obtain ⟨k, g, hd⟩ := disconnected_of_complete_ready hcmp (mem_events.mpr hm2)
      exact discAny_false_events h k g hd
  · exact absurd ha hna
  · exfalso
    obtain ⟨s2, rel, _, _, np⟩ := scriptEnd_ping cfg react env hr
    obtain ⟨lq, eq, nq⟩ := released_noTick rel
    rw [e] at hpu
    have h2 : PastU cfg.pingTimeout s.trace := pastU_of_cons (o := .incomplete) rfl hpu
    rw [eq] at h2
    exact np hp (pastU_of_append lq nq h2)

/-! ### (c) termination -/

/-- the script contains a transport-ending step (end-of-stream, a socket error or another exception
    from `recv`, an exception from `selector.wait`) -/
def EndsTransport (env : List EnvStep) : Prop := ∃ pre X post, env = pre ++ X :: post ∧ EnvStep.isEnd X = true

/-- the loop of this connection lived through a `selector.wait` that ended with an armed time-out
    past its deadline — the script contains enough silence for it: the close timer (`PastC`: at or
    after `ct + close_timeout` for a Close frame handed to `sendall` at session time `ct`) or the ping
    timeout (`PastU`: more than `ping_timeout` after the newest Pong / Ready) -/
def TimeoutOverdue (cfg : Cfg) (tr : List Obs) : Prop :=
  (ReqOk0 cfg ∧ cfg.closeTimeout ≠ 0 ∧ PastC cfg.closeTimeout tr) ∨ (cfg.pingTimeout ≠ 0 ∧ PastU cfg.pingTimeout tr)

/-- **Termination.**  For every configuration, every application that never abandons the iterator
    and every environment script that contains a transport-ending step OR enough silence for an armed
    time-out (close timer or ping timeout): `run()` returns — the trace is not INCOMPLETE, whatever
    the script says after the end is never consumed — and the event sequence has exactly one terminal
    event, which is its last element. -/
theorem terminates (cfg : Cfg) (react : React) (env : List EnvStep) (hna : ¬ Abandons react)
    (h : EndsTransport env ∨ TimeoutOverdue cfg (runAll cfg react env).trace) :
    (∃ s, run (initSys cfg react env) = .ok () s) ∧
    Obs.incomplete ∉ (runAll cfg react env).trace ∧
    Mon.complete (eventsOf cfg react env) ∧
    ∃ a e, eventsOf cfg react env = a ++ [e] ∧ Event.isTerminal e = true ∧ ∀ x ∈ a, Event.isTerminal x = false := by
  have key : Mon.complete (eventsOf cfg react env) ∧ Obs.incomplete ∉ (runAll cfg react env).trace := by
    rcases h with ⟨pre, X, post, rfl, hX⟩ | ⟨hq, hc, l, n, t, ct, htr, hw, hnr, hpast⟩ | ⟨hp, l, n, t, htr, hrd, hq, hpast⟩
    · obtain ⟨_, h2, h3⟩ := terminates_after_transport_end cfg react pre post X hX
      exact ⟨h3.resolve_right hna, h2⟩
    · exact (close_timeout_terminates cfg react env hna hq hc l t n ct htr hw hnr hpast).2.2
    · exact (ping_timeout_terminates cfg react env hna hp l t n htr hrd hq hpast).2
  refine ⟨?_, key.2, key.1, Mon.complete_ends_terminal key.1⟩
  rcases run_outcomes cfg react env with hr | ⟨_, _, ha⟩ | hr
  · exact hr
  · exact absurd ha hna
  · exact absurd ((incomplete_iff cfg react env).mpr hr) key.2

/-! ### non-vacuity of (a), (b), (c): the timer runs of `C15Run` -/

private theorem not_abandons_silent : ¬ Abandons (fun _ => []) := by
  rintro ⟨h, w, hm⟩; cases hm

private theorem not_abandons_reactC : ¬ Abandons C15Run.reactC := by
  rintro ⟨h, w, hm⟩
  unfold C15Run.reactC at hm
  split at hm <;> simp at hm

-- (a): ping timeout 3, silence: Unresponsive is in the sequence, the application never abandons
example : eventsOf C15Run.cfgU (fun _ => []) C15Run.envU =
    [.connecting, .connected false, .ready none false, .poll, .poll] ++ .unresponsive :: [.disconnected "ping-timeout" false] := by
  decide +kernel

-- (b): the hypotheses of `close_timeout_terminates` on the close-timeout run of `C15Run` (clock mark 7)
example : ¬ Abandons C15Run.reactC ∧ ReqOk0 C15Run.cfgC ∧ C15Run.cfgC.closeTimeout ≠ 0 ∧
    (runAll C15Run.cfgC C15Run.reactC C15Run.envC).trace =
      [.selClose, .ev (.disconnected "close-timeout" false), .sockClose, .ev .poll] ++ .tick 7 :: C15Run.trC ∧
    CloseWr 0 C15Run.trC ∧ 0 + C15Run.cfgC.closeTimeout ≤ sessOf (.tick 7 :: C15Run.trC) :=
  ⟨not_abandons_reactC, by unfold ReqOk0; decide, by decide, by decide +kernel,
    ⟨[.tick 2, .ev .poll, .res .ok], .wr [136, 130, 0, 0, 0, 0, 3, 232], _, rfl, rfl, by decide⟩, by decide⟩

-- (c): the three kinds of scripts — a transport end in the middle, an overdue close timer, an overdue ping timeout
example : EndsTransport (exEnv ++ [.wait 0 (some (.data exReply))]) :=
  ⟨[.wait 0 (some (.data (exReply ++ [0x81, 2, 104, 105]))), .wait 6 none], .wait 0 (some .eof),
    [.wait 0 (some (.data exReply))], rfl, rfl⟩

example : TimeoutOverdue C15Run.cfgC (runAll C15Run.cfgC C15Run.reactC C15Run.envC).trace :=
  Or.inl ⟨by unfold ReqOk0; decide, by decide,
    [.selClose, .ev (.disconnected "close-timeout" false), .sockClose, .ev .poll], 7, C15Run.trC, 0, by decide +kernel,
    ⟨[.tick 2, .ev .poll, .res .ok], .wr [136, 130, 0, 0, 0, 0, 3, 232], _, rfl, rfl, by decide⟩,
    by decide, by decide⟩

example : TimeoutOverdue C15Run.cfgU (runAll C15Run.cfgU (fun _ => []) C15Run.envU).trace :=
  Or.inr ⟨by decide, [.selClose, .ev (.disconnected "ping-timeout" false), .sockClose, .ev .unresponsive, .ev .poll], 5,
    C15Run.trU, by decide +kernel, by decide, by decide, by decide⟩

/-! ### the stricter monitor `Mon'`

      start ──Connecting──▶ connecting ──ConnectFail──▶ done
                                │
                                └─Connected──▶ connected ──Ready──▶ ready ──Unresponsive──▶ unresp
                                                │  │ ▲ ProtocolError       │ ▲ Text, Binary, Ping,       │
                                                │  │ └─┘                   │ └ Pong, Poll, Closing,      │
                                                │  └─Rejected─▶ rejected   │   Closed, ProtocolError     │
                                                │                 │        │                             │
                                                └──Disconnected──▶ done ◀──┴────────Disconnected─────────┘
  As `Mon` (C07.lean) — `Connected` exactly once, `Ready` at most once and only after `Connected`, messages,
  Poll and `Unresponsive` only after `Ready`, after `Unresponsive` nothing but `Disconnected`, nothing after the
  terminal event — and in addition: after `Rejected` nothing but `Disconnected` (so no `Ready`, no second
  `Rejected`, no `ProtocolError` after a refused upgrade).  `C07.monitor` is kept; `Mon'` refines `Mon`
  (`monitor_strict_refines`; the theorem names avoid the apostrophe: the audit script cannot quote it). -/

/-- **The stricter monitor never rejects**: whatever the server, the environment and the application
    (including one that abandons the iterator) do, the event sequence of a connection is a prefix of a
    sequence that is well-formed in the stricter sense. -/
theorem monitor_strict (cfg : Cfg) (react : React) (env : List EnvStep) : Mon'.accepts (eventsOf cfg react env) := by
  obtain ⟨p, _, h⟩ := runAll_accepted' cfg react env
  exact ⟨_, h⟩

/-- **When `run()` returns, the sequence is complete for the stricter monitor too.** -/
theorem monitor_strict_complete (cfg : Cfg) (react : React) (env : List EnvStep) (s : Sys)
    (hr : run (initSys cfg react env) = .ok () s) : Mon'.complete (eventsOf cfg react env) := by
  obtain ⟨p, hp, h⟩ := runAll_accepted' cfg react env
  have hc := monitor_complete cfg react env s hr
  unfold Mon.complete eventsOf at hc
  rw [hp] at hc
  cases hc
  exact h

/-- whatever `Mon'` accepts `Mon` accepts, in the corresponding phase: every clause read off `Mon`
    (C07.lean) holds of `Mon'`-accepted sequences -/
theorem monitor_strict_refines (evs : List Event) (h : Mon'.accepts evs) : Mon.accepts evs := by
  obtain ⟨q, hq⟩ := h
  exact ⟨q.proj, Mon'.run_proj hq⟩

/-- **after `Rejected` nothing but the terminal `Disconnected` is yielded** — whatever else is in the
    read that carried the refused response, in the rest of the script, and whatever the application
    does in reaction to `Rejected` -/
theorem nothing_but_disconnected_after_rejected (cfg : Cfg) (react : React) (env : List EnvStep)
    (a b : List Event) (r : Http.Str) (he : eventsOf cfg react env = a ++ .rejected r :: b) :
    b = [] ∨ ∃ k g, b = [.disconnected k g] := by
  obtain ⟨ph, h⟩ := monitor_strict cfg react env
  rw [he] at h; exact Mon'.after_rejected h

/-- **`Rejected` occurs at most once, and never in a sequence that has `Ready`** -/
theorem rejected_once_and_no_ready (cfg : Cfg) (react : React) (env : List EnvStep)
    (a b : List Event) (r : Http.Str) (he : eventsOf cfg react env = a ++ .rejected r :: b) :
    (∀ e ∈ a ++ b, e.isRej = false) ∧ (∀ x d, Event.ready x d ∉ a ++ b) := by
  obtain ⟨ph, h⟩ := monitor_strict cfg react env
  rw [he] at h
  have hb := Mon'.after_rejected h
  have inB : ∀ e ∈ b, ∃ k g, e = .disconnected k g := by
    intro e hm
    rcases hb with rfl | ⟨k, g, rfl⟩
    · cases hm
    · rw [List.mem_singleton] at hm; exact ⟨k, g, hm⟩
  obtain ⟨p, q, hrun, hs, _⟩ := Mon'.run_split h
  obtain ⟨rfl, _⟩ := Mon'.rejected_phase hs
  -- before it: the phase is `connected` at the end, so neither `Rejected` nor `Ready` occurred
  have inA : ∀ e ∈ a, e.isRej = false ∧ ∀ x d, e ≠ .ready x d := by
    intro e hm
    obtain ⟨a1, a2, rfl⟩ := List.append_of_mem hm
    obtain ⟨p1, q1, _, hs1, hr1⟩ := Mon'.run_split hrun
    have hm1 := Mon.run_mono (Mon'.run_proj hr1)
    constructor
    · cases e <;> first | rfl | skip
      obtain ⟨_, rfl⟩ := Mon'.rejected_phase hs1
      cases a2 with
      | nil => cases hr1
      | cons e2 r2 =>
        simp only [Mon'.run] at hr1
        cases hs2 : Mon'.step .rejected e2 with
        | none => rw [hs2] at hr1; cases hr1
        | some q2 =>
          rw [hs2] at hr1; simp only [Option.bind_some] at hr1
          cases e2 <;> simp [Mon'.step] at hs2
          subst hs2
          have := Mon'.run_done hr1
          subst this
          cases hr1
    · intro x d hx
      subst hx
      have : q1 = .ready := by cases p1 <;> simp [Mon'.step] at hs1; exact hs1.symm
      subst this
      simp [Phase'.proj, Phase.rank] at hm1
  constructor
  · intro e hm
    rcases List.mem_append.mp hm with h1 | h1
    · exact (inA e h1).1
    · obtain ⟨k, g, rfl⟩ := inB e h1; rfl
  · intro x d hm
    rcases List.mem_append.mp hm with h1 | h1
    · exact (inA _ h1).2 x d rfl
    · obtain ⟨k, g, h2⟩ := inB _ h1; cases h2

-- the refused upgrade of C07.lean is complete for `Mon'` …
example : Mon'.run .start (eventsOf exCfg (fun _ => [])
    [.wait 0 (some (.data [72, 84, 84, 80, 47, 49, 46, 49, 32, 53, 48, 48, 32, 88, 13, 10, 13, 10]))]) = some .done := by
  decide +kernel

-- … and `Mon'` really is stricter: `Mon` accepts `Ready` (or a second `Rejected`) after `Rejected`, `Mon'` does not
example : Mon.run .start [.connecting, .connected false, .rejected [], .ready none false] = some .ready ∧
    Mon'.run .start [.connecting, .connected false, .rejected [], .ready none false] = none ∧
    Mon.run .start [.connecting, .connected false, .rejected [], .rejected []] = some .connected ∧
    Mon'.run .start [.connecting, .connected false, .rejected [], .rejected []] = none ∧
    Mon'.run .start [.connecting, .connected false, .rejected [], .protocolError "x" true] = none := by decide

end Lomond.C07Run
