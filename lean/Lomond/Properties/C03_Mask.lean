/-
  C03 — the mechanics of `lomond/mask.py` (`mask_payload`) proved equal to the specification
  `maskPayload` (byte i XOR key[i % 4]) that every other C03 theorem uses.

  What is proved about: `Mask.maskPayloadMech` (Model/Mask.lean), an interpreter of Python's
  list-comprehension table, generator unpacking, `translate`, extended-slice read and extended-slice
  assignment, run on the program that harness/maskfacts.py reads off the AST of mask.py on every
  check (Generated/Mask.lean: the table's element expression `a ^ b`, which variable is the row, the
  names unpacked, the four statements `data[k::4] = data[k::4].translate(name)` in source order).
  `source_shape` pins those facts; all other theorems unfold them, so an edit of mask.py that changes
  a fact makes this file fail to check.

  Tie to the running code: driver op `frame maskmech <key> <data>` = `maskPayloadMech`, compared with
  the real `lomond.mask.mask_payload` (result bytes or exception + content of the bytearray) on
  boundary and random inputs by harness/props/c03.py.
  Helper lemmas: Proofs/Mask.lean.
-/
import Lomond.Proofs.Mask

namespace Lomond.C03Mask
open Lomond Lomond.Mask

/-- The program the theorems below are about is the one in the source: the Python-3 table is
    `[bytes(a ^ b for a in range(256)) for b in range(256)]` (row index = the OUTER variable `b`),
    `mask_payload(masking_key, data)` unpacks exactly four names from a generator over the key bytes
    and then consists of exactly the four lane statements, in this order, and of nothing else. -/
theorem source_shape :
    Gen.maskTableOuterVar = "b" ∧ Gen.maskTableOuterN = 256 ∧
    Gen.maskTableInnerVar = "a" ∧ Gen.maskTableInnerN = 256 ∧
    Gen.maskTableElt = ("a", "^", "b") ∧ Gen.maskTableWrap = "bytes" ∧
    Gen.maskParams = ["masking_key", "data"] ∧
    Gen.maskUnpackNames = ["a", "b", "c", "d"] ∧
    Gen.maskUnpackExpr = "(_XOR_TABLE[n] for n in bytearray(masking_key))" ∧
    Gen.maskLaneStmts = [(0, 4, 0, 4, "a"), (1, 4, 1, 4, "b"), (2, 4, 2, 4, "c"), (3, 4, 3, 4, "d")] ∧
    Gen.maskOtherStmts = [] := by decide

/-- The table built by the source's comprehension has 256 rows of 256 entries and entry `a` of row `b`
    is `a ^ b` — for all 65536 pairs, by the lookup lemmas, not by enumeration. -/
theorem table_is_xor :
    xorTable.length = 256 ∧ (∀ row ∈ xorTable, row.length = 256) ∧
    ∀ a b, a < 256 → b < 256 → (xorTable.getD b []).getD a 0 = a ^^^ b := by
  refine ⟨by simp [xorTable_eq], ?_, ?_⟩
  · intro row hrow
    rw [xorTable_eq] at hrow
    obtain ⟨b, _, rfl⟩ := List.mem_map.mp hrow
    exact xorRow_length b
  · intro a b ha hb
    have hr : xorTable.getD b [] = xorRow b := by
      rw [List.getD_eq_getElem?_getD, xorTable_get b hb]; rfl
    rw [hr]
    exact xorRow_getD a b ha

example : (xorTable.getD 0xa5 []).getD 0x3c 0 = 0x99 := by
  rw [table_is_xor.2.2 0x3c 0xa5 (by decide) (by decide)]; decide

private theorem key_four (key : Bytes) (hl : key.length = 4) :
    ∃ k0 k1 k2 k3, key = [k0, k1, k2, k3] := by
  match key, hl with
  | [k0, k1, k2, k3], _ => exact ⟨k0, k1, k2, k3, rfl⟩

private theorem names_len : Gen.maskUnpackNames.length = 4 := by decide
private theorem lanes_canon : Gen.maskLaneStmts = canon := by decide
private theorem env_eq (k0 k1 k2 k3 : Nat) :
    Gen.maskUnpackNames.zip [xorRow k0, xorRow k1, xorRow k2, xorRow k3] = envOf k0 k1 k2 k3 := by
  simp [Gen.maskUnpackNames, envOf]

/-- run of any duplicate-free selection of the source's statements, in any order -/
private theorem with_canon (key data : Bytes) (hl : key.length = 4) (hk : Bytes.WF key) (hd : Bytes.WF data)
    (l : List Stmt) (hmem : ∀ s ∈ l, s ∈ canon) (hnd : (l.map (·.1)).Nodup) :
    maskPayloadWith l key data = .ok (lanesSpec key (l.map (·.1)) data) := by
  obtain ⟨k0, k1, k2, k3, rfl⟩ := key_four key hl
  simp only [maskPayloadWith, names_len, unpack_four k0 k1 k2 k3 hk, env_eq]
  exact runLanes_canon k0 k1 k2 k3 hk l data hmem hnd hd

/-- **(a) mechanics = specification.**  For every 4-byte key and every byte string `data` of any
    length, what the code does — table rows picked by the key bytes, four in-place
    `data[k::4] = data[k::4].translate(row)` — leaves in `data` exactly `maskPayload key data`
    (byte `i` XOR `key[i % 4]`), and raises nothing. -/
theorem mech_eq_spec (key data : Bytes) (hl : key.length = 4) (hk : Bytes.WF key) (hd : Bytes.WF data) :
    maskPayloadMech key data = .ok (maskPayload key data) := by
  have h := with_canon key data hl hk hd canon (fun _ h => h) (by decide)
  rw [maskPayloadMech, lanes_canon, h]
  exact congrArg _ (lanesSpec_all key data)

example : maskPayloadMech [1, 2, 4, 8] [0x10, 0x20, 0x30, 0x40, 0x50, 0xff] = .ok [0x11, 0x22, 0x34, 0x48, 0x51, 0xfd] := by
  rw [mech_eq_spec _ _ (by decide) (by decide) (by decide)]; exact congrArg Except.ok (by decide)

/-- **(b) involution.**  Running the code twice with the same key restores the data. -/
theorem mech_involutive (key data m : Bytes) (hl : key.length = 4) (hk : Bytes.WF key) (hd : Bytes.WF data)
    (h : maskPayloadMech key data = .ok m) : maskPayloadMech key m = .ok data := by
  rw [mech_eq_spec key data hl hk hd] at h
  cases h
  rw [mech_eq_spec key (maskPayload key data) hl hk (maskFrom_wf key 0 data hk hd)]
  exact congrArg _ (maskFrom_involutive key 0 data)

example : ∃ m, maskPayloadMech [0xff, 0, 0x80, 1] [1, 2, 3, 4, 5] = .ok m ∧ maskPayloadMech [0xff, 0, 0x80, 1] m = .ok [1, 2, 3, 4, 5] :=
  ⟨_, mech_eq_spec _ _ (by decide) (by decide) (by decide),
    mech_involutive _ _ _ (by decide) (by decide) (by decide) (mech_eq_spec _ _ (by decide) (by decide) (by decide))⟩

/-- **(c) length.**  The bytearray keeps its length (and stays a byte string). -/
theorem mech_length (key data m : Bytes) (hl : key.length = 4) (hk : Bytes.WF key) (hd : Bytes.WF data)
    (h : maskPayloadMech key data = .ok m) : m.length = data.length ∧ Bytes.WF m := by
  rw [mech_eq_spec key data hl hk hd] at h
  cases h
  exact ⟨maskFrom_length key 0 data, maskFrom_wf key 0 data hk hd⟩

example : ∃ m, maskPayloadMech [9, 9, 9, 9] [1, 2, 3, 4, 5, 6, 7] = .ok m :=
  ⟨_, mech_eq_spec _ _ (by decide) (by decide) (by decide)⟩

/-- **(d) a lane statement touches only its lane** — for ANY statement
    `data[ts::tst] = data[ss::sst].translate(name)` with a target step ≥ 2 and a non-empty source
    slice, any environment and any data (no well-formedness needed): if it does not raise, the length
    is unchanged and every index that is not `ts + j * tst` keeps its byte.  (An EMPTY right-hand side
    makes CPython delete the target positions instead; that cannot happen when source and target slice
    are the same, as in all four statements of the source: `lane_effect`.) -/
theorem lane_touches_only_its_slice (env : List (String × Bytes)) (st : Stmt) (data out : Bytes)
    (hstep : 2 ≤ st.2.1) (hne : sliceGet st.2.2.1 st.2.2.2.1 data ≠ [])
    (h : laneStmt env st data = .ok out) :
    out.length = data.length ∧
    ∀ i, ¬ (st.1 ≤ i ∧ (i - st.1) % st.2.1 = 0) → out[i]? = data[i]? := by
  unfold laneStmt at h
  split at h
  · cases h
  · split at h
    · cases h
    · split at h
      · cases h
      · rename_i repl htr
        have hrepl : repl ≠ [] := by
          unfold translate at htr
          split at htr
          · simp only [Except.ok.injEq] at htr
            subst htr
            simpa using hne
          · cases htr
        split at h
        · cases h
        · split at h
          · cases h
          · rename_i d hset
            cases h
            unfold sliceSet at hset
            have h1 : st.2.1 ≠ 1 := by omega
            simp only [h1, hrepl, if_false] at hset
            split at hset
            · simp only [Except.ok.injEq] at hset
              subst hset
              refine ⟨by simp, ?_⟩
              intro i hi
              by_cases hlt : i < data.length
              · simp [hlt, hi, List.getD_eq_getElem?_getD]
              · simp [hlt]
            · cases hset

example : sliceGet 1 4 [9, 9, 9] ≠ [] ∧ laneStmt [("b", xorRow 2)] (1, 4, 1, 4, "b") [9, 9, 9] = .ok [9, 11, 9] := by
  refine ⟨by decide, ?_⟩
  rw [laneStmt_four _ 1 "b" (xorRow 2) _ (by decide) (by simp [List.lookup]) (xorRow_length 2),
    mapLane_xor _ _ _ (by decide)]
  exact congrArg Except.ok (by decide)

/-- (d) for the four statements of the source: statement `k` leaves every index `i` with
    `i % 4 ≠ k` alone, and XORs the others with `key[k]`. -/
theorem lane_effect (key data : Bytes) (hl : key.length = 4) (hk : Bytes.WF key) (hd : Bytes.WF data)
    (s : Stmt) (hs : s ∈ Gen.maskLaneStmts) :
    ∃ out, maskPayloadWith [s] key data = .ok out ∧ out.length = data.length ∧
      ∀ i, out[i]? = if i % 4 = s.1 then data[i]?.map (· ^^^ key.getD s.1 0) else data[i]? := by
  rw [lanes_canon] at hs
  have h := with_canon key data hl hk hd [s] (by simpa using hs) (by simp)
  refine ⟨_, h, by simp [lanesSpec], ?_⟩
  intro i
  simp only [lanesSpec, List.getElem?_mapIdx, List.map_cons, List.map_nil, List.mem_singleton]
  by_cases hc : i % 4 = s.1
  · simp only [hc, if_true]
  · simp only [hc, if_false]; cases data[i]? <;> rfl

example : maskPayloadWith [(1, 4, 1, 4, "b")] [1, 2, 4, 8] [0, 0, 0, 0, 0, 0] = .ok [0, 2, 0, 0, 0, 2] := by
  have h := with_canon [1, 2, 4, 8] [0, 0, 0, 0, 0, 0] (by decide) (by decide) (by decide) [(1, 4, 1, 4, "b")]
    (by decide) (by decide)
  rw [h]; exact congrArg Except.ok (by decide)

/-- **(e) the order of the four lane statements does not matter**: every permutation of the
    source's statements leaves the same bytes as the source order. -/
theorem lane_order_irrelevant (key data : Bytes) (hl : key.length = 4) (hk : Bytes.WF key) (hd : Bytes.WF data)
    (p : List Stmt) (hp : p.Perm Gen.maskLaneStmts) :
    maskPayloadWith p key data = maskPayloadMech key data := by
  rw [lanes_canon] at hp
  have hmem : ∀ s ∈ p, s ∈ canon := fun s hs => hp.mem_iff.mp hs
  have hpm : (p.map (·.1)).Perm [0, 1, 2, 3] := hp.map (·.1)
  have hnd : (p.map (·.1)).Nodup := hpm.nodup_iff.mpr (by decide)
  rw [with_canon key data hl hk hd p hmem hnd, mech_eq_spec key data hl hk hd, ← lanesSpec_all]
  congr 1
  apply List.ext_getElem?
  intro i
  have hiff : i % 4 ∈ p.map (·.1) ↔ i % 4 ∈ [0, 1, 2, 3] := hpm.mem_iff
  simp only [lanesSpec, List.getElem?_mapIdx, hiff]

example : maskPayloadWith [(3, 4, 3, 4, "d"), (1, 4, 1, 4, "b"), (0, 4, 0, 4, "a"), (2, 4, 2, 4, "c")] [1, 2, 4, 8] [7, 7, 7, 7, 7] =
    maskPayloadMech [1, 2, 4, 8] [7, 7, 7, 7, 7] :=
  lane_order_irrelevant _ _ (by decide) (by decide) (by decide) _ (by decide)

/-- **(f) keys of any other length** (3 bytes, 5 bytes, empty, ...): the unpacking `a, b, c, d = ...`
    raises ValueError before any statement touches `data` — the bytearray is left as it was.
    (The specification `maskPayload` pads a short key with zero bytes and ignores the excess of a
    long one instead; the two agree exactly on 4-byte keys, the only ones `Frame.build` is given:
    `make_masking_key` is `os.urandom(4)`.) -/
theorem wrong_key_length (key data : Bytes) (hl : key.length ≠ 4) (hk : Bytes.WF key) :
    maskPayloadMech key data = .error (.valueError, data) := by
  simp only [maskPayloadMech, maskPayloadWith, names_len, unpack_other key hk hl]

example : maskPayloadMech [1, 2, 3] [5, 6] = .error (.valueError, [5, 6]) := wrong_key_length _ _ (by decide) (by decide)
example : maskPayloadMech [1, 2, 3, 4, 5] [5, 6] = .error (.valueError, [5, 6]) := wrong_key_length _ _ (by decide) (by decide)

end Lomond.C03Mask
